import VaxisModel.Model.Wrap
import VaxisModel.Spec.Wrap

/-! Helper lemmas for C16 (soft-wrap scanners). -/
namespace VaxisModel.Lemmas.Wrap
open VaxisModel.Model.Wrap
open VaxisModel.Spec.Wrap (nonWs content natWidth trimTrailing)

/-- What the theorems assume about a segmentation oracle (checked at run time by the harness on
the real uniseg): on a non-empty input the first segment is non-empty, and a segment that reaches
the end of the input carries the must-break flag (uniseg's LB3 "break at end of text"). -/
def OracleOK {σ : Type} (o : σ → List Cell → Nat × Bool × σ) : Prop :=
  ∀ st rest, rest ≠ [] → 1 ≤ (o st rest).1 ∧ (rest.length ≤ (o st rest).1 → (o st rest).2.1 = true)

/-! ### trimRight -/

def trailing (seg : List Cell) : List Cell := (seg.reverse.takeWhile (·.sp)).reverse

theorem trim_append_trailing (seg : List Cell) : trimRight seg ++ trailing seg = seg := by
  unfold trimRight trailing
  rw [← List.reverse_append, List.takeWhile_append_dropWhile, List.reverse_reverse]

theorem drop_trim (seg : List Cell) : seg.drop (trimRight seg).length = trailing seg := by
  conv => lhs; arg 2; rw [← trim_append_trailing seg]
  simp

theorem mem_takeWhile_sat {α : Type} (p : α → Bool) : ∀ (l : List α) (a : α), a ∈ l.takeWhile p → p a = true := by
  intro l
  induction l with
  | nil => intro a h; simp at h
  | cons x xs ih =>
    intro a h
    rw [List.takeWhile_cons] at h
    split at h
    · rename_i hx
      rcases List.mem_cons.mp h with h | h
      · rw [h]; exact hx
      · exact ih a h
    · simp at h

theorem trailing_all_sp (seg : List Cell) : ∀ c ∈ trailing seg, c.sp = true := by
  intro c hc
  unfold trailing at hc
  rw [List.mem_reverse] at hc
  exact mem_takeWhile_sat (·.sp) _ c hc

theorem content_of_all_sp (l : List Cell) (h : ∀ c ∈ l, c.sp = true) : content l = [] := by
  unfold content
  rw [List.filter_eq_nil_iff]
  intro c hc
  simp [nonWs, h c hc]

theorem content_trailing (seg : List Cell) : content (trailing seg) = [] :=
  content_of_all_sp _ (trailing_all_sp seg)

theorem content_append (a b : List Cell) : content (a ++ b) = content a ++ content b := by
  simp [content]

/-! ### stripBreak -/

theorem content_stripBreak (seg : List Cell) : content (stripBreak seg) = content seg := by
  unfold stripBreak
  cases h : seg.getLast? with
  | none => rfl
  | some l =>
    simp only
    split
    · rename_i ht
      have hne : seg ≠ [] := by intro h0; simp [h0] at h
      have hl : seg.getLast hne = l := by
        rw [List.getLast?_eq_some_getLast hne] at h; exact Option.some.inj h
      conv => rhs; rw [← List.dropLast_concat_getLast hne]
      rw [content_append, hl]
      simp [content, nonWs, ht]
    · rfl

/-! ### splitLong -/

theorem splitLong_full (width : Nat) (ne : Bool) : ∀ (l : List Cell) (w : Nat), width ≤ w →
    splitLong width ne w l = ([], l) := by
  intro l
  induction l with
  | nil => intro w _; rfl
  | cons c cs ih =>
    intro w h
    unfold splitLong
    simp only []
    generalize hw' : (if (ne && decide (w + c.w > width)) = true then width else w) = w'
    have h' : width ≤ w' := by rw [← hw']; split <;> omega
    simp only [ge_iff_le, h', ↓reduceIte]
    rw [ih w' h']

theorem splitLong_append (width : Nat) : ∀ (l : List Cell) (ne : Bool) (w : Nat),
    (splitLong width ne w l).1 ++ (splitLong width ne w l).2 = l := by
  intro l
  induction l with
  | nil => intro ne w; rfl
  | cons c cs ih =>
    intro ne w
    unfold splitLong
    simp only []
    generalize (if (ne && decide (w + c.w > width)) = true then width else w) = w'
    by_cases h : width ≤ w'
    · simp only [ge_iff_le, h, ↓reduceIte]
      rw [splitLong_full width ne cs w' h]
      rfl
    · simp only [ge_iff_le, h, ↓reduceIte]
      simp [ih]

theorem splitLong_first (width : Nat) (c : Cell) (cs : List Cell) (hw : 0 < width) :
    (splitLong width false 0 (c :: cs)).1 ≠ [] := by
  unfold splitLong
  simp only [Bool.false_and]
  have : ¬ (0 ≥ width) := by omega
  simp [this]

theorem sumW_pos_ne_nil (l : List Cell) (h : 0 < sumW l) : l ≠ [] := by
  intro h0; subst h0; simp [sumW] at h

/-! ### Conservation of one `Scan` -/

theorem content_seg (seg : List Cell) : content seg = content (trimRight seg) := by
  conv => lhs; rw [← trim_append_trailing seg]
  rw [content_append, content_trailing, List.append_nil]

theorem content_take_drop (rest : List Cell) (k : Nat) :
    content rest = content (trimRight (rest.take k)) ++ content (rest.drop k) := by
  conv => lhs; rw [← List.take_append_drop k rest]
  rw [content_append, content_seg]

theorem scanLoop_conserves {σ : Type} (o : σ → List Cell → Nat × Bool × σ) (ini : σ) (width : Nat) :
    ∀ (fuel : Nat) (rest : List Cell) (st : σ) (token : List Cell) (w : Nat)
      (rest' : List Cell) (st' : σ) (tok : List Cell),
    scanLoop o ini width fuel rest st token w = .line rest' st' tok →
    content tok ++ content rest' = content token ++ content rest := by
  intro fuel
  induction fuel with
  | zero => intro rest st token w rest' st' tok h; simp [scanLoop] at h
  | succ n ih =>
    intro rest st token w rest' st' tok h
    unfold scanLoop at h
    simp only [] at h
    generalize o st rest = r at h
    obtain ⟨k, br, st2⟩ := r
    simp only [] at h
    rw [drop_trim] at h
    have hrest := content_take_drop rest k
    split at h
    · -- long word
      simp only [Scan.line.injEq] at h
      obtain ⟨h1, _, h3⟩ := h
      subst h1 h3
      have hs := splitLong_append width (trimRight (rest.take k)) (!token.isEmpty) w
      rw [hrest]
      conv => rhs; rw [← hs]
      simp only [content_append, content_trailing, List.nil_append, List.append_assoc]
    · split at h
      · simp only [Scan.line.injEq] at h
        obtain ⟨h1, _, h3⟩ := h
        subst h1 h3
        rfl
      · split at h
        · simp only [Scan.line.injEq] at h
          obtain ⟨h1, _, h3⟩ := h
          subst h1 h3
          rw [hrest, content_append, content_stripBreak, content_seg (rest.take k), List.append_assoc]
        · split at h
          · simp only [Scan.line.injEq] at h
            obtain ⟨h1, _, h3⟩ := h
            subst h1 h3
            rw [hrest, content_append, List.append_assoc]
          · have := ih _ _ _ _ _ _ _ h
            rw [this, hrest]
            simp only [content_append, content_trailing, List.append_nil, List.append_assoc]

/-! ### Progress of one `Scan` -/

theorem length_take_trim (rest : List Cell) (k : Nat) :
    (trimRight (rest.take k)).length + (trailing (rest.take k)).length + (rest.drop k).length = rest.length := by
  have h1 := congrArg List.length (trim_append_trailing (rest.take k))
  have h2 := congrArg List.length (List.take_append_drop k rest)
  simp only [List.length_append] at h1 h2
  omega

/-- Every run of the loop returns (no hang) with a strictly shorter `rest`, provided the loop was
entered with a non-empty `rest` and either something was consumed already or the line is empty. -/
theorem scanLoop_progress {σ : Type} (o : σ → List Cell → Nat × Bool × σ) (ini : σ) (width : Nat)
    (hok : OracleOK o) (hw : 0 < width) (n : Nat) :
    ∀ (fuel : Nat) (rest : List Cell) (st : σ) (token : List Cell) (w : Nat),
    rest ≠ [] → rest.length ≤ fuel →
    (rest.length < n ∨ (rest.length = n ∧ w = 0 ∧ token = [])) →
    ∃ rest' st' tok, scanLoop o ini width fuel rest st token w = .line rest' st' tok ∧ rest'.length < n := by
  intro fuel
  induction fuel with
  | zero =>
    intro rest st token w hne hf _
    cases rest with
    | nil => exact absurd rfl hne
    | cons _ _ => simp at hf
  | succ f ih =>
    intro rest st token w hne hf hinv
    have hk := hok st rest hne
    unfold scanLoop
    simp only []
    generalize o st rest = r at hk
    obtain ⟨k, br, st2⟩ := r
    simp only [] at hk ⊢
    obtain ⟨hk1, hk2⟩ := hk
    rw [drop_trim]
    have hlen := length_take_trim rest k
    have hpos : 0 < rest.length := List.length_pos_iff.mpr hne
    have hdrop : (rest.drop k).length < rest.length := by
      rw [List.length_drop]; omega
    split
    · -- long word
      rename_i hlong
      refine ⟨_, _, _, rfl, ?_⟩
      have hs := congrArg List.length (splitLong_append width (trimRight (rest.take k)) (!token.isEmpty) w)
      simp only [List.length_append] at hs ⊢
      rcases hinv with hlt | ⟨heq, hw0, htok⟩
      · omega
      · subst hw0 htok
        have hwne : trimRight (rest.take k) ≠ [] := sumW_pos_ne_nil _ (by omega)
        cases hword : trimRight (rest.take k) with
        | nil => exact absurd hword hwne
        | cons c cs =>
          rw [hword] at hs hlen
          have hfirst := splitLong_first width c cs hw
          have : 0 < (splitLong width false 0 (c :: cs)).1.length := List.length_pos_iff.mpr hfirst
          simp only [List.isEmpty_nil, Bool.not_true] at hs ⊢
          omega
    · split
      · rename_i hnl hnf
        refine ⟨_, _, _, rfl, ?_⟩
        rcases hinv with hlt | ⟨_, hw0, _⟩
        · exact hlt
        · subst hw0; omega
      · split
        · refine ⟨_, _, _, rfl, ?_⟩
          rcases hinv with hlt | ⟨heq, _, _⟩ <;> omega
        · rename_i hbr
          split
          · refine ⟨_, _, _, rfl, ?_⟩
            rcases hinv with hlt | ⟨heq, _, _⟩ <;> omega
          · have hklt : k < rest.length := by
              apply Classical.byContradiction
              intro hc
              exact hbr (hk2 (by omega))
            have hne' : rest.drop k ≠ [] := by
              intro h0
              have := congrArg List.length h0
              rw [List.length_drop] at this
              simp at this
              omega
            apply ih
            · exact hne'
            · omega
            · left; rcases hinv with hlt | ⟨heq, _, _⟩ <;> omega

/-! ### The whole scanner -/

theorem scan_cases {σ : Type} (o : σ → List Cell → Nat × Bool × σ) (ini : σ) (width : Nat) (hok : OracleOK o)
    (rest : List Cell) (st : σ) :
    (scan o ini width rest st = .stop ∧ (rest = [] ∨ width = 0)) ∨
    (0 < width ∧ ∃ rest' st' tok, scan o ini width rest st = .line rest' st' tok ∧ rest'.length < rest.length ∧
      content tok ++ content rest' = content rest) := by
  unfold scan
  by_cases h : (rest.isEmpty || width == 0) = true
  · left
    simp only [h, ↓reduceIte, true_and]
    simp only [Bool.or_eq_true, List.isEmpty_iff, beq_iff_eq] at h
    exact h
  · right
    simp only [h]
    simp only [Bool.or_eq_true, List.isEmpty_iff, beq_iff_eq, not_or] at h
    have hw : 0 < width := by omega
    refine ⟨hw, ?_⟩
    obtain ⟨rest', st', tok, heq, hlt⟩ :=
      scanLoop_progress o ini width hok hw rest.length rest.length rest st [] 0 h.1 (Nat.le_refl _) (Or.inr ⟨rfl, rfl, rfl⟩)
    refine ⟨rest', st', tok, ?_, hlt, ?_⟩
    · simp [heq]
    · have := scanLoop_conserves o ini width _ _ _ _ _ _ _ _ heq
      simpa [content] using this

theorem scanAll_ok {σ : Type} (o : σ → List Cell → Nat × Bool × σ) (ini : σ) (width : Nat) (hok : OracleOK o) :
    ∀ (fuel : Nat) (rest : List Cell) (st : σ), rest.length < fuel →
    ∃ ls, scanAll o ini width fuel rest st = .ok ls ∧ (0 < width → content ls.flatten = content rest) := by
  intro fuel
  induction fuel with
  | zero => intro rest st h; omega
  | succ f ih =>
    intro rest st hf
    unfold scanAll
    rcases scan_cases o ini width hok rest st with ⟨hs, hz⟩ | ⟨hw, rest', st', tok, hs, hlt, hc⟩
    · rw [hs]
      refine ⟨[], rfl, ?_⟩
      intro hw
      rcases hz with hz | hz
      · subst hz; rfl
      · omega
    · rw [hs]
      obtain ⟨ls, hls, hcons⟩ := ih rest' st' (by omega)
      simp only [hls]
      refine ⟨tok :: ls, rfl, ?_⟩
      intro _
      rw [List.flatten_cons, content_append, hcons hw, hc]

/-! ### richtext.firstLineSegment is a well-behaved oracle -/

theorem firstLineSegment_spec (lb : Nat → Nat → Bool) : ∀ (l : List Cell) (first : Bool), l ≠ [] →
    1 ≤ (firstLineSegment lb first l).1 ∧ (firstLineSegment lb first l).1 ≤ l.length ∧
    ((firstLineSegment lb first l).1 = l.length → (firstLineSegment lb first l).2 = true) := by
  intro l
  induction l with
  | nil => intro _ h; exact absurd rfl h
  | cons c cs ih =>
    intro first _
    cases cs with
    | nil => simp [firstLineSegment]
    | cons n rest =>
      unfold firstLineSegment
      split
      · simp
      · split
        · simp
        · split
          · simp
          · obtain ⟨h1, h2, h3⟩ := ih false (by simp)
            simp only [List.length_cons] at h1 h2 h3 ⊢
            refine ⟨by omega, by omega, fun h => h3 (by omega)⟩

theorem richOracle_ok (lb : Nat → Nat → Bool) : OracleOK (richOracle lb) := by
  intro st rest hne
  have := firstLineSegment_spec lb rest true hne
  simp only [richOracle]
  refine ⟨this.1, ?_⟩
  intro h
  exact this.2.2 (by omega)

/-! ### Line width -/

theorem natWidth_eq_sumW (l : List Cell) : natWidth l = sumW l := by
  induction l with
  | nil => rfl
  | cons c cs ih => simp [natWidth, sumW] at ih ⊢; omega

theorem sumW_append (a b : List Cell) : sumW (a ++ b) = sumW a + sumW b := by
  induction a with
  | nil => simp [sumW]
  | cons c cs ih => simp [sumW, ih]; omega

theorem trimTrailing_eq (l : List Cell) : trimTrailing l = trimRight l := rfl

theorem dropWhile_append_all {α : Type} (p : α → Bool) : ∀ (l m : List α), (∀ x ∈ l, p x = true) →
    (l ++ m).dropWhile p = m.dropWhile p := by
  intro l
  induction l with
  | nil => intro m _; rfl
  | cons x xs ih =>
    intro m h
    have hx : p x = true := h x (by simp)
    rw [List.cons_append, List.dropWhile_cons, hx]
    simp only [↓reduceIte]
    exact ih m (fun y hy => h y (by simp [hy]))

theorem trimRight_append_sp (a b : List Cell) (h : ∀ c ∈ b, c.sp = true) :
    trimRight (a ++ b) = trimRight a := by
  unfold trimRight
  rw [List.reverse_append, dropWhile_append_all (·.sp) b.reverse a.reverse (by
    intro x hx; exact h x (List.mem_reverse.mp hx))]

theorem sumW_trimRight_le (l : List Cell) : sumW (trimRight l) ≤ sumW l := by
  have := congrArg sumW (trim_append_trailing l)
  rw [sumW_append] at this
  omega

theorem sumW_take_le (l : List Cell) (m : Nat) : sumW (l.take m) ≤ sumW l := by
  have := congrArg sumW (List.take_append_drop m l)
  rw [sumW_append] at this
  omega

theorem stripBreak_eq_take (seg : List Cell) : ∃ m, stripBreak seg = seg.take m := by
  unfold stripBreak
  cases seg.getLast? with
  | none => exact ⟨seg.length, by simp⟩
  | some l =>
    simp only
    split
    · exact ⟨seg.length - 1, List.dropLast_eq_take⟩
    · exact ⟨seg.length, by simp⟩

/-- Width bound used for every returned token: a prefix of `word ++ trailing spaces` appended to a
token of width `w`. -/
theorem trimmed_prefix_le (token seg : List Cell) (m : Nat) :
    sumW (trimRight (token ++ seg.take m)) ≤ sumW token + sumW (trimRight seg) := by
  have hseg := trim_append_trailing seg
  have : seg.take m = (trimRight seg).take m ++ (trailing seg).take (m - (trimRight seg).length) := by
    conv => lhs; rw [← hseg]
    rw [List.take_append]
  rw [this, ← List.append_assoc, trimRight_append_sp _ _ (by
    intro c hc; exact trailing_all_sp seg c (List.mem_of_mem_take hc))]
  have h1 := sumW_trimRight_le (token ++ (trimRight seg).take m)
  rw [sumW_append] at h1
  have h2 := sumW_take_le (trimRight seg) m
  omega

theorem splitLong_ne_bound (width : Nat) : ∀ (l : List Cell) (w : Nat), w ≤ width →
    w + sumW (splitLong width true w l).1 ≤ width := by
  intro l
  induction l with
  | nil => intro w h; simp [splitLong, sumW]; exact h
  | cons c cs ih =>
    intro w h
    unfold splitLong
    simp only [Bool.true_and]
    by_cases hfit : w + c.w > width
    · simp only [hfit, decide_true, ↓reduceIte, ge_iff_le, Nat.le_refl]
      rw [splitLong_full width true cs width (Nat.le_refl _)]
      simp [sumW]; exact h
    · simp only [hfit, decide_false, Bool.false_eq_true, ↓reduceIte, ge_iff_le]
      by_cases hge : width ≤ w
      · simp only [hge, ↓reduceIte]
        rw [splitLong_full width true cs w hge]
        simp [sumW]; exact h
      · simp only [hge, ↓reduceIte, sumW]
        have := ih (w + c.w) (by omega)
        omega

theorem splitLong_empty_bound (width : Nat) (l : List Cell) :
    sumW (splitLong width false 0 l).1 ≤ width ∨ ∃ c, (splitLong width false 0 l).1 = [c] := by
  cases l with
  | nil => left; simp [splitLong, sumW]
  | cons c cs =>
    unfold splitLong
    simp only [Bool.false_and, Bool.false_eq_true, ↓reduceIte, ge_iff_le, Nat.zero_add]
    by_cases h0 : width ≤ 0
    · simp only [h0, ↓reduceIte]
      rw [splitLong_full width false cs 0 h0]
      left; simp [sumW]
    · simp only [h0, ↓reduceIte]
      by_cases hc : c.w ≤ width
      · left
        have := splitLong_ne_bound width cs c.w hc
        simp only [sumW]
        omega
      · right
        rw [splitLong_full width true cs c.w (by omega)]
        exact ⟨c, rfl⟩

open VaxisModel.Spec.Wrap (lineWidthOK) in
theorem lineWidthOK_of_le (width : Nat) (l : List Cell) (h : sumW (trimRight l) ≤ width) :
    lineWidthOK width l = true := by
  unfold lineWidthOK
  rw [trimTrailing_eq, natWidth_eq_sumW]
  simp [h]

open VaxisModel.Spec.Wrap (lineWidthOK) in
theorem lineWidthOK_single (width : Nat) (c : Cell) : lineWidthOK width [c] = true := by
  unfold lineWidthOK
  rw [trimTrailing_eq, natWidth_eq_sumW]
  by_cases hs : c.sp = true
  · simp [trimRight, hs, sumW]
  · have : trimRight [c] = [c] := by simp [trimRight, hs]
    rw [this]
    by_cases hw : c.w ≤ width
    · simp [sumW, hw]
    · simp [sumW]; omega

open VaxisModel.Spec.Wrap (lineWidthOK) in
/-- Every token returned by the loop respects the width, given the loop invariant
`sumW token = w ≤ width`. -/
theorem scanLoop_width {σ : Type} (o : σ → List Cell → Nat × Bool × σ) (ini : σ) (width : Nat) :
    ∀ (fuel : Nat) (rest : List Cell) (st : σ) (token : List Cell) (w : Nat)
      (rest' : List Cell) (st' : σ) (tok : List Cell),
    sumW token = w → w ≤ width →
    scanLoop o ini width fuel rest st token w = .line rest' st' tok →
    lineWidthOK width tok = true := by
  intro fuel
  induction fuel with
  | zero => intro rest st token w rest' st' tok _ _ h; simp [scanLoop] at h
  | succ n ih =>
    intro rest st token w rest' st' tok hsum hle h
    unfold scanLoop at h
    simp only [] at h
    generalize o st rest = r at h
    obtain ⟨k, br, st2⟩ := r
    simp only [] at h
    rw [drop_trim] at h
    split at h
    · -- long word
      simp only [Scan.line.injEq] at h
      obtain ⟨_, _, h3⟩ := h
      subst h3
      cases htok : token with
      | nil =>
        subst htok
        simp only [sumW] at hsum
        subst hsum
        simp only [List.isEmpty_nil, Bool.not_true, List.nil_append]
        rcases splitLong_empty_bound width (trimRight (rest.take k)) with hb | ⟨c, hc⟩
        · exact lineWidthOK_of_le width _ (Nat.le_trans (sumW_trimRight_le _) hb)
        · rw [hc]; exact lineWidthOK_single width c
      | cons t ts =>
        simp only [List.isEmpty_cons, Bool.not_false]
        have hb := splitLong_ne_bound width (trimRight (rest.take k)) w hle
        apply lineWidthOK_of_le
        have hs' : sumW (t :: ts) = w := by rw [← htok]; exact hsum
        have := sumW_trimRight_le ((t :: ts) ++ (splitLong width true w (trimRight (rest.take k))).1)
        rw [sumW_append, hs'] at this
        omega
    · split at h
      · simp only [Scan.line.injEq] at h
        obtain ⟨_, _, h3⟩ := h
        subst h3
        apply lineWidthOK_of_le
        have := sumW_trimRight_le token
        omega
      · rename_i hnl hnf
        split at h
        · simp only [Scan.line.injEq] at h
          obtain ⟨_, _, h3⟩ := h
          subst h3
          obtain ⟨m, hm⟩ := stripBreak_eq_take (rest.take k)
          rw [hm]
          apply lineWidthOK_of_le
          have := trimmed_prefix_le token (rest.take k) m
          omega
        · split at h
          · simp only [Scan.line.injEq] at h
            obtain ⟨_, _, h3⟩ := h
            subst h3
            apply lineWidthOK_of_le
            have := sumW_trimRight_le (token ++ trimRight (rest.take k))
            rw [sumW_append] at this
            omega
          · rename_i hsp
            refine ih _ _ _ _ _ _ _ ?_ ?_ h
            · rw [sumW_append, sumW_append, hsum]
            · omega

open VaxisModel.Spec.Wrap (lineWidthOK) in
theorem scan_width {σ : Type} (o : σ → List Cell → Nat × Bool × σ) (ini : σ) (width : Nat)
    (rest : List Cell) (st : σ) (rest' : List Cell) (st' : σ) (tok : List Cell)
    (h : scan o ini width rest st = .line rest' st' tok) : lineWidthOK width tok = true := by
  unfold scan at h
  split at h
  · cases h
  · exact scanLoop_width o ini width _ _ _ _ _ _ _ _ rfl (Nat.zero_le _) h

open VaxisModel.Spec.Wrap (lineWidthOK) in
theorem scanAll_width {σ : Type} (o : σ → List Cell → Nat × Bool × σ) (ini : σ) (width : Nat) :
    ∀ (fuel : Nat) (rest : List Cell) (st : σ) (ls : List (List Cell)),
    scanAll o ini width fuel rest st = .ok ls → ∀ l ∈ ls, lineWidthOK width l = true := by
  intro fuel
  induction fuel with
  | zero => intro rest st ls h; simp [scanAll] at h
  | succ n ih =>
    intro rest st ls h
    unfold scanAll at h
    split at h
    · cases h; intro l hl; simp at hl
    · cases h
    · rename_i rest' st' tok hs
      split at h
      · rename_i ls' hls
        cases h
        intro l hl
        rcases List.mem_cons.mp hl with rfl | hl
        · exact scan_width o ini width _ _ _ _ _ hs
        · exact ih _ _ _ hls l hl
      · cases h

/-! ### Structure of one `Scan`: which segments make up a line -/

/-- `Taken o st rest st1 rest1`: starting at `(st, rest)` the scanner took whole segments, none of
which carried the must-break flag, and now stands at `(st1, rest1)`. -/
inductive Taken {σ : Type} (o : σ → List Cell → Nat × Bool × σ) : σ → List Cell → σ → List Cell → Prop where
  | refl (st : σ) (rest : List Cell) : Taken o st rest st rest
  | step {st : σ} {rest : List Cell} {st1 : σ} {rest1 : List Cell} :
      Taken o st rest st1 rest1 → (o st1 rest1).2.1 = false →
      Taken o st rest (o st1 rest1).2.2 (rest1.drop (o st1 rest1).1)

/-- How a `Scan` that returned `(rest', st')` ended, relative to the position `(st1, rest1)` reached
by taking whole non-breaking segments. -/
inductive Ending {σ : Type} (o : σ → List Cell → Nat × Bool × σ) (ini : σ) (width : Nat)
    (st1 : σ) (rest1 : List Cell) (st' : σ) (rest' : List Cell) : Prop where
  /-- the next segment was left for the next line (its word does not fit behind the token) -/
  | left : rest' = rest1 → st' = st1 → sumW (trimRight (rest1.take (o st1 rest1).1)) ≤ width → Ending o ini width st1 rest1 st' rest'
  /-- the next segment was taken whole and ends the line (must-break, or its trailing space does not fit) -/
  | last : rest' = rest1.drop (o st1 rest1).1 → st' = (o st1 rest1).2.2 →
      sumW (trimRight (rest1.take (o st1 rest1).1)) ≤ width → Ending o ini width st1 rest1 st' rest'
  /-- the next segment was divided: its word part is wider than the line -/
  | split : width < sumW (trimRight (rest1.take (o st1 rest1).1)) → st' = ini →
      (∃ t r, t ++ r = trimRight (rest1.take (o st1 rest1).1) ∧
        rest' = r ++ trailing (rest1.take (o st1 rest1).1) ++ rest1.drop (o st1 rest1).1) →
      Ending o ini width st1 rest1 st' rest'

theorem scanLoop_structure {σ : Type} (o : σ → List Cell → Nat × Bool × σ) (ini : σ) (width : Nat)
    (st0 : σ) (rest0 : List Cell) :
    ∀ (fuel : Nat) (rest : List Cell) (st : σ) (token : List Cell) (w : Nat)
      (rest' : List Cell) (st' : σ) (tok : List Cell),
    Taken o st0 rest0 st rest →
    scanLoop o ini width fuel rest st token w = .line rest' st' tok →
    ∃ st1 rest1, Taken o st0 rest0 st1 rest1 ∧ Ending o ini width st1 rest1 st' rest' := by
  intro fuel
  induction fuel with
  | zero => intro rest st token w rest' st' tok _ h; simp [scanLoop] at h
  | succ n ih =>
    intro rest st token w rest' st' tok htk h
    unfold scanLoop at h
    simp only [] at h
    rw [drop_trim] at h
    split at h
    · rename_i hlong
      simp only [Scan.line.injEq] at h
      obtain ⟨h1, h2, _⟩ := h
      refine ⟨st, rest, htk, Ending.split hlong h2.symm ⟨_, _, splitLong_append width _ _ _, h1.symm⟩⟩
    · rename_i hnl
      split at h
      · simp only [Scan.line.injEq] at h
        obtain ⟨h1, h2, _⟩ := h
        exact ⟨st, rest, htk, Ending.left h1.symm h2.symm (by omega)⟩
      · split at h
        · simp only [Scan.line.injEq] at h
          obtain ⟨h1, h2, _⟩ := h
          exact ⟨st, rest, htk, Ending.last h1.symm h2.symm (by omega)⟩
        · rename_i hbr
          split at h
          · simp only [Scan.line.injEq] at h
            obtain ⟨h1, h2, _⟩ := h
            exact ⟨st, rest, htk, Ending.last h1.symm h2.symm (by omega)⟩
          · exact ih _ _ _ _ _ _ _ (Taken.step htk (by simpa using hbr)) h

theorem scan_structure {σ : Type} (o : σ → List Cell → Nat × Bool × σ) (ini : σ) (width : Nat)
    (rest : List Cell) (st : σ) (rest' : List Cell) (st' : σ) (tok : List Cell)
    (h : scan o ini width rest st = .line rest' st' tok) :
    ∃ st1 rest1, Taken o st rest st1 rest1 ∧ Ending o ini width st1 rest1 st' rest' := by
  unfold scan at h
  split at h
  · cases h
  · exact scanLoop_structure o ini width st rest _ _ _ _ _ _ _ _ (Taken.refl st rest) h

/-- richtext: a segment returned by `firstLineSegment` contains a line terminator only as its last
cell, and then it carries the must-break flag. -/
theorem firstLineSegment_term (lb : Nat → Nat → Bool) : ∀ (l : List Cell) (first : Bool),
    (first = false → ∀ c, l.head? = some c → c.term = false) →
    (∀ c ∈ (l.take (firstLineSegment lb first l).1).dropLast, c.term = false) ∧
    (∀ c, (l.take (firstLineSegment lb first l).1).getLast? = some c → c.term = true →
      (firstLineSegment lb first l).2 = true) := by
  intro l
  induction l with
  | nil => intro first _; simp [firstLineSegment]
  | cons c cs ih =>
    intro first hfirst
    cases cs with
    | nil => simp [firstLineSegment]
    | cons n rest =>
      unfold firstLineSegment
      split
      · simp
      · rename_i hft
        split
        · rename_i hn
          -- segment [c, n]: c is not a terminator
          have hc : c.term = false := by
            cases first with
            | true => simpa using hft
            | false => exact hfirst rfl c rfl
          simp [hc]
        · rename_i hn
          have hc : c.term = false := by
            cases first with
            | true => simpa using hft
            | false => exact hfirst rfl c rfl
          split
          · simp [hc]
          · have hrec := ih false (fun _ c' hc' => by
              simp at hc'; subst hc'; simpa using hn)
            have hpos : 1 ≤ (firstLineSegment lb false (n :: rest)).1 :=
              (firstLineSegment_spec lb (n :: rest) false (by simp)).1
            obtain ⟨k, hk⟩ : ∃ k, (firstLineSegment lb false (n :: rest)).1 = k + 1 := ⟨_, (Nat.sub_add_cancel hpos).symm⟩
            simp only [hk, List.take_succ_cons] at hrec ⊢
            constructor
            · intro x hx
              rw [List.dropLast_cons_of_ne_nil (by simp)] at hx
              rcases List.mem_cons.mp hx with rfl | hx
              · exact hc
              · exact hrec.1 x hx
            · intro x hx hterm
              rw [List.getLast?_cons_cons] at hx
              exact hrec.2 x hx hterm

/-! ### The row loops of Draw -/

/-- One row per line: while the rows fit below `Max.Height`, the row loop writes line `k` to row
`row + k`, and what it writes is `drawRow` of that line. -/
theorem drawRows_spec (maxW maxH : UInt16) : ∀ (ls : List (List Cell)) (row : UInt16),
    row.toNat + ls.length ≤ maxH.toNat →
    (drawRows maxW maxH row ls).map (·.2) = ls.map (drawRow maxW 0) ∧
    (drawRows maxW maxH row ls).map (·.1.toNat) = List.range' row.toNat ls.length := by
  intro ls
  induction ls with
  | nil => intro row _; simp [drawRows]
  | cons l ls ih =>
    intro row h
    simp only [List.length_cons] at h
    have hm := UInt16.toNat_lt maxH
    have hle : ¬ row ≥ maxH := by
      rw [ge_iff_le, UInt16.le_iff_toNat_le]; omega
    unfold drawRows
    simp only [hle, ↓reduceIte, List.map_cons, List.length_cons, List.range'_succ]
    have hrow : (row + 1).toNat = row.toNat + 1 := by
      rw [UInt16.toNat_add, UInt16.toNat_one]
      omega
    have := ih (row + 1) (by rw [hrow]; omega)
    rw [hrow] at this
    exact ⟨by rw [this.1], by rw [this.2]⟩

/-- Columns of one row: cells of positive width that fit below `Max.Width` (and below 2^16) are all
written, each at the column equal to the display width of the cells before it. -/
theorem drawRow_spec (maxW : UInt16) : ∀ (l : List Cell) (col : UInt16),
    (∀ c ∈ l, 0 < c.w) → col.toNat + sumW l ≤ maxW.toNat →
    (drawRow maxW col l).map (·.2) = l ∧
    ∀ k, k < l.length → ((drawRow maxW col l).map (·.1.toNat))[k]? = some (col.toNat + sumW (l.take k)) := by
  intro l
  induction l with
  | nil => intro col _ _; simp [drawRow]
  | cons c cs ih =>
    intro col hpos hfit
    have hc := hpos c (by simp)
    simp only [sumW] at hfit
    have hm := UInt16.toNat_lt maxW
    have hlt : ¬ col ≥ maxW := by
      rw [ge_iff_le, UInt16.le_iff_toNat_le]; omega
    have hcol : (col + c.w16).toNat = col.toNat + c.w := by
      rw [UInt16.toNat_add, Cell.w16, UInt16.toNat_ofNat']
      have : c.w % 2 ^ 16 = c.w := Nat.mod_eq_of_lt (by omega)
      rw [this]
      exact Nat.mod_eq_of_lt (by omega)
    unfold drawRow
    simp only [hlt, ↓reduceIte, List.map_cons]
    have := ih (col + c.w16) (fun x hx => hpos x (by simp [hx])) (by rw [hcol]; omega)
    refine ⟨by rw [this.1], ?_⟩
    intro k hk
    cases k with
    | zero => simp [sumW]
    | succ k =>
      simp only [List.length_cons] at hk
      have := this.2 k (by omega)
      simp only [List.getElem?_cons_succ, List.take_succ_cons, sumW]
      rw [this, hcol]
      congr 1
      omega

/-! ### HardwrapScanner -/

/-- the cells that are not a "\n" grapheme -/
def notNl (l : List Cell) : List Cell := l.filter (fun c => !c.nl)

theorem hardLoop_spec : ∀ (cells line : List Cell),
    (hardLoop line cells).2.length ≤ cells.length ∧
    notNl (hardLoop line cells).1 ++ notNl (hardLoop line cells).2 = notNl line ++ notNl cells ∧
    (cells ≠ [] → (hardLoop line cells).2.length < cells.length) := by
  intro cells
  induction cells with
  | nil => intro line; simp [hardLoop]
  | cons c cs ih =>
    intro line
    unfold hardLoop
    by_cases hn : c.nl = true
    · simp only [hn, ↓reduceIte]
      by_cases he : cs.isEmpty = true
      · simp only [he, ↓reduceIte]
        have : cs = [] := List.isEmpty_iff.mp he
        subst this
        simp [notNl, hn]
      · simp only [he]
        simp [notNl, hn]
    · have hn' : c.nl = false := by simpa using hn
      simp only [hn', Bool.false_eq_true, ↓reduceIte]
      have := ih (line ++ [c])
      refine ⟨by simp only [List.length_cons]; omega, ?_, fun _ => by simp only [List.length_cons]; omega⟩
      rw [this.2.1]
      simp [notNl, hn']

theorem hardAll_ok : ∀ (fuel : Nat) (cells : List Cell), cells.length < fuel →
    ∃ ls, hardAll fuel cells = .ok ls ∧ notNl ls.flatten = notNl cells := by
  intro fuel
  induction fuel with
  | zero => intro cells h; omega
  | succ n ih =>
    intro cells h
    unfold hardAll hardScan
    by_cases he : cells.isEmpty = true
    · have : cells = [] := List.isEmpty_iff.mp he
      subst this
      exact ⟨[], by simp, rfl⟩
    · have hne : cells ≠ [] := by intro h0; subst h0; simp at he
      have he' : cells.isEmpty = false := by simpa using he
      simp only [he', Bool.false_eq_true, ↓reduceIte]
      have hs := hardLoop_spec cells []
      obtain ⟨ls, hls, hc⟩ := ih (hardLoop [] cells).2 (by have := hs.2.2 hne; omega)
      simp only [hls]
      refine ⟨_, rfl, ?_⟩
      rw [List.flatten_cons]
      have : notNl ((hardLoop [] cells).1 ++ ls.flatten) = notNl (hardLoop [] cells).1 ++ notNl ls.flatten := by
        simp [notNl]
      rw [this, hc, hs.2.1]
      simp [notNl]

end VaxisModel.Lemmas.Wrap
