import VaxisModel.Model.WrapDraw
import VaxisModel.Spec.WrapDraw
import VaxisModel.Lemmas.Surface
import VaxisModel.Lemmas.Wrap

/-! Lemmas for C16 "the text widgets draw exactly the emitted lines, one per row": the contents of
the surface `Model.Layout.drawText` returns, cell by cell (C14 proves its size bounds and that it
does not panic; here: what it shows). -/
namespace VaxisModel.Lemmas.WrapDraw
open VaxisModel.Model.Window (Cell)
open VaxisModel.Model.Surface VaxisModel.Model.Layout VaxisModel.Lemmas.Surface
open VaxisModel.Spec.WrapDraw (over overHard width)

/-- The cell shown at column `x`, row `y` (`none` outside the surface). -/
def cellAt (s : Surface) (x y : Nat) : Option Cell :=
  if x < s.w.toNat ∧ y < s.h.toNat then s.buf[y * s.w.toNat + x]? else none

theorem idx_inj (W x y x' y' : Nat) (hx : x < W) (hx' : x' < W) (h : y * W + x = y' * W + x') :
    x = x' ∧ y = y' := by
  have hW : 0 < W := by omega
  have h1 : (x + y * W) % W = (x' + y' * W) % W := by rw [Nat.add_comm x, Nat.add_comm x', h]
  rw [Nat.add_mul_mod_self_right, Nat.add_mul_mod_self_right, Nat.mod_eq_of_lt hx, Nat.mod_eq_of_lt hx'] at h1
  have h2 : (x + y * W) / W = (x' + y' * W) / W := by rw [Nat.add_comm x, Nat.add_comm x', h]
  rw [Nat.add_mul_div_right _ _ hW, Nat.add_mul_div_right _ _ hW, Nat.div_eq_of_lt hx, Nat.div_eq_of_lt hx'] at h2
  exact ⟨h1, by omega⟩

/-- `WriteCell`, cell by cell. -/
theorem writeCell_cellAt (s : Surface) (hs : Sized s) (col row : UInt16) (c : Cell) :
    ∃ s', writeCell exact s col row c = .ok s' ∧ s'.w = s.w ∧ s'.h = s.h ∧ Sized s' ∧
      ∀ x y, cellAt s' x y =
        if x = col.toNat ∧ y = row.toNat ∧ x < s.w.toNat ∧ y < s.h.toNat then some c else cellAt s x y := by
  by_cases h : col < s.w ∧ row < s.h
  · obtain ⟨he, hlt⟩ := writeCell_inside s hs col row c h.1 h.2
    have d := setBuf_dims s (s.buf.set (row.toNat * s.w.toNat + col.toNat) c)
    have hsz : Sized (s.setBuf (s.buf.set (row.toNat * s.w.toNat + col.toNat) c)) := by
      simp only [Sized, d.1, d.2.1, d.2.2.2, List.length_set]; exact hs
    refine ⟨_, he, d.1, d.2.1, hsz, ?_⟩
    intro x y
    have hc' := UInt16.lt_iff_toNat_lt.1 h.1
    have hr' := UInt16.lt_iff_toNat_lt.1 h.2
    simp only [cellAt, d.1, d.2.1, d.2.2.2]
    by_cases hin : x < s.w.toNat ∧ y < s.h.toNat
    · simp only [hin, and_self, ↓reduceIte, and_true, List.getElem?_set, hlt]
      by_cases he : row.toNat * s.w.toNat + col.toNat = y * s.w.toNat + x
      · obtain ⟨e1, e2⟩ := idx_inj _ _ _ _ _ hc' hin.1 he
        simp [he, e1, e2]
      · have : ¬ (x = col.toNat ∧ y = row.toNat) := by
          intro hh; apply he; rw [hh.1, hh.2]
        simp [he, this]
    · have : ¬ (x = col.toNat ∧ y = row.toNat ∧ x < s.w.toNat ∧ y < s.h.toNat) := fun hh => hin ⟨hh.2.2.1, hh.2.2.2⟩
      simp [hin, this]
  · refine ⟨s, writeCell_outside s col row c h, rfl, rfl, hs, ?_⟩
    intro x y
    have : ¬ (x = col.toNat ∧ y = row.toNat ∧ x < s.w.toNat ∧ y < s.h.toNat) := by
      intro hh
      apply h
      exact ⟨UInt16.lt_iff_toNat_lt.2 (by omega), UInt16.lt_iff_toNat_lt.2 (by omega)⟩
    simp [this]

/-! ### `over` -/

theorem over_congr : ∀ (line : List Cell) (col : Nat) (f g : Nat → Option Cell) (x : Nat),
    f x = g x → over line col f x = over line col g x := by
  intro line
  induction line with
  | nil => intro col f g x h; exact h
  | cons c cs ih =>
    intro col f g x h
    simp only [over]
    apply ih
    simp only [h]

theorem over_lt : ∀ (line : List Cell) (col : Nat) (f : Nat → Option Cell) (x : Nat),
    x < col → over line col f x = f x := by
  intro line
  induction line with
  | nil => intro col f x _; rfl
  | cons c cs ih =>
    intro col f x h
    simp only [over]
    rw [ih _ _ _ (by omega)]
    simp [show x ≠ col by omega]

theorem u16_toNat (col : UInt16) (i : Int) (h0 : 0 ≤ i) (h : col.toNat + i.toNat < 65536) :
    (col + u16 i).toNat = col.toNat + i.toNat := by
  obtain ⟨n, rfl⟩ := Int.eq_ofNat_of_zero_le h0
  have hn : (u16 (n : Int)).toNat = n := by
    simp [u16, UInt16.ofInt]
    omega
  rw [UInt16.toNat_add, hn]
  simp at h ⊢
  omega

/-! ### one line -/

/-- The ellipsis branch is off: soft wrap, or a hard-wrap line for which `truncate` is false. -/
theorem ell_off (m : TextMode) (tw : Bool)
    (h : m.hard = false ∨ (tw = false ∧ Gen.SurfaceFacts.EllAtom.lineTooWide ∈ m.ell)) (r nl : Bool) :
    (m.hard && m.ell.all (evalEll tw r nl)) = false := by
  rcases h with h | ⟨h1, h2⟩
  · simp [h]
  · subst h1
    have : m.ell.all (evalEll false r nl) = false := by
      rw [List.all_eq_false]; exact ⟨_, h2, by simp [evalEll]⟩
    simp [this]

theorem drawLine_cellAt (m : TextMode) (tw : Bool)
    (hm : m.hard = false ∨ (tw = false ∧ Gen.SurfaceFacts.EllAtom.lineTooWide ∈ m.ell)) (maxW row : UInt16) :
    ∀ (line : List Cell) (col : UInt16) (s : Surface), Sized s →
    (∀ c ∈ line, 0 ≤ c.w) → col.toNat + width line < 65536 →
    ∃ s', drawLine exact m maxW row tw line col s = .ok s' ∧ s'.w = s.w ∧ s'.h = s.h ∧ Sized s' ∧
      ∀ x y, x < s.w.toNat → y < s.h.toNat → cellAt s' x y =
        if y = row.toNat ∧ x < maxW.toNat then over line col.toNat (fun x => cellAt s x y) x
        else cellAt s x y := by
  intro line
  induction line with
  | nil =>
    intro col s hs _ _
    refine ⟨s, rfl, rfl, rfl, hs, ?_⟩
    intro x y _ _
    simp [over]
  | cons ch rest ih =>
    intro col s hs hpos hsum
    simp only [drawLine, ell_off m tw hm, Bool.false_eq_true, ↓reduceIte]
    by_cases hcol : col ≥ maxW
    · simp only [hcol, ↓reduceIte]
      refine ⟨s, rfl, rfl, rfl, hs, ?_⟩
      intro x y _ _
      have hcol' := UInt16.le_iff_toNat_le.1 hcol
      by_cases hc : y = row.toNat ∧ x < maxW.toNat
      · rw [if_pos hc, over_lt _ _ _ _ (by omega)]
      · rw [if_neg hc]
    · simp only [hcol, ↓reduceIte]
      have hcol' : col.toNat < maxW.toNat := by
        have := UInt16.not_le.1 hcol; exact UInt16.lt_iff_toNat_lt.1 this
      obtain ⟨s1, h1, hw1, hh1, hs1, hc1⟩ := writeCell_cellAt s hs col row ch
      simp only [h1]
      have hw0 : 0 ≤ ch.w := hpos ch (by simp)
      simp only [width, List.map_cons, List.sum_cons] at hsum
      have hcn : (col + u16 ch.w).toNat = col.toNat + ch.w.toNat := u16_toNat col ch.w hw0 (by omega)
      obtain ⟨s2, h2, hw2, hh2, hs2, hc2⟩ := ih (col + u16 ch.w) s1 hs1 (fun c hc => hpos c (by simp [hc]))
        (by rw [hcn]; simp only [width]; omega)
      refine ⟨s2, h2, hw2.trans hw1, hh2.trans hh1, hs2, ?_⟩
      intro x y hx hy
      rw [hc2 x y (by rw [hw1]; exact hx) (by rw [hh1]; exact hy), hcn]
      by_cases hc : y = row.toNat ∧ x < maxW.toNat
      · rw [if_pos hc, if_pos hc]
        simp only [over]
        apply over_congr
        rw [hc1 x y]
        by_cases hxc : x = col.toNat
        · simp [hxc, hc.1, hy, hc.1 ▸ hy, show col.toNat < s.w.toNat from hxc ▸ hx]
        · simp [hxc]
      · rw [if_neg hc, if_neg hc, hc1 x y]
        have : ¬ (x = col.toNat ∧ y = row.toNat ∧ x < s.w.toNat ∧ y < s.h.toNat) := by
          intro hh; apply hc; exact ⟨hh.2.1, by rw [hh.1]; exact hcol'⟩
        rw [if_neg this]

/-! ### all lines -/

/-- What the column loop does with one whole line: it shows `T line` (the line itself in the soft-wrap
mode, `hardLine` in the hard-wrap mode) on the columns of the widget. -/
def LineSpec (m : TextMode) (maxW : UInt16) (T : List Cell → List Cell) : Prop :=
  ∀ (row : UInt16) (line : List Cell) (s : Surface), Sized s → (∀ c ∈ line, 0 ≤ c.w) → width line < 65536 →
    ∃ s', drawLine exact m maxW row (tooWide maxW line) line 0 s = .ok s' ∧ s'.w = s.w ∧ s'.h = s.h ∧ Sized s' ∧
      ∀ x y, x < s.w.toNat → y < s.h.toNat → cellAt s' x y =
        if y = row.toNat ∧ x < maxW.toNat then over (T line) 0 (fun x => cellAt s x y) x
        else cellAt s x y

theorem lineSpec_soft (m : TextMode) (hm : m.hard = false) (maxW : UInt16) : LineSpec m maxW id := by
  intro row line s hs hp hw
  simpa using drawLine_cellAt m (tooWide maxW line) (.inl hm) maxW row line 0 s hs hp (by simpa using hw)

theorem drawLines_cellAt_gen (m : TextMode) (T : List Cell → List Cell) (hd : m.drawStrict = true) (maxW maxH : UInt16)
    (hT : LineSpec m maxW T) :
    ∀ (lines : List (List Cell)) (row : UInt16) (s : Surface), Sized s →
    (∀ l ∈ lines, (∀ c ∈ l, 0 ≤ c.w) ∧ width l < 65536) →
    ∃ s', drawLines exact m maxW maxH lines row s = .ok s' ∧ s'.w = s.w ∧ s'.h = s.h ∧ Sized s' ∧
      ∀ x y, x < s.w.toNat → y < s.h.toNat → cellAt s' x y =
        if row.toNat ≤ y ∧ y < row.toNat + lines.length ∧ y < maxH.toNat ∧ x < maxW.toNat
        then over (T (lines.getD (y - row.toNat) [])) 0 (fun x => cellAt s x y) x
        else cellAt s x y := by
  intro lines
  induction lines with
  | nil =>
    intro row s hs _
    refine ⟨s, rfl, rfl, rfl, hs, ?_⟩
    intro x y _ _
    have : ¬ (row.toNat ≤ y ∧ y < row.toNat + ([] : List (List Cell)).length ∧ y < maxH.toNat ∧ x < maxW.toNat) := by
      simp only [List.length_nil]; omega
    rw [if_neg this]
  | cons l ls ih =>
    intro row s hs hall
    simp only [drawLines, hGuard, hd, ↓reduceIte]
    by_cases hrow : row ≥ maxH
    · simp only [hrow, decide_true, ↓reduceIte]
      refine ⟨s, rfl, rfl, rfl, hs, ?_⟩
      intro x y _ _
      have hrow' := UInt16.le_iff_toNat_le.1 hrow
      have : ¬ (row.toNat ≤ y ∧ y < row.toNat + (l :: ls).length ∧ y < maxH.toNat ∧ x < maxW.toNat) := by omega
      rw [if_neg this]
    · simp only [hrow, decide_false, Bool.false_eq_true, ↓reduceIte]
      have hrow' : row.toNat < maxH.toNat := by
        have := UInt16.not_le.1 hrow; exact UInt16.lt_iff_toNat_lt.1 this
      have hm16 := UInt16.toNat_lt maxH
      have hl := hall l (by simp)
      obtain ⟨s1, h1, hw1, hh1, hs1, hc1⟩ := hT row l s hs hl.1 hl.2
      simp only [h1]
      have hr1 : (row + 1).toNat = row.toNat + 1 := by
        rw [UInt16.toNat_add, UInt16.toNat_one]; omega
      obtain ⟨s2, h2, hw2, hh2, hs2, hc2⟩ := ih (row + 1) s1 hs1 (fun l' hl' => hall l' (by simp [hl']))
      refine ⟨s2, h2, hw2.trans hw1, hh2.trans hh1, hs2, ?_⟩
      intro x y hx hy
      rw [hc2 x y (by rw [hw1]; exact hx) (by rw [hh1]; exact hy), hr1]
      simp only [List.length_cons]
      by_cases hy0 : y = row.toNat
      · have c1 : ¬ (row.toNat + 1 ≤ y ∧ y < row.toNat + 1 + ls.length ∧ y < maxH.toNat ∧ x < maxW.toNat) := by omega
        rw [if_neg c1, hc1 x y hx hy]
        by_cases hxm : x < maxW.toNat
        · have c2 : row.toNat ≤ y ∧ y < row.toNat + (ls.length + 1) ∧ y < maxH.toNat ∧ x < maxW.toNat := by omega
          rw [if_pos c2, if_pos ⟨hy0, hxm⟩]
          have : y - row.toNat = 0 := by omega
          simp [this]
        · have c2 : ¬ (row.toNat ≤ y ∧ y < row.toNat + (ls.length + 1) ∧ y < maxH.toNat ∧ x < maxW.toNat) := by omega
          have c3 : ¬ (y = row.toNat ∧ x < maxW.toNat) := by omega
          rw [if_neg c2, if_neg c3]
      · have hs1y : ∀ x', x' < s.w.toNat → cellAt s1 x' y = cellAt s x' y := by
          intro x' hx'
          rw [hc1 x' y hx' hy, if_neg (by omega)]
        by_cases c1 : row.toNat + 1 ≤ y ∧ y < row.toNat + 1 + ls.length ∧ y < maxH.toNat ∧ x < maxW.toNat
        · have c2 : row.toNat ≤ y ∧ y < row.toNat + (ls.length + 1) ∧ y < maxH.toNat ∧ x < maxW.toNat := by omega
          rw [if_pos c1, if_pos c2]
          have : y - row.toNat = (y - (row.toNat + 1)) + 1 := by omega
          rw [this, List.getD_cons_succ]
          exact over_congr _ _ _ _ _ (hs1y x hx)
        · have c2 : ¬ (row.toNat ≤ y ∧ y < row.toNat + (ls.length + 1) ∧ y < maxH.toNat ∧ x < maxW.toNat) := by omega
          rw [if_neg c1, if_neg c2]
          exact hs1y x hx

/-! ### the size -/

theorem sizeLoop_height (maxW maxH : UInt16) : ∀ (lines : List (List Cell)) (w h : UInt16), h ≤ maxH →
    (sizeLoop true maxW maxH lines w h).2.toNat = min (h.toNat + lines.length) maxH.toNat := by
  intro lines
  induction lines with
  | nil =>
    intro w h hh
    have := UInt16.le_iff_toNat_le.1 hh
    simp only [sizeLoop, List.length_nil]; omega
  | cons l ls ih =>
    intro w h hh
    have hh' := UInt16.le_iff_toNat_le.1 hh
    simp only [sizeLoop, hGuard, ↓reduceIte, List.length_cons]
    by_cases hg : h ≥ maxH
    · have := UInt16.le_iff_toNat_le.1 hg
      simp only [hg, decide_true, ↓reduceIte]; omega
    · simp only [hg, decide_false, Bool.false_eq_true, ↓reduceIte]
      have hlt : h.toNat < maxH.toNat := by
        have := UInt16.not_le.1 hg; exact UInt16.lt_iff_toNat_lt.1 this
      have hm16 := UInt16.toNat_lt maxH
      have h1 : (h + 1).toNat = h.toNat + 1 := by
        rw [UInt16.toNat_add, UInt16.toNat_one]; omega
      rw [ih _ (h + 1) (by rw [UInt16.le_iff_toNat_le, h1]; omega), h1]
      omega

/-- `findContainerSize`'s width as the code computes it: running maximum of the line widths
(`uint16` sums), clamped to `Max.Width` after every line, over the lines that count for the height. -/
def widthFold (maxW : UInt16) : List (List Cell) → UInt16 → UInt16
  | [], w => w
  | l :: ls, w =>
    let w := if w < lineWidth l then lineWidth l else w
    widthFold maxW ls (if w > maxW then maxW else w)

theorem sizeLoop_width (maxW maxH : UInt16) : ∀ (lines : List (List Cell)) (w h : UInt16), h ≤ maxH →
    (sizeLoop true maxW maxH lines w h).1 = widthFold maxW (lines.take (maxH.toNat - h.toNat)) w := by
  intro lines
  induction lines with
  | nil => intro w h _; simp [sizeLoop, widthFold]
  | cons l ls ih =>
    intro w h hh
    have hh' := UInt16.le_iff_toNat_le.1 hh
    simp only [sizeLoop, hGuard, ↓reduceIte]
    by_cases hg : h ≥ maxH
    · have := UInt16.le_iff_toNat_le.1 hg
      have h0 : maxH.toNat - h.toNat = 0 := by omega
      simp only [hg, decide_true, ↓reduceIte, h0, List.take_zero, widthFold]
    · simp only [hg, decide_false, Bool.false_eq_true, ↓reduceIte]
      have hlt : h.toNat < maxH.toNat := by
        have := UInt16.not_le.1 hg; exact UInt16.lt_iff_toNat_lt.1 this
      have hm16 := UInt16.toNat_lt maxH
      have h1 : (h + 1).toNat = h.toNat + 1 := by
        rw [UInt16.toNat_add, UInt16.toNat_one]; omega
      rw [ih _ (h + 1) (by rw [UInt16.le_iff_toNat_le, h1]; omega), h1]
      have : maxH.toNat - h.toNat = (maxH.toNat - (h.toNat + 1)) + 1 := by omega
      rw [this, List.take_succ_cons, widthFold]

/-- No line wider than `Max.Width` (and narrower than 2^16): the width is the widest line. -/
theorem widthFold_max (maxW : UInt16) : ∀ (lines : List (List Cell)) (w : UInt16), w ≤ maxW →
    (∀ l ∈ lines, (∀ c ∈ l, 0 ≤ c.w) ∧ width l ≤ maxW.toNat) →
    (widthFold maxW lines w).toNat = (lines.map width).foldl max w.toNat := by
  intro lines
  induction lines with
  | nil => intro w _ _; rfl
  | cons l ls ih =>
    intro w hw hall
    have hl := hall l (by simp)
    have hm16 := UInt16.toNat_lt maxW
    have hlw : (lineWidth l).toNat = width l := by
      have : ∀ (l : List Cell), (∀ c ∈ l, 0 ≤ c.w) → width l < 65536 → (lineWidth l).toNat = width l := by
        intro l
        induction l with
        | nil => intro _ _; rfl
        | cons c cs ih2 =>
          intro hp hs
          simp only [width, List.map_cons, List.sum_cons] at hs
          have := ih2 (fun c' hc' => hp c' (by simp [hc'])) (by simp only [width]; omega)
          simp only [lineWidth, width, List.map_cons, List.sum_cons]
          rw [UInt16.add_comm, u16_toNat _ _ (hp c (by simp)) (by rw [this]; simp only [width]; omega), this]
          simp only [width]; omega
      exact this l hl.1 (by omega)
    have hw' := UInt16.le_iff_toNat_le.1 hw
    simp only [widthFold, List.map_cons, List.foldl_cons]
    by_cases h1 : w < lineWidth l
    · have h1' := UInt16.lt_iff_toNat_lt.1 h1
      have hng : ¬ (lineWidth l > maxW) := by
        rw [GT.gt, UInt16.lt_iff_toNat_lt]; omega
      simp only [h1, ↓reduceIte, hng]
      rw [ih _ (by rw [UInt16.le_iff_toNat_le]; omega) (fun l' hl' => hall l' (by simp [hl'])), hlw]
      congr 1; omega
    · have h1' : (lineWidth l).toNat ≤ w.toNat := by
        have := UInt16.not_lt.1 h1; exact UInt16.le_iff_toNat_le.1 this
      have hng : ¬ (w > maxW) := by
        rw [GT.gt, UInt16.lt_iff_toNat_lt]; omega
      simp only [h1, ↓reduceIte, hng]
      rw [ih _ hw (fun l' hl' => hall l' (by simp [hl']))]
      congr 1; omega

/-! ### `Draw` (soft wrap), cell by cell -/

/-- The cell a fresh surface holds everywhere: the zero cell, with the widget's style after `Fill`. -/
def blank (fill : Option Nat) : Cell :=
  match fill with
  | some st => { (default : Cell) with st := st }
  | none => default

theorem drawText_cells_gen (m : TextMode) (T : List Cell → List Cell) (c : Ctx) (hT : LineSpec m c.maxW T)
    (hs : m.sizeOK) (hd : m.drawStrict = true)
    (lines : List (List Cell)) (hall : ∀ l ∈ lines, (∀ c ∈ l, 0 ≤ c.w) ∧ width l < 65536) :
    ∃ s, drawText exact m c lines = .ok s ∧
      s.w = widthFold c.maxW (lines.take c.maxH.toNat) 0 ∧
      s.h.toNat = min lines.length c.maxH.toNat ∧
      s.buf.length = s.h.toNat * s.w.toNat ∧
      ∀ x y, x < s.w.toNat → y < s.h.toNat →
        cellAt s x y = over (T (lines.getD y [])) 0 (fun _ => some (blank m.fill)) x := by
  have hsize1 := sizeLoop_width c.maxW c.maxH lines 0 0 (by rw [UInt16.le_iff_toNat_le]; simp)
  have hsize2 := sizeLoop_height c.maxW c.maxH lines 0 0 (by rw [UInt16.le_iff_toNat_le]; simp)
  have hle := sizeLoop_le c.maxW c.maxH lines 0 0 (by rw [UInt16.le_iff_toNat_le]; simp) (by rw [UInt16.le_iff_toNat_le]; simp)
  simp only [UInt16.toNat_zero, Nat.zero_add, Nat.sub_zero] at hsize1 hsize2
  simp only [drawText, findContainerSize, hs.1, hs.2, evalSz]
  generalize hW : (sizeLoop true c.maxW c.maxH lines 0 0).1 = W at hsize1 hle
  generalize hH : (sizeLoop true c.maxW c.maxH lines 0 0).2 = H at hsize2 hle
  have h0 := newSurface_sized W H
  have d0 := newSurface_dims exact W H
  -- the start surface, cell by cell
  have hstart : ∀ (s0 : Surface), s0 = (match m.fill with | some st => fillStyle (newSurface exact W H) st | none => newSurface exact W H) →
      Sized s0 ∧ s0.w = W ∧ s0.h = H ∧ ∀ x y, x < W.toNat → y < H.toNat → cellAt s0 x y = some (blank m.fill) := by
    intro s0 he
    have hidx : ∀ x y, x < W.toNat → y < H.toNat → y * W.toNat + x < H.toNat * W.toNat :=
      fun x y hx hy => index_lt _ _ _ _ hx hy
    cases hf : m.fill with
    | none =>
      rw [hf] at he; simp only at he; subst he
      refine ⟨h0, d0.1, d0.2.1, ?_⟩
      intro x y hx hy
      simp only [cellAt, d0.1, d0.2.1, hx, hy, and_self, ↓reduceIte, blank]
      simp only [newSurface, Surface.buf, bufLen, exact, ↓reduceIte, List.getElem?_replicate, hidx x y hx hy]
    | some st =>
      rw [hf] at he; simp only at he; subst he
      have f := fillStyle_props (newSurface exact W H) st h0
      refine ⟨f.2.2.2, f.1.trans d0.1, f.2.1.trans d0.2.1, ?_⟩
      intro x y hx hy
      simp only [cellAt, f.1, f.2.1, d0.1, d0.2.1, hx, hy, and_self, ↓reduceIte, blank]
      have d := setBuf_dims (newSurface exact W H) ((newSurface exact W H).buf.map fun c => { c with st := st })
      simp only [fillStyle, d.2.2.2, List.getElem?_map]
      simp only [newSurface, Surface.buf, bufLen, exact, ↓reduceIte, List.getElem?_replicate, hidx x y hx hy,
        Option.map_some]
  obtain ⟨hs0, hw0, hh0, hc0⟩ := hstart _ rfl
  obtain ⟨s', h', hw', hh', hs', hc'⟩ := drawLines_cellAt_gen m T hd c.maxW c.maxH hT lines 0 _ hs0 hall
  refine ⟨s', h', by rw [hw', hw0, hsize1], by rw [hh', hh0, hsize2], ?_, ?_⟩
  · rw [hs']
  · intro x y hx hy
    rw [hw', hw0] at hx
    rw [hh', hh0] at hy
    rw [hc' x y (by rw [hw0]; exact hx) (by rw [hh0]; exact hy)]
    have hWle := UInt16.le_iff_toNat_le.1 hle.1
    have cnd : (0 : UInt16).toNat ≤ y ∧ y < (0 : UInt16).toNat + lines.length ∧ y < c.maxH.toNat ∧ x < c.maxW.toNat := by
      simp only [UInt16.toNat_zero]; omega
    rw [if_pos cnd]
    simp only [UInt16.toNat_zero, Nat.sub_zero]
    exact over_congr _ _ _ _ _ (hc0 x y hx hy)

theorem drawLines_cellAt (m : TextMode) (hm : m.hard = false) (hd : m.drawStrict = true) (maxW maxH : UInt16) :
    ∀ (lines : List (List Cell)) (row : UInt16) (s : Surface), Sized s →
    (∀ l ∈ lines, (∀ c ∈ l, 0 ≤ c.w) ∧ width l < 65536) →
    ∃ s', drawLines exact m maxW maxH lines row s = .ok s' ∧ s'.w = s.w ∧ s'.h = s.h ∧ Sized s' ∧
      ∀ x y, x < s.w.toNat → y < s.h.toNat → cellAt s' x y =
        if row.toNat ≤ y ∧ y < row.toNat + lines.length ∧ y < maxH.toNat ∧ x < maxW.toNat
        then over (lines.getD (y - row.toNat) []) 0 (fun x => cellAt s x y) x
        else cellAt s x y :=
  drawLines_cellAt_gen m id hd maxW maxH (lineSpec_soft m hm maxW)

theorem drawText_cells (m : TextMode) (hm : m.hard = false) (hs : m.sizeOK) (hd : m.drawStrict = true)
    (c : Ctx) (lines : List (List Cell)) (hall : ∀ l ∈ lines, (∀ c ∈ l, 0 ≤ c.w) ∧ width l < 65536) :
    ∃ s, drawText exact m c lines = .ok s ∧
      s.w = widthFold c.maxW (lines.take c.maxH.toNat) 0 ∧
      s.h.toNat = min lines.length c.maxH.toNat ∧
      s.buf.length = s.h.toNat * s.w.toNat ∧
      ∀ x y, x < s.w.toNat → y < s.h.toNat →
        cellAt s x y = over (lines.getD y []) 0 (fun _ => some (blank m.fill)) x :=
  drawText_cells_gen m id c (lineSpec_soft m hm c.maxW) hs hd lines hall

/-! ### the hard-wrap branch (ellipsis) -/

theorem overHard_congr (maxW : Nat) (est : Option Nat) : ∀ (line : List Cell) (col : Nat)
    (f g : Nat → Option Cell) (x : Nat), f x = g x → overHard maxW est line col f x = overHard maxW est line col g x := by
  intro line
  induction line with
  | nil => intro col f g x h; exact h
  | cons c cs ih =>
    intro col f g x h
    simp only [overHard]
    split
    · exact h
    · split
      · simp only [h]
      · apply ih; simp only [h]

/-- The ellipsis branch never writes right of the widget. -/
theorem overHard_ge (maxW : Nat) (est : Option Nat) : ∀ (line : List Cell) (col : Nat)
    (f : Nat → Option Cell) (x : Nat), maxW ≤ x → overHard maxW est line col f x = f x := by
  intro line
  induction line with
  | nil => intro col f x _; rfl
  | cons c cs ih =>
    intro col f x hx
    simp only [overHard]
    split
    · rfl
    · have hne : x ≠ col := by omega
      split
      · simp [hne]
      · rw [ih _ _ _ hx]; simp [hne]

/-- The loop of the code on a line = the specification's `truncated` line, on the columns of the widget. -/
theorem overHard_eq_truncated (maxW : Nat) (est : Option Nat) : ∀ (line : List Cell) (col : Nat)
    (f : Nat → Option Cell) (x : Nat), x < maxW →
    overHard maxW est line col f x = over (VaxisModel.Spec.WrapDraw.truncated maxW est line col) col f x := by
  intro line
  induction line with
  | nil => intro col f x _; rfl
  | cons c cs ih =>
    intro col f x hx
    simp only [overHard, VaxisModel.Spec.WrapDraw.truncated]
    by_cases h1 : col ≥ maxW
    · have h2 : ¬ (col + c.w.toNat + 1 ≤ maxW) := by omega
      have hne : x ≠ col := by omega
      simp [h1, h2, over, hne]
    · by_cases h3 : col + c.w.toNat ≥ maxW
      · have h2 : ¬ (col + c.w.toNat + 1 ≤ maxW) := by omega
        simp only [h1, h3, h2, ↓reduceIte, over, VaxisModel.Spec.WrapDraw.ellipsisFor]
      · have h2 : col + c.w.toNat + 1 ≤ maxW := by omega
        simp only [h1, h3, h2, ↓reduceIte, over]
        exact ih _ _ _ hx

/-- The column loop of the hard-wrap `Draw` on a line for which `truncate` is true. -/
theorem drawLine_cellAt_hard (m : TextMode) (hm : m.hard = true) (he : m.ell = [.lineTooWide, .reach])
    (maxW row : UInt16) :
    ∀ (line : List Cell) (col : UInt16) (s : Surface), Sized s →
    (∀ c ∈ line, 0 ≤ c.w) → col.toNat + width line < 65536 →
    ∃ s', drawLine exact m maxW row true line col s = .ok s' ∧ s'.w = s.w ∧ s'.h = s.h ∧ Sized s' ∧
      ∀ x y, x < s.w.toNat → y < s.h.toNat → cellAt s' x y =
        if y = row.toNat then overHard maxW.toNat m.ellipsisStyle line col.toNat (fun x => cellAt s x y) x
        else cellAt s x y := by
  intro line
  induction line with
  | nil =>
    intro col s hs _ _
    refine ⟨s, rfl, rfl, rfl, hs, ?_⟩
    intro x y _ _
    simp [overHard]
  | cons ch rest ih =>
    intro col s hs hpos hsum
    simp only [drawLine, hm, he, Bool.true_and, List.all_cons, List.all_nil, evalEll, Bool.and_true]
    have hw0 : 0 ≤ ch.w := hpos ch (by simp)
    simp only [width, List.map_cons, List.sum_cons] at hsum
    have hcn : (col + u16 ch.w).toNat = col.toNat + ch.w.toNat := u16_toNat col ch.w hw0 (by omega)
    by_cases hcol : col ≥ maxW
    · simp only [hcol, ↓reduceIte]
      refine ⟨s, rfl, rfl, rfl, hs, ?_⟩
      intro x y _ _
      have hcol' := UInt16.le_iff_toNat_le.1 hcol
      simp only [overHard, ge_iff_le, hcol', ↓reduceIte, ite_self]
    · simp only [hcol, ↓reduceIte]
      have hcol' : ¬ col.toNat ≥ maxW.toNat := by
        have := UInt16.not_le.1 hcol; have := UInt16.lt_iff_toNat_lt.1 this; omega
      by_cases hell : col + u16 ch.w ≥ maxW
      · have hell' : col.toNat + ch.w.toNat ≥ maxW.toNat := by
          have := UInt16.le_iff_toNat_le.1 hell; rw [hcn] at this; exact this
        simp only [hell, decide_true, ↓reduceIte]
        obtain ⟨s1, h1, hw1, hh1, hs1, hc1⟩ := writeCell_cellAt s hs col row
          { g := VaxisModel.Model.Window.gEllipsis, w := 1, st := m.ellipsisStyle.getD ch.st }
        refine ⟨s1, h1, hw1, hh1, hs1, ?_⟩
        intro x y hx hy
        rw [hc1 x y]
        simp only [overHard, hcol', hell', ↓reduceIte]
        by_cases hy0 : y = row.toNat
        · simp only [hy0, true_and, ↓reduceIte]
          by_cases hxc : x = col.toNat
          · simp [hxc, hy0 ▸ hy, show col.toNat < s.w.toNat from hxc ▸ hx]
          · simp [hxc]
        · simp [hy0]
      · have hell' : ¬ col.toNat + ch.w.toNat ≥ maxW.toNat := by
          have := UInt16.not_le.1 hell; have := UInt16.lt_iff_toNat_lt.1 this; rw [hcn] at this; omega
        simp only [hell, decide_false, Bool.false_eq_true, ↓reduceIte]
        obtain ⟨s1, h1, hw1, hh1, hs1, hc1⟩ := writeCell_cellAt s hs col row ch
        simp only [h1]
        obtain ⟨s2, h2, hw2, hh2, hs2, hc2⟩ := ih (col + u16 ch.w) s1 hs1 (fun c hc => hpos c (by simp [hc]))
          (by rw [hcn]; simp only [width]; omega)
        refine ⟨s2, h2, hw2.trans hw1, hh2.trans hh1, hs2, ?_⟩
        intro x y hx hy
        rw [hc2 x y (by rw [hw1]; exact hx) (by rw [hh1]; exact hy), hcn]
        by_cases hy0 : y = row.toNat
        · rw [if_pos hy0, if_pos hy0]
          simp only [overHard, hcol', hell', ↓reduceIte]
          apply overHard_congr
          rw [hc1 x y]
          by_cases hxc : x = col.toNat
          · simp [hxc, hy0, hy0 ▸ hy, show col.toNat < s.w.toNat from hxc ▸ hx]
          · simp [hxc]
        · rw [if_neg hy0, if_neg hy0, hc1 x y]
          have : ¬ (x = col.toNat ∧ y = row.toNat ∧ x < s.w.toNat ∧ y < s.h.toNat) := fun hh => hy0 hh.2.1
          rw [if_neg this]

/-- `lineWidth` as Go sums it (int) is the display width when no width is negative. -/
theorem lineWidthInt_eq : ∀ (l : List Cell), (∀ c ∈ l, 0 ≤ c.w) → lineWidthInt l = (width l : Int)
  | [], _ => rfl
  | c :: cs, h => by
    have ih := lineWidthInt_eq cs (fun c' hc' => h c' (by simp [hc']))
    have h0 := h c (by simp)
    simp only [lineWidthInt, ih, width, List.map_cons, List.sum_cons]
    omega

/-- `truncate` = "the line does not fit". -/
theorem tooWide_eq (maxW : UInt16) (l : List Cell) (h : ∀ c ∈ l, 0 ≤ c.w) :
    tooWide maxW l = decide (width l > maxW.toNat) := by
  simp only [tooWide, lineWidthInt_eq l h, decide_eq_decide, Int.ofNat_eq_natCast]
  constructor <;> intro h <;> omega

/-- A line narrower than `Max.Width` is drawn without ellipsis, exactly as in the soft-wrap mode. -/
theorem overHard_fits (maxW : Nat) (est : Option Nat) : ∀ (line : List Cell) (col : Nat) (f : Nat → Option Cell),
    col + width line < maxW → overHard maxW est line col f = over line col f := by
  intro line
  induction line with
  | nil => intro col f _; rfl
  | cons c cs ih =>
    intro col f h
    simp only [width, List.map_cons, List.sum_cons] at h
    have h1 : ¬ col ≥ maxW := by omega
    have h2 : ¬ col + c.w.toNat ≥ maxW := by omega
    simp only [overHard, over, h1, h2, ↓reduceIte]
    exact ih _ _ (by simp only [width]; omega)

/-- **One line of the hard-wrap `Draw`** (the column loop with `truncate` as the code computes it):
the row shows `Spec.WrapDraw.hardLine` — the line as it is when it fits, else its longest prefix
that leaves room for the ellipsis, then the ellipsis. -/
theorem lineSpec_hard (m : TextMode) (hm : m.hard = true) (he : m.ell = [.lineTooWide, .reach]) (maxW : UInt16) :
    LineSpec m maxW (VaxisModel.Spec.WrapDraw.hardLine maxW.toNat m.ellipsisStyle) := by
  intro row line s hs hp hw
  have htw := tooWide_eq maxW line hp
  by_cases hfit : width line ≤ maxW.toNat
  · have h0 : tooWide maxW line = false := by rw [htw]; simp; omega
    rw [h0]
    have := drawLine_cellAt m false (.inr ⟨rfl, by rw [he]; simp⟩) maxW row line 0 s hs hp (by simpa using hw)
    simpa [VaxisModel.Spec.WrapDraw.hardLine, hfit] using this
  · have h1 : tooWide maxW line = true := by rw [htw]; simp; omega
    rw [h1]
    obtain ⟨s', e, hw', hh', hs', hc⟩ := drawLine_cellAt_hard m hm he maxW row line 0 s hs hp (by simpa using hw)
    refine ⟨s', e, hw', hh', hs', ?_⟩
    intro x y hx hy
    rw [hc x y hx hy]
    by_cases hy0 : y = row.toNat
    · by_cases hxm : x < maxW.toNat
      · rw [if_pos hy0, if_pos ⟨hy0, hxm⟩]
        simp only [VaxisModel.Spec.WrapDraw.hardLine, hfit, ↓reduceIte, UInt16.toNat_zero]
        exact overHard_eq_truncated _ _ _ _ _ _ hxm
      · rw [if_pos hy0, if_neg (fun h => hxm h.2)]
        exact overHard_ge _ _ _ _ _ _ (by omega)
    · rw [if_neg hy0, if_neg (fun h => hy0 h.1)]

/-- `drawText` in the hard-wrap mode, cell by cell. -/
theorem drawText_cells_hard (m : TextMode) (hm : m.hard = true) (he : m.ell = [.lineTooWide, .reach])
    (hs : m.sizeOK) (hd : m.drawStrict = true)
    (c : Ctx) (lines : List (List Cell)) (hall : ∀ l ∈ lines, (∀ c ∈ l, 0 ≤ c.w) ∧ width l < 65536) :
    ∃ s, drawText exact m c lines = .ok s ∧
      s.w = widthFold c.maxW (lines.take c.maxH.toNat) 0 ∧
      s.h.toNat = min lines.length c.maxH.toNat ∧
      s.buf.length = s.h.toNat * s.w.toNat ∧
      ∀ x y, x < s.w.toNat → y < s.h.toNat →
        cellAt s x y = over (VaxisModel.Spec.WrapDraw.hardLine c.maxW.toNat m.ellipsisStyle (lines.getD y [])) 0
          (fun _ => some (blank m.fill)) x :=
  drawText_cells_gen m _ c (lineSpec_hard m hm he c.maxW) hs hd lines hall


/-! ### what `over` shows -/

theorem width_take_succ (c : Cell) (cs : List Cell) (j : Nat) :
    width ((c :: cs).take (j + 1)) = c.w.toNat + width (cs.take j) := by
  simp [width]

/-- A grapheme of positive width is shown at the column equal to the display width of the
graphemes before it. -/
theorem over_hit : ∀ (line : List Cell) (col : Nat) (f : Nat → Option Cell) (j : Nat) (hj : j < line.length),
    0 < line[j].w → over line col f (col + width (line.take j)) = some line[j] := by
  intro line
  induction line with
  | nil => intro col f j hj; simp at hj
  | cons c cs ih =>
    intro col f j hj hpos
    cases j with
    | zero =>
      simp only [List.getElem_cons_zero] at hpos
      simp only [over, List.take_zero, width, List.map_nil, List.sum_nil, Nat.add_zero, List.getElem_cons_zero]
      rw [over_lt _ _ _ _ (by omega)]
      simp
    | succ j =>
      simp only [List.getElem_cons_succ] at hpos ⊢
      simp only [over, width_take_succ]
      rw [← Nat.add_assoc]
      exact ih _ _ j (by simpa using hj) hpos

/-- Columns at which no grapheme starts show the background. -/
theorem over_miss : ∀ (line : List Cell) (col : Nat) (f : Nat → Option Cell) (x : Nat),
    (∀ j, j < line.length → x ≠ col + width (line.take j)) → over line col f x = f x := by
  intro line
  induction line with
  | nil => intro col f x _; rfl
  | cons c cs ih =>
    intro col f x h
    simp only [over]
    rw [ih]
    · have := h 0 (by simp)
      simp only [List.take_zero, width, List.map_nil, List.sum_nil, Nat.add_zero] at this
      simp [this]
    · intro j hj
      have := h (j + 1) (by simpa using hj)
      rw [width_take_succ, ← Nat.add_assoc] at this
      exact this

/-! ### HardwrapScanner = split at "\n" -/

open VaxisModel.Model.Wrap in
theorem hardLoop_cons (line : List VaxisModel.Model.Wrap.Cell) (c : VaxisModel.Model.Wrap.Cell)
    (cs : List VaxisModel.Model.Wrap.Cell) :
    hardLoop line (c :: cs) =
      if c.nl then (if cs.isEmpty then (line, []) else (line, cs)) else hardLoop (line ++ [c]) cs := by
  rw [hardLoop]

theorem splitNlAux_cons (line : List VaxisModel.Model.Wrap.Cell) (c : VaxisModel.Model.Wrap.Cell)
    (cs : List VaxisModel.Model.Wrap.Cell) :
    VaxisModel.Spec.WrapDraw.splitNlAux line (c :: cs) =
      if c.nl then (if cs.isEmpty then [line] else line :: VaxisModel.Spec.WrapDraw.splitNlAux [] cs)
      else VaxisModel.Spec.WrapDraw.splitNlAux (line ++ [c]) cs := by
  rw [VaxisModel.Spec.WrapDraw.splitNlAux]

open VaxisModel.Model.Wrap in
theorem hardLoop_split : ∀ (cells line : List VaxisModel.Model.Wrap.Cell), cells ≠ [] →
    ∀ fuel, (hardLoop line cells).2.length < fuel →
    ∃ ls, hardAll fuel (hardLoop line cells).2 = .ok ls ∧
      VaxisModel.Spec.WrapDraw.splitNlAux line cells = (hardLoop line cells).1 :: ls := by
  intro cells
  induction cells with
  | nil => intro line h; exact absurd rfl h
  | cons c cs ih =>
    intro line _ fuel hf
    rw [hardLoop_cons] at hf ⊢
    rw [splitNlAux_cons]
    by_cases hn : c.nl = true
    · simp only [hn, ↓reduceIte] at hf ⊢
      by_cases he : cs.isEmpty = true
      · simp only [he, ↓reduceIte] at hf ⊢
        cases fuel with
        | zero => simp at hf
        | succ f => exact ⟨[], by simp [hardAll, hardScan], rfl⟩
      · simp only [he, Bool.false_eq_true, ↓reduceIte] at hf ⊢
        have hne : cs ≠ [] := by intro h0; subst h0; simp at he
        cases fuel with
        | zero => simp at hf
        | succ f =>
          have he' : cs.isEmpty = false := by simpa using he
          have hlen := (VaxisModel.Lemmas.Wrap.hardLoop_spec cs []).2.2 hne
          obtain ⟨ls, h1, h2⟩ := ih [] hne f (by omega)
          refine ⟨(hardLoop [] cs).1 :: ls, ?_, by rw [h2]⟩
          simp only [hardAll, hardScan, he', Bool.false_eq_true, ↓reduceIte, h1]
    · have hn' : c.nl = false := by simpa using hn
      simp only [hn', Bool.false_eq_true, ↓reduceIte] at hf ⊢
      cases cs with
      | nil =>
        simp only [hardLoop, VaxisModel.Spec.WrapDraw.splitNlAux] at hf ⊢
        cases fuel with
        | zero => simp at hf
        | succ f => exact ⟨[], by simp [hardAll, hardScan], rfl⟩
      | cons d ds => exact ih (line ++ [c]) (by simp) fuel hf

open VaxisModel.Model.Wrap in
/-- `HardwrapScanner`: the scanning loop terminates and returns exactly the split at "\n". -/
theorem hardLines_eq_split (cells : List VaxisModel.Model.Wrap.Cell) :
    hardLines cells = .ok (VaxisModel.Spec.WrapDraw.splitNl cells) := by
  unfold hardLines VaxisModel.Spec.WrapDraw.splitNl
  by_cases he : cells.isEmpty = true
  · have : cells = [] := List.isEmpty_iff.mp he
    subst this
    simp [hardAll, hardScan]
  · have hne : cells ≠ [] := by intro h0; subst h0; simp at he
    have he' : cells.isEmpty = false := by simpa using he
    have hlen := (VaxisModel.Lemmas.Wrap.hardLoop_spec cells []).2.2 hne
    obtain ⟨ls, h1, h2⟩ := hardLoop_split cells [] hne cells.length hlen
    simp only [hardAll, hardScan, he', Bool.false_eq_true, ↓reduceIte, h1, h2]

open VaxisModel.Model.Wrap in
theorem textHardLoop_eq_split : ∀ (cs cur : List VaxisModel.Model.Wrap.Cell), cs ≠ [] →
    textHardLoop cur cs = VaxisModel.Spec.WrapDraw.splitNlAux cur.reverse cs := by
  intro cs
  induction cs with
  | nil => intro cur h; exact absurd rfl h
  | cons c cs ih =>
    intro cur _
    cases cs with
    | nil =>
      by_cases hc : c.nl = true
      · simp [textHardLoop, VaxisModel.Spec.WrapDraw.splitNlAux, hc]
      · simp [textHardLoop, VaxisModel.Spec.WrapDraw.splitNlAux, hc]
    | cons d ds =>
      have e1 : textHardLoop cur (c :: d :: ds) =
          if c.nl then cur.reverse :: textHardLoop [] (d :: ds) else textHardLoop (c :: cur) (d :: ds) := by
        rw [textHardLoop]
      have e2 : VaxisModel.Spec.WrapDraw.splitNlAux cur.reverse (c :: d :: ds) =
          if c.nl then cur.reverse :: VaxisModel.Spec.WrapDraw.splitNlAux [] (d :: ds)
          else VaxisModel.Spec.WrapDraw.splitNlAux (cur.reverse ++ [c]) (d :: ds) := by
        rw [VaxisModel.Spec.WrapDraw.splitNlAux]; simp
      rw [e1, e2, ih [] (by simp), ih (c :: cur) (by simp), List.reverse_cons, List.reverse_nil]

open VaxisModel.Model.Wrap in
/-- `text.hardLines` (the lines of a `Text` that is not soft-wrapped) returns exactly the split of the
text at the hard line breaks — the same lines as `HardwrapScanner`. -/
theorem textHardLines_eq_split (cells : List VaxisModel.Model.Wrap.Cell) :
    textHardLines cells = VaxisModel.Spec.WrapDraw.splitNl cells := by
  unfold textHardLines VaxisModel.Spec.WrapDraw.splitNl
  cases cells with
  | nil => simp [textHardLoop]
  | cons c cs => simp only [List.isEmpty_cons, Bool.false_eq_true, ↓reduceIte]; exact textHardLoop_eq_split _ [] (by simp)

/-! ### the surface is wide enough for every line shown (up to `Max.Width`) -/

theorem lineWidth_toNat : ∀ (l : List Cell), (∀ c ∈ l, 0 ≤ c.w) → width l < 65536 → (lineWidth l).toNat = width l := by
  intro l
  induction l with
  | nil => intro _ _; rfl
  | cons c cs ih2 =>
    intro hp hs
    simp only [width, List.map_cons, List.sum_cons] at hs
    have := ih2 (fun c' hc' => hp c' (by simp [hc'])) (by simp only [width]; omega)
    simp only [lineWidth, width, List.map_cons, List.sum_cons]
    rw [UInt16.add_comm, u16_toNat _ _ (hp c (by simp)) (by rw [this]; simp only [width]; omega), this]
    simp only [width]; omega

theorem widthFold_ge (maxW : UInt16) : ∀ (lines : List (List Cell)) (w : UInt16), w ≤ maxW →
    (∀ l ∈ lines, (∀ c ∈ l, 0 ≤ c.w) ∧ width l < 65536) →
    w.toNat ≤ (widthFold maxW lines w).toNat ∧ (widthFold maxW lines w) ≤ maxW ∧
    ∀ l ∈ lines, min (width l) maxW.toNat ≤ (widthFold maxW lines w).toNat := by
  intro lines
  induction lines with
  | nil => intro w hw _; exact ⟨Nat.le_refl _, hw, by simp⟩
  | cons l ls ih =>
    intro w hw hall
    have hl := hall l (by simp)
    have hlw := lineWidth_toNat l hl.1 hl.2
    have hw' := UInt16.le_iff_toNat_le.1 hw
    simp only [widthFold]
    generalize hw1 : (if w < lineWidth l then lineWidth l else w) = w1
    have hw1n : w1.toNat = max w.toNat (width l) := by
      rw [← hw1]
      by_cases h1 : w < lineWidth l
      · have := UInt16.lt_iff_toNat_lt.1 h1; simp only [h1, ↓reduceIte]; omega
      · have := UInt16.le_iff_toNat_le.1 (UInt16.not_lt.1 h1); simp only [h1, ↓reduceIte]; omega
    generalize hw2 : (if w1 > maxW then maxW else w1) = w2
    have hw2n : w2.toNat = min w1.toNat maxW.toNat := by
      rw [← hw2]
      by_cases h1 : w1 > maxW
      · have := UInt16.lt_iff_toNat_lt.1 h1; simp only [h1, ↓reduceIte]; omega
      · have := UInt16.le_iff_toNat_le.1 (UInt16.not_lt.1 h1); simp only [h1, ↓reduceIte]; omega
    have hw2le : w2 ≤ maxW := by rw [UInt16.le_iff_toNat_le]; omega
    obtain ⟨i1, i2, i3⟩ := ih w2 hw2le (fun l' hl' => hall l' (by simp [hl']))
    refine ⟨by omega, i2, ?_⟩
    intro l' hl'
    rcases List.mem_cons.mp hl' with rfl | hl'
    · omega
    · exact i3 l' hl'

/-! ### every line is at most as wide as the text -/

open VaxisModel.Model.Wrap VaxisModel.Lemmas.Wrap in
theorem sumW_stripBreak_le (seg : List VaxisModel.Model.Wrap.Cell) : sumW (stripBreak seg) ≤ sumW seg := by
  obtain ⟨m, hm⟩ := stripBreak_eq_take seg
  rw [hm]; exact sumW_take_le seg m

open VaxisModel.Model.Wrap VaxisModel.Lemmas.Wrap in
theorem scanLoop_sumW {σ : Type} (o : σ → List VaxisModel.Model.Wrap.Cell → Nat × Bool × σ) (ini : σ) (width : Nat) :
    ∀ (fuel : Nat) (rest : List VaxisModel.Model.Wrap.Cell) (st : σ) (token : List VaxisModel.Model.Wrap.Cell) (w : Nat)
      (rest' : List VaxisModel.Model.Wrap.Cell) (st' : σ) (tok : List VaxisModel.Model.Wrap.Cell),
    scanLoop o ini width fuel rest st token w = .line rest' st' tok →
    sumW tok + sumW rest' ≤ sumW token + sumW rest := by
  intro fuel
  induction fuel with
  | zero => intro rest st token w rest' st' tok h; simp [scanLoop] at h
  | succ n ih =>
    intro rest st token w rest' st' tok h
    unfold scanLoop at h
    simp only [] at h
    generalize o st rest = r at h
    obtain ⟨k, br, st2⟩ := r
    simp only [] at h
    rw [drop_trim] at h
    have hsplit : sumW rest = sumW (trimRight (rest.take k)) + sumW (trailing (rest.take k)) + sumW (rest.drop k) := by
      conv => lhs; rw [← List.take_append_drop k rest, ← trim_append_trailing (rest.take k)]
      rw [sumW_append, sumW_append]
    split at h
    · simp only [Scan.line.injEq] at h
      obtain ⟨h1, _, h3⟩ := h
      subst h1 h3
      have hs := congrArg sumW (splitLong_append width (trimRight (rest.take k)) (!token.isEmpty) w)
      rw [sumW_append] at hs
      simp only [sumW_append]
      omega
    · split at h
      · simp only [Scan.line.injEq] at h
        obtain ⟨h1, _, h3⟩ := h
        subst h1 h3
        omega
      · split at h
        · simp only [Scan.line.injEq] at h
          obtain ⟨h1, _, h3⟩ := h
          subst h1 h3
          have h1 := sumW_stripBreak_le (rest.take k)
          have h2 : sumW (rest.take k) = sumW (trimRight (rest.take k)) + sumW (trailing (rest.take k)) := by
            conv => lhs; rw [← trim_append_trailing (rest.take k)]
            rw [sumW_append]
          simp only [sumW_append]
          omega
        · split at h
          · simp only [Scan.line.injEq] at h
            obtain ⟨h1, _, h3⟩ := h
            subst h1 h3
            simp only [sumW_append]
            omega
          · have := ih _ _ _ _ _ _ _ h
            simp only [sumW_append] at this
            omega

open VaxisModel.Model.Wrap VaxisModel.Lemmas.Wrap in
theorem scanAll_sumW {σ : Type} (o : σ → List VaxisModel.Model.Wrap.Cell → Nat × Bool × σ) (ini : σ) (width : Nat) :
    ∀ (fuel : Nat) (rest : List VaxisModel.Model.Wrap.Cell) (st : σ) (ls : List (List VaxisModel.Model.Wrap.Cell)),
    scanAll o ini width fuel rest st = .ok ls → ∀ l ∈ ls, sumW l ≤ sumW rest := by
  intro fuel
  induction fuel with
  | zero => intro rest st ls h; simp [scanAll] at h
  | succ n ih =>
    intro rest st ls h
    unfold scanAll at h
    split at h
    · cases h; intro l hl; simp at hl
    · cases h
    · rename_i rest' st' tok hs
      split at h
      · rename_i ls' hls
        cases h
        have h1 : sumW tok + sumW rest' ≤ sumW rest := by
          unfold scan at hs
          split at hs
          · cases hs
          · have := scanLoop_sumW o ini width _ _ _ _ _ _ _ _ hs
            simpa [sumW] using this
        intro l hl
        rcases List.mem_cons.mp hl with rfl | hl
        · omega
        · have := ih _ _ _ hls l hl
          omega
      · cases h

/-! ### prefix sums -/

open VaxisModel.Model.Wrap VaxisModel.Lemmas.Wrap in
theorem sumW_take_getElem (t : List VaxisModel.Model.Wrap.Cell) (j : Nat) (c : VaxisModel.Model.Wrap.Cell)
    (h : t[j]? = some c) : sumW (t.take j) + c.w ≤ sumW t := by
  induction t generalizing j with
  | nil => simp at h
  | cons a as ih =>
    cases j with
    | zero =>
      simp only [List.getElem?_cons_zero, Option.some.injEq] at h
      subst h
      simp [sumW]
    | succ j =>
      simp only [List.getElem?_cons_succ] at h
      have := ih j h
      simp only [List.take_succ_cons, sumW]
      omega

open VaxisModel.Model.Wrap VaxisModel.Lemmas.Wrap in
/-- `trimRight l` is a prefix of `l`. -/
theorem trimRight_prefix (l : List VaxisModel.Model.Wrap.Cell) (j : Nat) (c : VaxisModel.Model.Wrap.Cell)
    (h : (trimRight l)[j]? = some c) : l[j]? = some c ∧ l.take j = (trimRight l).take j := by
  have hl := trim_append_trailing l
  have hj : j < (trimRight l).length := by
    rcases Nat.lt_or_ge j (trimRight l).length with h' | h'
    · exact h'
    · rw [List.getElem?_eq_none h'] at h; cases h
  constructor
  · conv => lhs; rw [← hl]
    rw [List.getElem?_append_left hj]; exact h
  · conv => lhs; rw [← hl]
    rw [List.take_append_of_le_length (by omega)]

open VaxisModel.Model.Wrap in
theorem scanAll_width_zero {σ : Type} (o : σ → List VaxisModel.Model.Wrap.Cell → Nat × Bool × σ) (ini : σ)
    (fuel : Nat) (rest : List VaxisModel.Model.Wrap.Cell) (st : σ) (ls : List (List VaxisModel.Model.Wrap.Cell))
    (h : scanAll o ini 0 fuel rest st = .ok ls) : ls = [] := by
  cases fuel with
  | zero => simp [scanAll] at h
  | succ n =>
    have : scan o ini 0 rest st = .stop := by simp [scan]
    simp only [scanAll, this] at h
    cases h; rfl

end VaxisModel.Lemmas.WrapDraw
