import VaxisModel.Model.Wrap
import VaxisModel.Spec.Wrap
import VaxisModel.Lemmas.Wrap

/-! End-to-end lemmas for C16: the whole iteration `lines` cuts the text into consecutive *pieces*
(`cells = p₁ ++ p₂ ++ … ++ pₙ`, line `i` holds the non-whitespace graphemes of `pᵢ`), and the
position oracles of `Spec.Wrap` (`hardBreakOK`, `noNeedlessSplit`) hold of every such cutting whose
pieces have the structure the scanner guarantees. -/
namespace VaxisModel.Lemmas.Wrap
open VaxisModel.Model.Wrap
open VaxisModel.Spec.Wrap (nonWs content natWidth trimTrailing lineIndex termBetween hardBreakOK)

/-! ### `hardBreakOK` without arrays -/

/-- The check of `hardBreakOK` as a list recursion: `prev` is the line of the previous
non-whitespace grapheme, `idx` the lines of the following ones (missing entries read as 0, as
`Array.getD` does). -/
def hbRec (prev : Nat) : List Bool → List Nat → Bool
  | [], _ => true
  | t :: ts, idx => (!t || prev < idx.headD 0) && hbRec (idx.headD 0) ts idx.tail

theorem getD_tail (idx : List Nat) (i : Nat) : idx.tail.getD i 0 = idx.getD (i + 1) 0 := by
  cases idx <;> simp

theorem headD_eq_getD (idx : List Nat) : idx.headD 0 = idx.getD 0 0 := by
  cases idx <;> simp

theorem hb_range_eq (tb : List Bool) : ∀ (idx : List Nat),
    ((List.range tb.length).all fun i =>
      !(tb.getD i false) || decide (idx.getD i 0 < idx.getD (i + 1) 0)) =
    hbRec (idx.headD 0) tb idx.tail := by
  induction tb with
  | nil => intro idx; simp [hbRec]
  | cons t ts ih =>
    intro idx
    rw [List.length_cons, List.range_succ_eq_map, List.all_cons, List.all_map, hbRec]
    have h0 : idx.tail.headD 0 = idx.getD 1 0 := by rw [headD_eq_getD, getD_tail]
    rw [← ih idx.tail, h0, headD_eq_getD]
    congr 1
    apply List.all_congr rfl
    intro i
    simp only [Function.comp, Nat.succ_eq_add_one, List.getD_cons_succ, getD_tail]

theorem hardBreakOK_eq (input : List Cell) (ls : List (List Cell)) :
    hardBreakOK input ls =
      hbRec ((lineIndex ls).headD 0) (termBetween input false false) (lineIndex ls).tail := by
  unfold hardBreakOK
  have hA : ∀ (l : List Nat) (i : Nat), l.toArray.getD i 0 = l.getD i 0 := by intro l i; simp
  have hB : ∀ (l : List Bool) (i : Nat), l.toArray.getD i false = l.getD i false := by intro l i; simp
  simp only [List.size_toArray, hA, hB]
  exact hb_range_eq _ _

/-- `termBetween` and the check fused into one walk over the input: `prev` = line of the previous
non-whitespace grapheme (if any), `t` = a terminator was seen since. -/
def hbWalk : List Cell → Option Nat → Bool → List Nat → Bool
  | [], _, _, _ => true
  | c :: cs, prev, t, idx =>
    if nonWs c then
      (match prev with
       | some i => !t || decide (i < idx.headD 0)
       | none => true) && hbWalk cs (some (idx.headD 0)) false idx.tail
    else hbWalk cs prev (t || c.term) idx

theorem hbWalk_some : ∀ (cs : List Cell) (i : Nat) (t : Bool) (idx : List Nat),
    hbWalk cs (some i) t idx = hbRec i (termBetween cs true t) idx := by
  intro cs
  induction cs with
  | nil => intro i t idx; simp [hbWalk, termBetween, hbRec]
  | cons c cs ih =>
    intro i t idx
    unfold hbWalk termBetween
    by_cases hc : nonWs c = true
    · simp only [hc, ↓reduceIte, List.singleton_append, hbRec]
      rw [ih]
    · simp only [hc, Bool.false_eq_true, ↓reduceIte]
      rw [ih]

theorem hbWalk_none : ∀ (cs : List Cell) (t : Bool) (idx : List Nat),
    hbWalk cs none t idx = hbRec (idx.headD 0) (termBetween cs false t) idx.tail := by
  intro cs
  induction cs with
  | nil => intro t idx; simp [hbWalk, termBetween, hbRec]
  | cons c cs ih =>
    intro t idx
    unfold hbWalk termBetween
    by_cases hc : nonWs c = true
    · simp only [hc, ↓reduceIte, Bool.true_and, Bool.false_eq_true, List.nil_append]
      rw [hbWalk_some]
    · simp only [hc, Bool.false_eq_true, ↓reduceIte]
      rw [ih]

theorem hardBreakOK_walk (input : List Cell) (ls : List (List Cell)) :
    hardBreakOK input ls = hbWalk input none false (lineIndex ls) := by
  rw [hardBreakOK_eq, hbWalk_none]

/-! ### Pieces -/

/-- Line numbers of the non-whitespace graphemes of consecutive lines, the first line being `k`. -/
def lineIdxFrom : Nat → List (List Cell) → List Nat
  | _, [] => []
  | k, l :: ls => (content l).map (fun _ => k) ++ lineIdxFrom (k + 1) ls

theorem lineIndex_from (ls : List (List Cell)) (k : Nat) :
    ((ls.zipIdx k).map fun p => (content p.1).map fun _ => p.2).flatten = lineIdxFrom k ls := by
  induction ls generalizing k with
  | nil => rfl
  | cons l ls ih => simp only [List.zipIdx_cons, List.map_cons, List.flatten_cons, lineIdxFrom, ih]

theorem lineIndex_eq (ls : List (List Cell)) : lineIndex ls = lineIdxFrom 0 ls :=
  lineIndex_from ls 0

/-- A terminator occurs only as the last cell. -/
def TermLast (p : List Cell) : Prop := ∀ c ∈ p.dropLast, c.term = false

theorem TermLast.tail {c : Cell} {cs : List Cell} (h : TermLast (c :: cs)) : TermLast cs := by
  intro x hx
  cases cs with
  | nil => simp at hx
  | cons d ds =>
    apply h x
    rw [List.dropLast_cons_of_ne_nil (by simp)]
    exact List.mem_cons_of_mem _ hx

/-- Inside one piece (all of whose graphemes are on line `k`). -/
theorem hbWalk_piece : ∀ (p rest : List Cell) (prev : Option Nat) (t : Bool) (J : List Nat) (k : Nat),
    TermLast p →
    (∀ i, prev = some i → i < k ∨ (i = k ∧ t = false)) →
    (∀ prev' t', (∀ i, prev' = some i → i ≤ k) → hbWalk rest prev' t' J = true) →
    hbWalk (p ++ rest) prev t ((content p).map (fun _ => k) ++ J) = true := by
  intro p
  induction p with
  | nil =>
    intro rest prev t J k _ hprev hcont
    simp only [List.nil_append, content, List.filter_nil, List.map_nil]
    apply hcont
    intro i hi
    rcases hprev i hi with h | ⟨h, _⟩ <;> omega
  | cons c cs ih =>
    intro rest prev t J k hterm hprev hcont
    rw [List.cons_append]
    unfold hbWalk
    by_cases hc : nonWs c = true
    · have hcon : content (c :: cs) = c :: content cs := by simp [content, hc]
      simp only [hc, ↓reduceIte, hcon, List.map_cons, List.cons_append, List.headD_cons, List.tail_cons,
        Bool.and_eq_true]
      constructor
      · cases prev with
        | none => rfl
        | some i =>
          rcases hprev i rfl with h | ⟨_, h⟩
          · simp [h]
          · simp [h]
      · exact ih rest (some k) false J k hterm.tail (fun i hi => Or.inr ⟨(Option.some.inj hi).symm, rfl⟩) hcont
    · have hcon : content (c :: cs) = content cs := by simp [content, hc]
      simp only [hc, Bool.false_eq_true, ↓reduceIte, hcon]
      cases cs with
      | nil =>
        simp only [List.nil_append, content, List.filter_nil, List.map_nil]
        apply hcont
        intro i hi
        rcases hprev i hi with h | ⟨h, _⟩ <;> omega
      | cons d ds =>
        have hct : c.term = false := hterm c (by rw [List.dropLast_cons_of_ne_nil (by simp)]; simp)
        rw [hct, Bool.or_false]
        exact ih rest prev t J k hterm.tail hprev hcont

/-- All pieces: a text cut into pieces with terminators only at piece ends passes the hard-break
check, whatever precedes it on earlier lines. -/
theorem hbWalk_pieces : ∀ (ps : List (List Cell)) (k : Nat) (prev : Option Nat) (t : Bool),
    (∀ p ∈ ps, TermLast p) → (∀ i, prev = some i → i < k) →
    hbWalk ps.flatten prev t (lineIdxFrom k ps) = true := by
  intro ps
  induction ps with
  | nil => intro k prev t _ _; simp [hbWalk]
  | cons p ps ih =>
    intro k prev t hall hprev
    rw [List.flatten_cons, lineIdxFrom]
    apply hbWalk_piece p ps.flatten prev t _ k (hall p (by simp)) (fun i hi => Or.inl (hprev i hi))
    intro prev' t' hle
    exact ih (k + 1) prev' t' (fun q hq => hall q (by simp [hq])) (fun i hi => by have := hle i hi; omega)

/-- A terminator occurs only as the first or as the last cell. -/
def TermFL (p : List Cell) : Prop := ∀ c ∈ p.tail.dropLast, c.term = false

theorem TermLast.toFL {p : List Cell} (h : TermLast p) : TermFL p := by
  intro c hc
  cases p with
  | nil => simp at hc
  | cons a as =>
    cases as with
    | nil => simp at hc
    | cons b bs =>
      apply h c
      rw [List.dropLast_cons_of_ne_nil (by simp)]
      exact List.mem_cons_of_mem _ hc

/-- `hbWalk_piece` for a piece that may also *start* with a terminator: at the start of a piece
the previous non-whitespace grapheme is on an earlier line, so a leading terminator is harmless. -/
theorem hbWalk_pieceFL (p rest : List Cell) (prev : Option Nat) (t : Bool) (J : List Nat) (k : Nat)
    (hp : TermFL p) (hprev : ∀ i, prev = some i → i < k)
    (hcont : ∀ prev' t', (∀ i, prev' = some i → i ≤ k) → hbWalk rest prev' t' J = true) :
    hbWalk (p ++ rest) prev t ((content p).map (fun _ => k) ++ J) = true := by
  cases p with
  | nil => exact hbWalk_piece [] rest prev t J k (by intro c hc; simp at hc) (fun i hi => Or.inl (hprev i hi)) hcont
  | cons c cs =>
    have hcs : TermLast cs := hp
    rw [List.cons_append]
    unfold hbWalk
    by_cases hc : nonWs c = true
    · have hcon : content (c :: cs) = c :: content cs := by simp [content, hc]
      simp only [hc, ↓reduceIte, hcon, List.map_cons, List.cons_append, List.headD_cons, List.tail_cons,
        Bool.and_eq_true]
      constructor
      · cases prev with
        | none => rfl
        | some i => simp [hprev i rfl]
      · exact hbWalk_piece cs rest (some k) false J k hcs (fun i hi => Or.inr ⟨(Option.some.inj hi).symm, rfl⟩) hcont
    · have hcon : content (c :: cs) = content cs := by simp [content, hc]
      simp only [hc, Bool.false_eq_true, ↓reduceIte, hcon]
      exact hbWalk_piece cs rest prev (t || c.term) J k hcs (fun i hi => Or.inl (hprev i hi)) hcont

theorem hbWalk_piecesFL : ∀ (ps : List (List Cell)) (k : Nat) (prev : Option Nat) (t : Bool),
    (∀ p ∈ ps, TermFL p) → (∀ i, prev = some i → i < k) →
    hbWalk ps.flatten prev t (lineIdxFrom k ps) = true := by
  intro ps
  induction ps with
  | nil => intro k prev t _ _; simp [hbWalk]
  | cons p ps ih =>
    intro k prev t hall hprev
    rw [List.flatten_cons, lineIdxFrom]
    apply hbWalk_pieceFL p ps.flatten prev t _ k (hall p (by simp)) hprev
    intro prev' t' hle
    exact ih (k + 1) prev' t' (fun q hq => hall q (by simp [hq])) (fun i hi => by have := hle i hi; omega)

/-! ### The scanner cuts the text into such pieces -/

/-- The segment at `(st, rest)` contains a line terminator only as its last cell, and then it
carries the must-break flag (uniseg LB4/LB5/LB6: no break before, a mandatory break after a hard
line break). -/
def SegTermStrong {σ : Type} (o : σ → List Cell → Nat × Bool × σ) (st : σ) (rest : List Cell) : Prop :=
  (∀ c ∈ (rest.take (o st rest).1).dropLast, c.term = false) ∧
  (∀ c, (rest.take (o st rest).1).getLast? = some c → c.term = true → (o st rest).2.1 = true)

/-- What the hard-break statements need of the segmentation oracle.  `Fresh st rest` = "the state
`st` belongs to the position `rest`": it holds for the state the segmenter returned with the
remainder (`step`) and for the state `ini` = -1 ("unknown": uniseg then determines the class of the
first rune itself) at every position (`init`); segments of fresh queries are `strong`.  Since the
F116 fix (`s.state = -1` after a long-word split) text.go only makes fresh queries.  Asserted per
query by the harness for uniseg. -/
structure OracleTermW {σ : Type} (o : σ → List Cell → Nat × Bool × σ) (ini : σ)
    (Fresh : σ → List Cell → Prop) : Prop where
  init : ∀ rest, Fresh ini rest
  step : ∀ st rest, Fresh (o st rest).2.2 (rest.drop (o st rest).1)
  strong : ∀ st rest, Fresh st rest → SegTermStrong o st rest

/-- Every query is strong (true of the transcribed `richtext.firstLineSegment`, which has no state). -/
def OracleTerm {σ : Type} (o : σ → List Cell → Nat × Bool × σ) : Prop := ∀ st rest, SegTermStrong o st rest

theorem OracleTerm.toW {σ : Type} {o : σ → List Cell → Nat × Bool × σ} (h : OracleTerm o) (ini : σ) :
    OracleTermW o ini (fun _ _ => True) :=
  ⟨fun _ => trivial, fun _ _ => trivial, fun st rest _ => h st rest⟩

theorem richOracle_term (lb : Nat → Nat → Bool) : OracleTerm (richOracle lb) := by
  intro st rest
  exact firstLineSegment_term lb rest true (by intro h; cases h)

theorem seg_noterm {σ : Type} {o : σ → List Cell → Nat × Bool × σ} {st : σ} {rest : List Cell}
    (hs : SegTermStrong o st rest) (hbr : (o st rest).2.1 = false) :
    ∀ c ∈ rest.take (o st rest).1, c.term = false := by
  intro c hc
  obtain ⟨h1, h2⟩ := hs
  generalize rest.take (o st rest).1 = s at hc h1 h2
  by_cases hne : s = []
  · subst hne; simp at hc
  · rw [← List.dropLast_concat_getLast hne] at hc
    rcases List.mem_append.mp hc with h | h
    · exact h1 c h
    · simp only [List.mem_singleton] at h
      cases ht : c.term with
      | false => rfl
      | true =>
        have := h2 c (by rw [List.getLast?_eq_some_getLast hne, h]) ht
        rw [hbr] at this; cases this

/-- After whole segments without must-break from a fresh position: the scanner stands at a fresh
position and no cell consumed is a terminator. -/
theorem taken_prefix {σ : Type} {o : σ → List Cell → Nat × Bool × σ} {ini : σ} {Fresh : σ → List Cell → Prop}
    (hot : OracleTermW o ini Fresh)
    {st : σ} {rest : List Cell} {st1 : σ} {rest1 : List Cell} (hf : Fresh st rest)
    (h : Taken o st rest st1 rest1) :
    ∃ q, rest = q ++ rest1 ∧ (∀ c ∈ q, c.term = false) ∧ Fresh st1 rest1 := by
  induction h with
  | refl => exact ⟨[], rfl, by simp, hf⟩
  | @step st1 rest1 _ hbr ih =>
    obtain ⟨q, hq, hn, hf1⟩ := ih
    refine ⟨q ++ rest1.take (o st1 rest1).1, ?_, ?_, hot.step st1 rest1⟩
    · rw [List.append_assoc, List.take_append_drop]; exact hq
    · intro c hc
      rcases List.mem_append.mp hc with h | h
      · exact hn c h
      · exact seg_noterm (hot.strong st1 rest1 hf1) hbr c h

theorem termLast_append {q s : List Cell} (hq : ∀ c ∈ q, c.term = false) (hs : TermLast s) :
    TermLast (q ++ s) := by
  intro c hc
  by_cases hne : s = []
  · subst hne
    rw [List.append_nil] at hc
    exact hq c (List.dropLast_subset _ hc)
  · rw [List.dropLast_append_of_ne_nil hne] at hc
    rcases List.mem_append.mp hc with h | h
    · exact hq c h
    · exact hs c h

theorem termLast_prefix {t u s : List Cell} (h : t ++ u = s) (hs : TermLast s) : TermLast t := by
  intro c hc
  by_cases hne : u = []
  · subst hne; rw [List.append_nil] at h; subst h; exact hs c hc
  · apply hs c
    rw [← h, List.dropLast_append_of_ne_nil hne]
    exact List.mem_append_left _ (List.dropLast_subset _ hc)

/-- One `Scan` from a fresh position consumes a prefix `p` of `rest`; the line holds the
non-whitespace graphemes of `p`, `p` has a terminator at most as its last cell, and the next `Scan`
starts at a fresh position again. -/
theorem scan_piece {σ : Type} (o : σ → List Cell → Nat × Bool × σ) (ini : σ) (hok : OracleOK o)
    {Fresh : σ → List Cell → Prop} (hot : OracleTermW o ini Fresh) (width : Nat) (rest : List Cell) (st : σ)
    (hfr : Fresh st rest)
    (rest' : List Cell) (st' : σ) (tok : List Cell) (h : scan o ini width rest st = .line rest' st' tok) :
    ∃ p, rest = p ++ rest' ∧ content tok = content p ∧ TermLast p ∧ Fresh st' rest' := by
  have hcons : content tok ++ content rest' = content rest := by
    rcases scan_cases o ini width hok rest st with ⟨hs, _⟩ | ⟨_, r, s, t, h1, _, h3⟩
    · rw [hs] at h; cases h
    · rw [h1] at h; cases h; exact h3
  obtain ⟨st1, rest1, htk, hend⟩ := scan_structure o ini width rest st rest' st' tok h
  have fin : ∀ p, rest = p ++ rest' → TermLast p → Fresh st' rest' →
      ∃ p, rest = p ++ rest' ∧ content tok = content p ∧ TermLast p ∧ Fresh st' rest' := by
    intro p hp ht hf
    refine ⟨p, hp, ?_, ht, hf⟩
    rw [hp, content_append] at hcons
    exact List.append_cancel_right hcons
  obtain ⟨q, hq, hn, hf⟩ := taken_prefix hot hfr htk
  have hsegT : TermLast (rest1.take (o st1 rest1).1) := (hot.strong st1 rest1 hf).1
  cases hend with
  | left h1 h2 _ =>
    exact fin q (by rw [h1]; exact hq) (by
      have := termLast_append hn (s := []) (by intro c hc; simp at hc)
      simpa using this) (by rw [h1, h2]; exact hf)
  | last h1 h2 _ =>
    refine fin (q ++ rest1.take (o st1 rest1).1) ?_ (termLast_append hn hsegT) (by rw [h1, h2]; exact hot.step st1 rest1)
    rw [h1, List.append_assoc, List.take_append_drop]; exact hq
  | split _ h2 h3 =>
    obtain ⟨t, r, htr, hr⟩ := h3
    have hseg : t ++ (r ++ trailing (rest1.take (o st1 rest1).1)) = rest1.take (o st1 rest1).1 := by
      rw [← List.append_assoc, htr, trim_append_trailing]
    refine fin (q ++ t) ?_ (termLast_append hn (termLast_prefix hseg hsegT)) (by rw [h2]; exact hot.init rest')
    rw [hr, hq]
    conv => lhs; rw [← List.take_append_drop (o st1 rest1).1 rest1, ← hseg]
    simp only [List.append_assoc]

/-- The whole iteration: `rest` is the concatenation of pieces, line `i` holds the
non-whitespace graphemes of piece `i`. -/
theorem scanAll_pieces {σ : Type} (o : σ → List Cell → Nat × Bool × σ) (ini : σ) (hok : OracleOK o)
    {Fresh : σ → List Cell → Prop} (hot : OracleTermW o ini Fresh) (width : Nat) (hw : 0 < width) :
    ∀ (fuel : Nat) (rest : List Cell) (st : σ) (ls : List (List Cell)), Fresh st rest →
    scanAll o ini width fuel rest st = .ok ls →
    ∃ ps, rest = ps.flatten ∧ (∀ k, lineIdxFrom k ls = lineIdxFrom k ps) ∧ ∀ p ∈ ps, TermLast p := by
  intro fuel
  induction fuel with
  | zero => intro rest st ls _ h; simp [scanAll] at h
  | succ n ih =>
    intro rest st ls hfr h
    unfold scanAll at h
    split at h
    · rename_i hs
      cases h
      rcases scan_cases o ini width hok rest st with ⟨_, hz⟩ | ⟨_, r, s, t, h1, _, _⟩
      · rcases hz with hz | hz
        · exact ⟨[], by simp [hz], fun _ => rfl, by simp⟩
        · omega
      · rw [h1] at hs; cases hs
    · cases h
    · rename_i rest' st' tok hs
      split at h
      · rename_i ls' hls
        cases h
        obtain ⟨p, hp, hc, ht, hf'⟩ := scan_piece o ini hok hot width rest st hfr rest' st' tok hs
        obtain ⟨ps, hps, hidx, hall⟩ := ih rest' st' ls' hf' hls
        refine ⟨p :: ps, by rw [List.flatten_cons, ← hps]; exact hp, ?_, ?_⟩
        · intro k; simp only [lineIdxFrom, hc, hidx]
        · intro x hx
          rcases List.mem_cons.mp hx with rfl | hx
          · exact ht
          · exact hall x hx
      · cases h

/-- **`hardBreakOK` for the whole iteration**, for every text, positive width and oracle. -/
theorem lines_hardBreakOK {σ : Type} (o : σ → List Cell → Nat × Bool × σ) (ini : σ) (hok : OracleOK o)
    {Fresh : σ → List Cell → Prop} (hot : OracleTermW o ini Fresh) (width : Nat) (hw : 0 < width)
    (cells : List Cell) (st0 : σ) (hf0 : Fresh st0 cells)
    (ls : List (List Cell)) (h : lines o ini width cells st0 = .ok ls) : hardBreakOK cells ls = true := by
  obtain ⟨ps, hps, hidx, hall⟩ := scanAll_pieces o ini hok hot width hw _ cells st0 ls hf0 h
  rw [hardBreakOK_walk, lineIndex_eq, hidx 0, hps]
  exact hbWalk_pieces ps 0 none false hall (by intro i hi; cases hi)

/-! ### No emitted line contains a line terminator -/

theorem trimRight_last_nonsp (seg : List Cell) (l : Cell) (h : (trimRight seg).getLast? = some l) :
    l.sp = false := by
  unfold trimRight at h
  rw [List.getLast?_reverse] at h
  have := List.head?_dropWhile_not (fun c : Cell => c.sp) seg.reverse
  rw [h] at this
  simpa using this

theorem word_noterm (seg : List Cell) (hT : TermLast seg) (hsp : ∀ c ∈ seg, c.term = true → c.sp = true) :
    ∀ c ∈ trimRight seg, c.term = false := by
  intro c hc
  have hpre := trim_append_trailing seg
  have hTw : TermLast (trimRight seg) := termLast_prefix hpre hT
  have hne : trimRight seg ≠ [] := by intro h0; rw [h0] at hc; simp at hc
  rw [← List.dropLast_concat_getLast hne] at hc
  rcases List.mem_append.mp hc with h | h
  · exact hTw c h
  · simp only [List.mem_singleton] at h
    have hl := trimRight_last_nonsp seg c (by rw [List.getLast?_eq_some_getLast hne, h])
    cases ht : c.term with
    | false => rfl
    | true =>
      have hmem : c ∈ seg := by rw [← hpre]; exact List.mem_append_left _ (by rw [h]; exact List.getLast_mem hne)
      rw [hsp c hmem ht] at hl; cases hl

theorem stripBreak_noterm (seg : List Cell) (hT : TermLast seg) : ∀ c ∈ stripBreak seg, c.term = false := by
  intro c hc
  unfold stripBreak at hc
  cases hl : seg.getLast? with
  | none => rw [hl] at hc; simp only at hc; have : seg = [] := by simpa using hl
            subst this; simp at hc
  | some l =>
    rw [hl] at hc
    simp only at hc
    have hne : seg ≠ [] := by intro h0; subst h0; simp at hl
    have hl' : seg.getLast hne = l := by
      rw [List.getLast?_eq_some_getLast hne] at hl; exact Option.some.inj hl
    split at hc
    · exact hT c hc
    · rename_i hnt
      rw [← List.dropLast_concat_getLast hne] at hc
      rcases List.mem_append.mp hc with h | h
      · exact hT c h
      · simp only [List.mem_singleton] at h
        rw [h, hl']; simpa using hnt

theorem scanLoop_noterm {σ : Type} (o : σ → List Cell → Nat × Bool × σ) (ini : σ)
    {Fresh : σ → List Cell → Prop} (hot : OracleTermW o ini Fresh) (width : Nat) :
    ∀ (fuel : Nat) (rest : List Cell) (st : σ) (token : List Cell) (w : Nat)
      (rest' : List Cell) (st' : σ) (tok : List Cell), Fresh st rest →
    (∀ c ∈ rest, c.term = true → c.sp = true) → (∀ c ∈ token, c.term = false) →
    scanLoop o ini width fuel rest st token w = .line rest' st' tok → ∀ c ∈ tok, c.term = false := by
  intro fuel
  induction fuel with
  | zero => intro rest st token w rest' st' tok _ _ _ h; simp [scanLoop] at h
  | succ n ih =>
    intro rest st token w rest' st' tok hfr hsp htok h
    have hS := hot.strong st rest hfr
    have hstep := hot.step st rest
    have hsegsp : ∀ c ∈ rest.take (o st rest).1, c.term = true → c.sp = true :=
      fun c hc => hsp c (List.mem_of_mem_take hc)
    have hword := word_noterm _ hS.1 hsegsp
    have hnt := fun hbr => seg_noterm hS hbr
    unfold scanLoop at h
    simp only [] at h
    rw [drop_trim] at h
    split at h
    · simp only [Scan.line.injEq] at h
      obtain ⟨_, _, h3⟩ := h
      subst h3
      intro c hc
      rcases List.mem_append.mp hc with hc | hc
      · exact htok c hc
      · apply hword c
        rw [← splitLong_append width (trimRight (rest.take (o st rest).1)) (!token.isEmpty) w]
        exact List.mem_append_left _ hc
    · split at h
      · simp only [Scan.line.injEq] at h
        obtain ⟨_, _, h3⟩ := h
        subst h3
        exact htok
      · split at h
        · simp only [Scan.line.injEq] at h
          obtain ⟨_, _, h3⟩ := h
          subst h3
          intro c hc
          rcases List.mem_append.mp hc with hc | hc
          · exact htok c hc
          · exact stripBreak_noterm _ hS.1 c hc
        · rename_i hbr
          have hbr' : (o st rest).2.1 = false := by simpa using hbr
          split at h
          · simp only [Scan.line.injEq] at h
            obtain ⟨_, _, h3⟩ := h
            subst h3
            intro c hc
            rcases List.mem_append.mp hc with hc | hc
            · exact htok c hc
            · exact hword c hc
          · refine ih _ _ _ _ _ _ _ hstep (fun c hc => hsp c (List.mem_of_mem_drop hc)) ?_ h
            intro c hc
            rcases List.mem_append.mp hc with hc | hc
            · rcases List.mem_append.mp hc with hc | hc
              · exact htok c hc
              · exact hword c hc
            · apply hnt hbr' c
              rw [← trim_append_trailing (rest.take (o st rest).1)]
              exact List.mem_append_right _ hc

open VaxisModel.Spec.Wrap (noTermInLines) in
theorem scanAll_noterm {σ : Type} (o : σ → List Cell → Nat × Bool × σ) (ini : σ) (hok : OracleOK o)
    {Fresh : σ → List Cell → Prop} (hot : OracleTermW o ini Fresh) (width : Nat) :
    ∀ (fuel : Nat) (rest : List Cell) (st : σ) (ls : List (List Cell)), Fresh st rest →
    (∀ c ∈ rest, c.term = true → c.sp = true) →
    scanAll o ini width fuel rest st = .ok ls → noTermInLines ls = true := by
  intro fuel
  induction fuel with
  | zero => intro rest st ls _ _ h; simp [scanAll] at h
  | succ n ih =>
    intro rest st ls hfr hsp h
    unfold scanAll at h
    split at h
    · cases h; rfl
    · cases h
    · rename_i rest' st' tok hs
      split at h
      · rename_i ls' hls
        cases h
        obtain ⟨p, hp, _, _, hf'⟩ := scan_piece o ini hok hot width rest st hfr rest' st' tok hs
        have hsp' : ∀ c ∈ rest', c.term = true → c.sp = true :=
          fun c hc => hsp c (by rw [hp]; exact List.mem_append_right _ hc)
        have h1 : ∀ c ∈ tok, c.term = false := by
          unfold scan at hs
          split at hs
          · cases hs
          · exact scanLoop_noterm o ini hot width _ _ _ _ _ _ _ _ hfr hsp (by simp) hs
        have h2 := ih rest' st' ls' hf' hsp' hls
        simp only [noTermInLines, List.all_cons, Bool.and_eq_true, List.all_eq_true] at h2 ⊢
        refine ⟨fun c hc => by simp [h1 c hc], h2⟩
      · cases h

end VaxisModel.Lemmas.Wrap
