import VaxisModel.Gen.WrapFacts
import VaxisModel.Model.Wrap

/-! Reading the extracted facts of `Gen/WrapFacts.lean` (C16).

The extractor emits the `for { … }` body of both `SoftwrapScanner.Scan` functions and the long-word
loop as lists of `(guard, actions)` steps over normalised *strings*.  This file gives those strings a
meaning: `parseStep` turns a step into a small AST (`PStep`: comparisons over the accumulators,
assignments to `w`, appends to token / rest, exits); `runSteps` executes such a list symbolically
(arithmetic on `w`, a log of the appends, the exit taken).  `Props/C16Facts.lean` then states that the
*extracted* chain parses to the chain written here, that executing it takes the branches of
`Model.Wrap.scanLoop` / `splitLong`, and that `scanLoop` is the replay of that execution. -/
namespace VaxisModel.Lemmas.WrapFacts
open VaxisModel.Gen.WrapFacts
open VaxisModel.Model.Wrap

/-- Operands of the guards and sums. -/
inductive Opd where
  | w | wordLen | spaceLen | width
  /-- `E.Width`, the width of the loop element -/
  | ew
  /-- `len(R.token)` -/
  | tokLen
  | zero
  | add (a b : Opd)
  deriving DecidableEq, Repr

inductive Cmp where
  | gt | ge | lt | le | eq | ne
  deriving DecidableEq, Repr

inductive Cond where
  | cmp (a : Opd) (c : Cmp) (b : Opd)
  /-- a Boolean variable (`br`) -/
  | flag (name : String)
  deriving DecidableEq, Repr

inductive Conn where
  | always | one | all | any
  deriving DecidableEq, Repr

inductive Act where
  | setW (o : Opd)
  | addW (o : Opd)
  /-- `R.token = append(R.token, x)` -/
  | tok (x : String)
  /-- `R.rest = x` -/
  | restSet (x : String)
  /-- `R.rest = append(R.rest, x)` -/
  | restApp (x : String)
  /-- `return true` -/
  | ret
  /-- `continue` -/
  | cont
  /-- the long-word branch -/
  | long
  /-- removal of the trailing hard break from `seg` -/
  | strip
  | other (s : String)
  deriving DecidableEq, Repr

structure PStep where
  conn : Conn
  conds : List Cond
  acts : List Act
  deriving DecidableEq, Repr

/-- The comparison a Go operator token denotes. -/
def cmpOf : String → Option Cmp
  | ">" => some .gt
  | ">=" => some .ge
  | "<" => some .lt
  | "<=" => some .le
  | "==" => some .eq
  | "!=" => some .ne
  | _ => none

def opdOf : String → Option Opd
  | "w" => some .w
  | "wordLen" => some .wordLen
  | "spaceLen" => some .spaceLen
  | "width" => some .width
  | "E.Width" => some .ew
  | "len(R.token)" => some .tokLen
  | "0" => some .zero
  | "(w+wordLen)" => some (.add .w .wordLen)
  | "(w+spaceLen)" => some (.add .w .spaceLen)
  | "(w+E.Width)" => some (.add .w .ew)
  | _ => none

def condOf (a : Atom) : Option Cond :=
  if a.2.1 = "" then
    if a.2.2 = "" then some (.flag a.1) else none
  else do
    let x ← opdOf a.1
    let c ← cmpOf a.2.1
    let y ← opdOf a.2.2
    pure (.cmp x c y)

def connOf : String → Option Conn
  | "always" => some .always
  | "" => some .one
  | "&&" => some .all
  | "||" => some .any
  | _ => none

def actOf : String → Act
  | "w=width" => .setW .width
  | "w+=wordLen" => .addW .wordLen
  | "w+=spaceLen" => .addW .spaceLen
  | "w+=E.Width" => .addW .ew
  | "return true" => .ret
  | "continue" => .cont
  | "LONG" => .long
  | "STRIPBREAK" => .strip
  | "R.rest=rest" => .restSet "rest"
  | "R.rest=EMPTY" => .restSet "EMPTY"
  | "R.rest=append(R.rest,E)" => .restApp "E"
  | "R.rest=append(R.rest,trSpace...)" => .restApp "trSpace"
  | "R.rest=append(R.rest,rest...)" => .restApp "rest"
  | "R.token=append(R.token,E)" => .tok "E"
  | "R.token=append(R.token,seg...)" => .tok "seg"
  | "R.token=append(R.token,word...)" => .tok "word"
  | "R.token=append(R.token,trSpace...)" => .tok "trSpace"
  | s => .other s

def parseStep (s : Step) : Option PStep := do
  let c ← connOf s.1.1
  let cs ← s.1.2.mapM condOf
  pure ⟨c, cs, s.2.map actOf⟩

def parseSteps (ss : List Step) : Option (List PStep) := ss.mapM parseStep

/-- Steps that only assign `R.state` (text.go has one, richtext has no state). -/
def dropState (ss : List Step) : List Step :=
  ss.filter fun s => !(s.1.1 == "always" && s.2 == ["R.state=state"])

/-! ### Symbolic execution -/

structure Env where
  w : Nat
  wordLen : Nat
  spaceLen : Nat
  width : Nat
  ew : Nat
  tokLen : Nat
  deriving Repr

def Opd.eval (e : Env) : Opd → Nat
  | .w => e.w
  | .wordLen => e.wordLen
  | .spaceLen => e.spaceLen
  | .width => e.width
  | .ew => e.ew
  | .tokLen => e.tokLen
  | .zero => 0
  | .add a b => a.eval e + b.eval e

def Cmp.eval : Cmp → Nat → Nat → Bool
  | .gt, a, b => decide (a > b)
  | .ge, a, b => decide (a ≥ b)
  | .lt, a, b => decide (a < b)
  | .le, a, b => decide (a ≤ b)
  | .eq, a, b => decide (a = b)
  | .ne, a, b => decide (a ≠ b)

def Cond.eval (e : Env) (flag : String → Bool) : Cond → Bool
  | .cmp a c b => c.eval (a.eval e) (b.eval e)
  | .flag n => flag n

def guardHolds (e : Env) (flag : String → Bool) (s : PStep) : Bool :=
  match s.conn with
  | .always => true
  | .one => s.conds.all (·.eval e flag)
  | .all => s.conds.all (·.eval e flag)
  | .any => s.conds.any (·.eval e flag)

/-- Result of executing steps: the value of `w`, the appends / assignments to token and rest in
order, and the exit taken (`none` = fell through the end). -/
structure Trace where
  w : Nat
  log : List Act
  exit : Option Act
  deriving DecidableEq, Repr

def runActs (e : Env) (log : List Act) : List Act → Trace
  | [] => ⟨e.w, log, none⟩
  | .setW o :: as => runActs { e with w := o.eval e } log as
  | .addW o :: as => runActs { e with w := e.w + o.eval e } log as
  | .ret :: _ => ⟨e.w, log, some .ret⟩
  | .cont :: _ => ⟨e.w, log, some .cont⟩
  | .long :: _ => ⟨e.w, log, some .long⟩
  | a :: as => runActs e (log ++ [a]) as

def runSteps (flag : String → Bool) : Env → List Act → List PStep → Trace
  | e, log, [] => ⟨e.w, log, none⟩
  | e, log, s :: ss =>
    if guardHolds e flag s then
      let t := runActs e log s.acts
      match t.exit with
      | some _ => t
      | none => runSteps flag { e with w := t.w } t.log ss
    else runSteps flag e log ss

/-! ### The chains the model transcribes -/

/-- The loop body of `Scan` from the long-word test on (`Model.Wrap.scanLoop`):
```
if wordLen > width then … splitLong …
else if w + wordLen > width then .line rest st token
else if br then .line rest' r.2.2 (token ++ stripBreak seg)
else let token := token ++ word; let w := w + wordLen
     if w + spaceLen > width then .line rest' r.2.2 token
     else scanLoop … rest' r.2.2 (token ++ trSpace) (w + spaceLen)
``` -/
def loopChain : List PStep := [
  ⟨.one, [.cmp .wordLen .gt .width], [.long]⟩,
  ⟨.one, [.cmp (.add .w .wordLen) .gt .width], [.ret]⟩,
  ⟨.always, [], [.restSet "rest"]⟩,
  ⟨.one, [.flag "br"], [.strip, .tok "seg", .ret]⟩,
  ⟨.always, [], [.tok "word"]⟩,
  ⟨.always, [], [.addW .wordLen]⟩,
  ⟨.one, [.cmp (.add .w .spaceLen) .gt .width], [.ret]⟩,
  ⟨.always, [], [.tok "trSpace"]⟩,
  ⟨.always, [], [.addW .spaceLen]⟩]

/-- One iteration of the long-word loop (`Model.Wrap.splitLong`):
```
let w := if ne && w + c.w > width then width else w
if w ≥ width then … (r.1, c :: r.2)             -- to rest, `ne`, `w` unchanged
else … splitLong width true (w + c.w) cs         -- to token
``` -/
def longChain : List PStep := [
  ⟨.all, [.cmp .tokLen .gt .zero, .cmp (.add .w .ew) .gt .width], [.setW .width]⟩,
  ⟨.one, [.cmp .w .ge .width], [.restApp "E", .cont]⟩,
  ⟨.always, [], [.tok "E"]⟩,
  ⟨.always, [], [.addW .ew]⟩]

/-- What executing `loopChain` yields, written as the `if` chain of `scanLoop`. -/
def loopOutcome (e : Env) (br : Bool) : Trace :=
  if e.wordLen > e.width then ⟨e.w, [], some .long⟩
  else if e.w + e.wordLen > e.width then ⟨e.w, [], some .ret⟩
  else if br then ⟨e.w, [.restSet "rest", .strip, .tok "seg"], some .ret⟩
  else if e.w + e.wordLen + e.spaceLen > e.width then
    ⟨e.w + e.wordLen, [.restSet "rest", .tok "word"], some .ret⟩
  else ⟨e.w + e.wordLen + e.spaceLen, [.restSet "rest", .tok "word", .tok "trSpace"], none⟩

theorem run_loopChain (e : Env) (br : Bool) :
    runSteps (fun _ => br) e [] loopChain = loopOutcome e br := by
  unfold loopOutcome
  by_cases h1 : e.wordLen > e.width
  · simp [loopChain, runSteps, guardHolds, Cond.eval, Cmp.eval, Opd.eval, runActs, h1]
  · by_cases h2 : e.w + e.wordLen > e.width
    · simp [loopChain, runSteps, guardHolds, Cond.eval, Cmp.eval, Opd.eval, runActs, h1, h2]
    · cases br
      · by_cases h3 : e.w + e.wordLen + e.spaceLen > e.width
        · simp [loopChain, runSteps, guardHolds, Cond.eval, Cmp.eval, Opd.eval, runActs, h1, h2, h3]
        · simp [loopChain, runSteps, guardHolds, Cond.eval, Cmp.eval, Opd.eval, runActs, h1, h2, h3]
      · simp [loopChain, runSteps, guardHolds, Cond.eval, Cmp.eval, Opd.eval, runActs, h1, h2]

/-- What one iteration of `longChain` yields, written as the body of `splitLong`. -/
def longOutcome (e : Env) : Trace :=
  let w := if (decide (e.tokLen > 0) && decide (e.w + e.ew > e.width)) then e.width else e.w
  if w ≥ e.width then ⟨w, [.restApp "E"], some .cont⟩
  else ⟨w + e.ew, [.tok "E"], none⟩

theorem run_longChain (e : Env) (flag : String → Bool) :
    runSteps flag e [] longChain = longOutcome e := by
  unfold longOutcome
  by_cases h1 : e.tokLen > 0 <;> by_cases h2 : e.w + e.ew > e.width
  · simp [longChain, runSteps, guardHolds, Cond.eval, Cmp.eval, Opd.eval, runActs, h1, h2]
  · by_cases h3 : e.w ≥ e.width <;>
      simp [longChain, runSteps, guardHolds, Cond.eval, Cmp.eval, Opd.eval, runActs, h1, h2, h3]
  · by_cases h3 : e.w ≥ e.width <;>
      simp [longChain, runSteps, guardHolds, Cond.eval, Cmp.eval, Opd.eval, runActs, h1, h2, h3]
  · by_cases h3 : e.w ≥ e.width <;>
      simp [longChain, runSteps, guardHolds, Cond.eval, Cmp.eval, Opd.eval, runActs, h1, h2, h3]

/-! ### Replaying a trace on the model's values -/

/-- The cells a logged append stands for, given the values of the Go locals. -/
def tokOf (seg word trSpace : List Cell) : Bool → List Act → List Cell
  | _, [] => []
  | _, .strip :: as => tokOf seg word trSpace true as
  | stripped, .tok "seg" :: as =>
    (if stripped then stripBreak seg else seg) ++ tokOf seg word trSpace stripped as
  | stripped, .tok "word" :: as => word ++ tokOf seg word trSpace stripped as
  | stripped, .tok "trSpace" :: as => trSpace ++ tokOf seg word trSpace stripped as
  | stripped, _ :: as => tokOf seg word trSpace stripped as

/-- `scanLoop`, one iteration, as the replay of the execution of `loopChain`: `R.rest = rest` (and in
text.go `R.state = state`, the statement right after it) happened iff it is in the log; the long-word
branch leaves the state `ini` (text.go: `s.state = -1`, F116 fix; richtext has no state). -/
def replayLoop {σ : Type} (o : σ → List Cell → Nat × Bool × σ) (ini : σ) (width fuel : Nat)
    (rest : List Cell) (st : σ) (token : List Cell) (w : Nat) : Scan σ :=
  let r := o st rest
  let seg := rest.take r.1
  let rest' := rest.drop r.1
  let word := trimRight seg
  let trSpace := seg.drop word.length
  let t := runSteps (fun _ => r.2.1) ⟨w, sumW word, sumW trSpace, width, 0, token.length⟩ [] loopChain
  let assigned := t.log.contains (.restSet "rest")
  let tok := token ++ tokOf seg word trSpace false t.log
  match t.exit with
  | some .long =>
    let sp := splitLong width (!token.isEmpty) w word
    .line (sp.2 ++ trSpace ++ rest') ini (token ++ sp.1)
  | some _ => .line (if assigned then rest' else rest) (if assigned then r.2.2 else st) tok
  | none => scanLoop o ini width fuel rest' r.2.2 tok t.w

theorem scanLoop_eq_replay {σ : Type} (o : σ → List Cell → Nat × Bool × σ) (ini : σ) (width fuel : Nat)
    (rest : List Cell) (st : σ) (token : List Cell) (w : Nat) :
    scanLoop o ini width (fuel + 1) rest st token w = replayLoop o ini width fuel rest st token w := by
  unfold replayLoop
  simp only [run_loopChain, loopOutcome]
  rw [scanLoop]
  simp only []
  by_cases h1 : sumW (trimRight (List.take (o st rest).1 rest)) > width
  · simp [h1]
  · by_cases h2 : w + sumW (trimRight (List.take (o st rest).1 rest)) > width
    · simp [h1, h2, tokOf]
    · cases hb : (o st rest).2.1
      · by_cases h3 : w + sumW (trimRight (List.take (o st rest).1 rest)) +
            sumW (List.drop (trimRight (List.take (o st rest).1 rest)).length (List.take (o st rest).1 rest)) > width
        · simp [h1, h2, h3, tokOf]
        · simp [h1, h2, h3, tokOf]
      · simp [h1, h2, tokOf]

/-- One step of `splitLong` as the replay of `longChain` (`ne` = `len(R.token) > 0`, read through
any positive length). -/
theorem splitLong_eq_replay (width : Nat) (ne : Bool) (w : Nat) (c : Cell) (cs : List Cell)
    (flag : String → Bool) :
    let t := runSteps flag ⟨w, 0, 0, width, c.w, if ne then 1 else 0⟩ [] longChain
    splitLong width ne w (c :: cs) =
      match t.exit with
      | some _ => let r := splitLong width ne t.w cs; (r.1, c :: r.2)
      | none => let r := splitLong width true t.w cs; (c :: r.1, r.2) := by
  simp only [run_longChain, longOutcome]
  rw [splitLong]
  cases ne
  · by_cases h3 : w ≥ width <;> simp [h3]
  · by_cases h2 : w + c.w > width
    · simp [h2]
    · by_cases h3 : w ≥ width <;> simp [h2, h3]

/-! ### The `uint16` comparisons of the row loops -/

def Cmp.eval16 : Cmp → UInt16 → UInt16 → Bool
  | .gt, a, b => decide (a > b)
  | .ge, a, b => decide (a ≥ b)
  | .lt, a, b => decide (a < b)
  | .le, a, b => decide (a ≤ b)
  | .eq, a, b => decide (a = b)
  | .ne, a, b => decide (a ≠ b)

/-- The comparison `lhs op rhs` guarding step `i`, if that step is a single comparison of exactly
these operands. -/
def cmpAt (ss : List Step) (i : Nat) (lhs rhs : String) : Option Cmp :=
  match ss[i]? with
  | some (("", [(l, op, r)]), _) => if l = lhs ∧ r = rhs then cmpOf op else none
  | _ => none

end VaxisModel.Lemmas.WrapFacts
