import VaxisModel.Model.WrapHeap

/-! Frame lemmas for the heap-level scanner: a `Scan` writes only into arrays it allocated itself. -/
namespace VaxisModel.Lemmas.WrapHeap
open VaxisModel.Model.Wrap VaxisModel.Model.WrapHeap

/-- A slice the scanner may append to without touching an array that existed before (`n0` arrays):
it is full (any non-empty `append` allocates) or its array is younger; and its array exists. -/
def Good (n0 : Nat) (h : Heap) (s : Slice) : Prop := (s.len = s.cap ∨ n0 ≤ s.arr) ∧ s.arr < h.length

/-- The heap only grew and the first `n0` arrays are what they were. -/
def Frame (n0 : Nat) (h h' : Heap) : Prop := h.length ≤ h'.length ∧ ∀ i, i < n0 → arrOf h' i = arrOf h i

theorem Frame.refl (n0 : Nat) (h : Heap) : Frame n0 h h := ⟨Nat.le_refl _, fun _ _ => rfl⟩

theorem Frame.trans {n0 : Nat} {h h' h'' : Heap} (a : Frame n0 h h') (b : Frame n0 h' h'') : Frame n0 h h'' :=
  ⟨Nat.le_trans a.1 b.1, fun i hi => (b.2 i hi).trans (a.2 i hi)⟩

theorem Good.mono {n0 : Nat} {h h' : Heap} {s : Slice} (g : Good n0 h s) (hl : h.length ≤ h'.length) : Good n0 h' s :=
  ⟨g.1, Nat.lt_of_lt_of_le g.2 hl⟩

theorem good_empty (n0 : Nat) (h : Heap) (hne : 0 < h.length) : Good n0 h emptySlice := ⟨Or.inl rfl, hne⟩

/-- `append` on a good slice: frame kept, result good. -/
theorem append_frame (grow : Nat → Nat → Nat) (h : Heap) (s : Slice) (xs : List Cell) (n0 : Nat)
    (hn : n0 ≤ h.length) (g : Good n0 h s) :
    Frame n0 h (append grow h s xs).1 ∧ Good n0 (append grow h s xs).1 (append grow h s xs).2 := by
  unfold append
  by_cases hx : xs.isEmpty = true
  · simp only [hx, ↓reduceIte]; exact ⟨Frame.refl _ _, g⟩
  · simp only [hx, Bool.false_eq_true, ↓reduceIte]
    have hpos : 0 < xs.length := by
      cases xs with
      | nil => simp at hx
      | cons _ _ => simp
    by_cases hc : s.len + xs.length ≤ s.cap
    · simp only [hc, ↓reduceIte]
      have harr : n0 ≤ s.arr := by
        rcases g.1 with h1 | h1
        · omega
        · exact h1
      refine ⟨⟨by simp, fun i hi => ?_⟩, ⟨Or.inr harr, by simpa using g.2⟩⟩
      simp only [arrOf, List.getD_eq_getElem?_getD]
      rw [List.getElem?_set_ne (by omega)]
    · simp only [hc, ↓reduceIte]
      refine ⟨⟨by simp, fun i hi => ?_⟩, ⟨Or.inr hn, by simp⟩⟩
      simp only [arrOf, List.getD_eq_getElem?_getD]
      have : i < h.length := by omega
      rw [List.getElem?_append_left this]

theorem splitLongH_frame (grow : Nat → Nat → Nat) (width : Nat) (word : Slice) (n0 : Nat) :
    ∀ (n i : Nat) (h : Heap) (rest token : Slice) (w : Nat), n0 ≤ h.length → Good n0 h rest → Good n0 h token →
      Frame n0 h (splitLongH grow width word i n h rest token w).1 ∧
      Good n0 (splitLongH grow width word i n h rest token w).1 (splitLongH grow width word i n h rest token w).2.1 ∧
      Good n0 (splitLongH grow width word i n h rest token w).1 (splitLongH grow width word i n h rest token w).2.2 := by
  intro n
  induction n with
  | zero => intro i h rest token w _ gr gt; exact ⟨Frame.refl _ _, gr, gt⟩
  | succ n ih =>
    intro i h rest token w hn gr gt
    simp only [splitLongH]
    split
    · obtain ⟨f1, g1⟩ := append_frame grow h rest [(arrOf h word.arr).getD (word.off + i) default] n0 hn gr
      obtain ⟨f2, g2, g3⟩ := ih (i + 1) _ _ token _ (Nat.le_trans hn f1.1) g1 (gt.mono f1.1)
      exact ⟨f1.trans f2, g2, g3⟩
    · obtain ⟨f1, g1⟩ := append_frame grow h token [(arrOf h word.arr).getD (word.off + i) default] n0 hn gt
      obtain ⟨f2, g2, g3⟩ := ih (i + 1) _ rest _ _ (Nat.le_trans hn f1.1) (gr.mono f1.1) g1
      exact ⟨f1.trans f2, g2, g3⟩

theorem scanLoopH_frame (grow : Nat → Nat → Nat) (o : List Cell → Nat × Bool) (width : Nat) (n0 : Nat) :
    ∀ (fuel : Nat) (h : Heap) (st : St) (w : Nat) (h' : Heap) (st' : St), n0 ≤ h.length → Good n0 h st.token →
      scanLoopH grow o width fuel h st w = some (h', st') → Frame n0 h h' ∧ Good n0 h' st'.token := by
  intro fuel
  induction fuel with
  | zero => intro h st w h' st' _ _ e; simp [scanLoopH] at e
  | succ n ih =>
    intro h st w h' st' hn gt e
    have hne : 0 < h.length := Nat.lt_of_le_of_lt (Nat.zero_le _) gt.2
    simp only [scanLoopH] at e
    split at e
    · -- long word
      simp only [Option.some.injEq, Prod.mk.injEq] at e
      obtain ⟨e1, e2⟩ := e
      obtain ⟨f1, g1, g2⟩ := splitLongH_frame grow width _ n0 _ 0 h emptySlice st.token w hn (good_empty n0 h hne) gt
      obtain ⟨f2, g3⟩ := append_frame grow _ _ (read _ (sub (sub st.rest 0 (min (o (read h st.rest)).1 st.rest.len))
        (sub (sub st.rest 0 (min (o (read h st.rest)).1 st.rest.len)) 0
          (trimRight (read h (sub st.rest 0 (min (o (read h st.rest)).1 st.rest.len)))).length).len
        (sub st.rest 0 (min (o (read h st.rest)).1 st.rest.len)).len)) n0 (Nat.le_trans hn f1.1) g1
      obtain ⟨f3, _⟩ := append_frame grow _ _ (read _ (if min (o (read h st.rest)).1 st.rest.len < st.rest.len
        then sub st.rest (min (o (read h st.rest)).1 st.rest.len) st.rest.len else emptySlice)) n0 (Nat.le_trans hn (f1.trans f2).1) g3
      subst e1; subst e2
      exact ⟨(f1.trans f2).trans f3, (g2.mono f2.1).mono f3.1⟩
    · split at e
      · simp only [Option.some.injEq, Prod.mk.injEq] at e
        obtain ⟨e1, e2⟩ := e; subst e1; subst e2
        exact ⟨Frame.refl _ _, gt⟩
      · split at e
        · simp only [Option.some.injEq, Prod.mk.injEq] at e
          obtain ⟨e1, e2⟩ := e; subst e1; subst e2
          exact append_frame grow h st.token _ n0 hn gt
        · obtain ⟨f1, g1⟩ := append_frame grow h st.token (read h (sub (sub st.rest 0 (min (o (read h st.rest)).1 st.rest.len)) 0
            (trimRight (read h (sub st.rest 0 (min (o (read h st.rest)).1 st.rest.len)))).length)) n0 hn gt
          split at e
          · simp only [Option.some.injEq, Prod.mk.injEq] at e
            obtain ⟨e1, e2⟩ := e; subst e1; subst e2
            exact ⟨f1, g1⟩
          · obtain ⟨f2, g2⟩ := append_frame grow _ _ (read (append grow h st.token (read h (sub (sub st.rest 0 (min (o (read h st.rest)).1 st.rest.len)) 0
              (trimRight (read h (sub st.rest 0 (min (o (read h st.rest)).1 st.rest.len)))).length))).1
              (sub (sub st.rest 0 (min (o (read h st.rest)).1 st.rest.len))
                (sub (sub st.rest 0 (min (o (read h st.rest)).1 st.rest.len)) 0
                  (trimRight (read h (sub st.rest 0 (min (o (read h st.rest)).1 st.rest.len)))).length).len
                (sub st.rest 0 (min (o (read h st.rest)).1 st.rest.len)).len)) n0 (Nat.le_trans hn f1.1) g1
            obtain ⟨f3, g3⟩ := ih _ _ _ _ _ (Nat.le_trans hn (f1.trans f2).1) g2 e
            exact ⟨(f1.trans f2).trans f3, g3⟩

theorem read_frame {h h' : Heap} {s : Slice} (e : arrOf h' s.arr = arrOf h s.arr) : read h' s = read h s := by
  unfold VaxisModel.Model.WrapHeap.read
  rw [e]

theorem Frame.weaken {n0 n1 : Nat} {h h' : Heap} (f : Frame n1 h h') (hle : n0 ≤ n1) : Frame n0 h h' :=
  ⟨f.1, fun i hi => f.2 i (Nat.lt_of_lt_of_le hi hle)⟩

/-- One `Scan`: the arrays that existed before are unchanged; the returned token lives in an existing array. -/
theorem scanH_frame (grow : Nat → Nat → Nat) (o : List Cell → Nat × Bool) (width : Nat) (h : Heap) (st : St)
    (h' : Heap) (st' : St) (hne : 0 < h.length) (e : scanH grow o width h st = .line h' st') :
    Frame h.length h h' ∧ st'.token.arr < h'.length := by
  unfold scanH at e
  split at e
  · cases e
  · split at e
    · cases e
    · rename_i r hr
      cases e
      obtain ⟨f, g⟩ := scanLoopH_frame grow o width h.length _ h ⟨st.rest, emptySlice⟩ 0 r.1 r.2 (Nat.le_refl _)
        (good_empty _ h hne) (by rw [hr])
      exact ⟨f, g.2⟩

/-- The whole iteration: every line handed out keeps denoting the cells it denoted when returned. -/
theorem linesH_stable (grow : Nat → Nat → Nat) (o : List Cell → Nat × Bool) (width : Nat) :
    ∀ (fuel : Nat) (h : Heap) (st : St) (acc : List (Slice × List Cell)) (hf : Heap) (ls : List (Slice × List Cell)),
      0 < h.length → (∀ p ∈ acc, p.1.arr < h.length ∧ read h p.1 = p.2) →
      linesH grow o width fuel h st acc = some (hf, ls) →
      Frame h.length h hf ∧ ∀ p ∈ ls, read hf p.1 = p.2 := by
  intro fuel
  induction fuel with
  | zero => intro h st acc hf ls _ _ e; simp [linesH] at e
  | succ n ih =>
    intro h st acc hf ls hne hacc e
    simp only [linesH] at e
    split at e
    · simp only [Option.some.injEq, Prod.mk.injEq] at e
      obtain ⟨e1, e2⟩ := e; subst e1; subst e2
      exact ⟨Frame.refl _ _, fun p hp => (hacc p (List.mem_reverse.mp hp)).2⟩
    · cases e
    · rename_i h' st' hs
      obtain ⟨f, gt⟩ := scanH_frame grow o width h st h' st' hne hs
      have hne' : 0 < h'.length := Nat.lt_of_lt_of_le hne f.1
      obtain ⟨f2, hl⟩ := ih h' st' _ hf ls hne' (by
        intro p hp
        rcases List.mem_cons.mp hp with rfl | hp
        · exact ⟨gt, rfl⟩
        · obtain ⟨a1, a2⟩ := hacc p hp
          exact ⟨Nat.lt_of_lt_of_le a1 f.1, (read_frame (f.2 _ a1)).trans a2⟩) e
      exact ⟨f.trans (f2.weaken f.1), hl⟩

theorem hardLoopH_frame (grow : Nat → Nat → Nat) (cells : Slice) (n0 : Nat) :
    ∀ (n i : Nat) (h : Heap) (line : Slice), n0 ≤ h.length → Good n0 h line →
      Frame n0 h (hardLoopH grow cells i n h line).1 ∧
      Good n0 (hardLoopH grow cells i n h line).1 (hardLoopH grow cells i n h line).2.line := by
  intro n
  induction n with
  | zero => intro i h line _ g; exact ⟨Frame.refl _ _, g⟩
  | succ n ih =>
    intro i h line hn g
    simp only [hardLoopH]
    split
    · split
      · exact ⟨Frame.refl _ _, g⟩
      · exact ⟨Frame.refl _ _, g⟩
    · obtain ⟨f1, g1⟩ := append_frame grow h line [(arrOf h cells.arr).getD (cells.off + i) default] n0 hn g
      obtain ⟨f2, g2⟩ := ih (i + 1) _ _ (Nat.le_trans hn f1.1) g1
      exact ⟨f1.trans f2, g2⟩

/-! ### the heap-level HardwrapScanner computes the value-level lines -/

/-- The slice lies inside its array. -/
def WFS (h : Heap) (s : Slice) : Prop := s.off + s.cap ≤ (arrOf h s.arr).length ∧ s.len ≤ s.cap

theorem read_length {h : Heap} {s : Slice} (w : WFS h s) : (VaxisModel.Model.WrapHeap.read h s).length = s.len := by
  unfold VaxisModel.Model.WrapHeap.read
  have := w.1; have := w.2
  simp only [List.length_take, List.length_drop]
  omega

theorem writeAt_read (l : List Cell) (off len : Nat) (xs : List Cell) (hl : off + len + xs.length ≤ l.length) :
    ((writeAt l (off + len) xs).drop off).take (len + xs.length) = (l.drop off).take len ++ xs := by
  unfold writeAt
  have h1 : (l.take (off + len)).length = off + len := by rw [List.length_take]; omega
  rw [List.append_assoc, List.drop_append_of_le_length (by omega)]
  have hA : (l.take (off + len)).drop off = (l.drop off).take len := by
    rw [List.drop_take]; congr 1; omega
  rw [hA]
  have h2 : ((l.drop off).take len).length = len := by rw [List.length_take, List.length_drop]; omega
  rw [List.take_append, h2]
  simp only [Nat.add_sub_cancel_left]
  rw [List.take_append]
  simp
  exact List.take_of_length_le (by omega)

theorem writeAt_length (l : List Cell) (pos : Nat) (xs : List Cell) (hl : pos + xs.length ≤ l.length) :
    (writeAt l pos xs).length = l.length := by
  unfold writeAt
  simp only [List.length_append, List.length_take, List.length_drop]
  omega

theorem arrOf_set_self (h : Heap) (i : Nat) (v : List Cell) (hi : i < h.length) : arrOf (h.set i v) i = v := by
  simp [arrOf, List.getD_eq_getElem?_getD, hi]

theorem arrOf_append_new (h : Heap) (v : List Cell) : arrOf (h ++ [v]) h.length = v := by
  simp [arrOf, List.getD_eq_getElem?_getD]

/-- `append` on a well-formed slice living in the heap: the result denotes the old cells followed by the
new ones, and is well-formed. -/
theorem append_read (grow : Nat → Nat → Nat) (h : Heap) (s : Slice) (xs : List Cell)
    (w : WFS h s) (hs : s.arr < h.length) :
    VaxisModel.Model.WrapHeap.read (append grow h s xs).1 (append grow h s xs).2 = VaxisModel.Model.WrapHeap.read h s ++ xs ∧
    WFS (append grow h s xs).1 (append grow h s xs).2 := by
  unfold append
  by_cases hx : xs.isEmpty = true
  · have : xs = [] := List.isEmpty_iff.mp hx
    subst this
    simp [w]
  · simp only [hx, Bool.false_eq_true, ↓reduceIte]
    by_cases hc : s.len + xs.length ≤ s.cap
    · simp only [hc, ↓reduceIte]
      have hl : s.off + s.len + xs.length ≤ (arrOf h s.arr).length := by have := w.1; omega
      constructor
      · unfold VaxisModel.Model.WrapHeap.read
        simp only [arrOf_set_self h s.arr _ hs]
        exact writeAt_read _ _ _ _ hl
      · refine ⟨?_, hc⟩
        simp only [arrOf_set_self h s.arr _ hs]
        rw [writeAt_length _ _ _ (by omega)]
        exact w.1
    · simp only [hc, ↓reduceIte]
      have hrl := read_length w
      constructor
      · unfold VaxisModel.Model.WrapHeap.read
        simp only [arrOf_append_new, List.drop_zero]
        rw [List.take_append_of_le_length (by simp [VaxisModel.Model.WrapHeap.read] at hrl ⊢; omega)]
        apply List.take_of_length_le
        simp [VaxisModel.Model.WrapHeap.read] at hrl ⊢
        omega
      · refine ⟨?_, by simp only []; omega⟩
        simp only [arrOf_append_new, List.length_append, List.length_replicate, hrl]
        omega

theorem read_empty (h : Heap) : VaxisModel.Model.WrapHeap.read h emptySlice = [] := by
  simp [VaxisModel.Model.WrapHeap.read, emptySlice]

/-- The loop of `HardwrapScanner.Scan` on the heap computes what the value-level loop computes. -/
theorem hardLoopH_refines (grow : Nat → Nat → Nat) (cells : Slice) (h0 : Heap) (n0 : Nat)
    (hc : cells.arr < n0) (wc : WFS h0 cells) :
    ∀ (n i : Nat) (h : Heap) (line : Slice), i + n = cells.len → n0 ≤ h.length →
      (∀ j, j < n0 → arrOf h j = arrOf h0 j) → Good n0 h line → WFS h line →
      VaxisModel.Model.WrapHeap.read (hardLoopH grow cells i n h line).1 (hardLoopH grow cells i n h line).2.line =
        (hardLoop (VaxisModel.Model.WrapHeap.read h line) ((VaxisModel.Model.WrapHeap.read h0 cells).drop i)).1 ∧
      VaxisModel.Model.WrapHeap.read (hardLoopH grow cells i n h line).1 (hardLoopH grow cells i n h line).2.cells =
        (hardLoop (VaxisModel.Model.WrapHeap.read h line) ((VaxisModel.Model.WrapHeap.read h0 cells).drop i)).2 := by
  have hlen := read_length wc
  intro n
  induction n with
  | zero =>
    intro i h line hi _ _ _ _
    have : (VaxisModel.Model.WrapHeap.read h0 cells).drop i = [] := List.drop_eq_nil_of_le (by omega)
    simp only [hardLoopH, this, hardLoop, read_empty]
    exact ⟨trivial, trivial⟩
  | succ n ih =>
    intro i h line hi hn hfr g wl
    have hilt : i < (VaxisModel.Model.WrapHeap.read h0 cells).length := by omega
    have hA : arrOf h cells.arr = arrOf h0 cells.arr := hfr _ hc
    have hoff : cells.off + i < (arrOf h0 cells.arr).length := by have := wc.1; have := wc.2; omega
    have helem : (arrOf h cells.arr).getD (cells.off + i) default = (VaxisModel.Model.WrapHeap.read h0 cells)[i] := by
      rw [hA]
      simp [List.getD_eq_getElem?_getD, List.getElem?_eq_getElem hoff, VaxisModel.Model.WrapHeap.read]
    have hdrop : (VaxisModel.Model.WrapHeap.read h0 cells).drop i =
        (VaxisModel.Model.WrapHeap.read h0 cells)[i] :: (VaxisModel.Model.WrapHeap.read h0 cells).drop (i + 1) :=
      List.drop_eq_getElem_cons hilt
    simp only [hardLoopH, helem]
    rw [hdrop]
    generalize (VaxisModel.Model.WrapHeap.read h0 cells)[i] = c
    by_cases hnl : c.nl = true
    · simp only [hnl, ↓reduceIte, hardLoop]
      by_cases hlast : i + 1 = cells.len
      · have : (VaxisModel.Model.WrapHeap.read h0 cells).drop (i + 1) = [] := List.drop_eq_nil_of_le (by omega)
        rw [this]
        simp [hlast, read_empty]
      · have hne : (VaxisModel.Model.WrapHeap.read h0 cells).drop (i + 1) ≠ [] := by
          intro he
          have := congrArg List.length he
          simp only [List.length_drop, List.length_nil] at this
          omega
        have hb : (i + 1 == cells.len) = false := by simpa using hlast
        have he : ((VaxisModel.Model.WrapHeap.read h0 cells).drop (i + 1)).isEmpty = false := by
          cases hd : (VaxisModel.Model.WrapHeap.read h0 cells).drop (i + 1) with
          | nil => exact absurd hd hne
          | cons _ _ => rfl
        simp only [hb, Bool.false_eq_true, ↓reduceIte, he, true_and]
        unfold VaxisModel.Model.WrapHeap.read sub
        simp only [hA]
        rw [List.drop_take, List.drop_drop]
    · simp only [hnl, Bool.false_eq_true, ↓reduceIte, hardLoop]
      obtain ⟨f1, g1⟩ := append_frame grow h line [c] n0 hn g
      obtain ⟨r1, w1⟩ := append_read grow h line [c] wl g.2
      have := ih (i + 1) _ _ (by omega) (Nat.le_trans hn f1.1)
        (fun j hj => (f1.2 j hj).trans (hfr j hj)) g1 w1
      rw [r1] at this
      exact this

end VaxisModel.Lemmas.WrapHeap
