import VaxisModel.Model.WrapHeap
import VaxisModel.Lemmas.Wrap

/-! Frame lemmas for the heap-level scanner: a `Scan` writes only into arrays it allocated itself. -/
namespace VaxisModel.Lemmas.WrapHeap
open VaxisModel.Model.Wrap VaxisModel.Model.WrapHeap VaxisModel.Lemmas.Wrap

/-- A slice the scanner may append to without touching an array that existed before (`n0` arrays):
it is full (any non-empty `append` allocates) or its array is younger; and its array exists. -/
def Good (n0 : Nat) (h : Heap) (s : Slice) : Prop := (s.len = s.cap ∨ n0 ≤ s.arr) ∧ s.arr < h.length

/-- The heap only grew and the first `n0` arrays are what they were. -/
def Frame (n0 : Nat) (h h' : Heap) : Prop := h.length ≤ h'.length ∧ ∀ i, i < n0 → arrOf h' i = arrOf h i

theorem Frame.refl (n0 : Nat) (h : Heap) : Frame n0 h h := ⟨Nat.le_refl _, fun _ _ => rfl⟩

theorem Frame.trans {n0 : Nat} {h h' h'' : Heap} (a : Frame n0 h h') (b : Frame n0 h' h'') : Frame n0 h h'' :=
  ⟨Nat.le_trans a.1 b.1, fun i hi => (b.2 i hi).trans (a.2 i hi)⟩

theorem Good.mono {n0 : Nat} {h h' : Heap} {s : Slice} (g : Good n0 h s) (hl : h.length ≤ h'.length) : Good n0 h' s :=
  ⟨g.1, Nat.lt_of_lt_of_le g.2 hl⟩

theorem good_empty (n0 : Nat) (h : Heap) (hne : 0 < h.length) : Good n0 h emptySlice := ⟨Or.inl rfl, hne⟩

/-- `append` on a good slice: frame kept, result good. -/
theorem append_frame (grow : Nat → Nat → Nat) (h : Heap) (s : Slice) (xs : List Cell) (n0 : Nat)
    (hn : n0 ≤ h.length) (g : Good n0 h s) :
    Frame n0 h (append grow h s xs).1 ∧ Good n0 (append grow h s xs).1 (append grow h s xs).2 := by
  unfold append
  by_cases hx : xs.isEmpty = true
  · simp only [hx, ↓reduceIte]; exact ⟨Frame.refl _ _, g⟩
  · simp only [hx, Bool.false_eq_true, ↓reduceIte]
    have hpos : 0 < xs.length := by
      cases xs with
      | nil => simp at hx
      | cons _ _ => simp
    by_cases hc : s.len + xs.length ≤ s.cap
    · simp only [hc, ↓reduceIte]
      have harr : n0 ≤ s.arr := by
        rcases g.1 with h1 | h1
        · omega
        · exact h1
      refine ⟨⟨by simp, fun i hi => ?_⟩, ⟨Or.inr harr, by simpa using g.2⟩⟩
      simp only [arrOf, List.getD_eq_getElem?_getD]
      rw [List.getElem?_set_ne (by omega)]
    · simp only [hc, ↓reduceIte]
      refine ⟨⟨by simp, fun i hi => ?_⟩, ⟨Or.inr hn, by simp⟩⟩
      simp only [arrOf, List.getD_eq_getElem?_getD]
      have : i < h.length := by omega
      rw [List.getElem?_append_left this]

theorem splitLongH_frame (grow : Nat → Nat → Nat) (width : Nat) (word : Slice) (n0 : Nat) :
    ∀ (n i : Nat) (h : Heap) (rest token : Slice) (w : Nat), n0 ≤ h.length → Good n0 h rest → Good n0 h token →
      Frame n0 h (splitLongH grow width word i n h rest token w).1 ∧
      Good n0 (splitLongH grow width word i n h rest token w).1 (splitLongH grow width word i n h rest token w).2.1 ∧
      Good n0 (splitLongH grow width word i n h rest token w).1 (splitLongH grow width word i n h rest token w).2.2 := by
  intro n
  induction n with
  | zero => intro i h rest token w _ gr gt; exact ⟨Frame.refl _ _, gr, gt⟩
  | succ n ih =>
    intro i h rest token w hn gr gt
    simp only [splitLongH]
    split
    · obtain ⟨f1, g1⟩ := append_frame grow h rest [(arrOf h word.arr).getD (word.off + i) default] n0 hn gr
      obtain ⟨f2, g2, g3⟩ := ih (i + 1) _ _ token _ (Nat.le_trans hn f1.1) g1 (gt.mono f1.1)
      exact ⟨f1.trans f2, g2, g3⟩
    · obtain ⟨f1, g1⟩ := append_frame grow h token [(arrOf h word.arr).getD (word.off + i) default] n0 hn gt
      obtain ⟨f2, g2, g3⟩ := ih (i + 1) _ rest _ _ (Nat.le_trans hn f1.1) (gr.mono f1.1) g1
      exact ⟨f1.trans f2, g2, g3⟩

theorem scanLoopH_frame (grow : Nat → Nat → Nat) (o : List Cell → Nat × Bool) (width : Nat) (n0 : Nat) :
    ∀ (fuel : Nat) (h : Heap) (st : St) (w : Nat) (h' : Heap) (st' : St), n0 ≤ h.length → Good n0 h st.token →
      scanLoopH grow o width fuel h st w = some (h', st') → Frame n0 h h' ∧ Good n0 h' st'.token := by
  intro fuel
  induction fuel with
  | zero => intro h st w h' st' _ _ e; simp [scanLoopH] at e
  | succ n ih =>
    intro h st w h' st' hn gt e
    have hne : 0 < h.length := Nat.lt_of_le_of_lt (Nat.zero_le _) gt.2
    simp only [scanLoopH] at e
    split at e
    · -- long word
      simp only [Option.some.injEq, Prod.mk.injEq] at e
      obtain ⟨e1, e2⟩ := e
      obtain ⟨f1, g1, g2⟩ := splitLongH_frame grow width _ n0 _ 0 h emptySlice st.token w hn (good_empty n0 h hne) gt
      obtain ⟨f2, g3⟩ := append_frame grow _ _ (read _ (sub (sub st.rest 0 (min (o (read h st.rest)).1 st.rest.len))
        (sub (sub st.rest 0 (min (o (read h st.rest)).1 st.rest.len)) 0
          (trimRight (read h (sub st.rest 0 (min (o (read h st.rest)).1 st.rest.len)))).length).len
        (sub st.rest 0 (min (o (read h st.rest)).1 st.rest.len)).len)) n0 (Nat.le_trans hn f1.1) g1
      obtain ⟨f3, _⟩ := append_frame grow _ _ (read _ (if min (o (read h st.rest)).1 st.rest.len < st.rest.len
        then sub st.rest (min (o (read h st.rest)).1 st.rest.len) st.rest.len else emptySlice)) n0 (Nat.le_trans hn (f1.trans f2).1) g3
      subst e1; subst e2
      exact ⟨(f1.trans f2).trans f3, (g2.mono f2.1).mono f3.1⟩
    · split at e
      · simp only [Option.some.injEq, Prod.mk.injEq] at e
        obtain ⟨e1, e2⟩ := e; subst e1; subst e2
        exact ⟨Frame.refl _ _, gt⟩
      · split at e
        · simp only [Option.some.injEq, Prod.mk.injEq] at e
          obtain ⟨e1, e2⟩ := e; subst e1; subst e2
          exact append_frame grow h st.token _ n0 hn gt
        · obtain ⟨f1, g1⟩ := append_frame grow h st.token (read h (sub (sub st.rest 0 (min (o (read h st.rest)).1 st.rest.len)) 0
            (trimRight (read h (sub st.rest 0 (min (o (read h st.rest)).1 st.rest.len)))).length)) n0 hn gt
          split at e
          · simp only [Option.some.injEq, Prod.mk.injEq] at e
            obtain ⟨e1, e2⟩ := e; subst e1; subst e2
            exact ⟨f1, g1⟩
          · obtain ⟨f2, g2⟩ := append_frame grow _ _ (read (append grow h st.token (read h (sub (sub st.rest 0 (min (o (read h st.rest)).1 st.rest.len)) 0
              (trimRight (read h (sub st.rest 0 (min (o (read h st.rest)).1 st.rest.len)))).length))).1
              (sub (sub st.rest 0 (min (o (read h st.rest)).1 st.rest.len))
                (sub (sub st.rest 0 (min (o (read h st.rest)).1 st.rest.len)) 0
                  (trimRight (read h (sub st.rest 0 (min (o (read h st.rest)).1 st.rest.len)))).length).len
                (sub st.rest 0 (min (o (read h st.rest)).1 st.rest.len)).len)) n0 (Nat.le_trans hn f1.1) g1
            obtain ⟨f3, g3⟩ := ih _ _ _ _ _ (Nat.le_trans hn (f1.trans f2).1) g2 e
            exact ⟨(f1.trans f2).trans f3, g3⟩

theorem read_frame {h h' : Heap} {s : Slice} (e : arrOf h' s.arr = arrOf h s.arr) : read h' s = read h s := by
  unfold VaxisModel.Model.WrapHeap.read
  rw [e]

theorem Frame.weaken {n0 n1 : Nat} {h h' : Heap} (f : Frame n1 h h') (hle : n0 ≤ n1) : Frame n0 h h' :=
  ⟨f.1, fun i hi => f.2 i (Nat.lt_of_lt_of_le hi hle)⟩

/-- One `Scan`: the arrays that existed before are unchanged; the returned token lives in an existing array. -/
theorem scanH_frame (grow : Nat → Nat → Nat) (o : List Cell → Nat × Bool) (width : Nat) (h : Heap) (st : St)
    (h' : Heap) (st' : St) (hne : 0 < h.length) (e : scanH grow o width h st = .line h' st') :
    Frame h.length h h' ∧ st'.token.arr < h'.length := by
  unfold scanH at e
  split at e
  · cases e
  · split at e
    · cases e
    · rename_i r hr
      cases e
      obtain ⟨f, g⟩ := scanLoopH_frame grow o width h.length _ h ⟨st.rest, emptySlice⟩ 0 r.1 r.2 (Nat.le_refl _)
        (good_empty _ h hne) (by rw [hr])
      exact ⟨f, g.2⟩

/-- The whole iteration: every line handed out keeps denoting the cells it denoted when returned. -/
theorem linesH_stable (grow : Nat → Nat → Nat) (o : List Cell → Nat × Bool) (width : Nat) :
    ∀ (fuel : Nat) (h : Heap) (st : St) (acc : List (Slice × List Cell)) (hf : Heap) (ls : List (Slice × List Cell)),
      0 < h.length → (∀ p ∈ acc, p.1.arr < h.length ∧ read h p.1 = p.2) →
      linesH grow o width fuel h st acc = some (hf, ls) →
      Frame h.length h hf ∧ ∀ p ∈ ls, read hf p.1 = p.2 := by
  intro fuel
  induction fuel with
  | zero => intro h st acc hf ls _ _ e; simp [linesH] at e
  | succ n ih =>
    intro h st acc hf ls hne hacc e
    simp only [linesH] at e
    split at e
    · simp only [Option.some.injEq, Prod.mk.injEq] at e
      obtain ⟨e1, e2⟩ := e; subst e1; subst e2
      exact ⟨Frame.refl _ _, fun p hp => (hacc p (List.mem_reverse.mp hp)).2⟩
    · cases e
    · rename_i h' st' hs
      obtain ⟨f, gt⟩ := scanH_frame grow o width h st h' st' hne hs
      have hne' : 0 < h'.length := Nat.lt_of_lt_of_le hne f.1
      obtain ⟨f2, hl⟩ := ih h' st' _ hf ls hne' (by
        intro p hp
        rcases List.mem_cons.mp hp with rfl | hp
        · exact ⟨gt, rfl⟩
        · obtain ⟨a1, a2⟩ := hacc p hp
          exact ⟨Nat.lt_of_lt_of_le a1 f.1, (read_frame (f.2 _ a1)).trans a2⟩) e
      exact ⟨f.trans (f2.weaken f.1), hl⟩

theorem hardLoopH_frame (grow : Nat → Nat → Nat) (cells : Slice) (n0 : Nat) :
    ∀ (n i : Nat) (h : Heap) (line : Slice), n0 ≤ h.length → Good n0 h line →
      Frame n0 h (hardLoopH grow cells i n h line).1 ∧
      Good n0 (hardLoopH grow cells i n h line).1 (hardLoopH grow cells i n h line).2.line := by
  intro n
  induction n with
  | zero => intro i h line _ g; exact ⟨Frame.refl _ _, g⟩
  | succ n ih =>
    intro i h line hn g
    simp only [hardLoopH]
    split
    · split
      · exact ⟨Frame.refl _ _, g⟩
      · exact ⟨Frame.refl _ _, g⟩
    · obtain ⟨f1, g1⟩ := append_frame grow h line [(arrOf h cells.arr).getD (cells.off + i) default] n0 hn g
      obtain ⟨f2, g2⟩ := ih (i + 1) _ _ (Nat.le_trans hn f1.1) g1
      exact ⟨f1.trans f2, g2⟩

/-! ### the heap-level HardwrapScanner computes the value-level lines -/

/-- The slice lies inside its array. -/
def WFS (h : Heap) (s : Slice) : Prop := s.off + s.cap ≤ (arrOf h s.arr).length ∧ s.len ≤ s.cap

theorem read_length {h : Heap} {s : Slice} (w : WFS h s) : (VaxisModel.Model.WrapHeap.read h s).length = s.len := by
  unfold VaxisModel.Model.WrapHeap.read
  have := w.1; have := w.2
  simp only [List.length_take, List.length_drop]
  omega

theorem writeAt_read (l : List Cell) (off len : Nat) (xs : List Cell) (hl : off + len + xs.length ≤ l.length) :
    ((writeAt l (off + len) xs).drop off).take (len + xs.length) = (l.drop off).take len ++ xs := by
  unfold writeAt
  have h1 : (l.take (off + len)).length = off + len := by rw [List.length_take]; omega
  rw [List.append_assoc, List.drop_append_of_le_length (by omega)]
  have hA : (l.take (off + len)).drop off = (l.drop off).take len := by
    rw [List.drop_take]; congr 1; omega
  rw [hA]
  have h2 : ((l.drop off).take len).length = len := by rw [List.length_take, List.length_drop]; omega
  rw [List.take_append, h2]
  simp only [Nat.add_sub_cancel_left]
  rw [List.take_append]
  simp
  exact List.take_of_length_le (by omega)

theorem writeAt_length (l : List Cell) (pos : Nat) (xs : List Cell) (hl : pos + xs.length ≤ l.length) :
    (writeAt l pos xs).length = l.length := by
  unfold writeAt
  simp only [List.length_append, List.length_take, List.length_drop]
  omega

theorem arrOf_set_self (h : Heap) (i : Nat) (v : List Cell) (hi : i < h.length) : arrOf (h.set i v) i = v := by
  simp [arrOf, List.getD_eq_getElem?_getD, hi]

theorem arrOf_append_new (h : Heap) (v : List Cell) : arrOf (h ++ [v]) h.length = v := by
  simp [arrOf, List.getD_eq_getElem?_getD]

/-- `append` on a well-formed slice living in the heap: the result denotes the old cells followed by the
new ones, and is well-formed. -/
theorem append_read (grow : Nat → Nat → Nat) (h : Heap) (s : Slice) (xs : List Cell)
    (w : WFS h s) (hs : s.arr < h.length) :
    VaxisModel.Model.WrapHeap.read (append grow h s xs).1 (append grow h s xs).2 = VaxisModel.Model.WrapHeap.read h s ++ xs ∧
    WFS (append grow h s xs).1 (append grow h s xs).2 := by
  unfold append
  by_cases hx : xs.isEmpty = true
  · have : xs = [] := List.isEmpty_iff.mp hx
    subst this
    simp [w]
  · simp only [hx, Bool.false_eq_true, ↓reduceIte]
    by_cases hc : s.len + xs.length ≤ s.cap
    · simp only [hc, ↓reduceIte]
      have hl : s.off + s.len + xs.length ≤ (arrOf h s.arr).length := by have := w.1; omega
      constructor
      · unfold VaxisModel.Model.WrapHeap.read
        simp only [arrOf_set_self h s.arr _ hs]
        exact writeAt_read _ _ _ _ hl
      · refine ⟨?_, hc⟩
        simp only [arrOf_set_self h s.arr _ hs]
        rw [writeAt_length _ _ _ (by omega)]
        exact w.1
    · simp only [hc, ↓reduceIte]
      have hrl := read_length w
      constructor
      · unfold VaxisModel.Model.WrapHeap.read
        simp only [arrOf_append_new, List.drop_zero]
        rw [List.take_append_of_le_length (by simp [VaxisModel.Model.WrapHeap.read] at hrl ⊢; omega)]
        apply List.take_of_length_le
        simp [VaxisModel.Model.WrapHeap.read] at hrl ⊢
        omega
      · refine ⟨?_, by simp only []; omega⟩
        simp only [arrOf_append_new, List.length_append, List.length_replicate, hrl]
        omega

theorem read_empty (h : Heap) : VaxisModel.Model.WrapHeap.read h emptySlice = [] := by
  simp [VaxisModel.Model.WrapHeap.read, emptySlice]

/-- The loop of `HardwrapScanner.Scan` on the heap computes what the value-level loop computes. -/
theorem hardLoopH_refines (grow : Nat → Nat → Nat) (cells : Slice) (h0 : Heap) (n0 : Nat)
    (hc : cells.arr < n0) (wc : WFS h0 cells) :
    ∀ (n i : Nat) (h : Heap) (line : Slice), i + n = cells.len → n0 ≤ h.length →
      (∀ j, j < n0 → arrOf h j = arrOf h0 j) → Good n0 h line → WFS h line →
      VaxisModel.Model.WrapHeap.read (hardLoopH grow cells i n h line).1 (hardLoopH grow cells i n h line).2.line =
        (hardLoop (VaxisModel.Model.WrapHeap.read h line) ((VaxisModel.Model.WrapHeap.read h0 cells).drop i)).1 ∧
      VaxisModel.Model.WrapHeap.read (hardLoopH grow cells i n h line).1 (hardLoopH grow cells i n h line).2.cells =
        (hardLoop (VaxisModel.Model.WrapHeap.read h line) ((VaxisModel.Model.WrapHeap.read h0 cells).drop i)).2 := by
  have hlen := read_length wc
  intro n
  induction n with
  | zero =>
    intro i h line hi _ _ _ _
    have : (VaxisModel.Model.WrapHeap.read h0 cells).drop i = [] := List.drop_eq_nil_of_le (by omega)
    simp only [hardLoopH, this, hardLoop, read_empty]
    exact ⟨trivial, trivial⟩
  | succ n ih =>
    intro i h line hi hn hfr g wl
    have hilt : i < (VaxisModel.Model.WrapHeap.read h0 cells).length := by omega
    have hA : arrOf h cells.arr = arrOf h0 cells.arr := hfr _ hc
    have hoff : cells.off + i < (arrOf h0 cells.arr).length := by have := wc.1; have := wc.2; omega
    have helem : (arrOf h cells.arr).getD (cells.off + i) default = (VaxisModel.Model.WrapHeap.read h0 cells)[i] := by
      rw [hA]
      simp [List.getD_eq_getElem?_getD, List.getElem?_eq_getElem hoff, VaxisModel.Model.WrapHeap.read]
    have hdrop : (VaxisModel.Model.WrapHeap.read h0 cells).drop i =
        (VaxisModel.Model.WrapHeap.read h0 cells)[i] :: (VaxisModel.Model.WrapHeap.read h0 cells).drop (i + 1) :=
      List.drop_eq_getElem_cons hilt
    simp only [hardLoopH, helem]
    rw [hdrop]
    generalize (VaxisModel.Model.WrapHeap.read h0 cells)[i] = c
    by_cases hnl : c.nl = true
    · simp only [hnl, ↓reduceIte, hardLoop]
      by_cases hlast : i + 1 = cells.len
      · have : (VaxisModel.Model.WrapHeap.read h0 cells).drop (i + 1) = [] := List.drop_eq_nil_of_le (by omega)
        rw [this]
        simp [hlast, read_empty]
      · have hne : (VaxisModel.Model.WrapHeap.read h0 cells).drop (i + 1) ≠ [] := by
          intro he
          have := congrArg List.length he
          simp only [List.length_drop, List.length_nil] at this
          omega
        have hb : (i + 1 == cells.len) = false := by simpa using hlast
        have he : ((VaxisModel.Model.WrapHeap.read h0 cells).drop (i + 1)).isEmpty = false := by
          cases hd : (VaxisModel.Model.WrapHeap.read h0 cells).drop (i + 1) with
          | nil => exact absurd hd hne
          | cons _ _ => rfl
        simp only [hb, Bool.false_eq_true, ↓reduceIte, he, true_and]
        unfold VaxisModel.Model.WrapHeap.read sub
        simp only [hA]
        rw [List.drop_take, List.drop_drop]
    · simp only [hnl, Bool.false_eq_true, ↓reduceIte, hardLoop]
      obtain ⟨f1, g1⟩ := append_frame grow h line [c] n0 hn g
      obtain ⟨r1, w1⟩ := append_read grow h line [c] wl g.2
      have := ih (i + 1) _ _ (by omega) (Nat.le_trans hn f1.1)
        (fun j hj => (f1.2 j hj).trans (hfr j hj)) g1 w1
      rw [r1] at this
      exact this

/-! ### the long-word loop on the heap computes `splitLong` -/

/-- Two slices that an in-place `append` to one cannot make interfere. -/
def Sep (r t : Slice) : Prop := r.arr ≠ t.arr ∨ r.cap = 0 ∨ t.cap = 0

theorem arrOf_set_ne (h : Heap) (i j : Nat) (v : List Cell) (hne : j ≠ i) : arrOf (h.set i v) j = arrOf h j := by
  simp only [arrOf, List.getD_eq_getElem?_getD]
  rw [List.getElem?_set_ne (by omega)]

theorem arrOf_append_old (h : Heap) (v : List Cell) (j : Nat) (hj : j < h.length) : arrOf (h ++ [v]) j = arrOf h j := by
  simp only [arrOf, List.getD_eq_getElem?_getD]
  rw [List.getElem?_append_left hj]

/-- `append` to `s` leaves another slice `t` alone. -/
theorem append_other (grow : Nat → Nat → Nat) (h : Heap) (s t : Slice) (xs : List Cell)
    (ws : WFS h s) (hs : s.arr < h.length) (wt : WFS h t) (ht : t.arr < h.length) (sep : Sep s t) :
    VaxisModel.Model.WrapHeap.read (append grow h s xs).1 t = VaxisModel.Model.WrapHeap.read h t ∧
    WFS (append grow h s xs).1 t ∧ Sep (append grow h s xs).2 t := by
  unfold append
  by_cases hx : xs.isEmpty = true
  · simp only [hx, ↓reduceIte]; exact ⟨trivial, wt, sep⟩
  · simp only [hx, Bool.false_eq_true, ↓reduceIte]
    have hpos : 0 < xs.length := by
      cases xs with
      | nil => simp at hx
      | cons _ _ => simp
    by_cases hc : s.len + xs.length ≤ s.cap
    · simp only [hc, ↓reduceIte]
      have hcap : s.cap ≠ 0 := by omega
      by_cases hne : t.arr = s.arr
      · -- then t has no capacity: it denotes nothing, and stays inside the (equally long) array
        have ht0 : t.cap = 0 := by
          rcases sep with h1 | h1 | h1
          · exact absurd hne.symm h1
          · exact absurd h1 hcap
          · exact h1
        have hl0 : t.len = 0 := by have := wt.2; omega
        have hlen : (arrOf (h.set s.arr (writeAt (arrOf h s.arr) (s.off + s.len) xs)) t.arr).length = (arrOf h t.arr).length := by
          rw [hne, arrOf_set_self h s.arr _ hs, writeAt_length _ _ _ (by have := ws.1; omega)]
        refine ⟨?_, ⟨by rw [hlen]; exact wt.1, wt.2⟩, Or.inr (Or.inr ht0)⟩
        simp [VaxisModel.Model.WrapHeap.read, hl0]
      · have he := arrOf_set_ne h s.arr t.arr (writeAt (arrOf h s.arr) (s.off + s.len) xs) hne
        refine ⟨by simp only [VaxisModel.Model.WrapHeap.read, he], ⟨by rw [he]; exact wt.1, wt.2⟩, Or.inl (fun e => hne e.symm)⟩
    · simp only [hc, ↓reduceIte]
      have he := arrOf_append_old h (VaxisModel.Model.WrapHeap.read h s ++ xs ++
        List.replicate (max (s.len + xs.length) (grow s.cap (s.len + xs.length)) - (s.len + xs.length)) default) t.arr ht
      refine ⟨by unfold VaxisModel.Model.WrapHeap.read at he ⊢; rw [he], ⟨by rw [he]; exact wt.1, wt.2⟩, Or.inl (by simp only []; omega)⟩

theorem Sep.symm {r t : Slice} (h : Sep r t) : Sep t r := by
  rcases h with h | h | h
  · exact Or.inl (fun e => h e.symm)
  · exact Or.inr (Or.inr h)
  · exact Or.inr (Or.inl h)

theorem append_len (grow : Nat → Nat → Nat) (h : Heap) (s : Slice) (xs : List Cell) :
    (append grow h s xs).2.len = s.len + xs.length := by
  unfold append
  by_cases hx : xs.isEmpty = true
  · have : xs = [] := List.isEmpty_iff.mp hx
    subst this; simp
  · simp only [hx, Bool.false_eq_true, ↓reduceIte]
    split <;> rfl

/-- Element `i` of a slice into an array the loop does not write. -/
theorem elem_at (h h0 : Heap) (s : Slice) (i : Nat) (ws : WFS h0 s) (hA : arrOf h s.arr = arrOf h0 s.arr)
    (hi : i < s.len) :
    ∃ c, (arrOf h s.arr).getD (s.off + i) default = c ∧
      (VaxisModel.Model.WrapHeap.read h0 s).drop i = c :: (VaxisModel.Model.WrapHeap.read h0 s).drop (i + 1) := by
  have hlen := read_length ws
  have hilt : i < (VaxisModel.Model.WrapHeap.read h0 s).length := by omega
  have hoff : s.off + i < (arrOf h0 s.arr).length := by have := ws.1; have := ws.2; omega
  refine ⟨(VaxisModel.Model.WrapHeap.read h0 s)[i], ?_, List.drop_eq_getElem_cons hilt⟩
  rw [hA]
  simp [List.getD_eq_getElem?_getD, List.getElem?_eq_getElem hoff, VaxisModel.Model.WrapHeap.read]

/-- The long-word loop on the heap computes `splitLong`: what it appends to `s.token` and to `s.rest`. -/
theorem splitLongH_refines (grow : Nat → Nat → Nat) (width : Nat) (word : Slice) (h0 : Heap) (n0 : Nat)
    (hw : word.arr < n0) (ww : WFS h0 word) :
    ∀ (n i : Nat) (h : Heap) (rest token : Slice) (w : Nat), i + n = word.len → n0 ≤ h.length →
      (∀ j, j < n0 → arrOf h j = arrOf h0 j) → Good n0 h rest → Good n0 h token → WFS h rest → WFS h token →
      Sep rest token →
      VaxisModel.Model.WrapHeap.read (splitLongH grow width word i n h rest token w).1 (splitLongH grow width word i n h rest token w).2.1 =
        VaxisModel.Model.WrapHeap.read h rest ++
          (splitLong width (decide (token.len > 0)) w ((VaxisModel.Model.WrapHeap.read h0 word).drop i)).2 ∧
      VaxisModel.Model.WrapHeap.read (splitLongH grow width word i n h rest token w).1 (splitLongH grow width word i n h rest token w).2.2 =
        VaxisModel.Model.WrapHeap.read h token ++
          (splitLong width (decide (token.len > 0)) w ((VaxisModel.Model.WrapHeap.read h0 word).drop i)).1 ∧
      WFS (splitLongH grow width word i n h rest token w).1 (splitLongH grow width word i n h rest token w).2.1 ∧
      WFS (splitLongH grow width word i n h rest token w).1 (splitLongH grow width word i n h rest token w).2.2 ∧
      Sep (splitLongH grow width word i n h rest token w).2.1 (splitLongH grow width word i n h rest token w).2.2 := by
  have hlen := read_length ww
  intro n
  induction n with
  | zero =>
    intro i h rest token w hi _ _ _ _ wr wt sep
    have : (VaxisModel.Model.WrapHeap.read h0 word).drop i = [] := List.drop_eq_nil_of_le (by omega)
    simp only [splitLongH, splitLong, this, List.append_nil]
    exact ⟨trivial, trivial, wr, wt, sep⟩
  | succ n ih =>
    intro i h rest token w hi hn hfr gr gt wr wt sep
    obtain ⟨c, helem, hdrop⟩ := elem_at h h0 word i ww (hfr _ hw) (by omega)
    simp only [splitLongH, helem]
    rw [hdrop]
    have hp : ∀ cs, splitLong width (decide (token.len > 0)) w (c :: cs) =
        if longW token.len w c.w width ≥ width then
          ((splitLong width (decide (token.len > 0)) (longW token.len w c.w width) cs).1,
            c :: (splitLong width (decide (token.len > 0)) (longW token.len w c.w width) cs).2)
        else
          (c :: (splitLong width true (longW token.len w c.w width + c.w) cs).1,
            (splitLong width true (longW token.len w c.w width + c.w) cs).2) := by
      intro cs
      rw [splitLong]
      rfl
    rw [hp]
    generalize longW token.len w c.w width = w'
    by_cases hge : w' ≥ width
    · simp only [hge, ↓reduceIte]
      obtain ⟨f1, g1⟩ := append_frame grow h rest [c] n0 hn gr
      obtain ⟨r1, w1⟩ := append_read grow h rest [c] wr gr.2
      obtain ⟨o1, o2, o3⟩ := append_other grow h rest token [c] wr gr.2 wt gt.2 sep
      obtain ⟨a, b, c1, c2, c3⟩ := ih (i + 1) _ _ token w' (by omega) (Nat.le_trans hn f1.1)
        (fun j hj => (f1.2 j hj).trans (hfr j hj)) g1 (gt.mono f1.1) w1 o2 o3
      rw [r1] at a
      rw [o1] at b
      exact ⟨by rw [a]; simp, b, c1, c2, c3⟩
    · simp only [hge, ↓reduceIte]
      obtain ⟨f1, g1⟩ := append_frame grow h token [c] n0 hn gt
      obtain ⟨r1, w1⟩ := append_read grow h token [c] wt gt.2
      obtain ⟨o1, o2, o3⟩ := append_other grow h token rest [c] wt gt.2 wr gr.2 sep.symm
      have hl : decide ((append grow h token [c]).2.len > 0) = true := by
        rw [append_len]; simp
      obtain ⟨a, b, c1, c2, c3⟩ := ih (i + 1) _ rest _ (w' + c.w) (by omega) (Nat.le_trans hn f1.1)
        (fun j hj => (f1.2 j hj).trans (hfr j hj)) (gr.mono f1.1) g1 o2 w1 o3.symm
      rw [hl] at a b
      rw [o1] at a
      rw [r1] at b
      exact ⟨a, by rw [b]; simp, c1, c2, c3⟩

/-! ### the whole loop of `Scan` on the heap computes `Model.Wrap.scanLoop` -/

local notation "rd" => VaxisModel.Model.WrapHeap.read

theorem read_sub (h : Heap) (s : Slice) (a b : Nat) (hb : b ≤ s.len) :
    rd h (sub s a b) = ((rd h s).drop a).take (b - a) := by
  unfold VaxisModel.Model.WrapHeap.read sub
  simp only
  rw [List.drop_take, List.drop_drop, List.take_take]
  congr 1
  omega

theorem WFS_sub {h : Heap} {s : Slice} (w : WFS h s) (a b : Nat) (hab : a ≤ b) (hb : b ≤ s.len) : WFS h (sub s a b) := by
  have := w.1; have := w.2
  unfold WFS sub
  simp only
  constructor <;> omega

theorem take_min_length (l : List Cell) (n : Nat) : l.take (min n l.length) = l.take n := by
  by_cases h : n ≤ l.length
  · rw [Nat.min_eq_left h]
  · rw [Nat.min_eq_right (by omega), List.take_of_length_le (Nat.le_refl _), List.take_of_length_le (by omega)]

theorem drop_min_length (l : List Cell) (n : Nat) : l.drop (min n l.length) = l.drop n := by
  by_cases h : n ≤ l.length
  · rw [Nat.min_eq_left h]
  · rw [Nat.min_eq_right (by omega), List.drop_eq_nil_of_le (Nat.le_refl _), List.drop_eq_nil_of_le (by omega)]

theorem take_trim (seg : List Cell) : seg.take (trimRight seg).length = trimRight seg := by
  conv => lhs; arg 2; rw [← trim_append_trailing seg]
  exact List.take_left' rfl

theorem trim_len_le (seg : List Cell) : (trimRight seg).length ≤ seg.length := by
  have := congrArg List.length (trim_append_trailing seg)
  simp only [List.length_append] at this
  omega

theorem WFS_frame {h h' : Heap} {s : Slice} (e : arrOf h' s.arr = arrOf h s.arr) (w : WFS h s) : WFS h' s := by
  unfold WFS at *; rw [e]; exact w

/-- The segmentation function of the heap model as an oracle of the value-level model (no state). -/
def oracleOf (o : List Cell → Nat × Bool) : Unit → List Cell → Nat × Bool × Unit :=
  fun _ l => ((o l).1, (o l).2, ())

/-- Same outcome: both run out of fuel, or both return with slices denoting the model's lists (and `s.rest`
is again a well-formed slice of an array of the heap, so the next `Scan` can start from it). -/
def ScanRel : Option (Heap × St) → Scan Unit → Prop
  | none, .hang => True
  | some (h', st'), .line r _ t =>
      rd h' st'.rest = r ∧ rd h' st'.token = t ∧ st'.rest.arr < h'.length ∧ WFS h' st'.rest
  | _, _ => False

theorem scanLoopH_refines (grow : Nat → Nat → Nat) (o : List Cell → Nat × Bool) (width : Nat) (h0 : Heap) (n0 : Nat)
    (hn0 : 0 < n0) :
    ∀ (fuel : Nat) (h : Heap) (st : St) (w : Nat), n0 ≤ h.length → (∀ j, j < n0 → arrOf h j = arrOf h0 j) →
      st.rest.arr < n0 → WFS h0 st.rest → Good n0 h st.token → WFS h st.token →
      ScanRel (scanLoopH grow o width fuel h st w)
        (scanLoop (oracleOf o) () width fuel (rd h0 st.rest) () (rd h st.token) w) := by
  intro fuel
  induction fuel with
  | zero => intro h st w _ _ _ _ _ _; simp [scanLoopH, scanLoop, ScanRel]
  | succ n ih =>
    intro h st w hn hfr hra wr gt wt
    have hR : rd h st.rest = rd h0 st.rest := read_frame (hfr _ hra)
    have hRl := read_length wr
    unfold scanLoopH
    extract_lets r k seg rest word trSpace wordLen spaceLen a b c seg' t1 t w1 t2
    unfold scanLoop
    extract_lets pr pseg prest pbr pword ptr pwl psl psp ptok pw
    -- the slices of this iteration denote the lists of the value-level loop
    have hk : k ≤ st.rest.len := Nat.min_le_right _ _
    have hr : r = o (rd h0 st.rest) := by show o (rd h st.rest) = _; rw [hR]
    have hpr1 : pr.1 = r.1 := by rw [hr]; rfl
    have hpbr : pbr = r.2 := by rw [hr]; rfl
    have hpseglen : pseg.length = k := by
      show (List.take pr.1 (rd h0 st.rest)).length = min r.1 st.rest.len
      rw [List.length_take, hpr1]; show min r.1 (Model.WrapHeap.read h0 st.rest).length = _; rw [hRl]
    have hseg : rd h seg = pseg := by
      show rd h (sub st.rest 0 k) = _
      rw [read_sub h st.rest 0 k hk, hR, List.drop_zero, Nat.sub_zero]
      show List.take (min r.1 st.rest.len) _ = List.take pr.1 _
      rw [← hRl, hpr1]; exact take_min_length _ _
    have hrestarr : rest.arr < n0 := by
      show (if k < st.rest.len then sub st.rest k st.rest.len else emptySlice).arr < n0
      split
      · exact hra
      · exact hn0
    have hrestw : WFS h0 rest := by
      show WFS h0 (if k < st.rest.len then sub st.rest k st.rest.len else emptySlice)
      split
      · exact WFS_sub wr _ _ (by omega) (Nat.le_refl _)
      · exact ⟨by simp [emptySlice], by simp [emptySlice]⟩
    have hrest : rd h rest = prest := by
      show rd h (if k < st.rest.len then sub st.rest k st.rest.len else emptySlice) = List.drop pr.1 (rd h0 st.rest)
      have hd : List.drop pr.1 (rd h0 st.rest) = List.drop k (rd h0 st.rest) := by
        show _ = List.drop (min r.1 st.rest.len) _
        rw [← hRl, hpr1]; exact (drop_min_length _ _).symm
      rw [hd]
      split
      · rw [read_sub h st.rest k st.rest.len (Nat.le_refl _), hR]
        apply List.take_of_length_le
        rw [List.length_drop]; show (Model.WrapHeap.read h0 st.rest).length - k ≤ _; rw [hRl]; exact Nat.le_refl _
      · rw [show rd h emptySlice = [] from read_empty h]
        exact (List.drop_eq_nil_of_le (by show (Model.WrapHeap.read h0 st.rest).length ≤ k; rw [hRl]; omega)).symm
    have hwl : word.len = pword.length := by
      show (trimRight (Model.WrapHeap.read h seg)).length - 0 = _
      rw [Nat.sub_zero]; show (trimRight (rd h seg)).length = _; rw [hseg]
    have hseglen : seg.len = k := by show k - 0 = k; omega
    have hwordle : pword.length ≤ k := by rw [← hpseglen]; exact trim_len_le pseg
    have hword : rd h word = pword := by
      show rd h (sub seg 0 (trimRight (Model.WrapHeap.read h seg)).length) = _
      rw [read_sub h seg 0 _ (by show (trimRight (rd h seg)).length ≤ seg.len; rw [hseg, hseglen]; exact hwordle)]
      rw [List.drop_zero, Nat.sub_zero]; show List.take (trimRight (rd h seg)).length (rd h seg) = _
      rw [hseg]; exact take_trim pseg
    have htr : rd h trSpace = ptr := by
      show rd h (sub seg word.len seg.len) = List.drop pword.length pseg
      rw [read_sub h seg word.len seg.len (Nat.le_refl _), hseg, hwl]
      apply List.take_of_length_le
      rw [List.length_drop, hpseglen, hseglen]; exact Nat.le_refl _
    have hwordLen : wordLen = pwl := by show sumW (rd h word) = sumW pword; rw [hword]
    have hspaceLen : spaceLen = psl := by show sumW (rd h trSpace) = sumW ptr; rw [htr]
    have hfrOld : ∀ (h1 : Heap) (x : Slice), Frame n0 h h1 → x.arr < n0 → rd h1 x = rd h x :=
      fun h1 x f hx => read_frame (f.2 _ hx)
    have hsegarr : seg.arr < n0 := hra
    have htrarr : trSpace.arr < n0 := hra
    have hwordarr : word.arr < n0 := hra
    rw [hwordLen, hspaceLen]
    by_cases c1 : pwl > width
    · -- the word is longer than the line
      simp only [c1, ↓reduceIte, ScanRel]
      have hsegw : WFS h0 seg := WFS_sub wr 0 k (Nat.zero_le _) hk
      have hwordw : WFS h0 word := WFS_sub hsegw 0 _ (Nat.zero_le _) (by
        show (trimRight (rd h seg)).length ≤ seg.len; rw [hseg, hseglen]; exact hwordle)
      have hpos : 0 < h.length := Nat.lt_of_lt_of_le hn0 hn
      have ge : Good n0 h emptySlice := good_empty n0 h hpos
      have we : WFS h emptySlice := ⟨by simp [emptySlice], by simp [emptySlice]⟩
      obtain ⟨fa, ga1, ga2⟩ := splitLongH_frame grow width word n0 word.len 0 h emptySlice st.token w hn ge gt
      obtain ⟨ra1, ra2, wa1, wa2, sepa⟩ := splitLongH_refines grow width word h0 n0 hwordarr hwordw word.len 0 h
        emptySlice st.token w (by omega) hn hfr ge gt we wt (Or.inr (Or.inl rfl))
      have hw0 : rd h0 word = pword := by rw [← hword]; exact (read_frame (hfr _ hwordarr)).symm
      have hne : decide (st.token.len > 0) = !(rd h st.token).isEmpty := by
        have := read_length wt
        cases hd : rd h st.token with
        | nil => rw [hd] at this; simp at this; simp [← this]
        | cons x xs => rw [hd] at this; simp at this; simp [← this]
      rw [List.drop_zero, hw0, hne, show rd h emptySlice = [] from read_empty h, List.nil_append] at ra1
      rw [List.drop_zero, hw0, hne] at ra2
      -- s.rest = append(s.rest, trSpace...)
      have hna : n0 ≤ a.1.length := Nat.le_trans hn fa.1
      obtain ⟨fb, gb⟩ := append_frame grow a.1 a.2.1 (rd a.1 trSpace) n0 hna ga1
      obtain ⟨rb, wb⟩ := append_read grow a.1 a.2.1 (rd a.1 trSpace) wa1 ga1.2
      obtain ⟨ob1, ob2, ob3⟩ := append_other grow a.1 a.2.1 a.2.2 (rd a.1 trSpace) wa1 ga1.2 wa2 ga2.2 sepa
      -- s.rest = append(s.rest, rest...)
      have hnb : n0 ≤ b.1.length := Nat.le_trans hna fb.1
      obtain ⟨rc, wc⟩ := append_read grow b.1 b.2 (rd b.1 rest) wb gb.2
      obtain ⟨_, gc⟩ := append_frame grow b.1 b.2 (rd b.1 rest) n0 hnb gb
      obtain ⟨oc1, _, _⟩ := append_other grow b.1 b.2 a.2.2 (rd b.1 rest) wb gb.2 ob2 (Nat.lt_of_lt_of_le ga2.2 fb.1) ob3
      refine ⟨?_, ?_, gc.2, wc⟩
      · show rd c.1 c.2 = _
        rw [show rd c.1 c.2 = rd b.1 b.2 ++ rd b.1 rest from rc, show rd b.1 b.2 = rd a.1 a.2.1 ++ rd a.1 trSpace from rb,
          hfrOld b.1 rest (fa.trans fb) hrestarr, hfrOld a.1 trSpace fa htrarr, hrest, htr, show rd a.1 a.2.1 = _ from ra1]
      · show rd c.1 a.2.2 = _
        rw [show rd c.1 a.2.2 = rd b.1 a.2.2 from oc1, show rd b.1 a.2.2 = rd a.1 a.2.2 from ob1, show rd a.1 a.2.2 = _ from ra2]
    · simp only [c1, ↓reduceIte]
      by_cases c2 : w + pwl > width
      · -- the segment does not fit any more: the line ends before it
        simp only [c2, ↓reduceIte, ScanRel]
        exact ⟨hR, trivial, Nat.lt_of_lt_of_le hra hn, WFS_frame (hfr _ hra) wr⟩
      · simp only [c2, ↓reduceIte]
        rw [hpbr]
        by_cases c3 : r.2 = true
        · -- hard break: strip it, append the segment, return
          simp only [c3, ↓reduceIte, ScanRel]
          have hstrip : rd h seg' = stripBreak pseg := by
            show rd h (match (rd h seg).getLast? with
              | some l => if l.term = true then sub seg 0 (seg.len - 1) else seg
              | none => seg) = stripBreak pseg
            rw [hseg]
            unfold stripBreak
            cases hl : pseg.getLast? with
            | none => exact hseg
            | some l =>
              simp only
              split
              · rw [read_sub h seg 0 (seg.len - 1) (by omega), hseg, List.drop_zero, Nat.sub_zero, hseglen,
                  List.dropLast_eq_take, hpseglen]
              · exact hseg
          obtain ⟨f1, _⟩ := append_frame grow h st.token (rd h seg') n0 hn gt
          obtain ⟨r1, _⟩ := append_read grow h st.token (rd h seg') wt gt.2
          refine ⟨?_, ?_, Nat.lt_of_lt_of_le hrestarr (Nat.le_trans hn f1.1),
            WFS_frame ((f1.2 _ hrestarr).trans (hfr _ hrestarr)) hrestw⟩
          · show rd t1.1 rest = prest
            rw [hfrOld t1.1 rest f1 hrestarr, hrest]
          · show rd t1.1 t1.2 = _
            rw [show rd t1.1 t1.2 = rd h st.token ++ rd h seg' from r1, hstrip]
        · simp only [c3, Bool.false_eq_true, ↓reduceIte]
          -- s.token = append(s.token, word...)
          obtain ⟨f1, g1⟩ := append_frame grow h st.token (rd h word) n0 hn gt
          obtain ⟨r1, w1'⟩ := append_read grow h st.token (rd h word) wt gt.2
          have hw1 : w1 = pw := by show w + wordLen = w + pwl; rw [hwordLen]
          rw [hw1]
          have htok : rd t.1 t.2 = ptok := by
            rw [show rd t.1 t.2 = rd h st.token ++ rd h word from r1, hword]
          by_cases c4 : pw + psl > width
          · simp only [c4, ↓reduceIte, ScanRel]
            exact ⟨by show rd t.1 rest = prest; rw [hfrOld t.1 rest f1 hrestarr, hrest], htok,
              Nat.lt_of_lt_of_le hrestarr (Nat.le_trans hn f1.1),
              WFS_frame ((f1.2 _ hrestarr).trans (hfr _ hrestarr)) hrestw⟩
          · simp only [c4, ↓reduceIte]
            -- s.token = append(s.token, trSpace...) and round again
            have hn1 : n0 ≤ t.1.length := Nat.le_trans hn f1.1
            obtain ⟨f2, g2⟩ := append_frame grow t.1 t.2 (rd t.1 trSpace) n0 hn1 g1
            obtain ⟨r2, w2⟩ := append_read grow t.1 t.2 (rd t.1 trSpace) w1' g1.2
            have := ih t2.1 ⟨rest, t2.2⟩ (pw + psl) (Nat.le_trans hn1 f2.1)
              (fun j hj => ((f1.trans f2).2 j hj).trans (hfr j hj)) hrestarr hrestw g2 w2
            have hr0 : rd h0 rest = prest := by
              rw [← hrest]; exact (read_frame (hfr _ hrestarr)).symm
            have ht2 : rd t2.1 t2.2 = ptok ++ ptr := by
              rw [show rd t2.1 t2.2 = rd t.1 t.2 ++ rd t.1 trSpace from r2, htok, hfrOld t.1 trSpace f1 htrarr, htr]
            simp only [] at this
            rw [hr0, ht2] at this
            exact this

/-! ### `Scan()` and the whole iteration -/

/-- Same outcome of one `Scan()`. -/
def ScanRelS : ScanH → Scan Unit → Prop
  | .stop, .stop => True
  | .hang, .hang => True
  | .line h' st', .line r _ t => rd h' st'.rest = r ∧ rd h' st'.token = t ∧ st'.rest.arr < h'.length ∧ WFS h' st'.rest
  | _, _ => False

theorem isEmpty_iff_len {h : Heap} {s : Slice} (w : WFS h s) : (rd h s).isEmpty = (s.len == 0) := by
  have := read_length w
  cases hd : rd h s with
  | nil => rw [hd] at this; simp at this; simp [← this]
  | cons x xs => rw [hd] at this; simp at this; simp [← this]

/-- `Scan()` on the heap refines `Model.Wrap.scan`. -/
theorem scanH_refines (grow : Nat → Nat → Nat) (o : List Cell → Nat × Bool) (width : Nat) (h : Heap) (st : St)
    (hra : st.rest.arr < h.length) (wr : WFS h st.rest) :
    ScanRelS (scanH grow o width h st) (scan (oracleOf o) () width (rd h st.rest) ()) := by
  unfold scanH scan
  rw [isEmpty_iff_len wr]
  by_cases hc : (st.rest.len == 0 || width == 0) = true
  · simp only [hc, ↓reduceIte, ScanRelS]
  · simp only [hc, Bool.false_eq_true, ↓reduceIte]
    have hpos : 0 < h.length := Nat.lt_of_le_of_lt (Nat.zero_le _) hra
    have := scanLoopH_refines grow o width h h.length hpos st.rest.len h ⟨st.rest, emptySlice⟩ 0 (Nat.le_refl _)
      (fun _ _ => rfl) hra wr (good_empty _ h hpos) ⟨by simp [emptySlice], by simp [emptySlice]⟩
    simp only [read_empty] at this
    rw [read_length wr]
    cases hres : scanLoopH grow o width st.rest.len h ⟨st.rest, emptySlice⟩ 0 with
    | none =>
      rw [hres] at this
      cases hp : scanLoop (oracleOf o) () width st.rest.len (rd h st.rest) () [] 0 with
      | hang => simp [ScanRelS]
      | stop => rw [hp] at this; simp [ScanRel] at this
      | line _ _ _ => rw [hp] at this; simp [ScanRel] at this
    | some r =>
      rw [hres] at this
      cases hp : scanLoop (oracleOf o) () width st.rest.len (rd h st.rest) () [] 0 with
      | hang => rw [hp] at this; simp [ScanRel] at this
      | stop => rw [hp] at this; simp [ScanRel] at this
      | line a b c => rw [hp] at this; simpa [ScanRel, ScanRelS] using this

/-- The whole iteration refines `scanAll`: the cells each returned slice denoted when it was returned are the
lines of the value-level model. -/
theorem linesH_refines (grow : Nat → Nat → Nat) (o : List Cell → Nat × Bool) (width : Nat) :
    ∀ (fuel : Nat) (h : Heap) (st : St) (acc : List (Slice × List Cell)), st.rest.arr < h.length → WFS h st.rest →
      match linesH grow o width fuel h st acc, scanAll (oracleOf o) () width fuel (rd h st.rest) () with
      | none, .hang => True
      | some r, .ok ls' => r.2.map (·.2) = acc.reverse.map (·.2) ++ ls'
      | _, _ => False := by
  intro fuel
  induction fuel with
  | zero => intro h st acc _ _; simp [linesH, scanAll]
  | succ n ih =>
    intro h st acc hra wr
    have hs := scanH_refines grow o width h st hra wr
    simp only [linesH, scanAll]
    cases hH : scanH grow o width h st with
    | stop =>
      rw [hH] at hs
      cases hp : scan (oracleOf o) () width (rd h st.rest) () with
      | stop => simp
      | hang => rw [hp] at hs; simp [ScanRelS] at hs
      | line _ _ _ => rw [hp] at hs; simp [ScanRelS] at hs
    | hang =>
      rw [hH] at hs
      cases hp : scan (oracleOf o) () width (rd h st.rest) () with
      | stop => rw [hp] at hs; simp [ScanRelS] at hs
      | hang => simp
      | line _ _ _ => rw [hp] at hs; simp [ScanRelS] at hs
    | line h' st' =>
      rw [hH] at hs
      cases hp : scan (oracleOf o) () width (rd h st.rest) () with
      | stop => rw [hp] at hs; simp [ScanRelS] at hs
      | hang => rw [hp] at hs; simp [ScanRelS] at hs
      | line r u t =>
        rw [hp] at hs
        obtain ⟨e1, e2, e3, e4⟩ := hs
        have := ih h' st' ((st'.token, rd h' st'.token) :: acc) e3 e4
        rw [e1] at this
        simp only []
        cases hl : linesH grow o width n h' st' ((st'.token, rd h' st'.token) :: acc) with
        | none =>
          rw [hl] at this
          cases hq : scanAll (oracleOf o) () width n r () with
          | hang => cases u; simp [hq]
          | ok _ => rw [hq] at this; simp at this
        | some res =>
          rw [hl] at this
          cases hq : scanAll (oracleOf o) () width n r () with
          | hang => rw [hq] at this; simp at this
          | ok ls'' =>
            rw [hq] at this
            cases u
            simp only [hq]
            rw [this, e2]
            simp

/-- The caller's view: `runH` (all Scans, the lines read *after* the last one, the caller's array at the end)
against `Model.Wrap.lines`. -/
theorem runH_refines (grow : Nat → Nat → Nat) (o : List Cell → Nat × Bool) (width : Nat) (cells spare : List Cell) :
    match runH grow o width cells spare, lines (oracleOf o) () width cells () with
    | none, .hang => True
    | some r, .ok ls' => r.1 = ls' ∧ r.2 = cells ++ spare
    | _, _ => False := by
  have hread : rd (callerHeap cells spare) (callerSlice cells spare) = cells := by
    simp [VaxisModel.Model.WrapHeap.read, callerHeap, callerSlice, arrOf]
  have W : WFS (callerHeap cells spare) (callerSlice cells spare) := by
    constructor <;> simp [callerHeap, callerSlice, arrOf]
  have R := linesH_refines grow o width (cells.length + 1) (callerHeap cells spare)
    ⟨callerSlice cells spare, emptySlice⟩ [] (by simp [callerHeap, callerSlice]) W
  simp only [hread] at R
  unfold runH lines
  cases hl : linesH grow o width (cells.length + 1) (callerHeap cells spare) ⟨callerSlice cells spare, emptySlice⟩ [] with
  | none =>
    rw [hl] at R
    cases hq : scanAll (oracleOf o) () width (cells.length + 1) cells () with
    | hang => simp
    | ok _ => rw [hq] at R; simp at R
  | some res =>
    rw [hl] at R
    obtain ⟨hf, l⟩ := res
    obtain ⟨f, hstab⟩ := linesH_stable grow o width _ _ _ [] hf l (by simp [callerHeap]) (by intro p hp; cases hp) hl
    cases hq : scanAll (oracleOf o) () width (cells.length + 1) cells () with
    | hang => rw [hq] at R; simp at R
    | ok ls' =>
      rw [hq] at R
      simp only [List.reverse_nil, List.map_nil, List.nil_append] at R
      simp only []
      refine ⟨?_, ?_⟩
      · rw [← R]
        exact List.map_congr_left (fun p hp => hstab p hp)
      · rw [f.2 0 (by simp [callerHeap])]
        rfl

end VaxisModel.Lemmas.WrapHeap
