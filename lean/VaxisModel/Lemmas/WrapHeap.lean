import VaxisModel.Model.WrapHeap

/-! Frame lemmas for the heap-level scanner: a `Scan` writes only into arrays it allocated itself. -/
namespace VaxisModel.Lemmas.WrapHeap
open VaxisModel.Model.Wrap VaxisModel.Model.WrapHeap

/-- A slice the scanner may append to without touching an array that existed before (`n0` arrays):
it is full (any non-empty `append` allocates) or its array is younger; and its array exists. -/
def Good (n0 : Nat) (h : Heap) (s : Slice) : Prop := (s.len = s.cap ∨ n0 ≤ s.arr) ∧ s.arr < h.length

/-- The heap only grew and the first `n0` arrays are what they were. -/
def Frame (n0 : Nat) (h h' : Heap) : Prop := h.length ≤ h'.length ∧ ∀ i, i < n0 → arrOf h' i = arrOf h i

theorem Frame.refl (n0 : Nat) (h : Heap) : Frame n0 h h := ⟨Nat.le_refl _, fun _ _ => rfl⟩

theorem Frame.trans {n0 : Nat} {h h' h'' : Heap} (a : Frame n0 h h') (b : Frame n0 h' h'') : Frame n0 h h'' :=
  ⟨Nat.le_trans a.1 b.1, fun i hi => (b.2 i hi).trans (a.2 i hi)⟩

theorem Good.mono {n0 : Nat} {h h' : Heap} {s : Slice} (g : Good n0 h s) (hl : h.length ≤ h'.length) : Good n0 h' s :=
  ⟨g.1, Nat.lt_of_lt_of_le g.2 hl⟩

theorem good_empty (n0 : Nat) (h : Heap) (hne : 0 < h.length) : Good n0 h emptySlice := ⟨Or.inl rfl, hne⟩

/-- `append` on a good slice: frame kept, result good. -/
theorem append_frame (grow : Nat → Nat → Nat) (h : Heap) (s : Slice) (xs : List Cell) (n0 : Nat)
    (hn : n0 ≤ h.length) (g : Good n0 h s) :
    Frame n0 h (append grow h s xs).1 ∧ Good n0 (append grow h s xs).1 (append grow h s xs).2 := by
  unfold append
  by_cases hx : xs.isEmpty = true
  · simp only [hx, ↓reduceIte]; exact ⟨Frame.refl _ _, g⟩
  · simp only [hx, Bool.false_eq_true, ↓reduceIte]
    have hpos : 0 < xs.length := by
      cases xs with
      | nil => simp at hx
      | cons _ _ => simp
    by_cases hc : s.len + xs.length ≤ s.cap
    · simp only [hc, ↓reduceIte]
      have harr : n0 ≤ s.arr := by
        rcases g.1 with h1 | h1
        · omega
        · exact h1
      refine ⟨⟨by simp, fun i hi => ?_⟩, ⟨Or.inr harr, by simpa using g.2⟩⟩
      simp only [arrOf, List.getD_eq_getElem?_getD]
      rw [List.getElem?_set_ne (by omega)]
    · simp only [hc, ↓reduceIte]
      refine ⟨⟨by simp, fun i hi => ?_⟩, ⟨Or.inr hn, by simp⟩⟩
      simp only [arrOf, List.getD_eq_getElem?_getD]
      have : i < h.length := by omega
      rw [List.getElem?_append_left this]

theorem splitLongH_frame (grow : Nat → Nat → Nat) (width : Nat) (word : Slice) (n0 : Nat) :
    ∀ (n i : Nat) (h : Heap) (rest token : Slice) (w : Nat), n0 ≤ h.length → Good n0 h rest → Good n0 h token →
      Frame n0 h (splitLongH grow width word i n h rest token w).1 ∧
      Good n0 (splitLongH grow width word i n h rest token w).1 (splitLongH grow width word i n h rest token w).2.1 ∧
      Good n0 (splitLongH grow width word i n h rest token w).1 (splitLongH grow width word i n h rest token w).2.2 := by
  intro n
  induction n with
  | zero => intro i h rest token w _ gr gt; exact ⟨Frame.refl _ _, gr, gt⟩
  | succ n ih =>
    intro i h rest token w hn gr gt
    simp only [splitLongH]
    split
    · obtain ⟨f1, g1⟩ := append_frame grow h rest [(arrOf h word.arr).getD (word.off + i) default] n0 hn gr
      obtain ⟨f2, g2, g3⟩ := ih (i + 1) _ _ token _ (Nat.le_trans hn f1.1) g1 (gt.mono f1.1)
      exact ⟨f1.trans f2, g2, g3⟩
    · obtain ⟨f1, g1⟩ := append_frame grow h token [(arrOf h word.arr).getD (word.off + i) default] n0 hn gt
      obtain ⟨f2, g2, g3⟩ := ih (i + 1) _ rest _ _ (Nat.le_trans hn f1.1) (gr.mono f1.1) g1
      exact ⟨f1.trans f2, g2, g3⟩

theorem scanLoopH_frame (grow : Nat → Nat → Nat) (o : List Cell → Nat × Bool) (width : Nat) (n0 : Nat) :
    ∀ (fuel : Nat) (h : Heap) (st : St) (w : Nat) (h' : Heap) (st' : St), n0 ≤ h.length → Good n0 h st.token →
      scanLoopH grow o width fuel h st w = some (h', st') → Frame n0 h h' ∧ Good n0 h' st'.token := by
  intro fuel
  induction fuel with
  | zero => intro h st w h' st' _ _ e; simp [scanLoopH] at e
  | succ n ih =>
    intro h st w h' st' hn gt e
    have hne : 0 < h.length := Nat.lt_of_le_of_lt (Nat.zero_le _) gt.2
    simp only [scanLoopH] at e
    split at e
    · -- long word
      simp only [Option.some.injEq, Prod.mk.injEq] at e
      obtain ⟨e1, e2⟩ := e
      obtain ⟨f1, g1, g2⟩ := splitLongH_frame grow width _ n0 _ 0 h emptySlice st.token w hn (good_empty n0 h hne) gt
      obtain ⟨f2, g3⟩ := append_frame grow _ _ (read _ (sub (sub st.rest 0 (min (o (read h st.rest)).1 st.rest.len))
        (sub (sub st.rest 0 (min (o (read h st.rest)).1 st.rest.len)) 0
          (trimRight (read h (sub st.rest 0 (min (o (read h st.rest)).1 st.rest.len)))).length).len
        (sub st.rest 0 (min (o (read h st.rest)).1 st.rest.len)).len)) n0 (Nat.le_trans hn f1.1) g1
      obtain ⟨f3, _⟩ := append_frame grow _ _ (read _ (if min (o (read h st.rest)).1 st.rest.len < st.rest.len
        then sub st.rest (min (o (read h st.rest)).1 st.rest.len) st.rest.len else emptySlice)) n0 (Nat.le_trans hn (f1.trans f2).1) g3
      subst e1; subst e2
      exact ⟨(f1.trans f2).trans f3, (g2.mono f2.1).mono f3.1⟩
    · split at e
      · simp only [Option.some.injEq, Prod.mk.injEq] at e
        obtain ⟨e1, e2⟩ := e; subst e1; subst e2
        exact ⟨Frame.refl _ _, gt⟩
      · split at e
        · simp only [Option.some.injEq, Prod.mk.injEq] at e
          obtain ⟨e1, e2⟩ := e; subst e1; subst e2
          exact append_frame grow h st.token _ n0 hn gt
        · obtain ⟨f1, g1⟩ := append_frame grow h st.token (read h (sub (sub st.rest 0 (min (o (read h st.rest)).1 st.rest.len)) 0
            (trimRight (read h (sub st.rest 0 (min (o (read h st.rest)).1 st.rest.len)))).length)) n0 hn gt
          split at e
          · simp only [Option.some.injEq, Prod.mk.injEq] at e
            obtain ⟨e1, e2⟩ := e; subst e1; subst e2
            exact ⟨f1, g1⟩
          · obtain ⟨f2, g2⟩ := append_frame grow _ _ (read (append grow h st.token (read h (sub (sub st.rest 0 (min (o (read h st.rest)).1 st.rest.len)) 0
              (trimRight (read h (sub st.rest 0 (min (o (read h st.rest)).1 st.rest.len)))).length))).1
              (sub (sub st.rest 0 (min (o (read h st.rest)).1 st.rest.len))
                (sub (sub st.rest 0 (min (o (read h st.rest)).1 st.rest.len)) 0
                  (trimRight (read h (sub st.rest 0 (min (o (read h st.rest)).1 st.rest.len)))).length).len
                (sub st.rest 0 (min (o (read h st.rest)).1 st.rest.len)).len)) n0 (Nat.le_trans hn f1.1) g1
            obtain ⟨f3, g3⟩ := ih _ _ _ _ _ (Nat.le_trans hn (f1.trans f2).1) g2 e
            exact ⟨(f1.trans f2).trans f3, g3⟩

theorem read_frame {h h' : Heap} {s : Slice} (e : arrOf h' s.arr = arrOf h s.arr) : read h' s = read h s := by
  unfold VaxisModel.Model.WrapHeap.read
  rw [e]

theorem Frame.weaken {n0 n1 : Nat} {h h' : Heap} (f : Frame n1 h h') (hle : n0 ≤ n1) : Frame n0 h h' :=
  ⟨f.1, fun i hi => f.2 i (Nat.lt_of_lt_of_le hi hle)⟩

/-- One `Scan`: the arrays that existed before are unchanged; the returned token lives in an existing array. -/
theorem scanH_frame (grow : Nat → Nat → Nat) (o : List Cell → Nat × Bool) (width : Nat) (h : Heap) (st : St)
    (h' : Heap) (st' : St) (hne : 0 < h.length) (e : scanH grow o width h st = .line h' st') :
    Frame h.length h h' ∧ st'.token.arr < h'.length := by
  unfold scanH at e
  split at e
  · cases e
  · split at e
    · cases e
    · rename_i r hr
      cases e
      obtain ⟨f, g⟩ := scanLoopH_frame grow o width h.length _ h ⟨st.rest, emptySlice⟩ 0 r.1 r.2 (Nat.le_refl _)
        (good_empty _ h hne) (by rw [hr])
      exact ⟨f, g.2⟩

/-- The whole iteration: every line handed out keeps denoting the cells it denoted when returned. -/
theorem linesH_stable (grow : Nat → Nat → Nat) (o : List Cell → Nat × Bool) (width : Nat) :
    ∀ (fuel : Nat) (h : Heap) (st : St) (acc : List (Slice × List Cell)) (hf : Heap) (ls : List (Slice × List Cell)),
      0 < h.length → (∀ p ∈ acc, p.1.arr < h.length ∧ read h p.1 = p.2) →
      linesH grow o width fuel h st acc = some (hf, ls) →
      Frame h.length h hf ∧ ∀ p ∈ ls, read hf p.1 = p.2 := by
  intro fuel
  induction fuel with
  | zero => intro h st acc hf ls _ _ e; simp [linesH] at e
  | succ n ih =>
    intro h st acc hf ls hne hacc e
    simp only [linesH] at e
    split at e
    · simp only [Option.some.injEq, Prod.mk.injEq] at e
      obtain ⟨e1, e2⟩ := e; subst e1; subst e2
      exact ⟨Frame.refl _ _, fun p hp => (hacc p (List.mem_reverse.mp hp)).2⟩
    · cases e
    · rename_i h' st' hs
      obtain ⟨f, gt⟩ := scanH_frame grow o width h st h' st' hne hs
      have hne' : 0 < h'.length := Nat.lt_of_lt_of_le hne f.1
      obtain ⟨f2, hl⟩ := ih h' st' _ hf ls hne' (by
        intro p hp
        rcases List.mem_cons.mp hp with rfl | hp
        · exact ⟨gt, rfl⟩
        · obtain ⟨a1, a2⟩ := hacc p hp
          exact ⟨Nat.lt_of_lt_of_le a1 f.1, (read_frame (f.2 _ a1)).trans a2⟩) e
      exact ⟨f.trans (f2.weaken f.1), hl⟩

theorem hardLoopH_frame (grow : Nat → Nat → Nat) (cells : Slice) (n0 : Nat) :
    ∀ (n i : Nat) (h : Heap) (line : Slice), n0 ≤ h.length → Good n0 h line →
      Frame n0 h (hardLoopH grow cells i n h line).1 ∧
      Good n0 (hardLoopH grow cells i n h line).1 (hardLoopH grow cells i n h line).2.line := by
  intro n
  induction n with
  | zero => intro i h line _ g; exact ⟨Frame.refl _ _, g⟩
  | succ n ih =>
    intro i h line hn g
    simp only [hardLoopH]
    split
    · split
      · exact ⟨Frame.refl _ _, g⟩
      · exact ⟨Frame.refl _ _, g⟩
    · obtain ⟨f1, g1⟩ := append_frame grow h line [(arrOf h cells.arr).getD (cells.off + i) default] n0 hn g
      obtain ⟨f2, g2⟩ := ih (i + 1) _ _ (Nat.le_trans hn f1.1) g1
      exact ⟨f1.trans f2, g2⟩

end VaxisModel.Lemmas.WrapHeap
