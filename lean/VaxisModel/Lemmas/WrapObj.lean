/-
Lemmas for `Props/C16Obj.lean`: the plain soft-wrap scanner as an object (`Model/WrapObj.lean`) refines the
value-level loop of `Model/Wrap.lean`, and the (rest, state) pair it carries across `Scan` calls is the
segmenter's own.
-/
import VaxisModel.Model.WrapObj
import VaxisModel.Lemmas.Wrap

namespace VaxisModel.Lemmas.WrapObj
open VaxisModel.Model.Wrap VaxisModel.Model.WrapObj VaxisModel.Lemmas.Wrap

def Res.toScan {σ : Type} : Res σ → Scan σ
  | .stop _ => .stop
  | .hang => .hang
  | .line s => .line s.rest s.state s.token

theorem scanObjLoop_refines {σ : Type} (o : σ → List Cell → Nat × Bool × σ) (ini : σ) (width : Nat) :
    ∀ (fuel : Nat) (s : Obj σ) (w : Nat),
      Res.toScan (scanObjLoop false o ini width fuel s w) = scanLoop o ini width fuel s.rest s.state s.token w := by
  intro fuel
  induction fuel with
  | zero => intro s w; rfl
  | succ n ih =>
    intro s w
    simp only [scanObjLoop, scanLoop, Bool.false_eq_true, if_false]
    split
    · rfl
    · split
      · rfl
      · split
        · rfl
        · split
          · rfl
          · rw [ih]

theorem chain_succ_end {σ : Type} (o : σ → List Cell → Nat × Bool × σ) : ∀ (k : Nat) (b : List Cell) (s : σ),
    chain o (k + 1) b s = ((chain o k b s).1.drop (o (chain o k b s).2 (chain o k b s).1).1, (o (chain o k b s).2 (chain o k b s).1).2.2) := by
  intro k
  induction k with
  | zero => intro b s; rfl
  | succ n ih => intro b s; rw [chain, ih]; rfl

/-- the pair is the segmenter's own state at `rest`, `k` segments after a point `base` where the state was unknown (−1) -/
def Own {σ : Type} (o : σ → List Cell → Nat × Bool × σ) (ini : σ) (rest : List Cell) (st : σ) : Prop :=
  ∃ base k, (rest, st) = chain o k base ini

theorem Own.step {σ : Type} {o : σ → List Cell → Nat × Bool × σ} {ini : σ} {rest : List Cell} {st : σ}
    (h : Own o ini rest st) : Own o ini (rest.drop (o st rest).1) (o st rest).2.2 := by
  obtain ⟨base, k, hk⟩ := h
  refine ⟨base, k + 1, ?_⟩
  rw [chain_succ_end, ← hk]

theorem scanObjLoop_own {σ : Type} (o : σ → List Cell → Nat × Bool × σ) (ini : σ) (width : Nat) :
    ∀ (fuel : Nat) (s s' : Obj σ) (w : Nat), Own o ini s.rest s.state →
      scanObjLoop false o ini width fuel s w = .line s' → Own o ini s'.rest s'.state := by
  intro fuel
  induction fuel with
  | zero => intro s s' w _ h; simp [scanObjLoop] at h
  | succ n ih =>
    intro s s' w hown h
    simp only [scanObjLoop, Bool.false_eq_true, if_false] at h
    split at h
    · injection h with h; subst h; exact ⟨_, 0, rfl⟩
    · split at h
      · injection h with h; subst h; exact hown
      · split at h
        · injection h with h; subst h; exact hown.step
        · split at h
          · injection h with h; subst h; exact hown.step
          · exact ih _ _ _ hown.step h

theorem scanObj_refines {σ : Type} (o : σ → List Cell → Nat × Bool × σ) (ini : σ) (width : Nat) (s : Obj σ) :
    Res.toScan (scanObj false o ini width s) = scan o ini width s.rest s.state := by
  unfold scanObj scan
  split
  · rfl
  · exact scanObjLoop_refines o ini width _ _ _

def Lines.toOption : Lines → Option (List (List Cell))
  | .ok ls => some ls
  | .hang => none

theorem runObj_refines {σ : Type} (o : σ → List Cell → Nat × Bool × σ) (ini : σ) (width : Nat) :
    ∀ (fuel : Nat) (s : Obj σ),
      (runObj false o ini width fuel s).map (·.1) = Lines.toOption (scanAll o ini width fuel s.rest s.state) := by
  intro fuel
  induction fuel with
  | zero => intro s; rfl
  | succ n ih =>
    intro s
    have h := scanObj_refines o ini width s
    simp only [runObj, scanAll]
    cases hs : scanObj false o ini width s with
    | stop s' => rw [hs] at h; simp only [Res.toScan] at h; rw [← h]; rfl
    | hang => rw [hs] at h; simp only [Res.toScan] at h; rw [← h]; rfl
    | line s' =>
      rw [hs] at h; simp only [Res.toScan] at h; rw [← h]
      dsimp only
      have := ih s'
      cases hr : runObj false o ini width n s' with
      | none =>
        rw [hr] at this; simp only [Option.map] at this
        cases hsa : scanAll o ini width n s'.rest s'.state with
        | hang => rfl
        | ok ls => rw [hsa] at this; simp [Lines.toOption] at this
      | some p =>
        rw [hr] at this; simp only [Option.map] at this
        cases hsa : scanAll o ini width n s'.rest s'.state with
        | hang => rw [hsa] at this; simp [Lines.toOption] at this
        | ok ls =>
          rw [hsa] at this; simp only [Lines.toOption, Option.some.injEq] at this
          obtain ⟨a, b⟩ := p; simp only at this; subst this; rfl

/-- the objects a scanner passes through: `NewSoftwrapScanner(text, width)`, then one `Scan` after the other -/
inductive Reach {σ : Type} (o : σ → List Cell → Nat × Bool × σ) (ini : σ) (width : Nat) (text : List Cell) : Obj σ → Prop where
  | new : Reach o ini width text (newObj ini text)
  | scan {s s' : Obj σ} : Reach o ini width text s → scanObj false o ini width s = .line s' → Reach o ini width text s'

theorem reach_own {σ : Type} (o : σ → List Cell → Nat × Bool × σ) (ini : σ) (width : Nat) (text : List Cell) (s : Obj σ)
    (h : Reach o ini width text s) : Own o ini s.rest s.state := by
  induction h with
  | new => exact ⟨text, 0, rfl⟩
  | scan _ hs ih =>
    unfold scanObj at hs
    split at hs
    · cases hs
    · rename_i s0 s1 _ _
      exact scanObjLoop_own o ini width _ { s0 with token := [] } _ _ ih hs


/-! ### the state as a function of the text that is left -/

/-- on the segmenter's path from the START of `text` (no reset in between) -/
def OwnFrom {σ : Type} (o : σ → List Cell → Nat × Bool × σ) (ini : σ) (text rest : List Cell) (st : σ) : Prop :=
  ∃ k, (rest, st) = chain o k text ini

theorem chain_add {σ : Type} (o : σ → List Cell → Nat × Bool × σ) : ∀ (a b : Nat) (r : List Cell) (s : σ),
    chain o (a + b) r s = chain o b (chain o a r s).1 (chain o a r s).2 := by
  intro a
  induction a with
  | zero => intro b r s; simp [chain]
  | succ n ih => intro b r s; rw [Nat.succ_add]; simp only [chain]; exact ih b _ _

theorem chain_len_le {σ : Type} (o : σ → List Cell → Nat × Bool × σ) : ∀ (k : Nat) (r : List Cell) (s : σ),
    (chain o k r s).1.length ≤ r.length := by
  intro k
  induction k with
  | zero => intro r s; simp [chain]
  | succ n ih =>
    intro r s
    simp only [chain]
    have := ih (r.drop (o s r).1) (o s r).2.2
    simp only [List.length_drop] at this
    omega

/-- with non-empty segments the path moves: a later point of the path has strictly less text left, as long as text is left -/
theorem chain_len_lt {σ : Type} (o : σ → List Cell → Nat × Bool × σ) (hok : OracleOK o) : ∀ (k : Nat) (r : List Cell) (s : σ),
    0 < k → r ≠ [] → (chain o k r s).1.length < r.length := by
  intro k r s hk hr
  cases k with
  | zero => omega
  | succ n =>
    simp only [chain]
    have h1 := (hok s r hr).1
    have h2 := chain_len_le o n (r.drop (o s r).1) (o s r).2.2
    simp only [List.length_drop] at h2
    have : 0 < r.length := by cases r with | nil => exact absurd rfl hr | cons a b => simp
    omega

/-- **the state is a function of the text that is left** (equivalently: of the text consumed): two points of the segmenter's
path from the start of the same text with the same non-empty rest carry the same state -/
theorem chain_state_unique {σ : Type} (o : σ → List Cell → Nat × Bool × σ) (hok : OracleOK o) (ini : σ) (text rest : List Cell)
    (st1 st2 : σ) (h1 : OwnFrom o ini text rest st1) (h2 : OwnFrom o ini text rest st2) (hne : rest ≠ []) : st1 = st2 := by
  obtain ⟨k1, e1⟩ := h1
  obtain ⟨k2, e2⟩ := h2
  have key : ∀ (a b : Nat) (s1 s2 : σ), a ≤ b → (rest, s1) = chain o a text ini → (rest, s2) = chain o b text ini → s1 = s2 := by
    intro a b s1 s2 hab ea eb
    obtain ⟨d, rfl⟩ := Nat.exists_eq_add_of_le hab
    rw [chain_add, ← ea] at eb
    cases d with
    | zero => simp only [chain] at eb; exact (Prod.mk.inj eb).2.symm ▸ rfl
    | succ n =>
      have := chain_len_lt o hok (n + 1) rest s1 (Nat.succ_pos _) hne
      simp only at eb
      rw [← eb] at this
      exact absurd this (Nat.lt_irrefl _)
  rcases Nat.le_total k1 k2 with h | h
  · exact key k1 k2 st1 st2 h e1 e2
  · exact (key k2 k1 st2 st1 h e2 e1).symm

/-- one `Scan` keeps the scanner on the path from the start of the text — unless it splits a long word, which resets the state -/
theorem scanObjLoop_ownFrom {σ : Type} (o : σ → List Cell → Nat × Bool × σ) (ini : σ) (width : Nat) (text : List Cell) :
    ∀ (fuel : Nat) (s s' : Obj σ) (w : Nat), OwnFrom o ini text s.rest s.state →
      scanObjLoop false o ini width fuel s w = .line s' → OwnFrom o ini text s'.rest s'.state ∨ s'.state = ini := by
  intro fuel
  have step : ∀ {r : List Cell} {st : σ}, OwnFrom o ini text r st → OwnFrom o ini text (r.drop (o st r).1) (o st r).2.2 := by
    intro r st ⟨k, hk⟩
    exact ⟨k + 1, by rw [chain_succ_end, ← hk]⟩
  induction fuel with
  | zero => intro s s' w _ h; simp [scanObjLoop] at h
  | succ n ih =>
    intro s s' w hown h
    simp only [scanObjLoop, Bool.false_eq_true, if_false] at h
    split at h
    · injection h with h; subst h; exact .inr rfl
    · split at h
      · injection h with h; subst h; exact .inl hown
      · split at h
        · injection h with h; subst h; exact .inl (step hown)
        · split at h
          · injection h with h; subst h; exact .inl (step hown)
          · exact ih _ _ _ (step hown) h

/-- every word the segmenter can return fits the line: the long-word branch (the only place that resets the state) is never taken -/
def WordsFit {σ : Type} (o : σ → List Cell → Nat × Bool × σ) (width : Nat) : Prop :=
  ∀ (st : σ) (rest : List Cell), ¬ sumW (trimRight (rest.take (o st rest).1)) > width

theorem scanObjLoop_ownFrom_fit {σ : Type} (o : σ → List Cell → Nat × Bool × σ) (ini : σ) (width : Nat) (text : List Cell)
    (hfit : WordsFit o width) :
    ∀ (fuel : Nat) (s s' : Obj σ) (w : Nat), OwnFrom o ini text s.rest s.state →
      scanObjLoop false o ini width fuel s w = .line s' → OwnFrom o ini text s'.rest s'.state := by
  intro fuel
  have step : ∀ {r : List Cell} {st : σ}, OwnFrom o ini text r st → OwnFrom o ini text (r.drop (o st r).1) (o st r).2.2 := by
    intro r st ⟨k, hk⟩
    exact ⟨k + 1, by rw [chain_succ_end, ← hk]⟩
  induction fuel with
  | zero => intro s s' w _ h; simp [scanObjLoop] at h
  | succ n ih =>
    intro s s' w hown h
    simp only [scanObjLoop, Bool.false_eq_true, if_false] at h
    split at h
    · rename_i hlong; exact absurd hlong (hfit s.state s.rest)
    · split at h
      · injection h with h; subst h; exact hown
      · split at h
        · injection h with h; subst h; exact step hown
        · split at h
          · injection h with h; subst h; exact step hown
          · exact ih _ _ _ (step hown) h

theorem reach_ownFrom {σ : Type} (o : σ → List Cell → Nat × Bool × σ) (ini : σ) (width : Nat) (text : List Cell)
    (hfit : WordsFit o width) (s : Obj σ) (h : Reach o ini width text s) : OwnFrom o ini text s.rest s.state := by
  induction h with
  | new => exact ⟨0, rfl⟩
  | scan _ hs ih =>
    unfold scanObj at hs
    split at hs
    · cases hs
    · rename_i s0 s1 _ _
      exact scanObjLoop_ownFrom_fit o ini width text hfit _ { s0 with token := [] } _ _ ih hs

end VaxisModel.Lemmas.WrapObj
