/-
Lemmas for `Props/C16Obj.lean`: the plain soft-wrap scanner as an object (`Model/WrapObj.lean`) refines the
value-level loop of `Model/Wrap.lean`, and the (rest, state) pair it carries across `Scan` calls is the
segmenter's own.
-/
import VaxisModel.Model.WrapObj
import VaxisModel.Lemmas.Wrap

namespace VaxisModel.Lemmas.WrapObj
open VaxisModel.Model.Wrap VaxisModel.Model.WrapObj

def Res.toScan {σ : Type} : Res σ → Scan σ
  | .stop _ => .stop
  | .hang => .hang
  | .line s => .line s.rest s.state s.token

theorem scanObjLoop_refines {σ : Type} (o : σ → List Cell → Nat × Bool × σ) (ini : σ) (width : Nat) :
    ∀ (fuel : Nat) (s : Obj σ) (w : Nat),
      Res.toScan (scanObjLoop false o ini width fuel s w) = scanLoop o ini width fuel s.rest s.state s.token w := by
  intro fuel
  induction fuel with
  | zero => intro s w; rfl
  | succ n ih =>
    intro s w
    simp only [scanObjLoop, scanLoop, Bool.false_eq_true, if_false]
    split
    · rfl
    · split
      · rfl
      · split
        · rfl
        · split
          · rfl
          · rw [ih]

theorem chain_succ_end {σ : Type} (o : σ → List Cell → Nat × Bool × σ) : ∀ (k : Nat) (b : List Cell) (s : σ),
    chain o (k + 1) b s = ((chain o k b s).1.drop (o (chain o k b s).2 (chain o k b s).1).1, (o (chain o k b s).2 (chain o k b s).1).2.2) := by
  intro k
  induction k with
  | zero => intro b s; rfl
  | succ n ih => intro b s; rw [chain, ih]; rfl

/-- the pair is the segmenter's own state at `rest`, `k` segments after a point `base` where the state was unknown (−1) -/
def Own {σ : Type} (o : σ → List Cell → Nat × Bool × σ) (ini : σ) (rest : List Cell) (st : σ) : Prop :=
  ∃ base k, (rest, st) = chain o k base ini

theorem Own.step {σ : Type} {o : σ → List Cell → Nat × Bool × σ} {ini : σ} {rest : List Cell} {st : σ}
    (h : Own o ini rest st) : Own o ini (rest.drop (o st rest).1) (o st rest).2.2 := by
  obtain ⟨base, k, hk⟩ := h
  refine ⟨base, k + 1, ?_⟩
  rw [chain_succ_end, ← hk]

theorem scanObjLoop_own {σ : Type} (o : σ → List Cell → Nat × Bool × σ) (ini : σ) (width : Nat) :
    ∀ (fuel : Nat) (s s' : Obj σ) (w : Nat), Own o ini s.rest s.state →
      scanObjLoop false o ini width fuel s w = .line s' → Own o ini s'.rest s'.state := by
  intro fuel
  induction fuel with
  | zero => intro s s' w _ h; simp [scanObjLoop] at h
  | succ n ih =>
    intro s s' w hown h
    simp only [scanObjLoop, Bool.false_eq_true, if_false] at h
    split at h
    · injection h with h; subst h; exact ⟨_, 0, rfl⟩
    · split at h
      · injection h with h; subst h; exact hown
      · split at h
        · injection h with h; subst h; exact hown.step
        · split at h
          · injection h with h; subst h; exact hown.step
          · exact ih _ _ _ hown.step h

theorem scanObj_refines {σ : Type} (o : σ → List Cell → Nat × Bool × σ) (ini : σ) (width : Nat) (s : Obj σ) :
    Res.toScan (scanObj false o ini width s) = scan o ini width s.rest s.state := by
  unfold scanObj scan
  split
  · rfl
  · exact scanObjLoop_refines o ini width _ _ _

def Lines.toOption : Lines → Option (List (List Cell))
  | .ok ls => some ls
  | .hang => none

theorem runObj_refines {σ : Type} (o : σ → List Cell → Nat × Bool × σ) (ini : σ) (width : Nat) :
    ∀ (fuel : Nat) (s : Obj σ),
      (runObj false o ini width fuel s).map (·.1) = Lines.toOption (scanAll o ini width fuel s.rest s.state) := by
  intro fuel
  induction fuel with
  | zero => intro s; rfl
  | succ n ih =>
    intro s
    have h := scanObj_refines o ini width s
    simp only [runObj, scanAll]
    cases hs : scanObj false o ini width s with
    | stop s' => rw [hs] at h; simp only [Res.toScan] at h; rw [← h]; rfl
    | hang => rw [hs] at h; simp only [Res.toScan] at h; rw [← h]; rfl
    | line s' =>
      rw [hs] at h; simp only [Res.toScan] at h; rw [← h]
      dsimp only
      have := ih s'
      cases hr : runObj false o ini width n s' with
      | none =>
        rw [hr] at this; simp only [Option.map] at this
        cases hsa : scanAll o ini width n s'.rest s'.state with
        | hang => rfl
        | ok ls => rw [hsa] at this; simp [Lines.toOption] at this
      | some p =>
        rw [hr] at this; simp only [Option.map] at this
        cases hsa : scanAll o ini width n s'.rest s'.state with
        | hang => rw [hsa] at this; simp [Lines.toOption] at this
        | ok ls =>
          rw [hsa] at this; simp only [Lines.toOption, Option.some.injEq] at this
          obtain ⟨a, b⟩ := p; simp only at this; subst this; rfl

/-- the objects a scanner passes through: `NewSoftwrapScanner(text, width)`, then one `Scan` after the other -/
inductive Reach {σ : Type} (o : σ → List Cell → Nat × Bool × σ) (ini : σ) (width : Nat) (text : List Cell) : Obj σ → Prop where
  | new : Reach o ini width text (newObj ini text)
  | scan {s s' : Obj σ} : Reach o ini width text s → scanObj false o ini width s = .line s' → Reach o ini width text s'

theorem reach_own {σ : Type} (o : σ → List Cell → Nat × Bool × σ) (ini : σ) (width : Nat) (text : List Cell) (s : Obj σ)
    (h : Reach o ini width text s) : Own o ini s.rest s.state := by
  induction h with
  | new => exact ⟨text, 0, rfl⟩
  | scan _ hs ih =>
    unfold scanObj at hs
    split at hs
    · cases hs
    · rename_i s0 s1 _ _
      exact scanObjLoop_own o ini width _ { s0 with token := [] } _ _ ih hs


end VaxisModel.Lemmas.WrapObj
