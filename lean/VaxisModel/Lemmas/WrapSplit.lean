import VaxisModel.Model.Wrap
import VaxisModel.Spec.Wrap
import VaxisModel.Lemmas.Wrap
import VaxisModel.Lemmas.WrapE2E

/-! C16: `Spec.Wrap.noNeedlessSplit` ("never split a run of letters that would fit on a line of its
own") for the whole iteration of the richtext scanner. -/
namespace VaxisModel.Lemmas.Wrap
open VaxisModel.Model.Wrap
open VaxisModel.Spec.Wrap (nonWs content natWidth trimTrailing lineIndex runs splitInner splitRuns noNeedlessSplit)

/-! ### The oracle without arrays -/

/-- `splitInner` over the list of the remaining line numbers; `prev` = line of the previous cell if
it was a non-whitespace cell of the same run. -/
def siL (fits : Bool) : List Cell → Option Nat → List Nat → Bool
  | [], _, _ => true
  | c :: cs, prev, idx =>
    if nonWs c then
      (match prev with
       | some i => !fits || i == idx.headD 0
       | none => true) && siL fits cs (some (idx.headD 0)) idx.tail
    else siL fits cs none idx

def srL (width : Nat) : List (List Cell) → List Nat → Bool
  | [], _ => true
  | r :: rs, idx =>
    siL (decide (natWidth (trimTrailing r) ≤ width)) r none idx && srL width rs (idx.drop (content r).length)

theorem headD_drop (l : List Nat) (j : Nat) : (l.drop j).headD 0 = l.getD j 0 := by
  induction l generalizing j with
  | nil => simp
  | cons a as ih =>
    cases j with
    | zero => simp
    | succ j => simp

theorem tail_drop (l : List Nat) (j : Nat) : (l.drop j).tail = l.drop (j + 1) := by
  induction l generalizing j with
  | nil => simp
  | cons a as ih =>
    cases j with
    | zero => simp
    | succ j => simp [ih]

theorem splitInner_eq (l : List Nat) (fits : Bool) : ∀ (cs : List Cell) (j : Nat) (pnw : Bool),
    splitInner l.toArray fits cs j pnw =
      siL fits cs (if pnw then some (l.getD (j - 1) 0) else none) (l.drop j) := by
  have hA : ∀ (i : Nat), l.toArray.getD i 0 = l.getD i 0 := by intro i; simp
  intro cs
  induction cs with
  | nil => intro j pnw; simp [splitInner, siL]
  | cons c cs ih =>
    intro j pnw
    unfold splitInner siL
    by_cases hc : nonWs c = true
    · simp only [hc, ↓reduceIte, hA, headD_drop, tail_drop]
      rw [ih (j + 1) true]
      simp only [↓reduceIte, Nat.add_sub_cancel]
      congr 1
      cases pnw <;> cases fits <;> simp
    · simp only [hc, Bool.false_eq_true, ↓reduceIte]
      rw [ih j false]
      simp

theorem splitRuns_eq (l : List Nat) (width : Nat) : ∀ (rs : List (List Cell)) (k : Nat),
    splitRuns l.toArray width rs k = srL width rs (l.drop k) := by
  intro rs
  induction rs with
  | nil => intro k; simp [splitRuns, srL]
  | cons r rs ih =>
    intro k
    unfold splitRuns srL
    rw [splitInner_eq, ih, List.drop_drop]
    simp

theorem noNeedlessSplit_eq (lb : Nat → Nat → Bool) (width : Nat) (input : List Cell) (ls : List (List Cell)) :
    noNeedlessSplit lb width input ls = srL width (runs lb input) (lineIndex ls) := by
  unfold noNeedlessSplit
  rw [splitRuns_eq]
  simp

/-! ### `siL` facts -/

theorem siL_nofit : ∀ (cs : List Cell) (prev : Option Nat) (idx : List Nat), siL false cs prev idx = true := by
  intro cs
  induction cs with
  | nil => intro _ _; rfl
  | cons c cs ih =>
    intro prev idx
    unfold siL
    split
    · rw [ih]; cases prev <;> simp
    · exact ih _ _

/-- all graphemes of the run on one line -/
theorem siL_const (f : Bool) (k0 : Nat) : ∀ (cs : List Cell) (prev : Option Nat) (n : Nat) (J : List Nat),
    (content cs).length ≤ n → (prev = none ∨ prev = some k0) →
    siL f cs prev (List.replicate n k0 ++ J) = true := by
  intro cs
  induction cs with
  | nil => intro _ _ _ _ _; rfl
  | cons c cs ih =>
    intro prev n J hn hprev
    unfold siL
    by_cases hc : nonWs c = true
    · have hcon : content (c :: cs) = c :: content cs := by simp [content, hc]
      rw [hcon, List.length_cons] at hn
      obtain ⟨m, rfl⟩ : ∃ m, n = m + 1 := ⟨n - 1, by omega⟩
      simp only [hc, ↓reduceIte, List.replicate_succ, List.cons_append, List.headD_cons, List.tail_cons,
        Bool.and_eq_true]
      constructor
      · rcases hprev with h | h <;> subst h <;> simp
      · exact ih (some k0) m J (by omega) (Or.inr rfl)
    · have hcon : content (c :: cs) = content cs := by simp [content, hc]
      rw [hcon] at hn
      simp only [hc, Bool.false_eq_true, ↓reduceIte]
      exact ih none n J hn (Or.inl rfl)

theorem siL_append_nonws (f : Bool) (T : Cell) (hT : nonWs T = false) : ∀ (cs : List Cell) (prev : Option Nat)
    (idx : List Nat), siL f (cs ++ [T]) prev idx = siL f cs prev idx := by
  intro cs
  induction cs with
  | nil => intro prev idx; simp [siL, hT]
  | cons c cs ih =>
    intro prev idx
    rw [List.cons_append]
    unfold siL
    split
    · rw [ih]
    · rw [ih]

/-! ### Runs -/

/-- length of the first run -/
def runLen (lb : Nat → Nat → Bool) : List Cell → Nat
  | [] => 0
  | [_] => 1
  | c :: n :: rest => if c.term || lb c.g n.g then 1 else runLen lb (n :: rest) + 1

theorem runs_cons_cons_break (lb : Nat → Nat → Bool) (c n : Cell) (r : List Cell)
    (h : (c.term || lb c.g n.g) = true) : runs lb (c :: n :: r) = [c] :: runs lb (n :: r) := by
  rw [runs]; simp only [h, ↓reduceIte]

theorem runs_cons_cons_nobreak (lb : Nat → Nat → Bool) (c n : Cell) (r : List Cell) (x : List Cell)
    (rs : List (List Cell)) (h : (c.term || lb c.g n.g) = false) (hr : runs lb (n :: r) = x :: rs) :
    runs lb (c :: n :: r) = (c :: x) :: rs := by
  rw [runs]; simp only [h, Bool.false_eq_true, ↓reduceIte, hr]

theorem runLen_cons_cons (lb : Nat → Nat → Bool) (c n : Cell) (r : List Cell) :
    runLen lb (c :: n :: r) = if c.term || lb c.g n.g then 1 else runLen lb (n :: r) + 1 := by rw [runLen]

theorem fls_cons_cons (lb : Nat → Nat → Bool) (first : Bool) (c n : Cell) (r : List Cell) :
    firstLineSegment lb first (c :: n :: r) =
      if first && c.term then (1, true)
      else if n.term then (2, true)
      else if lb c.g n.g then (1, false)
      else ((firstLineSegment lb false (n :: r)).1 + 1, (firstLineSegment lb false (n :: r)).2) := by
  rw [firstLineSegment]

theorem runLen_pos (lb : Nat → Nat → Bool) (c : Cell) (cs : List Cell) : 1 ≤ runLen lb (c :: cs) := by
  cases cs with
  | nil => simp [runLen]
  | cons n r => rw [runLen_cons_cons]; split <;> omega

theorem runs_unfold (lb : Nat → Nat → Bool) : ∀ (l : List Cell), l ≠ [] →
    runs lb l = l.take (runLen lb l) :: runs lb (l.drop (runLen lb l)) := by
  intro l
  induction l with
  | nil => intro h; exact absurd rfl h
  | cons c cs ih =>
    intro _
    cases cs with
    | nil => simp [runs, runLen]
    | cons n r =>
      rw [runLen_cons_cons]
      by_cases hb : (c.term || lb c.g n.g) = true
      · rw [runs_cons_cons_break lb c n r hb]; simp [hb]
      · have hb' : (c.term || lb c.g n.g) = false := by simpa using hb
        simp only [hb', Bool.false_eq_true, ↓reduceIte]
        rw [runs_cons_cons_nobreak lb c n r _ _ hb' (ih (by simp))]
        simp

/-- The segment of `firstLineSegment` is the first run, or the first run plus the terminator
behind it. -/
theorem fls_runLen (lb : Nat → Nat → Bool) : ∀ (l : List Cell) (first : Bool), l ≠ [] →
    (first = false → ∀ c, l.head? = some c → c.term = false) →
    (firstLineSegment lb first l).1 = runLen lb l ∨
    ((firstLineSegment lb first l).1 = runLen lb l + 1 ∧ ∃ T, l[runLen lb l]? = some T ∧ T.term = true) := by
  intro l
  induction l with
  | nil => intro _ h; exact absurd rfl h
  | cons c cs ih =>
    intro first _ hfirst
    cases cs with
    | nil => left; simp [firstLineSegment, runLen]
    | cons n r =>
      rw [fls_cons_cons, runLen_cons_cons]
      by_cases h1 : (first && c.term) = true
      · obtain ⟨hf, hc⟩ : first = true ∧ c.term = true := by simpa using h1
        left; simp [hf, hc]
      · have hc : c.term = false := by
          cases first with
          | true => simpa using h1
          | false => exact hfirst rfl c rfl
        simp only [h1, Bool.false_eq_true, ↓reduceIte]
        simp only [hc, Bool.false_or]
        by_cases h2 : n.term = true
        · simp only [h2, ↓reduceIte]
          by_cases h3 : lb c.g n.g = true
          · right; simp [h3, h2]
          · left
            simp only [h3, Bool.false_eq_true, ↓reduceIte]
            cases r with
            | nil => simp [runLen]
            | cons d ds => simp [runLen, h2]
        · simp only [h2, Bool.false_eq_true, ↓reduceIte]
          by_cases h3 : lb c.g n.g = true
          · left; simp [h3]
          · simp only [h3, Bool.false_eq_true, ↓reduceIte]
            have hn : n.term = false := by simpa using h2
            rcases ih false (by simp) (fun _ x hx => by simp at hx; subst hx; exact hn) with h | ⟨h, T, hT, hTt⟩
            · left; omega
            · right
              refine ⟨by omega, T, ?_, hTt⟩
              simpa using hT

theorem fls_first_irrelevant (lb : Nat → Nat → Bool) (l : List Cell)
    (h : ∀ c, l.head? = some c → c.term = false) :
    firstLineSegment lb true l = firstLineSegment lb false l := by
  cases l with
  | nil => rfl
  | cons c cs =>
    cases cs with
    | nil => rfl
    | cons n r =>
      have hc : c.term = false := h c rfl
      rw [fls_cons_cons, fls_cons_cons]
      simp [hc]

/-- Position independence: queried inside a segment, `firstLineSegment` returns the remainder of
that segment. -/
theorem fls_drop (lb : Nat → Nat → Bool) : ∀ (l : List Cell) (first : Bool) (j : Nat),
    0 < j → j < (firstLineSegment lb first l).1 →
    (firstLineSegment lb true (l.drop j)).1 = (firstLineSegment lb first l).1 - j := by
  intro l
  induction l with
  | nil => intro first j h1 h2; simp [firstLineSegment] at h2
  | cons c cs ih =>
    intro first j hj hlt
    cases cs with
    | nil => simp [firstLineSegment] at hlt; omega
    | cons n r =>
      rw [fls_cons_cons] at hlt ⊢
      by_cases h1 : (first && c.term) = true
      · simp [h1] at hlt; omega
      · simp only [h1, Bool.false_eq_true, ↓reduceIte] at hlt ⊢
        by_cases h2 : n.term = true
        · simp only [h2, ↓reduceIte] at hlt ⊢
          have : j = 1 := by omega
          subst this
          cases r with
          | nil => simp [firstLineSegment]
          | cons d ds => simp [firstLineSegment, h2]
        · simp only [h2, Bool.false_eq_true, ↓reduceIte] at hlt ⊢
          by_cases h3 : lb c.g n.g = true
          · simp [h3] at hlt; omega
          · simp only [h3, Bool.false_eq_true, ↓reduceIte] at hlt ⊢
            have hn : n.term = false := by simpa using h2
            cases j with
            | zero => omega
            | succ j =>
              simp only [List.drop_succ_cons]
              cases j with
              | zero =>
                simp only [List.drop_zero]
                rw [fls_first_irrelevant lb (n :: r) (fun x hx => by simp at hx; subst hx; exact hn)]
                omega
              | succ j =>
                have := ih false (j + 1) (by omega) (by omega)
                rw [this]; omega

theorem runLen_term (lb : Nat → Nat → Bool) (T : Cell) (cs : List Cell) (hT : T.term = true) :
    runLen lb (T :: cs) = 1 := by
  cases cs with
  | nil => rfl
  | cons n r => rw [runLen_cons_cons]; simp [hT]

theorem fits_eq (r : List Cell) (width : Nat) :
    decide (natWidth (trimTrailing r) ≤ width) = decide (sumW (trimRight r) ≤ width) := by
  rw [trimTrailing_eq, natWidth_eq_sumW]

/-- One segment of the richtext oracle, in terms of the runs of the oracle `noNeedlessSplit`. -/
theorem srL_seg (lb : Nat → Nat → Bool) (width : Nat) (rest : List Cell) (hne : rest ≠ [])
    (hsp : ∀ c ∈ rest, c.term = true → c.sp = true) (idx : List Nat) :
    srL width (runs lb rest) idx =
      (siL (decide (sumW (trimRight (rest.take (firstLineSegment lb true rest).1)) ≤ width))
          (rest.take (firstLineSegment lb true rest).1) none idx &&
        srL width (runs lb (rest.drop (firstLineSegment lb true rest).1))
          (idx.drop (content (rest.take (firstLineSegment lb true rest).1)).length)) := by
  rw [runs_unfold lb rest hne, srL, fits_eq]
  rcases fls_runLen lb rest true hne (by intro h; cases h) with h | ⟨h, T, hT, hTt⟩
  · rw [h]
  · rw [h]
    have hlt : runLen lb rest < rest.length := by
      rcases Nat.lt_or_ge (runLen lb rest) rest.length with h | h
      · exact h
      · rw [List.getElem?_eq_none h] at hT; cases hT
    have hTe : rest[runLen lb rest] = T := by
      rw [List.getElem?_eq_getElem hlt] at hT; exact Option.some.inj hT
    have htake : rest.take (runLen lb rest + 1) = rest.take (runLen lb rest) ++ [T] := by
      rw [List.take_succ_eq_append_getElem hlt, hTe]
    have hdrop : rest.drop (runLen lb rest) = T :: rest.drop (runLen lb rest + 1) := by
      rw [List.drop_eq_getElem_cons hlt, hTe]
    have hTsp : T.sp = true := hsp T (by rw [← hTe]; exact List.getElem_mem hlt) hTt
    have hTn : nonWs T = false := by simp [nonWs, hTt]
    rw [htake, hdrop, runs_unfold lb _ (by simp), runLen_term lb T _ hTt, srL]
    simp only [List.take_succ_cons, List.take_zero, List.drop_succ_cons, List.drop_zero]
    rw [siL_append_nonws _ T hTn, trimRight_append_sp _ [T] (by intro c hc; simp at hc; rw [hc]; exact hTsp)]
    have hc1 : content (rest.take (runLen lb rest) ++ [T]) = content (rest.take (runLen lb rest)) := by
      rw [content_append]; simp [content, hTn]
    have hc2 : content [T] = [] := by simp [content, hTn]
    rw [hc1, hc2]
    simp [siL, hTn]

/-! ### The chain of segments is good -/

/-- `Good rest idx`: every segment of the oracle's own segmentation of `rest` that fits the width has
all its non-whitespace graphemes on one line (`idx` = lines of the non-whitespace graphemes). -/
inductive Good (lb : Nat → Nat → Bool) (width : Nat) : List Cell → List Nat → Prop where
  | nil (idx : List Nat) : Good lb width [] idx
  | seg {rest : List Cell} {idx : List Nat} : rest ≠ [] →
      siL (decide (sumW (trimRight (rest.take (firstLineSegment lb true rest).1)) ≤ width))
        (rest.take (firstLineSegment lb true rest).1) none idx = true →
      Good lb width (rest.drop (firstLineSegment lb true rest).1)
        (idx.drop (content (rest.take (firstLineSegment lb true rest).1)).length) →
      Good lb width rest idx

theorem Good.inv {lb : Nat → Nat → Bool} {width : Nat} {rest : List Cell} {idx : List Nat}
    (h : Good lb width rest idx) (hne : rest ≠ []) :
    Good lb width (rest.drop (firstLineSegment lb true rest).1)
      (idx.drop (content (rest.take (firstLineSegment lb true rest).1)).length) := by
  cases h with
  | nil => exact absurd rfl hne
  | seg _ _ h3 => exact h3

theorem good_srL (lb : Nat → Nat → Bool) (width : Nat) {rest : List Cell} {idx : List Nat}
    (h : Good lb width rest idx) (hsp : ∀ c ∈ rest, c.term = true → c.sp = true) :
    srL width (runs lb rest) idx = true := by
  induction h with
  | nil idx => simp [runs, srL]
  | seg hne h1 _ ih =>
    rw [srL_seg lb width _ hne hsp, h1, Bool.true_and]
    exact ih (fun c hc => hsp c (List.mem_of_mem_drop hc))

theorem drop_replicate_append (a b k0 : Nat) (J : List Nat) :
    (List.replicate (a + b) k0 ++ J).drop a = List.replicate b k0 ++ J := by
  rw [← List.replicate_append_replicate, List.append_assoc, List.drop_left' (by simp)]

theorem content_length_append_trailing (r seg : List Cell) :
    (content (r ++ trailing seg)).length = (content r).length := by
  rw [content_append, content_trailing, List.append_nil]

/-- The loop of one `Scan` of the richtext scanner: if what follows the returned `rest'` is good,
so is everything from the current position, all graphemes consumed here being on line `k0`. -/
theorem scanLoop_good (lb : Nat → Nat → Bool) (width : Nat) :
    ∀ (fuel : Nat) (rest : List Cell) (token : List Cell) (w : Nat) (rest' : List Cell) (st' : Unit)
      (tok : List Cell), rest ≠ [] →
    scanLoop (richOracle lb) () width fuel rest () token w = .line rest' st' tok →
    ∃ p, rest = p ++ rest' ∧
      ∀ (J : List Nat) (k0 : Nat), Good lb width rest' J →
        Good lb width rest (List.replicate (content p).length k0 ++ J) := by
  intro fuel
  induction fuel with
  | zero => intro rest token w rest' st' tok _ h; simp [scanLoop] at h
  | succ n ih =>
    intro rest token w rest' st' tok hne h
    have hspec := firstLineSegment_spec lb rest true hne
    unfold scanLoop at h
    simp only [] at h
    generalize hr : richOracle lb () rest = r at h
    obtain ⟨k, br, st2⟩ := r
    have hk : (firstLineSegment lb true rest).1 = k := by
      have := congrArg (fun x => x.1) hr; simpa [richOracle] using this
    have hbr : (firstLineSegment lb true rest).2 = br := by
      have := congrArg (fun x => x.2.1) hr; simpa [richOracle] using this
    rw [hk, hbr] at hspec
    simp only [] at h
    rw [drop_trim] at h
    have hsplit : rest = rest.take k ++ rest.drop k := (List.take_append_drop k rest).symm
    have hseglen : (rest.take k).length = k := by rw [List.length_take]; omega
    -- the two "whole segment, line ends" cases and the "continue" case share this
    have hwhole : ∀ (m : Nat) (J : List Nat) (k0 : Nat),
        Good lb width (rest.drop k) (List.replicate m k0 ++ J) →
        Good lb width rest (List.replicate ((content (rest.take k)).length + m) k0 ++ J) := by
      intro m J k0 hg
      refine Good.seg hne ?_ ?_
      · rw [hk]; exact siL_const _ k0 _ none _ J (by omega) (Or.inl rfl)
      · rw [hk, drop_replicate_append]; exact hg
    split at h
    · -- long word
      rename_i hlong
      simp only [Scan.line.injEq] at h
      obtain ⟨h1, _, _⟩ := h
      have hs := splitLong_append width (trimRight (rest.take k)) (!token.isEmpty) w
      generalize (splitLong width (!token.isEmpty) w (trimRight (rest.take k))).1 = t at h1 hs
      generalize (splitLong width (!token.isEmpty) w (trimRight (rest.take k))).2 = r at h1 hs
      have hseg : t ++ (r ++ trailing (rest.take k)) = rest.take k := by
        rw [← List.append_assoc, hs, trim_append_trailing]
      have hrest : rest = t ++ rest' := by
        rw [← h1]
        conv => lhs; rw [hsplit, ← hseg]
        simp only [List.append_assoc]
      refine ⟨t, hrest, ?_⟩
      intro J k0 hg
      by_cases ht : t = []
      · subst ht
        simp only [List.nil_append] at hrest
        rw [hrest]
        simpa [content] using hg
      · refine Good.seg hne ?_ ?_
        · rw [hk]
          have : decide (sumW (trimRight (rest.take k)) ≤ width) = false := by
            simp only [decide_eq_false_iff_not]; omega
          rw [this]; exact siL_nofit _ _ _
        · rw [hk]
          have hcl : (content (rest.take k)).length = (content t).length + (content r).length := by
            rw [← hseg, content_append, List.length_append, content_length_append_trailing]
          rw [hcl, ← List.drop_drop, List.drop_left' (by simp)]
          by_cases hr : r ++ trailing (rest.take k) = []
          · have hr0 : r = [] := (List.append_eq_nil_iff.mp hr).1
            rw [hr, List.nil_append] at h1
            subst hr0
            rw [h1]
            simpa [content] using hg
          · -- the next Scan starts inside this segment: its first query returns the remainder
            have hlen : t.length + (r ++ trailing (rest.take k)).length = k := by
              have := congrArg List.length hseg
              rw [List.length_append] at this
              omega
            have htpos : 0 < t.length := List.length_pos_iff.mpr ht
            have hrpos : 0 < (r ++ trailing (rest.take k)).length := List.length_pos_iff.mpr hr
            have hdrop : rest.drop t.length = rest' := by
              rw [hrest, List.drop_left' rfl]
            have hk' : (firstLineSegment lb true rest').1 = (r ++ trailing (rest.take k)).length := by
              rw [← hdrop, fls_drop lb rest true t.length htpos (by rw [hk]; omega), hk]; omega
            have hrest' : rest' = (r ++ trailing (rest.take k)) ++ rest.drop k := by
              rw [← h1]
            have hne' : rest' ≠ [] := by
              rw [hrest']; intro h0; exact hr (List.append_eq_nil_iff.mp h0).1
            have h3 := Good.inv hg hne'
            rw [hk'] at h3
            rw [hrest', List.drop_left' rfl, List.take_left' rfl, content_length_append_trailing] at h3
            exact h3
    · split at h
      · simp only [Scan.line.injEq] at h
        obtain ⟨h1, _, _⟩ := h
        refine ⟨[], by rw [← h1]; rfl, ?_⟩
        intro J k0 hg
        rw [← h1] at hg
        simpa [content] using hg
      · split at h
        · simp only [Scan.line.injEq] at h
          obtain ⟨h1, _, _⟩ := h
          refine ⟨rest.take k, by rw [← h1]; exact hsplit, ?_⟩
          intro J k0 hg
          have := hwhole 0 J k0 (by rw [h1]; simpa using hg)
          simpa using this
        · rename_i hnbr
          split at h
          · simp only [Scan.line.injEq] at h
            obtain ⟨h1, _, _⟩ := h
            refine ⟨rest.take k, by rw [← h1]; exact hsplit, ?_⟩
            intro J k0 hg
            have := hwhole 0 J k0 (by rw [h1]; simpa using hg)
            simpa using this
          · have hklt : k < rest.length := by
              apply Classical.byContradiction
              intro hc
              exact hnbr (hspec.2.2 (by omega))
            have hne1 : rest.drop k ≠ [] := by
              intro h0
              have := congrArg List.length h0
              rw [List.length_drop] at this
              simp at this
              omega
            obtain ⟨p1, hp1, hgood⟩ := ih _ _ _ _ _ _ hne1 h
            refine ⟨rest.take k ++ p1, by rw [List.append_assoc, ← hp1]; exact hsplit, ?_⟩
            intro J k0 hg
            rw [content_append, List.length_append]
            exact hwhole _ J k0 (hgood J k0 hg)

/-- The whole iteration of the richtext scanner is good. -/
theorem scanAll_good (lb : Nat → Nat → Bool) (width : Nat) (hw : 0 < width) :
    ∀ (fuel : Nat) (rest : List Cell) (ls : List (List Cell)),
    scanAll (richOracle lb) () width fuel rest () = .ok ls →
    ∀ k, Good lb width rest (lineIdxFrom k ls) := by
  intro fuel
  induction fuel with
  | zero => intro rest ls h; simp [scanAll] at h
  | succ n ih =>
    intro rest ls h k
    unfold scanAll at h
    split at h
    · rename_i hs
      cases h
      rcases scan_cases (richOracle lb) () width (richOracle_ok lb) rest () with ⟨_, hz⟩ | ⟨_, r, s, t, h1, _, _⟩
      · rcases hz with hz | hz
        · subst hz; exact Good.nil _
        · omega
      · rw [h1] at hs; cases hs
    · cases h
    · rename_i rest' st' tok hs
      split at h
      · rename_i ls' hls
        cases h
        unfold scan at hs
        split at hs
        · cases hs
        · rename_i hguard
          have hne : rest ≠ [] := by
            intro h0; subst h0; simp at hguard
          obtain ⟨p, hp, hgood⟩ := scanLoop_good lb width _ rest [] 0 rest' st' tok hne hs
          have hc := scanLoop_conserves (richOracle lb) () width _ _ _ _ _ _ _ _ hs
          have hcp : content tok = content p := by
            rw [hp, content_append] at hc
            simpa [content] using List.append_cancel_right hc
          have := hgood (lineIdxFrom (k + 1) ls') k (ih rest' ls' hls (k + 1))
          simpa [lineIdxFrom, hcp, List.map_const'] using this
      · cases h

open VaxisModel.Spec.Wrap (noNeedlessSplit) in
/-- **`noNeedlessSplit` for the whole iteration of the richtext scanner.** -/
theorem richLines_noNeedlessSplit (lb : Nat → Nat → Bool) (width : Nat) (hw : 0 < width)
    (cells : List Cell) (hsp : ∀ c ∈ cells, c.term = true → c.sp = true)
    (ls : List (List Cell)) (h : richLines lb width cells = .ok ls) :
    noNeedlessSplit lb width cells ls = true := by
  rw [noNeedlessSplit_eq, lineIndex_eq]
  exact good_srL lb width (scanAll_good lb width hw _ cells ls h 0) hsp

end VaxisModel.Lemmas.Wrap
