import VaxisModel.Model.Wrap
import VaxisModel.Spec.Wrap
import VaxisModel.Lemmas.Wrap
import VaxisModel.Lemmas.WrapE2E
import VaxisModel.Lemmas.WrapSplit

/-! C16: "never split a run of letters that would fit on a line of its own" for the whole iteration
of a scanner over an arbitrary (stateful) segmentation oracle — the plain-text scanner over uniseg —
where the runs are the segments of the segmenter's own segmentation of the text
(`Spec.Wrap.segChain`). -/
namespace VaxisModel.Lemmas.Wrap
open VaxisModel.Model.Wrap
open VaxisModel.Spec.Wrap (nonWs content natWidth trimTrailing lineIndex splitRuns segChain noNeedlessSplitRuns)

/-- Position independence of the segmenter (asserted per query by the harness for uniseg): queried
with the unknown state `ini` inside a segment it returns the remainder of that segment and the same
successor state (`inside`); queried with `ini` at a segment boundary it answers as with the carried
state (`boundary`). -/
structure PosIndep {σ : Type} (o : σ → List Cell → Nat × Bool × σ) (ini : σ) : Prop where
  inside : ∀ st rest j, 0 < j → j < (o st rest).1 → (o st rest).1 ≤ rest.length →
    (o ini (rest.drop j)).1 = (o st rest).1 - j ∧ (o ini (rest.drop j)).2.2 = (o st rest).2.2
  boundary : ∀ st rest, rest.drop (o st rest).1 ≠ [] →
    o ini (rest.drop (o st rest).1) = o (o st rest).2.2 (rest.drop (o st rest).1)

/-- `GoodO st rest idx`: every segment of the segmenter's own segmentation of `rest` from state `st`
that fits the width has all its non-whitespace graphemes on one line. -/
inductive GoodO {σ : Type} (o : σ → List Cell → Nat × Bool × σ) (width : Nat) : σ → List Cell → List Nat → Prop where
  | nil (st : σ) (idx : List Nat) : GoodO o width st [] idx
  | seg {st : σ} {rest : List Cell} {idx : List Nat} : rest ≠ [] →
      siL (decide (sumW (trimRight (rest.take (o st rest).1)) ≤ width)) (rest.take (o st rest).1) none idx = true →
      GoodO o width (o st rest).2.2 (rest.drop (o st rest).1)
        (idx.drop (content (rest.take (o st rest).1)).length) →
      GoodO o width st rest idx

theorem GoodO.inv {σ : Type} {o : σ → List Cell → Nat × Bool × σ} {width : Nat} {st : σ} {rest : List Cell}
    {idx : List Nat} (h : GoodO o width st rest idx) (hne : rest ≠ []) :
    GoodO o width (o st rest).2.2 (rest.drop (o st rest).1)
      (idx.drop (content (rest.take (o st rest).1)).length) := by
  cases h with
  | nil => exact absurd rfl hne
  | seg _ _ h3 => exact h3

/-- the chain does not depend on whether it is entered with `ini` or with the carried state -/
theorem GoodO.restart {σ : Type} {o : σ → List Cell → Nat × Bool × σ} {ini : σ} {width : Nat}
    (hp : PosIndep o ini) {st : σ} {rest : List Cell} {idx : List Nat}
    (h : GoodO o width ini (rest.drop (o st rest).1) idx) :
    GoodO o width (o st rest).2.2 (rest.drop (o st rest).1) idx := by
  by_cases hne : rest.drop (o st rest).1 = []
  · rw [hne]; exact GoodO.nil _ _
  · have hb := hp.boundary st rest hne
    generalize hr : rest.drop (o st rest).1 = r at h hne hb
    cases h with
    | nil => exact absurd rfl hne
    | seg h1 h2 h3 =>
      refine GoodO.seg hne ?_ ?_
      · rw [← hb]; exact h2
      · rw [← hb]; exact h3

theorem goodO_srL {σ : Type} (o : σ → List Cell → Nat × Bool × σ) (hok : OracleOK o) (width : Nat)
    {st : σ} {rest : List Cell} {idx : List Nat} (h : GoodO o width st rest idx) :
    ∀ fuel, rest.length ≤ fuel → srL width (segChain o fuel st rest) idx = true := by
  induction h with
  | nil st idx =>
    intro fuel _
    cases fuel <;> simp [segChain, srL]
  | @seg st rest idx hne h1 _ ih =>
    intro fuel hf
    have hk := (hok st rest hne).1
    have hpos : 0 < rest.length := List.length_pos_iff.mpr hne
    cases fuel with
    | zero => omega
    | succ f =>
      have he : rest.isEmpty = false := by
        cases rest with
        | nil => exact absurd rfl hne
        | cons _ _ => rfl
      simp only [segChain, he, Bool.false_eq_true, ↓reduceIte, srL, fits_eq, h1, Bool.true_and]
      apply ih
      rw [List.length_drop]; omega

/-- `(st, rest)` is what some query returned (state and remainder). -/
def Succ {σ : Type} (o : σ → List Cell → Nat × Bool × σ) (st : σ) (rest : List Cell) : Prop :=
  ∃ st0 rest0, st = (o st0 rest0).2.2 ∧ rest = rest0.drop (o st0 rest0).1

theorem GoodO.restart' {σ : Type} {o : σ → List Cell → Nat × Bool × σ} {ini : σ} {width : Nat}
    (hp : PosIndep o ini) {st : σ} {rest : List Cell} {idx : List Nat} (hs : Succ o st rest)
    (h : GoodO o width ini rest idx) : GoodO o width st rest idx := by
  obtain ⟨st0, rest0, rfl, rfl⟩ := hs
  exact GoodO.restart hp h

/-- The loop of one `Scan` over an arbitrary oracle (cf. `scanLoop_good`). -/
theorem scanLoop_goodO {σ : Type} (o : σ → List Cell → Nat × Bool × σ) (ini : σ) (hok : OracleOK o)
    (hp : PosIndep o ini) (width : Nat) (hw : 0 < width) :
    ∀ (fuel : Nat) (rest : List Cell) (st : σ) (token : List Cell) (w : Nat) (rest' : List Cell) (st' : σ)
      (tok : List Cell), rest ≠ [] → ((token = [] ∧ w = 0) ∨ Succ o st rest) →
    scanLoop o ini width fuel rest st token w = .line rest' st' tok →
    ∃ p, rest = p ++ rest' ∧
      ∀ (J : List Nat) (k0 : Nat), GoodO o width st' rest' J →
        GoodO o width st rest (List.replicate (content p).length k0 ++ J) := by
  intro fuel
  induction fuel with
  | zero => intro rest st token w rest' st' tok _ _ h; simp [scanLoop] at h
  | succ n ih =>
    intro rest st token w rest' st' tok hne hsucc h
    have hokq := hok st rest hne
    unfold scanLoop at h
    simp only [] at h
    rw [drop_trim] at h
    have hsplit : rest = rest.take (o st rest).1 ++ rest.drop (o st rest).1 := (List.take_append_drop _ rest).symm
    have hwhole : ∀ (m : Nat) (J : List Nat) (k0 : Nat),
        GoodO o width (o st rest).2.2 (rest.drop (o st rest).1) (List.replicate m k0 ++ J) →
        GoodO o width st rest (List.replicate ((content (rest.take (o st rest).1)).length + m) k0 ++ J) := by
      intro m J k0 hg
      refine GoodO.seg hne ?_ ?_
      · exact siL_const _ k0 _ none _ J (by omega) (Or.inl rfl)
      · rw [drop_replicate_append]; exact hg
    split at h
    · -- long word
      rename_i hlong
      simp only [Scan.line.injEq] at h
      obtain ⟨h1, h2, _⟩ := h
      subst h2
      have hs := splitLong_append width (trimRight (rest.take (o st rest).1)) (!token.isEmpty) w
      have hfirst : (token = [] ∧ w = 0) → (splitLong width (!token.isEmpty) w (trimRight (rest.take (o st rest).1))).1 ≠ [] := by
        intro ht0
        obtain ⟨ht0, hw0⟩ := ht0
        subst ht0 hw0
        have hwne : trimRight (rest.take (o st rest).1) ≠ [] := sumW_pos_ne_nil _ (by omega)
        cases hword : trimRight (rest.take (o st rest).1) with
        | nil => exact absurd hword hwne
        | cons c cs => exact splitLong_first width c cs hw
      generalize (splitLong width (!token.isEmpty) w (trimRight (rest.take (o st rest).1))).1 = t at h1 hs hfirst
      generalize (splitLong width (!token.isEmpty) w (trimRight (rest.take (o st rest).1))).2 = r at h1 hs
      have hseg : t ++ (r ++ trailing (rest.take (o st rest).1)) = rest.take (o st rest).1 := by
        rw [← List.append_assoc, hs, trim_append_trailing]
      have hrest : rest = t ++ rest' := by
        rw [← h1]
        conv => lhs; rw [hsplit, ← hseg]
        simp only [List.append_assoc]
      refine ⟨t, hrest, ?_⟩
      intro J k0 hg
      by_cases ht : t = []
      · subst ht
        simp only [List.nil_append] at hrest
        have hs' : Succ o st rest := by
          rcases hsucc with h0 | h0
          · exact absurd rfl (hfirst h0)
          · exact h0
        rw [← hrest] at hg
        have := GoodO.restart' hp hs' hg
        simpa [content] using this
      · refine GoodO.seg hne ?_ ?_
        · have : decide (sumW (trimRight (rest.take (o st rest).1)) ≤ width) = false := by
            simp only [decide_eq_false_iff_not]; omega
          rw [this]; exact siL_nofit _ _ _
        · have hcl : (content (rest.take (o st rest).1)).length = (content t).length + (content r).length := by
            rw [← hseg, content_append, List.length_append, content_length_append_trailing]
          rw [hcl, ← List.drop_drop, List.drop_left' (by simp)]
          by_cases hr : r ++ trailing (rest.take (o st rest).1) = []
          · have hr0 : r = [] := (List.append_eq_nil_iff.mp hr).1
            rw [hr, List.nil_append] at h1
            subst hr0
            rw [← h1] at hg
            have := GoodO.restart hp hg
            simpa [content] using this
          · have hseglen : (rest.take (o st rest).1).length ≤ (o st rest).1 := by
              rw [List.length_take]; omega
            have hlen : t.length + (r ++ trailing (rest.take (o st rest).1)).length = (rest.take (o st rest).1).length := by
              have := congrArg List.length hseg
              rw [List.length_append] at this
              exact this
            have htpos : 0 < t.length := List.length_pos_iff.mpr ht
            have hrpos : 0 < (r ++ trailing (rest.take (o st rest).1)).length := List.length_pos_iff.mpr hr
            have hdrop : rest.drop t.length = rest' := by
              rw [hrest, List.drop_left' rfl]
            have hrest' : rest' = (r ++ trailing (rest.take (o st rest).1)) ++ rest.drop (o st rest).1 := by
              rw [← h1]
            have hne' : rest' ≠ [] := by
              rw [hrest']; intro h0; exact hr (List.append_eq_nil_iff.mp h0).1
            -- the segment lies inside `rest`
            by_cases hkle : (o st rest).1 ≤ rest.length
            · have hseglen' : (rest.take (o st rest).1).length = (o st rest).1 := by
                rw [List.length_take]; omega
              have hin := hp.inside st rest t.length htpos (by omega) hkle
              rw [hdrop] at hin
              have h3 := GoodO.inv hg hne'
              rw [hin.1, hin.2] at h3
              have hk' : (o st rest).1 - t.length = (r ++ trailing (rest.take (o st rest).1)).length := by omega
              rw [hk', hrest', List.drop_left' rfl, List.take_left' rfl, content_length_append_trailing] at h3
              exact h3
            · -- the oracle claims more cells than there are: the segment is all of `rest`
              have hall : rest.drop (o st rest).1 = [] := by
                apply List.drop_eq_nil_of_le; omega
              rw [hall]
              exact GoodO.nil _ _
    · split at h
      · simp only [Scan.line.injEq] at h
        obtain ⟨h1, h2, _⟩ := h
        subst h1 h2
        refine ⟨[], rfl, ?_⟩
        intro J k0 hg
        simpa [content] using hg
      · split at h
        · simp only [Scan.line.injEq] at h
          obtain ⟨h1, h2, _⟩ := h
          subst h1 h2
          refine ⟨rest.take (o st rest).1, hsplit, ?_⟩
          intro J k0 hg
          have := hwhole 0 J k0 (by simpa using hg)
          simpa using this
        · rename_i hnbr
          split at h
          · simp only [Scan.line.injEq] at h
            obtain ⟨h1, h2, _⟩ := h
            subst h1 h2
            refine ⟨rest.take (o st rest).1, hsplit, ?_⟩
            intro J k0 hg
            have := hwhole 0 J k0 (by simpa using hg)
            simpa using this
          · have hklt : (o st rest).1 < rest.length := by
              apply Classical.byContradiction
              intro hc
              exact hnbr (hokq.2 (by omega))
            have hne1 : rest.drop (o st rest).1 ≠ [] := by
              intro h0
              have := congrArg List.length h0
              rw [List.length_drop] at this
              simp at this
              omega
            obtain ⟨p1, hp1, hgood⟩ := ih _ _ _ _ _ _ _ hne1 (Or.inr ⟨st, rest, rfl, rfl⟩) h
            refine ⟨rest.take (o st rest).1 ++ p1, by rw [List.append_assoc, ← hp1]; exact hsplit, ?_⟩
            intro J k0 hg
            rw [content_append, List.length_append]
            exact hwhole _ J k0 (hgood J k0 hg)

/-- The whole iteration over an arbitrary oracle is good. -/
theorem scanAll_goodO {σ : Type} (o : σ → List Cell → Nat × Bool × σ) (ini : σ) (hok : OracleOK o)
    (hp : PosIndep o ini) (width : Nat) (hw : 0 < width) :
    ∀ (fuel : Nat) (rest : List Cell) (st : σ) (ls : List (List Cell)),
    scanAll o ini width fuel rest st = .ok ls →
    ∀ k, GoodO o width st rest (lineIdxFrom k ls) := by
  intro fuel
  induction fuel with
  | zero => intro rest st ls h; simp [scanAll] at h
  | succ n ih =>
    intro rest st ls h k
    unfold scanAll at h
    split at h
    · rename_i hs
      cases h
      rcases scan_cases o ini width hok rest st with ⟨_, hz⟩ | ⟨_, r, s, t, h1, _, _⟩
      · rcases hz with hz | hz
        · subst hz; exact GoodO.nil _ _
        · omega
      · rw [h1] at hs; cases hs
    · cases h
    · rename_i rest' st' tok hs
      split at h
      · rename_i ls' hls
        cases h
        unfold scan at hs
        split at hs
        · cases hs
        · rename_i hguard
          have hne : rest ≠ [] := by
            intro h0; subst h0; simp at hguard
          obtain ⟨p, hp', hgood⟩ := scanLoop_goodO o ini hok hp width hw _ rest st [] 0 rest' st' tok hne
            (Or.inl ⟨rfl, rfl⟩) hs
          have hc := scanLoop_conserves o ini width _ _ _ _ _ _ _ _ hs
          have hcp : content tok = content p := by
            rw [hp', content_append] at hc
            simpa [content] using List.append_cancel_right hc
          have := hgood (lineIdxFrom (k + 1) ls') k (ih rest' st' ls' hls (k + 1))
          simpa [lineIdxFrom, hcp, List.map_const'] using this
      · cases h

/-- **"never split a run that fits" for the whole iteration over an arbitrary oracle**: the runs
are the segments of the segmenter's own segmentation of the text. -/
theorem lines_noNeedlessSplitRuns {σ : Type} (o : σ → List Cell → Nat × Bool × σ) (ini : σ) (hok : OracleOK o)
    (hp : PosIndep o ini) (width : Nat) (hw : 0 < width) (cells : List Cell) (st0 : σ)
    (ls : List (List Cell)) (h : lines o ini width cells st0 = .ok ls) :
    noNeedlessSplitRuns (segChain o (cells.length + 1) st0 cells) width ls = true := by
  unfold noNeedlessSplitRuns
  rw [splitRuns_eq, lineIndex_eq]
  simp only [List.drop_zero]
  exact goodO_srL o hok width (scanAll_goodO o ini hok hp width hw _ cells st0 ls h 0) _ (by omega)

end VaxisModel.Lemmas.Wrap
