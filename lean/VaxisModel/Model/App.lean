/-
The application-facing surface of a `Vaxis`: the drawing calls of window.go (`Model.Window`, C11)
write into `screenNext`; `ShowCursor`/`HideCursor`/`SetMouseShape` set the requested cursor and
pointer; `Render`/`Refresh` (vaxis.go) hand `screenNext` to the renderer (`Model.RenderSixel`, C01);
a pending resize makes `Render` reallocate both buffers, set `refresh` and return without writing.
Core Lean only.

`Model.Window` keeps graphemes and styles abstract (numbers); `Interp` gives them their strings and
`vaxis.Style` values, so that the buffer C11 computes is the `next` grid C01 renders.
-/
import VaxisModel.Model.Window
import VaxisModel.Model.RenderSixel

namespace VaxisModel.Model.App
open VaxisModel.Model.Window VaxisModel.Model.Render

/-- Names of graphemes and styles.  `gOf gEmpty = ""`, `gOf gSpace = " "`, `gOf gEllipsis = "…"`
    and `stOf 0 = Style{}` are the conventions of `Model.Window` (`Interp.Std`). -/
structure Interp where
  gOf : Nat → String
  stOf : Nat → Style

def Interp.cell (I : Interp) (c : Window.Cell) : Render.Cell :=
  { g := I.gOf c.g, w := c.w, style := I.stOf c.st, sixel := false }

def Interp.grid (I : Interp) (buf : List (List Window.Cell)) : Grid := buf.map (·.map I.cell)

structure Interp.Std (I : Interp) : Prop where
  empty : I.gOf gEmpty = ""
  space : I.gOf gSpace = "20"
  ellipsis : I.gOf gEllipsis = "e280a6"
  style0 : I.stOf 0 = {}

/-- `Window.ShowCursor`: add the offsets along the parent chain — no bounds check at any level —
    then `Vaxis.ShowCursor`. -/
def cursorPos : Win → Int → Int → Int × Int
  | .root c r _ _, col, row => (col + c, row + r)
  | .child c r _ _ p, col, row => cursorPos p (col + c) (row + r)

/-- One call of the drawing API. -/
inductive DrawOp where
  | setCell (win : Win) (col row : Int) (c : Window.Cell)
  | setStyle (win : Win) (col row : Int) (st : Nat)
  | fill (win : Win) (c : Window.Cell)
  | clear (win : Win)
  | print (win : Win) (segs : List (Nat × List Raw))
  | printTruncate (win : Win) (row : Int) (segs : List (Nat × List Raw))
  | println (win : Win) (row : Int) (segs : List (Nat × List Raw))
  | wrap (win : Win) (segs : List (Nat × List (List Raw)))
  | showCursor (win : Win) (col row : Int) (style : Nat)
  | hideCursor
  | mouseShape (s : String)

/-- The fields of `Vaxis` the drawing calls and `Render` read and write. -/
structure Vx where
  scr : Screen                    -- screenNext
  last : Grid                     -- screenLast.buf
  cursorNext : CursorState := {}
  cursorLast : CursorState := {}
  shapeNext : String := ""
  shapeLast : String := ""
  refresh : Bool := true

/-- After the first resize to `cols × rows` (start-up): both buffers blank, refresh pending. -/
def Vx.init (cols rows : Nat) : Vx :=
  { scr := Screen.resize cols rows, last := blankGrid cols rows }

def draw (lib : Lib) (rm : Bool) (v : Vx) : DrawOp → Vx
  | .setCell win col row c => { v with scr := win.setCell v.scr col row c }
  | .setStyle win col row st => { v with scr := win.setStyle v.scr col row st }
  | .fill win c => { v with scr := fill win v.scr c }
  | .clear win => { v with scr := clear win v.scr }
  | .print win segs => { v with scr := (print lib rm win v.scr segs).1 }
  | .printTruncate win row segs => { v with scr := printTruncate lib rm win v.scr row segs }
  | .println win row segs => { v with scr := println lib rm win v.scr row segs }
  | .wrap win segs => { v with scr := (wrap lib rm win v.scr segs).1 }
  | .showCursor win col row style =>
      { v with cursorNext := { row := (cursorPos win col row).2, col := (cursorPos win col row).1, style := style, visible := true } }
  | .hideCursor => { v with cursorNext := { v.cursorNext with visible := false } }
  | .mouseShape s => { v with shapeNext := s }

def frameOf (caps : Caps) (I : Interp) (v : Vx) : Frame :=
  { caps := caps, refresh := v.refresh, next := I.grid v.scr.buf, last := v.last,
    cursorNext := v.cursorNext, cursorLast := v.cursorLast, shapeNext := v.shapeNext, shapeLast := v.shapeLast }

/-- `Render()` without a pending resize: `render(); Flush(); cursorLast = cursorNext; refresh = false`. -/
def doRender (cw : String → Nat) (caps : Caps) (I : Interp) (v : Vx) : Vx × List Tok :=
  let r := renderFrameS cw (frameOf caps I v)
  ({ v with last := r.1, cursorLast := v.cursorNext, shapeLast := v.shapeNext, refresh := false }, r.2)

/-- What ends a frame. `resize` = `Render()` with the resize flag set, the terminal reporting
    `cols × rows`. -/
inductive EndOp where
  | render
  | refresh
  | resize (cols rows : Nat)

def sameSize (v : Vx) (cols rows : Nat) : Bool := v.scr.cols == (cols : Int) && v.scr.rows == (rows : Int)

def endFrame (cw : String → Nat) (caps : Caps) (I : Interp) (v : Vx) : EndOp → Vx × List Tok
  | .render => doRender cw caps I v
  | .refresh => doRender cw caps I { v with refresh := true }
  | .resize cols rows =>
      if sameSize v cols rows then doRender cw caps I v
      else ({ v with scr := Screen.resize cols rows, last := blankGrid cols rows, refresh := true }, [])

end VaxisModel.Model.App
