/-
`Window.Clear` also resets the list of graphics placements requested for the next frame —
`win.Vx.graphicsNext = []*placement{}` — whatever window it is called on.  The placement
bookkeeping is C20's (`Model/Placements.lean`, not edited here); this file only joins it to the
drawing calls of `Model.App`: `Clear` on any window is `Placements.Op.clear`, drawing an image is
`Placements.Op.draw`, `Render`/`Refresh` run the delete/transmit loops before the cell loop.
-/
import VaxisModel.Model.App
import VaxisModel.Model.Placements

namespace VaxisModel.Model.AppGfx
open VaxisModel.Model.Window VaxisModel.Model.App
open VaxisModel.Spec.Images (Placement)

structure VxG where
  v : Vx
  gfx : Placements.State

inductive GOp where
  | draw (d : DrawOp)
  | image (p : Placement)        -- KittyImage.Draw / Sixel.Draw appending the placement
  | render
  | refresh

/-- One call; for `render`/`refresh` also what the placement loops transmit. -/
def step (lib : Lib) (rm : Bool) (s : VxG) : GOp → VxG × Option Placements.Out
  | .draw (.clear win) => ({ v := draw lib rm s.v (.clear win), gfx := (Placements.step s.gfx .clear).1 }, none)
  | .draw d => ({ s with v := draw lib rm s.v d }, none)
  | .image p => ({ s with gfx := (Placements.step s.gfx (.draw p)).1 }, none)
  | .render => ({ s with gfx := (Placements.step s.gfx .render).1 }, (Placements.step s.gfx .render).2)
  | .refresh => ({ s with gfx := (Placements.step s.gfx .refresh).1 }, (Placements.step s.gfx .refresh).2)

end VaxisModel.Model.AppGfx
