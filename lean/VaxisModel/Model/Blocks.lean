/-
Model of the block renderers of image.go: `toRGB` (16-bit alpha-premultiplied → 8-bit straight),
`averageColor`, `RGBColor` (color.go), the four-way case split of `HalfBlockImage.Resize` and the
averaged cell of `FullBlockImage.Resize`, on images that are not rescaled
(`draw.NearestNeighbor.Scale` is not modelled).  Core Lean only.
Thresholds, comparison operators, glyphs and colour sources come from `Gen.ImageConsts`.
-/
import VaxisModel.Gen.ImageConsts
import VaxisModel.Model.ImageFit

namespace VaxisModel.Model.Blocks
open VaxisModel.Gen.ImageConsts
open VaxisModel.Model.ImageFit (evalCmp blockHeight)

/-- What `color.Color.RGBA()` returns: 16-bit alpha-premultiplied channels in `uint32`s. -/
structure C16 where
  r : Nat
  g : Nat
  b : Nat
  a : Nat
  deriving DecidableEq, Repr, Inhabited

def C16.ofQuad (q : Nat × Nat × Nat × Nat) : C16 := ⟨q.1, q.2.1, q.2.2.1, q.2.2.2⟩

/-- What `toRGB` returns: four `uint8`s. -/
structure C8 where
  r : Nat
  g : Nat
  b : Nat
  a : Nat
  deriving DecidableEq, Repr, Inhabited

/-- `uint8(x)` truncation. -/
def u8 (n : Nat) : Nat := n % 256
/-- `uint32` wrap-around of a product. -/
def u32 (n : Nat) : Nat := n % 4294967296

/-- `toRGB`: `switch pa { case 0: uint8(pr)… default: uint8((pr*255)/pa)…, a = uint8(pa>>8) }`. -/
def toRGB (c : C16) : C8 :=
  if c.a = 0 then ⟨u8 c.r, u8 c.g, u8 c.b, 0⟩
  else ⟨u8 (u32 (c.r * 255) / c.a), u8 (u32 (c.g * 255) / c.a), u8 (u32 (c.b * 255) / c.a), u8 (c.a / 256)⟩

/-- `averageColor(c, colors...)`: `int` sums of the `toRGB` channels over `colors ++ [c]`, divided by
    the count, truncated to `uint8`. -/
def averageColor (c : C16) (colors : List C16) : C8 :=
  let all := (colors ++ [c]).map toRGB
  let n := all.length
  ⟨u8 ((all.map (·.r)).sum / n), u8 ((all.map (·.g)).sum / n), u8 ((all.map (·.b)).sum / n),
   u8 ((all.map (·.a)).sum / n)⟩

/-- `RGBColor(r, g, b) = Color(int(r)<<16 | int(g)<<8 | int(b)) | rgb`. -/
def rgbColor (r g b : Nat) : Nat := ((r <<< 16) ||| (g <<< 8) ||| b) ||| (1 <<< rgbShift)

/-- A cell as far as the block renderers set it: glyph code point (0 = the zero `Cell`), foreground
    and background colour values (0 = default colour). -/
structure BCell where
  glyph : Nat
  fg : Nat
  bg : Nat
  deriving DecidableEq, Repr, Inhabited

def pxColor (p : Px) (t b : C8) : Nat :=
  match p with
  | .none => 0
  | .top => rgbColor t.r t.g t.b
  | .bot => rgbColor b.r b.g b.b

def condHolds (c : Option Cmp) (alpha : Nat) : Bool :=
  match c with
  | none => true
  | some c => evalCmp c alpha transparentEnough

/-- The switch of `HalfBlockImage.Resize`: first arm whose condition holds; no arm ⇒ zero cell. -/
def halfArms (arms : List HalfArm) (t b : C8) : BCell :=
  match arms with
  | [] => ⟨0, 0, 0⟩
  | a :: rest =>
    if condHolds a.topCmp t.a && condHolds a.botCmp b.a then ⟨a.glyph, pxColor a.fg t b, pxColor a.bg t b⟩
    else halfArms rest t b

/-- Cell for a vertical pixel pair (already converted with `RGBA()`). -/
def halfCell (top bot : C16) : BCell := halfArms halfBlockArms (toRGB top) (toRGB bot)

/-- `FullBlockImage`: background = average of the pair unless the averaged alpha passes the
    threshold test; drawn as a space. -/
def fullColor (top bot : C16) : Nat :=
  let c := averageColor top [bot]
  if evalCmp fullBlockCmp.1 c.a fullBlockCmp.2 then 0 else rgbColor c.r c.g c.b

def fullCell (top bot : C16) : BCell := ⟨0x20, 0, fullColor top bot⟩

/-- An image as seen through `At(x,y).RGBA()`; outside the bounds the image types used
    (`*image.NRGBA`, `*image.RGBA`) return the zero colour. -/
structure Img where
  w : Nat
  h : Nat
  px : Array C16

def Img.at (img : Img) (x y : Nat) : C16 :=
  if x < img.w ∧ y < img.h then img.px.getD (y * img.w + x) ⟨0, 0, 0, 0⟩ else ⟨0, 0, 0, 0⟩

/-- The lower pixel of the cell whose upper pixel is `(x, y)`: `img.At(x, y+1)` as it comes (outside the image = zero
    colour), or — `FullBlockImage.Resize` since the F220 repair — the upper pixel again when the image has no row
    `y+1` (last cell row of an odd pixel height), or — `HalfBlockImage.Resize` since the F320 repair — the zero colour
    then (no read outside the bounds at all). -/
def lowerPx (mode : Bottom) (img : Img) (x y : Nat) : C16 :=
  match mode with
  | .read => img.at x (y + 1)
  | .topIfMissing => if y + 1 < img.h then img.at x (y + 1) else img.at x y
  | .zeroIfMissing => if y + 1 < img.h then img.at x (y + 1) else ⟨0, 0, 0, 0⟩

/-- The cell list built by `Resize` from an image: `width = Max.X`, `height = ⌈Max.Y / 2⌉`, cell `i` covers
    pixels `(x, 2y)` and `(x, 2y+1)` with `y = i / width`, `x = i - y*width`. -/
def blockCellsWith (mode : Bottom) (cell : C16 → C16 → BCell) (img : Img) : List (Nat × Nat × BCell) :=
  let width := img.w
  let height := blockHeight img.h
  (List.range (height * width)).map fun i =>
    let y := i / width
    let x := i - y * width
    (x, y, cell (img.at x (2 * y)) (lowerPx mode img x (2 * y)))

/-- Both pixels read as they come (`HalfBlockImage.Resize`). -/
def blockCells (cell : C16 → C16 → BCell) (img : Img) : List (Nat × Nat × BCell) := blockCellsWith .read cell img

def halfCells : Img → List (Nat × Nat × BCell) := blockCells halfCell
/-- `HalfBlockImage.Resize` with the lower pixel read the way the source now reads it (`Gen.halfBlockBottom`; since the
    F320 repair: the zero colour when the image has no row `y+1`, whatever the image type returns outside its bounds).
    On this model's images — `Img.at` is the zero colour outside — it is `halfCells`
    (`Props.C20Pixels.half_block_bottom_shape`). -/
def halfCellsGen : Img → List (Nat × Nat × BCell) := blockCellsWith halfBlockBottom halfCell
/-- `FullBlockImage.Resize`: how the lower pixel is read is regenerated from the source (`Gen.fullBlockBottom`). -/
def fullCells : Img → List (Nat × Nat × BCell) := blockCellsWith fullBlockBottom fullCell

end VaxisModel.Model.Blocks
