/-
C12 — the wire between the renderer model (Model/Render.lean) and the emulator model
(Model/Emu.lean): what the emulator's parser hands to `update()` for one token written by the
renderer.

* `dec : String → G` gives the bytes of an opaque string of the renderer model (graphemes, URLs,
  hyperlink parameters and pointer shapes are hex strings there; the emulator model works on bytes).
* `tw : String → Nat` is the width the emulator's parser measures for a grapheme (uniseg, a parameter
  as everywhere else).
* One `Tok.text` is one grapheme cluster, hence one `print`.
* `Tok.textW` (OSC 66) and `Tok.other` are never written under the capability set detected inside
  the emulator (`Props.C12.emu_frames_vocabulary`); they translate to nothing.
Core Lean only.
-/
import VaxisModel.Model.Render
import VaxisModel.Model.Emu

namespace VaxisModel.Model.C12Compose
open VaxisModel.Model.Render VaxisModel.Model.Emu

/-- One SGR parameter with its colon sub-parameters, as the parser delivers it. -/
def sgrParam (p : List Nat) : Param := (((p.headD 0 : Nat) : Int), p.tail.map (fun v => ((v : Nat) : Int)))

/-- The payload of `OSC 8 ; params ; url ST`. -/
def osc8Payload (dec : String → G) (p u : String) : List Nat := [56, 59] ++ dec p ++ [59] ++ dec u

/-- The payload of `OSC 22 ; shape ST`. -/
def osc22Payload (dec : String → G) (s : String) : List Nat := [50, 50, 59] ++ dec s

/-- The parsed sequences of one renderer token. -/
def opsOf (dec : String → G) (tw : String → Nat) : Tok → List EOp
  | .cup r c => [.csi [72] [(r, []), (c, [])]]
  | .sgr ps => [.csi [109] (ps.map sgrParam)]
  | .osc8 p u => [.osc (osc8Payload dec p u) {}]
  | .text g => [.print (dec g) (tw g)]
  | .textW _ _ => []
  | .decset n => [.csi [63, 104] [(((n : Nat) : Int), [])]]
  | .decrst n => [.csi [63, 108] [(((n : Nat) : Int), [])]]
  | .cursorStyle n => [.csi [32, 113] [(((n : Nat) : Int), [])]]
  | .pointer s => [.osc (osc22Payload dec s) {}]
  | .other _ => []

def opsOfToks (dec : String → G) (tw : String → Nat) (toks : List Tok) : List EOp :=
  toks.flatMap (opsOf dec tw)

end VaxisModel.Model.C12Compose
