/-
C12 — the wire between the renderer model (Model/Render.lean) and the emulator model
(Model/Emu.lean): what the emulator's parser hands to `update()` for one token written by the
renderer.

* `dec : String → G` gives the bytes of an opaque string of the renderer model (graphemes, URLs,
  hyperlink parameters and pointer shapes are hex strings there; the emulator model works on bytes).
* `tw : String → Nat` is the width the emulator's parser measures for a grapheme (uniseg, a parameter
  as everywhere else).
* One `Tok.text` is one grapheme cluster, hence one `print`.
* `Tok.textW` (OSC 66) and `Tok.other` are never written under the capability set detected inside
  the emulator (`Props.C12.emu_frames_vocabulary`); they translate to nothing.
Core Lean only.
-/
import VaxisModel.Model.Render
import VaxisModel.Model.Emu

namespace VaxisModel.Model.C12Compose
open VaxisModel.Model.Render VaxisModel.Model.Emu

/-- One SGR parameter with its colon sub-parameters, as the parser delivers it. -/
def sgrParam (p : List Nat) : Param := (((p.headD 0 : Nat) : Int), p.tail.map (fun v => ((v : Nat) : Int)))

/-- The payload of `OSC 8 ; params ; url ST`. -/
def osc8Payload (dec : String → G) (p u : String) : List Nat := [56, 59] ++ dec p ++ [59] ++ dec u

/-- The payload of `OSC 22 ; shape ST`. -/
def osc22Payload (dec : String → G) (s : String) : List Nat := [50, 50, 59] ++ dec s

/-- The parsed sequences of one renderer token. -/
def opsOf (dec : String → G) (tw : String → Nat) : Tok → List EOp
  | .cup r c => [.csi [72] [(r, []), (c, [])]]
  | .sgr ps => [.csi [109] (ps.map sgrParam)]
  | .osc8 p u => [.osc (osc8Payload dec p u) {}]
  | .text g => [.print (dec g) (tw g)]
  | .textW _ _ => []
  | .decset n => [.csi [63, 104] [(((n : Nat) : Int), [])]]
  | .decrst n => [.csi [63, 108] [(((n : Nat) : Int), [])]]
  | .cursorStyle n => [.csi [32, 113] [(((n : Nat) : Int), [])]]
  | .pointer s => [.osc (osc22Payload dec s) {}]
  | .other _ => []

def opsOfToks (dec : String → G) (tw : String → Nat) (toks : List Tok) : List EOp :=
  toks.flatMap (opsOf dec tw)

/-! ### grapheme clustering in the emulator's parser

The emulator's parser (like every terminal in mode 2027) clusters CONSECUTIVE printable text: two
text writes with no control sequence between them are re-segmented together. `merges a b` says
that the graphemes `a` and `b` (each a whole cluster on its own) form ONE cluster when `b` follows `a`
directly (regional indicator pairs, Hangul L + V, an emoji followed by ZWJ + emoji, …); `cat a b` is
that cluster. Both are parameters (uniseg is not modelled). -/

def clusterGo (merges : String → String → Bool) (cat : String → String → String) : Option String → List Tok → List Tok
  | none, [] => []
  | some p, [] => [.text p]
  | none, .text a :: rest => clusterGo merges cat (some a) rest
  | some p, .text a :: rest =>
    if merges p a then clusterGo merges cat (some (cat p a)) rest else .text p :: clusterGo merges cat (some a) rest
  | none, t :: rest => t :: clusterGo merges cat none rest
  | some p, t :: rest => .text p :: t :: clusterGo merges cat none rest

/-- The text writes as the parser re-segments them. -/
def clusterToks (merges : String → String → Bool) (cat : String → String → String) (toks : List Tok) : List Tok :=
  clusterGo merges cat none toks

/-- The parsed sequences of a token list, with the parser's clustering of consecutive text. -/
def opsOfToksM (merges : String → String → Bool) (cat : String → String → String) (dec : String → G) (tw : String → Nat)
    (toks : List Tok) : List EOp :=
  opsOfToks dec tw (clusterToks merges cat toks)

end VaxisModel.Model.C12Compose
