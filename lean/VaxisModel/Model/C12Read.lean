/-
C12 — reading an emulator state back as a screen and a cursor (core Lean only; used by
`Lemmas/C12Read.lean`, `Props/C12Read.lean` and evaluated by the driver on the REAL emulator's state
after every frame).

`readScreen enc g` reads every row of the grid left to right: a cell with a grapheme is that glyph
with its stored width, style, hyperlink and parameters (`enc` turns stored bytes back into the opaque
strings of the renderer model), an erased / never written cell is a blank with its stored
background, and the `w − 1` cells after a glyph of width `w` are continuation cells whatever they hold
(the way `Draw` walks a row: `col += w − 1`).
-/
import VaxisModel.Model.EmuAbs
import VaxisModel.Spec.Display

namespace VaxisModel.Model.C12Read
open VaxisModel.Model.Emu VaxisModel.Model.EmuAbs
open VaxisModel.Spec VaxisModel.Spec.Display

/-- One emulator cell read as a display cell. -/
def readCell (enc : G → String) (c : ECell) : DCell :=
  if c.g = [] then .glyph "20" 1 { bg := absCol c.st.bg } "" ""
  else .glyph (enc c.g) c.w (absStyle c.st) (enc c.st.linkParams) (enc c.st.link)

/-- One row, left to right; `skip` cells still lie under the last wide glyph. -/
def readRow (enc : G → String) : Nat → Row → List DCell
  | _, [] => []
  | skip + 1, _ :: cs => .cont :: readRow enc skip cs
  | 0, c :: cs => readCell enc c :: readRow enc (c.w - 1) cs

/-- The emulator's grid read back as a screen. -/
def readScreen (enc : G → String) (g : Grid) : List (List DCell) := g.map (readRow enc 0)

/-- The hardware cursor as an observer sees it: nothing when hidden, else row, column and shape. -/
def readCursor (e : Emu) : Option (Int × Int × Int) :=
  if e.mode.dectcem then some (e.cur.row, e.cur.col, e.cur.shape) else none

end VaxisModel.Model.C12Read
