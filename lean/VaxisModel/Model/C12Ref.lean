/-
C12 — the reference terminal of C06 (`Spec.Term`) run next to the emulator, executable (for the
driver): the renderer's tokens translated to Spec.Term's vocabulary (`refTok` = the C05/C06 builder's
`Lemmas.C06Bridge.tokT`, `refRun` = its `runExact`: `Props/C12Bridge.refTok_eq`, `refRun_eq`), a start
state of the reference next to an emulator state (`refOf`: what `Props/C12Bridge.rel_start` /
`rel_resized` / `rel_resizedP` describe), and the comparison of `Props/C12Bridge.emu_and_term_show`'s
conclusion (`refAccepts`: C06's `gridAccepts` on the abstraction of the emulator's grid, cursor row,
column / pending wrap, pen, hyperlink, cursor visibility and shape). Core Lean only.
-/
import VaxisModel.Model.Render
import VaxisModel.Model.EmuAbs
import VaxisModel.Spec.Term

namespace VaxisModel.Model.C12Ref
open VaxisModel.Spec VaxisModel.Spec.Term VaxisModel.Model.Emu VaxisModel.Model.EmuAbs

/-- The renderer's tokens in Spec.Term's vocabulary (`none`: outside it — OSC 66, other modes, OSC 22). -/
def refTok (dec : String → List Nat) (tw : String → Nat) : VaxisModel.Model.Render.Tok → Option Spec.Term.Tok
  | .cup r c => some (.cup r.toNat c.toNat)
  | .sgr ps => some (.sgr ps)
  | .osc8 p u => some (.osc8 (dec p) (dec u))
  | .text g => some (.print (dec g) (tw g))
  | .decset n => if n = 25 then some (.showCursor true) else none
  | .decrst n => if n = 25 then some (.showCursor false) else none
  | .cursorStyle n => some (.cursorShape n)
  | _ => none

/-- Every step must accept exactly one state (nothing terminal-specific). -/
def refRun : T → List Spec.Term.Tok → Option T
  | t, [] => some t
  | t, k :: ks =>
    match Spec.Term.step t k with
    | .accept [t'] => refRun t' ks
    | _ => none

/-- The reference terminal next to an emulator state at rest: blank if the emulator's active grid is,
    otherwise every cell unknown (`poison`: accepts whatever is there until it is overwritten). -/
def refOf (e : Emu) (rows cols : Nat) : T :=
  let blank := e.active.all fun r => r.all fun c => decide (c = {})
  { T.init rows cols with
    primary := if blank then (T.init rows cols).primary else List.replicate rows (List.replicate cols TCell.poison)
    row := e.cur.row.toNat
    col := (if e.cur.col ≥ (cols : Int) then (cols : Int) - 1 else e.cur.col).toNat
    pw := decide (e.cur.col ≥ (cols : Int))
    pen := absStyle e.cur.st
    link := e.cur.st.link
    cursorVisible := e.mode.dectcem
    cursorShape := e.cur.shape.toNat }

/-- Does the reference terminal accept the emulator's state? `none` = yes. -/
def refAccepts (t : T) (e : Emu) (cols : Nat) : Option String :=
  if !gridAccepts t.primary (e.active.map absRow) then some "grid"
  else if (t.row : Int) ≠ e.cur.row then some "cursor row"
  else if t.pw ≠ decide (e.cur.col ≥ (cols : Int)) then some "pending wrap"
  else if !t.pw && (t.col : Int) ≠ e.cur.col then some "cursor column"
  else if t.pen ≠ absStyle e.cur.st then some "pen"
  else if t.link ≠ e.cur.st.link then some "hyperlink"
  else if t.cursorVisible ≠ e.mode.dectcem then some "cursor visibility"
  else if (t.cursorShape : Int) ≠ e.cur.shape then some "cursor shape"
  else none

end VaxisModel.Model.C12Ref
