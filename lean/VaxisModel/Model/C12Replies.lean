/-
C12 — the reply exchange: what the embedded emulator (widgets/term) writes back to the child for
one parsed sequence, and the queries Vaxis sends when it starts.

* `replies hostBg e op`: the replies of `csi()` (`case "c"`: DA1, `case ">c"`: DA2, `case "n"`: DSR 5/6,
  `case "?$p"`: DECRQM through `decrqm()`) and `osc()` (`case "11"`), as PARSED sequences in the
  form in which Vaxis's parser delivers them to `handleSequence` (`Model.Input.Seq`); `seqBytes`
  renders them back to the bytes on the wire (compared with the real replies on every run).
  `decrqm()` goes through the regenerated `Gen.TermModes.decrqmTable`; modes outside it answer 0
  ("not recognised"), 2027 answers 3 ("permanently set").
  `hostBg` = what `vt.vx.QueryBackground().Params()` gives (`none` = no answer / empty).
* `startupQueries`: the sequences of `Vaxis.sendQueries()` (/repo/vaxis.go) as the emulator's parser
  delivers them, from the first query to DA1 (compared with what the real Vaxis writes on every run).
* `runQ`: the emulator model run over a list of sequences, collecting the replies.
* `capsFrom`: the capability record `New()` ends up with: `handleSequence` (C03's `Model.Input.handle`)
  on each reply, `collect` on each internal event posted, `explicitWidth` from the cursor-position
  answer (`sendQueries`: `_, col := vx.CursorPosition(); if col == 1`, with `CursorPosition` returning
  the reported column − 1).
Core Lean only.
-/
import VaxisModel.Model.Emu
import VaxisModel.Model.Input

namespace VaxisModel.Model.C12Replies
open VaxisModel.Model.Emu VaxisModel.Gen.TermModes
open VaxisModel.Model (Input.Seq)

/-- `decrqm()`: the `Ps` value of the DECRPM answer for mode `pd`. -/
def decrqmValue (e : Emu) (pd : Int) : Int :=
  match lookupMode decrqmTable pd with
  | some f => if e.mode.get f then 1 else 2
  | none => if pd = 2027 then 3 else 0

def hexDigitL (n : Nat) : Nat := if n < 10 then 48 + n else 87 + n
/-- `%02x` -/
def hex2 (n : Nat) : List Nat := [hexDigitL (n / 16 % 16), hexDigitL (n % 16)]

def osc11Query : List Nat := [49, 49, 59, 63]      -- "11;?"

/-- The replies to one parsed sequence, as parsed sequences. -/
def replies (hostBg : Option (Nat × Nat × Nat)) (e : Emu) : EOp → List Input.Seq
  | .csi [99] _ => [.csi [63] [[62], [4], [22]] 99]                       -- CSI ? 62 ; 4 ; 22 c
  | .csi [62, 99] _ => [.csi [62] [[1], [0], [0]] 99]                     -- CSI > 1 ; 0 ; 0 c
  | .csi [110] pm =>
    let n := ps (clampParams pm)
    if n = 5 then [.csi [] [[0]] 110]                                      -- CSI 0 n
    else if n = 6 then [.csi [] [[e.cur.row + 1], [e.cur.col + 1]] 82]     -- CSI r ; c R
    else []
  | .csi [63, 36, 112] pm =>
    let pd := ps (clampParams pm)
    [.csi [63, 36] [[pd], [decrqmValue e pd]] 121]                        -- CSI ? pd ; v $ y
  | .osc data _ =>
    if data = osc11Query ∧ e.hasVx = true then
      match hostBg with
      | some (r, g, b) =>
        [.osc ([49, 49, 59, 114, 103, 98, 58] ++ hex2 r ++ [47] ++ hex2 g ++ [47] ++ hex2 b)]   -- 11;rgb:rr/gg/bb
      | none => []
    else []
  | _ => []

/-! ### rendering a reply to bytes (for the correspondence check) -/

def natDigits : Nat → Nat → List Nat
  | 0, _ => []
  | fuel + 1, n => if n < 10 then [48 + n] else natDigits fuel (n / 10) ++ [48 + n % 10]

def intBytes (n : Int) : List Nat := if n < 0 then 45 :: natDigits 20 n.natAbs else natDigits 20 n.toNat

def paramBytes (p : List Int) : List Nat := ([58] : List Nat).intercalate (p.map intBytes)

def seqBytes : Input.Seq → List Nat
  | .csi interm params final =>
    let pre := interm.filter (fun c => decide (60 ≤ c ∧ c ≤ 63))
    let post := interm.filter (fun c => !decide (60 ≤ c ∧ c ≤ 63))
    [27, 91] ++ pre ++ ([59] : List Nat).intercalate (params.map paramBytes) ++ post ++ [final]
  | .osc payload => [27, 93] ++ payload ++ [7]
  | _ => []

/-! ### the start-up queries -/

def q (label : List Nat) (params : List Int) : EOp := .csi label (params.map fun n => (n, []))

/-- `sendQueries()`, write by write, from the first query to the SGR reset of the final flush, as the
    emulator's parser delivers them (`CSI m` = the writer's SGR reset at the end of every flush; one
    write can be several sequences). -/
def startupGroups : List (List EOp) :=
  [ [.dcs],                                        -- DCS $ q SP q ST   (user cursor style)
    [q [63, 36, 112] [2026]], [q [63, 36, 112] [2027]], [q [63, 36, 112] [2031]],
    [q [63, 104] [2048]],                          -- blind enable of in-band resize
    [q [62, 113] [0]],                             -- XTVERSION
    [q [63, 117] []],                              -- kitty keyboard query
    [.apc],                                        -- kitty graphics query
    [q [63, 83] [2, 1, 0]],                        -- XTSMGRAPHICS sixel geometry
    [q [116] [14], q [116] [18]],                  -- text area size in pixels / characters
    [q [72] []],                                   -- CUP home
    [.osc [54, 54, 59, 119, 61, 49, 59, 32] {}],   -- OSC 66 ; w=1 ; SP  (explicit-width probe)
    [q [109] []],                                  -- flush
    [q [110] [6]],                                 -- cursor position report
    [.dcs],                                        -- XTGETTCAP RGB
    -- OSC 4;1;?  OSC 10;?  OSC 11;?  OSC 176;?
    [.osc [52, 59, 49, 59, 63] {}], [.osc [49, 48, 59, 63] { b64ok := true }], [.osc osc11Query { b64ok := true }],
    [.osc [49, 55, 54, 59, 63] { b64ok := true }],
    [.dcs],                                        -- XTGETTCAP Smulx
    [q [61, 99] []],                               -- DA3
    [q [99] []],                                   -- DA1
    [q [109] []] ]                                 -- flush

def startupQueries : List EOp := startupGroups.flatten

/-! ### the same on the wire (for the `facts_*` theorems over `Gen.TermReplies`) -/

/-- Instantiate the `%d` / `%s` of a printf format (bytes) with rendered arguments. -/
def instFmt : List Nat → List (List Nat) → List Nat
  | 37 :: 100 :: rest, a :: as => a ++ instFmt rest as
  | 37 :: 115 :: rest, a :: as => a ++ instFmt rest as
  | b :: rest, as => b :: instFmt rest as
  | [], _ => []

/-- A CSI sequence as its bytes: `ESC [`, private markers, parameters, intermediates, final. -/
def csiWire (label : List Nat) (pm : List Param) : List Nat :=
  let pre := label.filter (fun c => decide (60 ≤ c ∧ c ≤ 63))
  let post := label.filter (fun c => !decide (60 ≤ c ∧ c ≤ 63))
  [27, 91] ++ pre ++ ([59] : List Nat).intercalate (pm.map fun p => paramBytes (p.1 :: p.2)) ++ post

/-- Do the bytes of one write parse to these sequences? DCS / APC carry no payload in the emulator
    model (only the introducer is compared); an OSC may end with BEL or ST. -/
def wireMatches (bytes : List Nat) : List EOp → Bool
  | [.dcs] => bytes.take 2 == [27, 80]
  | [.apc] => bytes.take 2 == [27, 95]
  | [.osc payload _] => bytes == [27, 93] ++ payload ++ [7] || bytes == [27, 93] ++ payload ++ [27, 92]
  | ops => bytes == ops.flatMap fun
      | .csi l pm => csiWire l pm
      | .esc l => 27 :: l
      | _ => [0]

/-- Everything the real Vaxis writes from `New()` until it is ready to render, as the emulator's parser
    delivers it (compared with the real byte stream on every run): the alternate-screen prelude of
    `sendQueries()`, the queries, leaving the alternate screen, then `enterAltScreen()` and
    `enableModes()` under the capabilities detected inside the emulator (sixel scrolling 8452,
    Unicode core 2027, bracketed paste, application cursor keys / keypad, mouse modes). -/
def startupAll : List EOp :=
  [q [63, 104] [1049], q [63, 108] [25], q [109] []] ++ startupQueries ++
  [q [63, 104] [25], q [72] [], q [74] [2], q [63, 108] [1049], q [109] [],
   q [63, 104] [1049], q [63, 108] [25], q [109] [],
   q [63, 104] [8452], q [63, 104] [2027], q [63, 104] [2004], q [63, 104] [1], .esc [61],
   q [63, 104] [1002], q [63, 104] [1003], q [63, 104] [1004], q [63, 104] [1006], q [109] []]

/-- The emulator model over a list of sequences, with the replies it writes, in order. -/
def runQ (hostBg : Option (Nat × Nat × Nat)) : Emu → List EOp → M (Emu × List Input.Seq)
  | e, [] => .ok (e, [])
  | e, op :: rest => do
    let (e', _) ← emuStep e op
    let (e'', rs) ← runQ hostBg e' rest
    .ok (e'', replies hostBg e op ++ rs)

/-! ### what Vaxis makes of the replies -/

/-- One reply through `handleSequence`; the internal events it posts through `New()`'s collection;
    a cursor-position answer decides `explicitWidth`. -/
def absorb (acc : Input.VState × Input.Caps) (s : Input.Seq) : Except Input.Panic (Input.VState × Input.Caps) := do
  let (st, effs) ← Input.handle (fun _ => none) acc.1 s
  let caps := effs.foldl (fun c eff =>
    match eff with
    | .postB (.internal i) => Input.collect false c i
    | .postNB (.internal i) => Input.collect false c i
    | .sendCursorPos _ col => if col - 1 = 1 then { c with explicitWidth := true } else c
    | _ => c) acc.2
  .ok (st, caps)

/-- The capabilities after the start-up exchange (`reqCursorPos` is set while the cursor-position
    answer is awaited; the 'R' arm is the only one that reads it). -/
def capsFrom (rs : List Input.Seq) : Except Input.Panic Input.Caps := do
  let r ← rs.foldlM absorb ({ reqCursorPos := true }, {})
  .ok r.2

end VaxisModel.Model.C12Replies
