/-
Model of /repo/color.go: `Color` (a uint32 with two flag bits), `Params`,
`asIndex`, `RGBColor`, `IndexColor`.

Transcription notes
* `Color` is a `Nat < 2^32`; bit 24 = indexed, bit 25 = rgb (shifts come from `Gen.Palette`).
* `asIndex` computes, per palette entry, `sq(float64(dR-oR)*.3)+sq(float64(dG-oG)*.59)+sq(float64(dB-oB)*.11)`.
  The model computes the same quantity exactly, scaled by 10^4, in `Nat`:
  `(30·|dR-oR|)² + (59·|dG-oG|)² + (11·|dB-oB|)²`.  The float step is *modelled, not verified*:
  distinct integer scores differ by ≥ 1 (= 10⁻⁴ in the float's units) while the accumulated
  double rounding error for operands ≤ 255 is < 10⁻⁹, so the float `<` agrees with the exact `<`
  except on exact ties; the correspondence check therefore compares the *score* of the chosen
  entries, not the indices.
* `signed = false` models the channel subtraction done in `uint8` (wrap-around mod 256), which is
  what the source did before the `fix:` commit; `Gen.Palette.diffSigned` says which one the
  current source has.
* The early `return` on `dist == 0` is semantically a no-op for a first-wins strict-`<` argmin
  (nothing later can be `< 0`), so the model is a plain fold.
-/
import VaxisModel.Gen.Palette

namespace VaxisModel.Model.Color

abbrev Color := Nat

def indexedBit : Nat := 2 ^ Gen.Palette.indexedShift
def rgbBit : Nat := 2 ^ Gen.Palette.rgbShift

def isIndexed (c : Color) : Bool := (c / indexedBit) % 2 == 1
def isRGB (c : Color) : Bool := (c / rgbBit) % 2 == 1

def chanR (c : Nat) : Nat := (c / 65536) % 256
def chanG (c : Nat) : Nat := (c / 256) % 256
def chanB (c : Nat) : Nat := c % 256

/-- `RGBColor(r,g,b)` for `r g b < 256`. -/
def rgbColor (r g b : Nat) : Color := (r * 65536 + g * 256 + b) + rgbBit
/-- `IndexColor(i)` for `i < 256`. -/
def indexColor (i : Nat) : Color := i + indexedBit

/-- `Color.Params()`. -/
def params (c : Color) : List Nat :=
  if isIndexed c then [c % 256]
  else if isRGB c then [chanR c, chanG c, chanB c]
  else []

/-- Channel difference as the Go code computes it: exact (`int`) or wrapped (`uint8`). -/
def chanDiff (signed : Bool) (d o : Nat) : Nat :=
  if signed then (if d ≥ o then d - o else o - d)
  else (d + 256 - o) % 256

/-- 10^4 × the `trial` value of `asIndex` for palette entry `v` and colour `c`. -/
def scoreWith (signed : Bool) (w : Nat × Nat × Nat) (c v : Nat) : Nat :=
  (w.1 * chanDiff signed (chanR v) (chanR c)) ^ 2
  + (w.2.1 * chanDiff signed (chanG v) (chanG c)) ^ 2
  + (w.2.2 * chanDiff signed (chanB v) (chanB c)) ^ 2

/-- First-wins strict argmin over a list, as the `for … if trial < dist` loop. Returns
    `(index, score)` of the selected entry, `none` on an empty list. -/
def argminFrom (f : Nat → Nat) : List Nat → Nat → Option (Nat × Nat) → Option (Nat × Nat)
  | [], _, best => best
  | v :: vs, i, none => argminFrom f vs (i + 1) (some (i, f v))
  | v :: vs, i, some (bi, bs) =>
      if f v < bs then argminFrom f vs (i + 1) (some (i, f v))
      else argminFrom f vs (i + 1) (some (bi, bs))

def argmin (f : Nat → Nat) (l : List Nat) : Option (Nat × Nat) := argminFrom f l 0 none

def asIndexWith (signed : Bool) (w : Nat × Nat × Nat) (pal : List Nat) (c : Color) : Color :=
  if !isRGB c then c
  else match argmin (scoreWith signed w c) pal with
    | none => 0
    | some (i, _) => indexColor ((i + 16) % 256)

def weights : Nat × Nat × Nat :=
  match Gen.Palette.weightsE2 with
  | [a, b, c] => (a, b, c)
  | _ => (0, 0, 0)

/-- The model of the current source's `Color.asIndex`. -/
def asIndex (c : Color) : Color :=
  asIndexWith Gen.Palette.diffSigned weights Gen.Palette.palette c

/-- Exact score (true distance, no wrap-around) used by the property oracle. -/
def score (c v : Nat) : Nat := scoreWith true weights c v

end VaxisModel.Model.Color
