/-!
# C10 — message-level model of concurrent use (DESIGN §3.4)

Two labelled transition systems, both executable (`next`, `run`) so that the driver can replay
traces and `decide` can check witness runs:

* `QSys` — the event queue: any number of posting goroutines (`PostEvent`, non-blocking, may drop;
  `PostEventBlocking`, which gives up once `Close` has completed; `SyncFunc` and `Resize` are
  `PostEvent`s), the FIFO channel with capacity `qcap`, the application receiving events.
* `SSys` — shutdown: the parser goroutine of ansi/parser.go (`run`, `emit`, `Close`, `WaitClose`;
  channel `sequences` capacity 2, `close`/`closed` capacity 1), the input goroutines of `openTty`
  (`select` over the parser channel, SIGWINCH and the kill signal; the one of the current session and
  those of earlier sessions that are still alive after a `Resume`), goroutines executing `Close()`
  (test-and-set of the flag, `PostEvent(QuitEvent)`, then `Suspend`'s dance: signal close, provoke a
  DA1 reply, wait for `closed` while discarding what the parser emits; finally `close(chQuit)`), the
  terminal.

Data races are outside this model (DESIGN §10); what is modelled is which operation can block on
what, and in which order messages are delivered.
-/
namespace VaxisModel.Model.Conc

/-! ## The event queue -/

/-- An event posted by goroutine `g`, the `i`-th post attempt of that goroutine. -/
structure Ev where
  g : Nat
  i : Nat
  blocking : Bool
  deriving DecidableEq, Repr

structure QSys where
  /-- every post attempt so far, in the order the attempts completed (including dropped ones) -/
  posted : List Ev := []
  queue : List Ev := []
  delivered : List Ev := []
  dropped : List Ev := []
  /-- `Close` has completed: `chQuit` is closed -/
  quit : Bool := false
  deriving DecidableEq, Repr

inductive QLabel
  /-- goroutine `g` calls `PostEvent` (`blocking = false`) or `PostEventBlocking` -/
  | post (g : Nat) (blocking : Bool)
  /-- the application receives one event (`PollEvent` / `<-Events()`) -/
  | consume
  /-- `Close` completes: `close(vx.chQuit)` -/
  | quit
  /-- a `PostEventBlocking` of goroutine `g` takes the `<-vx.chQuit` arm of its `select` (possible once
  `chQuit` is closed, whether or not the queue has room): the event is discarded (F53 repaired) -/
  | giveUp (g : Nat)
  deriving DecidableEq, Repr

/-- Number of post attempts goroutine `g` has completed. -/
def countOf (g : Nat) (l : List Ev) : Nat := (l.filter (·.g == g)).length

def qnext (qcap : Nat) (s : QSys) : QLabel → Option QSys
  | .post g blocking =>
      let e : Ev := { g := g, i := countOf g s.posted, blocking := blocking }
      if s.queue.length < qcap then
        some { s with posted := s.posted ++ [e], queue := s.queue ++ [e] }
      else if blocking then none            -- the send arm of `PostEventBlocking` blocks (the other arm: `giveUp`)
      else some { s with posted := s.posted ++ [e], dropped := s.dropped ++ [e] }   -- `default:` arm
  | .consume =>
      match s.queue with
      | [] => none
      | e :: q => some { s with queue := q, delivered := s.delivered ++ [e] }
  | .quit => some { s with quit := true }
  | .giveUp g =>
      let e : Ev := { g := g, i := countOf g s.posted, blocking := true }
      if s.quit then some { s with posted := s.posted ++ [e], dropped := s.dropped ++ [e] } else none

/-- labels of the running session (before `Close` completes) -/
def QLabel.running : QLabel → Bool
  | .post _ _ | .consume => true
  | _ => false

def qrun (qcap : Nat) : QSys → List QLabel → Option QSys
  | s, [] => some s
  | s, l :: ls => match qnext qcap s l with
    | some s' => qrun qcap s' ls
    | none => none

inductive QReachable (qcap : Nat) : QSys → Prop
  | init : QReachable qcap {}
  | step {s s' : QSys} (l : QLabel) : QReachable qcap s → qnext qcap s l = some s' → QReachable qcap s'

/-! ## Shutdown

The protocol as it is after the repairs of F13 and F53 (/repo "fix: Suspend and Close no longer wait
for a receiver of the parser's channel", "fix: PostEventBlocking returns once Close has completed"):

* `Parser.WaitClose` is a loop `select { case <-p.closed: return; case _, ok := <-p.sequences: … }`:
  while it waits for the parser to stop it discards what the parser still emits (label `drain j`);
  the arm `!ok` (channel closed) waits for `closed` and is the same step as the first arm here,
  because `close(p.sequences); p.closed <- true` is one step of the parser in this model;
* the input goroutine returns when the parser's channel is closed (`seq, ok := <-parser.Next()`);
* `PostEventBlocking` is `select { case vx.queue <- ev: case <-vx.chQuit: }` (label `quit`).

`Close()` on an input goroutine (kill-signal arm of its `select`, or the deferred `recover`) is a
caller of `Close` like any other: the goroutine has left its loop for good (`IPc.done` = "no longer
receiving"), what it does from then on is the `Caller` appended to `callers`, and it ends when that
caller has returned. -/

/-- Program counter of the parser goroutine (`Parser.run`). -/
inductive PPc
  /-- at the `select` on `p.close` -/
  | top
  /-- inside `readRune` (blocked while the terminal sends nothing) -/
  | reading
  /-- inside `emit(seq)` for a sequence whose handling posts `posts` events -/
  | emitting (posts : Nat)
  /-- after the loop: `emit(EOF{})` -/
  | emitEOF
  /-- `close(p.sequences); p.closed <- true` -/
  | signalClosed
  | done
  deriving DecidableEq, Repr

inductive Tok
  | seq (posts : Nat)
  | eof
  deriving DecidableEq, Repr

/-- Program counter of a goroutine inside `Close()` (which contains `Suspend()`) or inside a bare
`Suspend()`. -/
inductive CPc
  /-- `closeMu.Lock(); if vx.closed { unlock; return }; vx.closed = true; unlock` — one atomic
  test-and-set (F33 repaired: /repo "fix: Close is safe against concurrent callers") -/
  | checkFlag
  /-- `vx.PostEvent(QuitEvent{})` -/
  | postQuit
  /-- `Suspend`: `vx.suspendMu.Lock(); if vx.suspended { return nil }; vx.suspended = true` -/
  | checkSuspended
  /-- `vx.parser.Close()` = `p.close <- true` -/
  | signalClose
  /-- `io.WriteString(vx.console, primaryAttributes)` -/
  | writeDA1
  /-- `vx.parser.WaitClose()`: the `select` over `p.closed` and `p.sequences` -/
  | waitClosed
  /-- (the rest of `Suspend` and its `suspendMu.Unlock()` belong to the step that leaves `waitClosed`)
  `console.Close()`, deferred `close(vx.chQuit)` -/
  | closeQuit
  | returned
  deriving DecidableEq, Repr

/-- A goroutine inside `Close()` (`inClose`) or inside a bare `Suspend()`. -/
structure Caller where
  pc : CPc
  inClose : Bool := true
  deriving DecidableEq, Repr

/-- Program counter of an input goroutine of `openTty`. -/
inductive IPc
  | select
  /-- inside `handleSequence` (or the SIGWINCH arm): `k` blocking posts still to do -/
  | posting (k : Nat)
  /-- it has left its loop: EOF, closed channel, or `vx.Close()` on this goroutine (which then runs as
  a `Caller`) -/
  | done
  deriving DecidableEq, Repr

/-- What an input goroutine can do. -/
inductive IAct
  /-- its `select` takes the parser arm: a sequence, `EOF`, or `!ok` (channel closed) -/
  | recv
  /-- its `select` takes the kill-signal arm: `vx.Close(); return` -/
  | kill
  /-- its `select` takes the SIGWINCH arm: `PostEventBlocking(Redraw{})` -/
  | winch
  /-- the next blocking post goes into the queue / the handling of the sequence is finished -/
  | step
  /-- a blocking post takes the `<-vx.chQuit` arm (Close has completed): the event is discarded -/
  | quit
  /-- `handleSequence` panics: the deferred `recover` calls `vx.Close()` and panics again (a fault, not
  something a scheduler picks) -/
  | panic
  deriving DecidableEq, Repr

/-- An input goroutine as seen by `iact`: its program counter, its parser's channel, and whether that
channel has been closed. -/
structure IView where
  ipc : IPc
  seqs : List Tok
  closed : Bool
  deriving DecidableEq, Repr

/-- The input goroutine of an earlier session (before a `Resume`) that has not finished yet, with what
is left in the channel of its parser (that parser has stopped, its channel is closed). -/
structure Old where
  ipc : IPc
  seqs : List Tok
  deriving DecidableEq, Repr

structure SSys where
  qcap : Nat := 1024
  queueLen : Nat := 0
  /-- the application is receiving events (false while the main goroutine is inside `Close`) -/
  consumer : Bool := true
  /-- terminal input not yet read: `none` = a rune inside a sequence, `some k` = a rune that
  completes a sequence whose handling posts `k` events -/
  inbuf : List (Option Nat) := []
  ppc : PPc := .reading
  /-- `p.sequences`, capacity 2 -/
  seqs : List Tok := []
  seqsClosed : Bool := false
  closeSig : Nat := 0
  closedSig : Nat := 0
  ipc : IPc := .select
  killSig : Bool := false
  /-- `chSigWinSz` (capacity 1) -/
  winchSig : Bool := false
  /-- input goroutines of earlier sessions that are still alive -/
  olds : List Old := []
  /-- goroutines that are executing `Close()` / `Suspend()` -/
  callers : List Caller := []
  closedFlag : Bool := false
  suspendedFlag : Bool := false
  /-- `vx.suspendMu` is held: some goroutine is inside `Suspend` past its guard (F210 repaired: /repo
  "fix: Suspend and Resume are serialised by a mutex") -/
  suspLock : Bool := false
  /-- how many times `close(vx.chQuit)` ran (2 = "close of closed channel" panic) -/
  quitCloses : Nat := 0
  da1Pending : Nat := 0
  /-- statement order inside `Suspend` (a fact of the source, `Gen.Conc.skeleton_Suspend`): `false` =
  close signal first, then the DA1 query that wakes the reader (the code as it is); `true` = the
  query first -/
  da1First : Bool := false
  /-- `Resume` clears `vx.suspended` (a fact of the source, `Gen.Conc.skeleton_Resume`) -/
  resumeClears : Bool := true
  /-- `Parser.WaitClose` discards what the parser emits while it waits (a fact of the source,
  `Gen.Conc.shape_Parser_WaitClose`; `false` = the bare `<-p.closed` of before the F13 repair) -/
  waitDrains : Bool := true
  /-- `PostEventBlocking` has the `<-vx.chQuit` arm (a fact of the source,
  `Gen.Conc.shape_PostEventBlocking`; `false` = the bare send of before the F53 repair) -/
  postQuitArm : Bool := true
  deriving DecidableEq, Repr

inductive SLabel
  /-- the terminal sends one unit of input -/
  | termInput (u : Option Nat)
  /-- the terminal answers one outstanding DA1 query (`ESC [ ? 6 2 c`: runes, the last completes a CSI) -/
  | termReply
  /-- one step of the parser goroutine -/
  | parser
  /-- a step of the input goroutine of the current session -/
  | input (a : IAct)
  /-- a step of the `j`-th input goroutine left over from an earlier session -/
  | old (j : Nat) (a : IAct)
  | consume
  /-- a kill signal is delivered (`chSigKill`) -/
  | signal
  /-- SIGWINCH is delivered (`chSigWinSz`) -/
  | winch
  /-- another goroutine calls `Close()` -/
  | callClose
  /-- another goroutine calls `Suspend()` -/
  | callSuspend
  /-- `Resume()`: `openTty` starts a new parser and a new input goroutine (the previous parser has
  stopped; the previous input goroutine may still be alive: it joins `olds`), `vx.suspended = false` -/
  | resume
  /-- the `j`-th caller of `Close()` / `Suspend()` takes one step -/
  | caller (j : Nat)
  /-- the `j`-th caller, inside `WaitClose`, takes a sequence out of the parser's channel and discards it -/
  | drain (j : Nat)
  deriving DecidableEq, Repr

/-- Where `Suspend` goes after its guard, after the close signal and after the DA1 query, in the
two statement orders. -/
def afterGuard (s : SSys) : CPc := if s.da1First then .writeDA1 else .signalClose
def afterSignal (s : SSys) : CPc := if s.da1First then .waitClosed else .writeDA1
def afterDA1 (s : SSys) : CPc := if s.da1First then .signalClose else .waitClosed
/-- Where the goroutine is when `Suspend` has returned: inside `Close` the rest of `Close`. -/
def afterSuspend (inClose : Bool) : CPc := if inClose then .closeQuit else .returned

/-- One step of `Close()` / `Suspend()` on some goroutine; `none` = blocked. -/
def closeStep (s : SSys) (inClose : Bool) : CPc → Option (SSys × CPc)
  | .checkFlag => if s.closedFlag then some (s, .returned) else some ({ s with closedFlag := true }, .postQuit)
  | .postQuit => some ({ s with queueLen := if s.queueLen < s.qcap then s.queueLen + 1 else s.queueLen }, .checkSuspended)
  | .checkSuspended =>
      -- `vx.suspendMu.Lock()` (blocks while another goroutine is inside Suspend); the guard; the lock is
      -- released when Suspend returns (at once if already suspended)
      if s.suspLock then none
      else if s.suspendedFlag then some (s, afterSuspend inClose)
      else some ({ s with suspendedFlag := true, suspLock := true }, afterGuard s)
  | .signalClose => if s.closeSig < 1 then some ({ s with closeSig := s.closeSig + 1 }, afterSignal s) else none
  | .writeDA1 => some ({ s with da1Pending := s.da1Pending + 1 }, afterDA1 s)
  | .waitClosed =>
      if s.closedSig > 0 then some ({ s with closedSig := s.closedSig - 1, suspLock := false }, afterSuspend inClose) else none
  | .closeQuit => some ({ s with quitCloses := s.quitCloses + 1 }, .returned)
  | .returned => none

/-- `vx.Close()` called on an input goroutine. -/
def closeCaller : Caller := { pc := .checkFlag, inClose := true }

/-- One step of an input goroutine: the new shared state and the goroutine's new view; `none` = not enabled. -/
def iact (s : SSys) (v : IView) : IAct → Option (SSys × IView)
  | .recv =>
      match v.ipc, v.seqs with
      | .select, .seq k :: r => some (s, { v with seqs := r, ipc := .posting k })
      | .select, .eof :: r => some (s, { v with seqs := r, ipc := .done })
      | .select, [] => if v.closed then some (s, { v with ipc := .done }) else none
      | _, _ => none
  | .kill =>
      match v.ipc with
      | .select => if s.killSig then some ({ s with killSig := false, callers := s.callers ++ [closeCaller] }, { v with ipc := .done }) else none
      | _ => none
  | .winch =>
      match v.ipc with
      | .select => if s.winchSig then some ({ s with winchSig := false }, { v with ipc := .posting 1 }) else none
      | _ => none
  | .step =>
      match v.ipc with
      | .posting 0 => some (s, { v with ipc := .select })
      | .posting (k + 1) => if s.queueLen < s.qcap then some ({ s with queueLen := s.queueLen + 1 }, { v with ipc := .posting k }) else none
      | _ => none
  | .quit =>
      match v.ipc with
      | .posting (k + 1) => if s.postQuitArm && s.quitCloses ≥ 1 then some (s, { v with ipc := .posting k }) else none
      | _ => none
  | .panic =>
      match v.ipc with
      | .posting _ => some ({ s with callers := s.callers ++ [closeCaller] }, { v with ipc := .done })
      | _ => none

def snext (s : SSys) : SLabel → Option SSys
  | .termInput u => some { s with inbuf := s.inbuf ++ [u] }
  | .termReply => if s.da1Pending > 0 then some { s with da1Pending := s.da1Pending - 1, inbuf := s.inbuf ++ [none, none, some 1] } else none
  | .parser =>
      match s.ppc with
      | .top =>
          if s.closeSig > 0 then some { s with closeSig := s.closeSig - 1, ppc := .emitEOF }
          else some { s with ppc := .reading }              -- `default:` arm
      | .reading =>
          match s.inbuf with
          | [] => none                                     -- blocked in ReadRune
          | none :: r => some { s with inbuf := r, ppc := .top }
          | some k :: r => some { s with inbuf := r, ppc := .emitting k }
      | .emitting k => if s.seqs.length < 2 then some { s with seqs := s.seqs ++ [.seq k], ppc := .top } else none
      | .emitEOF => if s.seqs.length < 2 then some { s with seqs := s.seqs ++ [.eof], ppc := .signalClosed } else none
      | .signalClosed => if s.closedSig < 1 then some { s with seqsClosed := true, closedSig := s.closedSig + 1, ppc := .done } else none
      | .done => none
  | .input a =>
      match iact s ⟨s.ipc, s.seqs, s.seqsClosed⟩ a with
      | some (s', v) => some { s' with ipc := v.ipc, seqs := v.seqs }
      | none => none
  | .old j a =>
      match s.olds[j]? with
      | none => none
      | some o =>
        match iact s ⟨o.ipc, o.seqs, true⟩ a with
        | some (s', v) => some { s' with olds := s'.olds.set j ⟨v.ipc, v.seqs⟩ }
        | none => none
  | .consume => if s.consumer && s.queueLen > 0 then some { s with queueLen := s.queueLen - 1 } else none
  | .signal => if s.killSig then none else some { s with killSig := true }
  | .winch => if s.winchSig then none else some { s with winchSig := true }
  | .callClose => some { s with callers := s.callers ++ [{ pc := .checkFlag, inClose := true }] }
  | .callSuspend => some { s with callers := s.callers ++ [{ pc := .checkSuspended, inClose := false }] }
  | .resume =>
      if s.ppc == .done && !s.suspLock then            -- `Resume` takes `vx.suspendMu` too
        some { s with ppc := .top, seqs := [], seqsClosed := false, closeSig := 0, closedSig := 0, ipc := .select,
                      olds := if s.ipc == .done then s.olds else s.olds ++ [⟨s.ipc, s.seqs⟩],
                      suspendedFlag := if s.resumeClears then false else s.suspendedFlag }
      else none
  | .caller j =>
      match s.callers[j]? with
      | none => none
      | some c =>
        match closeStep s c.inClose c.pc with
        | some (s', c') => some { s' with callers := s'.callers.set j { c with pc := c' } }
        | none => none
  | .drain j =>
      match s.callers[j]? with
      | none => none
      | some c =>
        match c.pc, s.seqs with
        | .waitClosed, _ :: r => if s.waitDrains then some { s with seqs := r } else none
        | _, _ => none

def srun : SSys → List SLabel → Option SSys
  | s, [] => some s
  | s, l :: ls => match snext s l with
    | some s' => srun s' ls
    | none => none

inductive SReachable (s0 : SSys) : SSys → Prop
  | init : SReachable s0 s0
  | step {s s' : SSys} (l : SLabel) : SReachable s0 s → snext s l = some s' → SReachable s0 s'

/-- Everything the library started has finished and every `Close()` / `Suspend()` has returned. -/
def SSys.final (s : SSys) : Bool :=
  s.ppc == .done && s.ipc == .done && s.olds.all (·.ipc == .done) && s.callers.all (·.pc == .returned)

def IAct.sched : IAct → Bool
  | .panic => false
  | _ => true

/-- What a scheduler may pick on its own: steps of the library's goroutines (either arm of every
`select`), of the callers of `Close`/`Suspend`, the terminal's answer to a DA1 query that was
written, the application receiving an event. -/
def SLabel.sched : SLabel → Bool
  | .parser | .caller _ | .drain _ | .termReply | .consume => true
  | .input a | .old _ a => a.sched
  | _ => false

/-- `close(vx.chQuit)` ran twice: "panic: close of closed channel". -/
def SSys.panicked (s : SSys) : Bool := s.quitCloses ≥ 2

def schedActs : List IAct := [.recv, .kill, .winch, .step, .quit]

/-- Every label a scheduler may pick that can be enabled in `s`. -/
def SSys.schedLabels (s : SSys) : List SLabel :=
  [.parser, .termReply, .consume] ++ schedActs.map .input ++
  (List.range s.callers.length).flatMap (fun j => [.caller j, .drain j]) ++
  (List.range s.olds.length).flatMap (fun j => schedActs.map (.old j))

/-- Nothing a scheduler may pick is enabled: the state of rest. -/
def SSys.quiescent (s : SSys) : Bool := s.schedLabels.all fun l => (snext s l).isNone

end VaxisModel.Model.Conc

namespace VaxisModel.Model.Conc

/-! ## Lock order (over the lock sites extracted into `Gen/Conc.lean`) -/

/-- `"L:Vaxis.mu"` ↦ `('L', "Vaxis.mu")`; events without a payload (`"R"`) get `""`. -/
def splitEvent (e : String) : Char × String :=
  match e.toList with
  | k :: ':' :: rest => (k, String.ofList rest)
  | k :: _ => (k, "")
  | [] => (' ', "")

/-- Part of a qualified name after the last dot. -/
def simpleName (s : String) : String :=
  let rec go : List Char → List Char → List Char
    | [], acc => acc
    | '.' :: r, _ => go r []
    | c :: r, acc => go r (acc ++ [c])
  String.ofList (go s.toList [])

/-- Mutexes locked directly by a function. -/
def directLocks (evs : List String) : List String :=
  evs.filterMap fun e => let (k, m) := splitEvent e; if k == 'L' then some m else none

def callees (evs : List String) : List String :=
  evs.filterMap fun e => let (k, m) := splitEvent e; if k == 'C' then some m else none

/-- a callee named in an event matches a site: a qualified name (`Parser.Close`) exactly, an
unqualified one (a plain function) by its simple name -/
def calleeMatches (site f : String) : Bool :=
  if f.toList.contains '.' then site == f else simpleName site == f

/-- Mutexes a call of `f` may lock, following calls `depth` levels down. -/
def locksOfCall (sites : List (String × List String)) : Nat → String → List String
  | 0, _ => []
  | depth + 1, f =>
    (sites.filter (fun s => calleeMatches s.1 f)).flatMap fun s =>
      directLocks s.2 ++ (callees s.2).flatMap (locksOfCall sites depth)

def unionL (a b : List String) : List String := a ++ b.filter (fun x => !a.contains x)

/-- Pairs (held, acquired) along one function's events.  `held`: the mutexes that may be held here
(an over-approximation: after a branch, what was held before it or at its end); `dead`: the rest of
the current branch is behind a `return`; `stack`: the states at the entries of the enclosing branches.
A deferred unlock (`D`) releases at the function's end: the mutex stays held. -/
def nestedIn (sites : List (String × List String)) :
    List String → List String → Bool → List (List String × Bool) → List (String × String)
  | [], _, _, _ => []
  | e :: rest, held, dead, stack =>
    if e == "{" then nestedIn sites rest held dead ((held, dead) :: stack)
    else if e == "}" then
      match stack with
      | (h0, d0) :: st => nestedIn sites rest (if dead then h0 else unionL h0 held) d0 st
      | [] => nestedIn sites rest held dead []
    else if dead then nestedIn sites rest held dead stack
    else
      let (k, m) := splitEvent e
      if k == 'L' then held.map (·, m) ++ nestedIn sites rest (held ++ [m]) dead stack
      else if k == 'U' then nestedIn sites rest (held.filter (· != m)) dead stack
      else if k == 'R' then nestedIn sites rest held true stack
      else if k == 'C' then (held.flatMap fun h => (locksOfCall sites 4 m).map (h, ·)) ++ nestedIn sites rest held dead stack
      else nestedIn sites rest held dead stack

def allNested (sites : List (String × List String)) : List (String × String) :=
  sites.flatMap fun s => nestedIn sites s.2 [] false []

end VaxisModel.Model.Conc
