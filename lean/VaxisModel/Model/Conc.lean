/-!
# C10 — message-level model of concurrent use (DESIGN §3.4)

Two labelled transition systems, both executable (`next`, `run`) so that the driver can replay
traces and `decide` can check witness runs:

* `QSys` — the event queue: any number of posting goroutines (`PostEvent`, non-blocking, may drop;
  `PostEventBlocking`; `SyncFunc` and `Resize` are `PostEvent`s), the FIFO channel with capacity
  `qcap`, the application receiving events.
* `SSys` — shutdown: the parser goroutine of ansi/parser.go (`run`, `emit`, `Close`, `WaitClose`;
  channel `sequences` capacity 2, `close`/`closed` capacity 1), the input goroutine of `openTty`
  (`select` over the parser channel and the kill signal), goroutines executing `Close()` (flag check,
  `PostEvent(QuitEvent)`, flag set, then `Suspend`'s dance: signal close, provoke a DA1 reply, wait
  for `closed`; finally `close(chQuit)`), the terminal.

Data races are outside this model (DESIGN §10); what is modelled is which operation can block on
what, and in which order messages are delivered.
-/
namespace VaxisModel.Model.Conc

/-! ## The event queue -/

/-- An event posted by goroutine `g`, the `i`-th post attempt of that goroutine. -/
structure Ev where
  g : Nat
  i : Nat
  blocking : Bool
  deriving DecidableEq, Repr

structure QSys where
  /-- every post attempt so far, in the order the attempts completed (including dropped ones) -/
  posted : List Ev := []
  queue : List Ev := []
  delivered : List Ev := []
  dropped : List Ev := []
  deriving DecidableEq, Repr

inductive QLabel
  /-- goroutine `g` calls `PostEvent` (`blocking = false`) or `PostEventBlocking` -/
  | post (g : Nat) (blocking : Bool)
  /-- the application receives one event (`PollEvent` / `<-Events()`) -/
  | consume
  deriving DecidableEq, Repr

/-- Number of post attempts goroutine `g` has completed. -/
def countOf (g : Nat) (l : List Ev) : Nat := (l.filter (·.g == g)).length

def qnext (qcap : Nat) (s : QSys) : QLabel → Option QSys
  | .post g blocking =>
      let e : Ev := { g := g, i := countOf g s.posted, blocking := blocking }
      if s.queue.length < qcap then
        some { s with posted := s.posted ++ [e], queue := s.queue ++ [e] }
      else if blocking then none            -- `vx.queue <- ev` blocks
      else some { s with posted := s.posted ++ [e], dropped := s.dropped ++ [e] }   -- `default:` arm
  | .consume =>
      match s.queue with
      | [] => none
      | e :: q => some { s with queue := q, delivered := s.delivered ++ [e] }

def qrun (qcap : Nat) : QSys → List QLabel → Option QSys
  | s, [] => some s
  | s, l :: ls => match qnext qcap s l with
    | some s' => qrun qcap s' ls
    | none => none

inductive QReachable (qcap : Nat) : QSys → Prop
  | init : QReachable qcap {}
  | step {s s' : QSys} (l : QLabel) : QReachable qcap s → qnext qcap s l = some s' → QReachable qcap s'

/-! ## Shutdown -/

/-- Program counter of the parser goroutine (`Parser.run`). -/
inductive PPc
  /-- at the `select` on `p.close` -/
  | top
  /-- inside `readRune` (blocked while the terminal sends nothing) -/
  | reading
  /-- inside `emit(seq)` for a sequence whose handling posts `posts` events -/
  | emitting (posts : Nat)
  /-- after the loop: `emit(EOF{})` -/
  | emitEOF
  /-- `close(p.sequences); p.closed <- true` -/
  | signalClosed
  | done
  deriving DecidableEq, Repr

inductive Tok
  | seq (posts : Nat)
  | eof
  deriving DecidableEq, Repr

/-- Program counter of a goroutine inside `Close()` (which contains `Suspend()`) or inside a bare
`Suspend()`. -/
inductive CPc
  /-- `closeMu.Lock(); if vx.closed { unlock; return }; vx.closed = true; unlock` — one atomic
  test-and-set (F33 repaired: /repo "fix: Close is safe against concurrent callers") -/
  | checkFlag
  /-- `vx.PostEvent(QuitEvent{})` -/
  | postQuit
  /-- `Suspend`: `if vx.suspended { return nil }; vx.suspended = true` -/
  | checkSuspended
  /-- `vx.parser.Close()` = `p.close <- true` -/
  | signalClose
  /-- `io.WriteString(vx.console, primaryAttributes)` -/
  | writeDA1
  /-- `vx.parser.WaitClose()` = `<-p.closed` -/
  | waitClosed
  /-- the rest of `Suspend`, `console.Close()`, deferred `close(vx.chQuit)` -/
  | closeQuit
  | returned
  deriving DecidableEq, Repr

/-- A goroutine (not the input goroutine) inside `Close()` (`inClose`) or inside a bare `Suspend()`. -/
structure Caller where
  pc : CPc
  inClose : Bool := true
  deriving DecidableEq, Repr

/-- Program counter of the input goroutine of `openTty`. -/
inductive IPc
  | select
  /-- inside `handleSequence`: `k` blocking posts still to do -/
  | posting (k : Nat)
  /-- kill-signal arm: `vx.Close()` on this goroutine -/
  | closing (c : CPc)
  | done
  deriving DecidableEq, Repr

structure SSys where
  qcap : Nat := 1024
  queueLen : Nat := 0
  /-- the application is receiving events (false while the main goroutine is inside `Close`) -/
  consumer : Bool := true
  /-- terminal input not yet read: `none` = a rune inside a sequence, `some k` = a rune that
  completes a sequence whose handling posts `k` events -/
  inbuf : List (Option Nat) := []
  ppc : PPc := .reading
  /-- `p.sequences`, capacity 2 -/
  seqs : List Tok := []
  seqsClosed : Bool := false
  closeSig : Nat := 0
  closedSig : Nat := 0
  ipc : IPc := .select
  killSig : Bool := false
  /-- goroutines other than the input goroutine that are executing `Close()` / `Suspend()` -/
  callers : List Caller := []
  closedFlag : Bool := false
  suspendedFlag : Bool := false
  /-- how many times `close(vx.chQuit)` ran (2 = "close of closed channel" panic) -/
  quitCloses : Nat := 0
  da1Pending : Nat := 0
  /-- statement order inside `Suspend` (a fact of the source, `Gen.Conc.skeleton_Suspend`): `false` =
  close signal first, then the DA1 query that wakes the reader (the code as it is); `true` = the
  query first -/
  da1First : Bool := false
  /-- `Resume` clears `vx.suspended` (a fact of the source, `Gen.Conc.skeleton_Resume`) -/
  resumeClears : Bool := true
  deriving DecidableEq, Repr

inductive SLabel
  /-- the terminal sends one unit of input -/
  | termInput (u : Option Nat)
  /-- the terminal answers one outstanding DA1 query (`ESC [ ? 6 2 c`: runes, the last completes a CSI) -/
  | termReply
  /-- one step of the parser goroutine -/
  | parser
  /-- the input goroutine's `select` takes the parser arm / the kill-signal arm -/
  | inputRecv | inputKill
  /-- one further step of the input goroutine (a blocking post, or a step of its `Close()`) -/
  | inputStep
  | consume
  /-- a kill signal is delivered (`chSigKill`) -/
  | signal
  /-- another goroutine calls `Close()` -/
  | callClose
  /-- another goroutine calls `Suspend()` -/
  | callSuspend
  /-- `Resume()`: `openTty` starts a new parser and a new input goroutine (modelled when the
  previous ones have finished), `vx.suspended = false` -/
  | resume
  /-- the `j`-th caller of `Close()` / `Suspend()` takes one step -/
  | caller (j : Nat)
  deriving DecidableEq, Repr

/-- Where `Suspend` goes after its guard, after the close signal and after the DA1 query, in the
two statement orders. -/
def afterGuard (s : SSys) : CPc := if s.da1First then .writeDA1 else .signalClose
def afterSignal (s : SSys) : CPc := if s.da1First then .waitClosed else .writeDA1
def afterDA1 (s : SSys) : CPc := if s.da1First then .signalClose else .waitClosed
/-- Where the goroutine is when `Suspend` has returned: inside `Close` the rest of `Close`. -/
def afterSuspend (inClose : Bool) : CPc := if inClose then .closeQuit else .returned

/-- One step of `Close()` / `Suspend()` on some goroutine; `none` = blocked. -/
def closeStep (s : SSys) (inClose : Bool) : CPc → Option (SSys × CPc)
  | .checkFlag => if s.closedFlag then some (s, .returned) else some ({ s with closedFlag := true }, .postQuit)
  | .postQuit => some ({ s with queueLen := if s.queueLen < s.qcap then s.queueLen + 1 else s.queueLen }, .checkSuspended)
  | .checkSuspended =>
      if s.suspendedFlag then some (s, afterSuspend inClose) else some ({ s with suspendedFlag := true }, afterGuard s)
  | .signalClose => if s.closeSig < 1 then some ({ s with closeSig := s.closeSig + 1 }, afterSignal s) else none
  | .writeDA1 => some ({ s with da1Pending := s.da1Pending + 1 }, afterDA1 s)
  | .waitClosed => if s.closedSig > 0 then some ({ s with closedSig := s.closedSig - 1 }, afterSuspend inClose) else none
  | .closeQuit => some ({ s with quitCloses := s.quitCloses + 1 }, .returned)
  | .returned => none

def snext (s : SSys) : SLabel → Option SSys
  | .termInput u => some { s with inbuf := s.inbuf ++ [u] }
  | .termReply => if s.da1Pending > 0 then some { s with da1Pending := s.da1Pending - 1, inbuf := s.inbuf ++ [none, none, some 1] } else none
  | .parser =>
      match s.ppc with
      | .top =>
          if s.closeSig > 0 then some { s with closeSig := s.closeSig - 1, ppc := .emitEOF }
          else some { s with ppc := .reading }              -- `default:` arm
      | .reading =>
          match s.inbuf with
          | [] => none                                     -- blocked in ReadRune
          | none :: r => some { s with inbuf := r, ppc := .top }
          | some k :: r => some { s with inbuf := r, ppc := .emitting k }
      | .emitting k => if s.seqs.length < 2 then some { s with seqs := s.seqs ++ [.seq k], ppc := .top } else none
      | .emitEOF => if s.seqs.length < 2 then some { s with seqs := s.seqs ++ [.eof], ppc := .signalClosed } else none
      | .signalClosed => if s.closedSig < 1 then some { s with seqsClosed := true, closedSig := s.closedSig + 1, ppc := .done } else none
      | .done => none
  | .inputRecv =>
      match s.ipc, s.seqs with
      | .select, .seq k :: r => some { s with seqs := r, ipc := .posting k }
      | .select, .eof :: r => some { s with seqs := r, ipc := .done }
      | _, _ => none
  | .inputKill =>
      match s.ipc with
      | .select => if s.killSig then some { s with killSig := false, ipc := .closing .checkFlag } else none
      | _ => none
  | .inputStep =>
      match s.ipc with
      | .posting 0 => some { s with ipc := .select }
      | .posting (k + 1) => if s.queueLen < s.qcap then some { s with queueLen := s.queueLen + 1, ipc := .posting k } else none
      | .closing c =>
          match closeStep s true c with
          | some (s', .returned) => some { s' with ipc := .done }     -- `vx.Close(); return`
          | some (s', c') => some { s' with ipc := .closing c' }
          | none => none
      | _ => none
  | .consume => if s.consumer && s.queueLen > 0 then some { s with queueLen := s.queueLen - 1 } else none
  | .signal => if s.killSig then none else some { s with killSig := true }
  | .callClose => some { s with callers := s.callers ++ [{ pc := .checkFlag, inClose := true }] }
  | .callSuspend => some { s with callers := s.callers ++ [{ pc := .checkSuspended, inClose := false }] }
  | .resume =>
      if s.ppc == .done && s.ipc == .done then
        some { s with ppc := .top, seqs := [], seqsClosed := false, closeSig := 0, closedSig := 0, ipc := .select,
                      suspendedFlag := if s.resumeClears then false else s.suspendedFlag }
      else none
  | .caller j =>
      match s.callers[j]? with
      | none => none
      | some c =>
        match closeStep s c.inClose c.pc with
        | some (s', c') => some { s' with callers := s'.callers.set j { c with pc := c' } }
        | none => none

def srun : SSys → List SLabel → Option SSys
  | s, [] => some s
  | s, l :: ls => match snext s l with
    | some s' => srun s' ls
    | none => none

inductive SReachable (s0 : SSys) : SSys → Prop
  | init : SReachable s0 s0
  | step {s s' : SSys} (l : SLabel) : SReachable s0 s → snext s l = some s' → SReachable s0 s'

/-- Everything the library started has finished and every `Close()` / `Suspend()` has returned. -/
def SSys.final (s : SSys) : Bool :=
  s.ppc == .done && s.ipc == .done && s.callers.all (·.pc == .returned)

/-- Labels that do not need the terminal to send anything new nor the application to do anything:
steps of the library's own goroutines and of the callers of `Close`, and the terminal's answer to
a DA1 query that was written. -/
def SLabel.internal : SLabel → Bool
  | .parser | .inputRecv | .inputStep | .caller _ | .termReply => true
  | _ => false

/-- What a scheduler may pick on its own: the internal labels, the signal arm of the input
goroutine's `select`, and the application receiving an event. -/
def SLabel.sched : SLabel → Bool
  | .parser | .inputRecv | .inputKill | .inputStep | .caller _ | .termReply | .consume => true
  | _ => false

/-- `close(vx.chQuit)` ran twice: "panic: close of closed channel". -/
def SSys.panicked (s : SSys) : Bool := s.quitCloses ≥ 2

/-- No internal label is enabled. -/
def SSys.stuck (s : SSys) : Bool :=
  (snext s .parser).isNone && (snext s .inputRecv).isNone && (snext s .inputKill).isNone && (snext s .inputStep).isNone &&
  (snext s .termReply).isNone && (List.range s.callers.length).all fun j => (snext s (.caller j)).isNone

/-- Nothing a scheduler may pick is enabled (`stuck`, and the application has nothing to receive). -/
def SSys.quiescent (s : SSys) : Bool := s.stuck && (snext s .consume).isNone

end VaxisModel.Model.Conc

namespace VaxisModel.Model.Conc

/-! ## Lock order (over the lock sites extracted into `Gen/Conc.lean`) -/

/-- `"L:Vaxis.mu"` ↦ `('L', "Vaxis.mu")`; events without a payload (`"R"`) get `""`. -/
def splitEvent (e : String) : Char × String :=
  match e.toList with
  | k :: ':' :: rest => (k, String.ofList rest)
  | k :: _ => (k, "")
  | [] => (' ', "")

/-- Part of a qualified name after the last dot. -/
def simpleName (s : String) : String :=
  let rec go : List Char → List Char → List Char
    | [], acc => acc
    | '.' :: r, _ => go r []
    | c :: r, acc => go r (acc ++ [c])
  String.ofList (go s.toList [])

/-- Mutexes locked directly by a function. -/
def directLocks (evs : List String) : List String :=
  evs.filterMap fun e => let (k, m) := splitEvent e; if k == 'L' then some m else none

def callees (evs : List String) : List String :=
  evs.filterMap fun e => let (k, m) := splitEvent e; if k == 'C' then some m else none

/-- Mutexes a call of `f` (simple name) may lock, following calls `depth` levels down. -/
def locksOfCall (sites : List (String × List String)) : Nat → String → List String
  | 0, _ => []
  | depth + 1, f =>
    (sites.filter (fun s => simpleName s.1 == f)).flatMap fun s =>
      directLocks s.2 ++ (callees s.2).flatMap (locksOfCall sites depth)

/-- Pairs (held, acquired) along one function's events. -/
def nestedIn (sites : List (String × List String)) : List String → List String → List (String × String)
  | [], _ => []
  | e :: rest, held =>
    let (k, m) := splitEvent e
    if k == 'L' then held.map (·, m) ++ nestedIn sites rest (held ++ [m])
    else if k == 'U' then nestedIn sites rest (held.filter (· != m))
    else if k == 'R' then nestedIn sites rest []
    else if k == 'C' then (held.flatMap fun h => (locksOfCall sites 3 m).map (h, ·)) ++ nestedIn sites rest held
    else nestedIn sites rest held

def allNested (sites : List (String × List String)) : List (String × String) :=
  sites.flatMap fun s => nestedIn sites s.2 []

end VaxisModel.Model.Conc
