/-!
# C10 — which component of the models stands for which goroutine / timer of the source

`Gen/Conc.lean` lists every `go` statement and every timer of the root package, the parser and the
spinner.  `modelledBy` maps each to the component of the LTSs of `Model/Conc.lean` that models it
(or says why none is needed); an entry it does not know maps to `none`, which breaks
`Props.C10Inventory.go_inventory_complete` — a new `go func` in the source has to be looked at.
-/
namespace VaxisModel.Model.ConcInventory

/-- (file, enclosing function, what is started) ↦ the model component. -/
def modelledBy : String × String × String → Option String
  | ("vaxis.go", "Vaxis.openTty", "func-literal") =>
      some "SSys.ipc — the input goroutine (select over parser channel / SIGWINCH / kill signal; handleSequence = blocking posts; panic path = Close on this goroutine)"
  | ("ansi/parser.go", "NewParser", "parser.run") =>
      some "SSys.ppc — the parser goroutine (select on close, ReadRune, emit, EOF, closed)"
  | ("widgets/spinner/spinner.go", "Model.start", "func-literal") =>
      some "a poster of QSys (SyncFunc = PostEvent, non-blocking) with its own mutex (lock table); on panic a caller of Close (SLabel.callClose); ends on ctx.Done() = Model.Stop, independent of Close"
  | ("image.go", "KittyImage.Resize", "func-literal") =>
      some "encoder worker: touches only its image's atomics and buffer, no channel or mutex of Vaxis; terminates (no loop on external input)"
  | ("image.go", "Sixel.Resize", "func-literal") =>
      some "encoder worker: touches only its image's atomics and buffer, no channel or mutex of Vaxis; terminates (no loop on external input)"
  | _ => none

/-- (file, enclosing function, time.<kind>) ↦ the model component. -/
def timerModelledBy : String × String × String → Option String
  | ("vaxis.go", "Vaxis.CursorPosition", "NewTimer") => some "USys requester: the timeout arm of CursorPosition's select (label `giveUp`)"
  | ("vaxis_unix.go", "Vaxis.reportWinsize", "NewTimer") => some "USys requester: the deadline arm of reportWinsize's select (label `giveUp`)"
  | ("ansi/parser.go", "anywhere", "AfterFunc") => some "the escape timer: C08's model (callback under Parser.mu, generation check); stopped by Parser.run on exit"
  | ("widgets/spinner/spinner.go", "Model.start", "NewTicker") => some "the spinner's ticker: drives its poster loop; stopped on ctx.Done()"
  | _ => none

end VaxisModel.Model.ConcInventory
