/-
C10 — which shared variable is protected by what (round 4).

Data-race freedom is a property of the Go memory model and outside any Lean theorem; what CAN be stated
and re-checked against the source on every run is the locking discipline: for every field of the
structs shared between goroutines (Vaxis, writer, ansi.Parser, spinner.Model) the extractor lists
every access (function, read / write / atomic, mutexes held there — including those held at every
call site of the function) and which goroutines can run each function (`Gen.Conc.fieldAccesses`,
`funcRoles`).  This file classifies the fields from those lists; `Props/C10Protect` pins the result.

A field is *shared* when two accesses can run on different goroutines (different roles, or both on
the any-goroutine API) and one of them writes; accesses by start-up code (role `init`: `New` and what
only `New` calls — before the application has the object) do not count.  A shared field is
*protected* when all its accesses are atomic, or one mutex is held at all of them.
-/
import VaxisModel.Gen.Conc

namespace VaxisModel.Model.ConcProtect

abbrev Access := String × String × String × String       -- field, function, kind, mutexes joined by +

def splitPlusAux : List Char → List Char → List String
  | [], cur => [String.ofList cur.reverse]
  | c :: r, cur => if c = '+' then String.ofList cur.reverse :: splitPlusAux r [] else splitPlusAux r (c :: cur)

/-- `"a+b"` ↦ `["a", "b"]`, `""` ↦ `[]` (structural, so that the kernel can evaluate it). -/
def splitPlus (s : String) : List String := if s = "" then [] else splitPlusAux s.toList []

def rolesOf (roles : List (String × List String)) (fn : String) : List String :=
  match roles.find? (·.1 == fn) with
  | some (_, rs) => rs
  | none => ["unknown"]

/-- One access on one goroutine role: (role, kind, mutexes). -/
abbrev RAccess := String × String × List String

def expand (roles : List (String × List String)) (accs : List Access) (field : String) : List RAccess :=
  (accs.filter (·.1 == field)).flatMap fun a =>
    ((rolesOf roles a.2.1).filter (· != "init")).map fun r => (r, a.2.2.1, splitPlus a.2.2.2)

def isWrite (k : String) : Bool := k == "w" || k == "a"

/-- Two accesses that can run concurrently, one of them a write. -/
def conflict (a b : RAccess) : Bool :=
  (a.1 != b.1 || a.1 == "any") && (isWrite a.2.1 || isWrite b.2.1)

def shared (l : List RAccess) : Bool := l.any fun a => l.any fun b => conflict a b

def dedup : List String → List String
  | [] => []
  | a :: r => if (dedup r).contains a then dedup r else a :: dedup r

def fieldsOf (accs : List Access) : List String := dedup (accs.map (·.1))

inductive Protection where
  | atomic
  | lock (m : String)
  | none
  deriving DecidableEq, Repr

def commonLocks : List RAccess → List String
  | [] => []
  | a :: rest => rest.foldl (fun acc b => acc.filter (b.2.2.contains ·)) a.2.2

def protectionOf (l : List RAccess) : Protection :=
  if l.all (·.2.1 == "a") then .atomic
  else if l.any (·.2.1 == "a") then .none            -- mixed atomic / plain accesses
  else match commonLocks l with
    | m :: _ => .lock m
    | [] => .none

/-- (field, protection) for every shared field. -/
def classify (roles : List (String × List String)) (accs : List Access) : List (String × Protection) :=
  (fieldsOf accs).filterMap fun f =>
    let l := expand roles accs f
    if shared l then some (f, protectionOf l) else none

def protectedFields (roles : List (String × List String)) (accs : List Access) : List (String × Protection) :=
  (classify roles accs).filter (·.2 != .none)

def unprotectedFields (roles : List (String × List String)) (accs : List Access) : List String :=
  ((classify roles accs).filter (·.2 == .none)).map (·.1)

/-- A pair of accesses of `field` on two different goroutine roles, one writing, with no mutex in common
    and not both atomic (the shape of a data race). -/
def racyPair (roles : List (String × List String)) (accs : List Access) (field r1 r2 : String) : Bool :=
  let l := expand roles accs field
  l.any fun a => l.any fun b =>
    a.1 == r1 && b.1 == r2 && (a.2.1 == "w" || b.2.1 == "w") && !(a.2.1 == "a" && b.2.1 == "a") &&
    !(a.2.2.any (b.2.2.contains ·))

end VaxisModel.Model.ConcProtect
