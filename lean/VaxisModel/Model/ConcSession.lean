import VaxisModel.Model.Conc

/-!
# C10 — sessions on the shutdown LTS (executable; used by the driver and by `decide`d examples)

* configuration of the LTS from the source facts (`Gen/Conc.lean`): statement order of `Suspend`,
  whether `Resume` clears `vx.suspended`;
* a deterministic scheduler: run the first enabled label of a priority list until nothing is
  enabled (fuel = the variant of `Lemmas/ConcMeasure`, passed in by the caller);
* a session = the main goroutine's calls `S`uspend, `R`esume, `C`lose in order, each run to rest.
-/
namespace VaxisModel.Model.Conc

def indexOfStr (x : String) : List String → Nat
  | [] => 0
  | y :: r => if x == y then 0 else indexOfStr x r + 1

/-- `Suspend` writes the DA1 query before it signals the parser to close. -/
def da1FirstOf (skeleton : List String) : Bool :=
  indexOfStr "io.WriteString" skeleton < indexOfStr "vx.parser.Close" skeleton

/-- `Resume` clears `vx.suspended` (after `openTty`). -/
def resumeClearsOf (skeleton : List String) : Bool := skeleton.contains "set:vx.suspended=false"

/-- `Close` tests and sets `vx.closed` atomically (under `closeMu`). -/
def closeGuardedOf (skeleton : List String) : Bool :=
  skeleton.take 5 == ["vx.closeMu.Lock", "if:vx.closed", "vx.closeMu.Unlock", "set:vx.closed=true", "vx.closeMu.Unlock"]

/-- Scheduling policies (who moves first when several labels are enabled). -/
inductive Policy
  /-- the terminal answers at once and the library's goroutines run ahead of the caller: the caller's
  write of the DA1 query "returns" only when its reply has been consumed and the reader blocks again
  (slow tty / descheduled caller) -/
  | libFirst
  /-- the caller runs ahead; the terminal's reply comes last -/
  | callerFirst
  deriving DecidableEq, Repr

def prio (p : Policy) (s : SSys) : List SLabel :=
  let callers := (List.range s.callers.length).map SLabel.caller
  match p with
  | .libFirst => [.termReply, .parser, .inputRecv, .inputStep, .consume] ++ callers
  | .callerFirst => callers ++ [.parser, .inputRecv, .inputStep, .consume, .termReply]

def firstEnabled (s : SSys) : List SLabel → Option SSys
  | [] => none
  | l :: r => match snext s l with
    | some s' => some s'
    | none => firstEnabled s r

/-- Run scheduler labels until nothing is enabled (or the fuel is used up). -/
def runToRest (p : Policy) : Nat → SSys → SSys
  | 0, s => s
  | fuel + 1, s => match firstEnabled s (prio p s) with
    | some s' => runToRest p fuel s'
    | none => s

def allReturned (s : SSys) : Bool := s.callers.all (·.pc == .returned)
def goroutinesDone (s : SSys) : Bool := s.ppc == .done && s.ipc == .done

/-- One call of the main goroutine, run to rest: `(state, observation)`; the observation is
`ret`/`hang` (did the call return) and `done`/`alive` (are the parser and input goroutines done). -/
def sessionOp (p : Policy) (fuel : Nat) (s : SSys) (op : Char) : Option (SSys × String) :=
  let l : SLabel := if op == 'S' then .callSuspend else if op == 'C' then .callClose else .resume
  match snext s l with
  | none => none
  | some s1 =>
    let s2 := runToRest p fuel s1
    if op == 'R' then some (s2, "R") else
    some (s2, String.singleton op ++ ":" ++ (if allReturned s2 then "ret" else "hang") ++ "," ++
      (if goroutinesDone s2 then "done" else "alive"))

/-- A whole session; stops at the first call that does not return or that the model cannot
represent (a `Resume` while goroutines of the previous session are alive). -/
def session (p : Policy) (fuel : Nat) : SSys → List Char → List String
  | _, [] => []
  | s, op :: rest =>
    match sessionOp p fuel s op with
    | none => ["unmodelled"]
    | some (s', o) => if allReturned s' then o :: session p fuel s' rest else [o]

end VaxisModel.Model.Conc
