import VaxisModel.Model.Conc

/-!
# C10 — sessions on the shutdown LTS (executable; used by the driver and by `decide`d examples)

* configuration of the LTS from the source facts (`Gen/Conc.lean`): statement order of `Suspend`,
  whether `Resume` clears `vx.suspended`;
* a deterministic scheduler: run the first enabled label of a priority list until nothing is
  enabled (fuel = the variant of `Lemmas/ConcMeasure`, passed in by the caller);
* a session = the main goroutine's calls `S`uspend, `R`esume, `C`lose in order, each run to rest.
-/
namespace VaxisModel.Model.Conc

def indexOfStr (x : String) : List String → Nat
  | [] => 0
  | y :: r => if x == y then 0 else indexOfStr x r + 1

/-- `Suspend` writes the DA1 query before it signals the parser to close. -/
def da1FirstOf (skeleton : List String) : Bool :=
  indexOfStr "io.WriteString" skeleton < indexOfStr "vx.parser.Close" skeleton

/-- `Resume` clears `vx.suspended` (after `openTty`). -/
def resumeClearsOf (skeleton : List String) : Bool := skeleton.contains "set:vx.suspended=false"

/-- `Close` tests and sets `vx.closed` atomically (under `closeMu`). -/
def closeGuardedOf (skeleton : List String) : Bool :=
  skeleton.take 5 == ["vx.closeMu.Lock", "if:vx.closed", "vx.closeMu.Unlock", "set:vx.closed=true", "vx.closeMu.Unlock"]

/-! ### observers of the repaired shapes (`Gen.Conc.shape_*`, statement skeletons) -/

def infixL (pat : List Char) : List Char → Bool
  | [] => pat.isEmpty
  | c :: r => pat.isPrefixOf (c :: r) || infixL pat r

def hasSub (pat s : String) : Bool := infixL pat.toList s.toList

def isCase (x : String) : Bool := "case ".toList.isPrefixOf x.toList

/-- `Parser.WaitClose` is a loop around a `select` with an arm that receives from `p.closed` and
returns, and an arm that receives from `p.sequences` (what it receives is discarded); no `default`. -/
def waitDrainsOf (l : List String) : Bool :=
  l.take 2 == ["for {", "select {"] &&
  l.any (fun x => isCase x && hasSub "<-p.closed" x) &&
  l.any (fun x => isCase x && hasSub "<-p.sequences" x) &&
  !l.contains "default:" &&
  (match l.dropWhile (fun x => !(isCase x && hasSub "<-p.closed" x)) with
   | _ :: "return" :: _ => true
   | _ => false)

/-- the parser arm of the input goroutine's `select` tests whether the channel is closed and returns if it is -/
def leavesOnClosedOf (l : List String) : Bool :=
  match l.dropWhile (fun x => !(isCase x && hasSub ", ok := <-parser.Next()" x)) with
  | _ :: "if !ok {" :: "return" :: _ => true
  | _ => false

/-- the arms of the input goroutine's `select`, in source order -/
def selectArmsOf (l : List String) : List String := l.filter isCase |>.filter fun x => hasSub "<-" x

/-- `PostEventBlocking` is a `select` without `default` over a send (the queue) and a receive from `vx.chQuit` -/
def postQuitArmOf (l : List String) : Bool :=
  l.contains "select {" && !l.contains "default:" &&
  l.any (fun x => isCase x && hasSub "<-vx.chQuit" x) &&
  l.any (fun x => isCase x && hasSub " <- ev" x)

/-- `PostEvent` is a `select` with `default` over a send -/
def postNonBlockingOf (l : List String) : Bool :=
  l.contains "select {" && l.contains "default:" && l.any (fun x => isCase x && hasSub " <- ev" x)

/-- `Suspend` / `Resume` take `vx.suspendMu` first and release it by a deferred unlock. -/
def suspendLockedOf (skeleton : List String) : Bool :=
  skeleton.take 2 == ["vx.suspendMu.Lock", "defer:vx.suspendMu.Unlock()"]

/-- Scheduling policies (who moves first when several labels are enabled). -/
inductive Policy
  /-- the terminal answers at once and the library's goroutines run ahead of the caller: the caller's
  write of the DA1 query "returns" only when its reply has been consumed and the reader blocks again
  (slow tty / descheduled caller) -/
  | libFirst
  /-- the caller runs ahead; the terminal's reply comes last -/
  | callerFirst
  deriving DecidableEq, Repr

def prio (p : Policy) (s : SSys) : List SLabel :=
  let callers := (List.range s.callers.length).map SLabel.caller
  let drains := (List.range s.callers.length).map SLabel.drain
  let inputs : List SLabel := [.input .recv, .input .step, .input .quit, .input .winch, .input .kill]
  let olds := (List.range s.olds.length).flatMap fun j => [SLabel.old j .recv, .old j .step, .old j .quit, .old j .winch, .old j .kill]
  match p with
  | .libFirst => [.termReply, .parser] ++ inputs ++ olds ++ [.consume] ++ callers ++ drains
  | .callerFirst => callers ++ [.parser] ++ inputs ++ olds ++ [.consume, .termReply] ++ drains

def firstEnabled (s : SSys) : List SLabel → Option SSys
  | [] => none
  | l :: r => match snext s l with
    | some s' => some s'
    | none => firstEnabled s r

/-- Run scheduler labels until nothing is enabled (or the fuel is used up). -/
def runToRest (p : Policy) : Nat → SSys → SSys
  | 0, s => s
  | fuel + 1, s => match firstEnabled s (prio p s) with
    | some s' => runToRest p fuel s'
    | none => s

def allReturned (s : SSys) : Bool := s.callers.all (·.pc == .returned)
def goroutinesDone (s : SSys) : Bool := s.ppc == .done && s.ipc == .done && s.olds.all (·.ipc == .done)

/-- One call of the main goroutine, run to rest: `(state, observation)`; the observation is
`ret`/`hang` (did the call return) and `done`/`alive` (are the parser and input goroutines done). -/
def sessionOp (p : Policy) (fuel : Nat) (s : SSys) (op : Char) : Option (SSys × String) :=
  let l : SLabel := if op == 'S' then .callSuspend else if op == 'C' then .callClose else .resume
  match snext s l with
  | none => none
  | some s1 =>
    let s2 := runToRest p fuel s1
    if op == 'R' then some (s2, "R") else
    some (s2, String.singleton op ++ ":" ++ (if allReturned s2 then "ret" else "hang") ++ "," ++
      (if goroutinesDone s2 then "done" else "alive"))

/-- A whole session; stops at the first call that does not return or that is not enabled (a `Resume`
while the parser of the previous session has not stopped, i.e. before `Suspend` returned). -/
def session (p : Policy) (fuel : Nat) : SSys → List Char → List String
  | _, [] => []
  | s, op :: rest =>
    match sessionOp p fuel s op with
    | none => ["unmodelled"]
    | some (s', o) => if allReturned s' then o :: session p fuel s' rest else [o]


/-! ## label-by-label replay of a trace of yield points (harness op `forced`)

The harness records the order in which the goroutines of the real code pass the yield points
(`verifC10` in /repo) plus what it did itself (`E:input`, `E:signal`, `E:settle`).  Each item is a
label of the LTS; it must be enabled — possibly after labels that have no yield point (parser steps,
the terminal's reply, the application receiving) — and lead to the program counter the yield point
stands for. -/

/-- `obs`: the trace carries the parser's own yield points for the tail of `run` (`P:parser.tail`,
`P:parser.eof`, `P:parser.closed`: C08's `verifSched` points 20 / 25 / 29, round 4) — those three steps of
the parser are then labels of the replay and no longer hidden. -/
def parserInTail (s : SSys) : Bool :=
  s.ppc == .emitEOF || s.ppc == .signalClosed || (s.ppc == .top && s.closeSig > 0)

def hiddenLabels (obs : Bool) (s : SSys) : List SLabel :=
  (if obs && parserInTail s then [] else [.parser]) ++ [.termReply] ++ (if s.consumer then [.consume] else [])

/-- take `l`, if necessary after hidden labels -/
def stepWeak (obs : Bool) : Nat → SSys → SLabel → Option SSys
  | 0, s, l => snext s l
  | fuel + 1, s, l =>
    match snext s l with
    | some s' => some s'
    | none => match firstEnabled s (hiddenLabels obs s) with
      | some s1 => stepWeak obs fuel s1 l
      | none => none

def runHidden (obs : Bool) : Nat → SSys → SSys
  | 0, s => s
  | fuel + 1, s => match firstEnabled s (hiddenLabels obs s) with
    | some s' => runHidden obs fuel s'
    | none => s

structure Replay where
  s : SSys
  /-- role name of a `Close` caller ↦ its index in `callers` -/
  roles : List (String × Nat) := []

def pcName : CPc → String
  | .checkFlag => "checkFlag" | .postQuit => "postQuit" | .checkSuspended => "checkSuspended" | .signalClose => "signalClose"
  | .writeDA1 => "writeDA1" | .waitClosed => "waitClosed" | .closeQuit => "closeQuit" | .returned => "returned"

/-- the program counter a yield point of `Close`/`Suspend` stands for (`none`: no step) -/
def pointPc (s : SSys) : String → Option (Option CPc)
  | "close.won" => some (some .postQuit)
  | "close.already" => some (some .returned)
  | "post.sent" => some (some .checkSuspended)
  | "post.dropped" => some (some .checkSuspended)
  | "close.posted" => some none
  | "suspend.already" => some (some .closeQuit)
  | "parser.closeSent" => some (some (afterSignal s))
  | "suspend.da1" => some (some (afterDA1 s))
  | "parser.closedTaken" => some (some .closeQuit)
  | "close.quit" => some (some .returned)
  | _ => none

def fuelW : Nat := 80

/-- step caller `j` until it is at `target`; a yield point may stand for more than one step (the
guard of `Suspend` has no point of its own) -/
def stepUntil (obs : Bool) (target : CPc) (j : Nat) : Nat → SSys → Except String SSys
  | 0, _ => .error "does not reach the program counter of the yield point"
  | n + 1, s =>
    match stepWeak obs fuelW s (.caller j) with
    | none => .error "blocked in the model"
    | some s' =>
      let got : Option CPc := s'.callers[j]?.map (·.pc)
      if got == some target then .ok s'
      else if got == some .returned || got == none then .error s!"the model is at {(got.map pcName).getD "?"}"
      else stepUntil obs target j n s'

/-- One of the parser's observed steps: take `.parser` steps (the reader may first need the terminal's
reply) until the parser is at `target`; the steps before the tail stay hidden, the tail is exact. -/
def parserTo (target : PPc) : Nat → SSys → Except String SSys
  | 0, _ => .error "the model's parser does not get there"
  | n + 1, s =>
    if s.ppc == target then .ok s
    else if s.ppc == .done then .error "the model's parser is already done"
    else match snext s .parser with
      | some s' => if s'.ppc == target then .ok s' else
          (if parserInTail s then .error "the model's parser is past that point" else parserTo target n s')
      | none => match snext s .termReply with
        | some s' => parserTo target n s'
        | none => .error "the model's parser is blocked"

def replayItem (obs : Bool) (r : Replay) (item : String) : Except String Replay :=
  match item.splitOn ":" with
  | ["P", "parser.tail"] => (match parserTo .emitEOF fuelW r.s with | .ok s' => .ok { r with s := s' } | .error e => .error s!"parser.tail: {e}")
  | ["P", "parser.eof"] => (match parserTo .signalClosed fuelW r.s with | .ok s' => .ok { r with s := s' } | .error e => .error s!"parser.eof: {e}")
  | ["P", "parser.closed"] => (match parserTo .done fuelW r.s with | .ok s' => .ok { r with s := s' } | .error e => .error s!"parser.closed: {e}")
  | ["E", "input"] => match snext r.s (.termInput (some 1)) with
    | some s' => .ok { r with s := s' }
    | none => .error "input"
  | ["E", "signal"] => match snext r.s .signal with
    | some s' => .ok { r with s := s' }
    | none => .error "a second signal while one is pending"
  | ["E", "settle"] => .ok { r with s := runHidden obs 400 r.s }
  | ["I", "input.seq"] => match stepWeak obs fuelW r.s (.input .recv) with
    | some s' => (match s'.ipc with | .posting _ => .ok { r with s := s' } | _ => .error "input.seq: the model's input goroutine received EOF or found the channel closed")
    | none => .error "input.seq: no sequence can be in the channel"
  | ["I", "input.eof"] =>
    -- EOF itself must be what the goroutine receives: make the parser deliver it first
    let s1 := if r.s.seqs.isEmpty then runHidden obs fuelW r.s else r.s
    (match s1.ipc, s1.seqs with
     | .select, .eof :: _ => (match snext s1 (.input .recv) with
        | some s' => .ok { r with s := s' }
        | none => .error "input.eof")
     | _, _ => .error "input.eof: EOF is not at the head of the channel")
  | ["I", "input.closed"] =>
    let s1 := if r.s.seqs.isEmpty && !r.s.seqsClosed then runHidden obs fuelW r.s else r.s
    (match s1.ipc, s1.seqs, s1.seqsClosed with
     | .select, [], true => (match snext s1 (.input .recv) with
        | some s' => .ok { r with s := s' }
        | none => .error "input.closed")
     | _, _, _ => .error "input.closed: the channel is not empty and closed in the model")
  | ["I", "postb.sent"] => match r.s.ipc with
    | .posting (_ + 1) => (match stepWeak obs fuelW r.s (.input .step) with
      | some s' => .ok { r with s := s' }
      | none => .error "postb.sent: the queue is full and nobody receives")
    | _ => .error "postb.sent: the model's input goroutine has no post to do"
  | ["I", "postb.quit"] => match r.s.ipc with
    | .posting (_ + 1) => (match snext r.s (.input .quit) with
      | some s' => .ok { r with s := s' }
      | none => .error "postb.quit: chQuit is not closed in the model")
    | _ => .error "postb.quit: the model's input goroutine has no post to do"
  | ["I", "input.handled"] => match r.s.ipc with
    | .posting 0 => (match snext r.s (.input .step) with
      | some s' => .ok { r with s := s' }
      | none => .error "input.handled")
    | _ => .error "input.handled: the model's input goroutine still has posts to do"
  | [role, "close.enter"] =>
    if role == "I" then
      match stepWeak obs fuelW r.s (.input .kill) with
      | some s' => .ok { s := s', roles := (role, r.s.callers.length) :: r.roles }
      | none => .error "close.enter on the input goroutine: its select cannot take the signal arm"
    else match snext r.s .callClose with
      | some s' => .ok { s := s', roles := (role, r.s.callers.length) :: r.roles }
      | none => .error "callClose"
  | [role, "parser.drained"] =>
    (match r.roles.lookup role with
     | none => .error s!"{item}: unknown role"
     | some j =>
       -- the caller is inside WaitClose (steps without a yield point of their own first)
       let s1 : Except String SSys := match r.s.callers[j]?.map (·.pc) with
         | some CPc.waitClosed => .ok r.s
         | _ => stepUntil obs .waitClosed j 3 r.s
       match s1 with
       | .error e => .error s!"{item}: {e}"
       | .ok s1 => match stepWeak obs fuelW s1 (.drain j) with
         | some s' => .ok { r with s := s' }
         | none => .error "parser.drained: nothing can be in the channel")
  | [role, point] =>
    match pointPc r.s point with
    | none => .error s!"unknown yield point {point}"
    | some none => .ok r
    | some (some expect) =>
      match r.roles.lookup role with
      | none => .error s!"{item}: unknown role"
      | some j =>
        if !r.s.consumer && point == "post.sent" && !(r.s.queueLen < r.s.qcap) then .error "post.sent with a full queue"
        else if !r.s.consumer && point == "post.dropped" && r.s.queueLen < r.s.qcap then .error "post.dropped although the queue has room"
        else match stepUntil obs expect j 3 r.s with
          | .ok s' => .ok { r with s := s' }
          | .error e => .error s!"{item}: {e}"
  | _ => .error s!"malformed trace item {item}"

def roleOf (item : String) : String := (item.splitOn ":").headD ""

/-- The next item to replay: the first of the next `window` items that replays and whose goroutine has
no earlier item among those skipped.  A yield point is recorded AFTER the operation it stands for and
not atomically with it, so the recorded order is exact per goroutine (program order) but only
approximate across goroutines (seen under load: a `parser.drained` recorded after the `input.closed`
that the drained EOF made possible; `input.eof` recorded before the `suspend.da1` whose reply woke the
reader): the trace is accepted if some interleaving that respects every goroutine's own order is a
run of the LTS. -/
def pickNext (obs : Bool) (r : Replay) : Nat → List String → List String → Except String (Replay × List String)
  | _, _, [] => .error "empty"
  | 0, _, x :: _ => .error s!"no interleaving replays near {x}"
  | w + 1, skipped, x :: rest =>
    if skipped.any (fun y => roleOf y == roleOf x) then pickNext obs r w (skipped ++ [x]) rest
    else match replayItem obs r x with
      | .ok r' => .ok (r', skipped ++ rest)
      | .error e =>
        match pickNext obs r w (skipped ++ [x]) rest with
        | .ok res => .ok res
        | .error _ => .error e

/-- Replay with one of two strategies for the labels that have no yield point (parser steps, the
terminal's reply, the application's receives): `eager = false` takes them only when the next item
needs them, `eager = true` lets them run as far as they can after every item. -/
def replayTraceWith (obs eager : Bool) : Nat → Replay → List String → Except String Replay
  | _, r, [] => .ok r
  | 0, _, _ => .error "trace too long"
  | n + 1, r, items => match pickNext obs r 6 [] items with
    | .ok (r', rest) => replayTraceWith obs eager n (if eager then { r' with s := runHidden obs fuelW r'.s } else r') rest
    | .error e => .error e

/-- The trace is accepted if one of the two strategies replays it (weak trace inclusion, searched
over two schedules of the hidden labels). -/
def replayTraceObs (obs : Bool) (r : Replay) (items : List String) : Except String Replay :=
  match replayTraceWith obs false (items.length + 1) r items with
  | .ok r' => .ok r'
  | .error e => match replayTraceWith obs true (items.length + 1) r items with
    | .ok r' => .ok r'
    | .error e2 => .error (e ++ " / eager: " ++ e2)

def isParserItem (x : String) : Bool := roleOf x == "P"

/-- With the parser's own yield points in the trace (round 4) the tail of `run` is replayed label by
label.  These points are recorded by another goroutine than the ones they are ordered against, so a trace
that does not replay with them (cross-goroutine order flipped beyond the window) is replayed once more
without them — the parser's steps hidden, as before round 4; it is rejected only if that fails too. -/
def replayTrace (r : Replay) (items : List String) : Except String Replay :=
  if items.any isParserItem then
    match replayTraceObs true r items with
    | .ok r' => .ok r'
    | .error _ => replayTraceObs false r (items.filter (fun x => !isParserItem x))
  else replayTraceObs false r items

end VaxisModel.Model.Conc
