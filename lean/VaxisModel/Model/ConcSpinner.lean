import VaxisModel.Model.Conc

/-!
# C10 — the spinner's loop as a component (widgets/spinner/spinner.go)

`Model.start` (run on the main goroutine through `SyncFunc`) creates a context and a ticker and
starts a goroutine `for { select { case <-ctx.Done(): ticker.Stop(); return; case <-ticker.C:
m.mu.Lock(); frame++; vx.PostEvent(Redraw{}); m.mu.Unlock() } }`; `Model.stop` cancels the context
and clears `spinning`.  A `start` after a `stop` may find the previous goroutine still alive (it has
not looked at `ctx.Done()` yet): it then runs beside the new one until it does.

The component shares the event queue (`QSys`) with the other posters: a tick of a spinner goroutine
is the label `post g false` of the queue LTS.
-/
namespace VaxisModel.Model.Conc

structure SpSys where
  q : QSys := {}
  /-- `m.spinning` (read and written on the main goroutine only) -/
  spinning : Bool := false
  /-- goroutines whose context is not cancelled -/
  live : Nat := 0
  /-- goroutines whose context is cancelled and that have not returned yet -/
  dying : Nat := 0
  /-- `ticker.C` of the live goroutine holds a tick (capacity 1) -/
  tick : Bool := false
  /-- ticks still in the channels of the dying goroutines' (stopped or not yet stopped) tickers -/
  dyingTicks : Nat := 0
  frame : Nat := 0
  frames : Nat := 4

inductive SpLabel
  /-- `start()` on the main goroutine -/
  | start
  /-- `stop()` on the main goroutine -/
  | stop
  /-- the live goroutine's ticker fires -/
  | fire
  /-- the live goroutine takes the tick: `frame = (frame + 1) % len(Frames)`, `PostEvent(Redraw{})` -/
  | liveTick
  /-- a dying goroutine's `select` takes a tick that was still in its ticker's channel -/
  | dyingTick
  /-- a dying goroutine's `select` takes `ctx.Done()`: `ticker.Stop(); return` -/
  | dyingExit
  /-- some other goroutine posts / the application receives -/
  | other (l : QLabel)
  deriving DecidableEq, Repr

/-- the poster number of the spinner goroutines in the queue LTS -/
def spinnerG : Nat := 1000000

def spnext (qcap : Nat) (s : SpSys) : SpLabel → Option SpSys
  | .start =>
      if s.spinning then some s                       -- `if m.spinning { return }`
      else some { s with spinning := true, live := s.live + 1, tick := false }
  | .stop =>
      -- `m.cancel()` (if any), `m.spinning = false`: the live goroutine becomes a dying one, a tick in
      -- its channel stays there
      some { s with spinning := false, dying := s.dying + s.live, live := 0,
                    dyingTicks := s.dyingTicks + (if s.tick && s.live > 0 then 1 else 0), tick := false }
  | .fire => if s.live > 0 && !s.tick then some { s with tick := true } else none
  | .liveTick =>
      if s.live > 0 && s.tick then
        match qnext qcap s.q (.post spinnerG false) with       -- PostEvent: never blocks
        | some q' => some { s with q := q', tick := false, frame := (s.frame + 1) % s.frames }
        | none => none
      else none
  | .dyingTick =>
      if s.dying > 0 && s.dyingTicks > 0 then
        match qnext qcap s.q (.post spinnerG false) with
        | some q' => some { s with q := q', dyingTicks := s.dyingTicks - 1, frame := (s.frame + 1) % s.frames }
        | none => none
      else none
  -- (a tick left in the channel of the goroutine that exits stays counted in `dyingTicks`: an
  -- over-approximation — the remaining dying goroutines may tick once more than they really can)
  | .dyingExit => if s.dying > 0 then some { s with dying := s.dying - 1 } else none
  | .other l =>
      match l with
      | .post g b => if g = spinnerG then none else
          match qnext qcap s.q (.post g b) with
          | some q' => some { s with q := q' }
          | none => none
      | l =>
          match qnext qcap s.q l with
          | some q' => some { s with q := q' }
          | none => none

inductive SpReachable (qcap : Nat) : SpSys → Prop
  | init : SpReachable qcap {}
  | step {s s' : SpSys} (l : SpLabel) : SpReachable qcap s → spnext qcap s l = some s' → SpReachable qcap s'

/-- labels of the spinner's own goroutines -/
def SpLabel.own : SpLabel → Bool
  | .liveTick | .dyingTick | .dyingExit => true
  | _ => false

end VaxisModel.Model.Conc
