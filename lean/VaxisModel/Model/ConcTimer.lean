/-
C10 — the escape timer as a component of the shutdown LTS (round 4).

`ansi/parser.go`: when the parser reads ESC, `anywhere` arms `time.AfterFunc(10 ms, callback)` with the
current generation `escGen`.  The callback runs on its own goroutine: `p.mu.Lock()`; if `escGen` has
moved (a rune has been processed since, or `run`'s tail has bumped it) it returns; otherwise it emits
the lone ESC as a sequence — `p.emit(C0(0x1B))`, a send on `p.sequences` WHILE HOLDING `p.mu` — and
unlocks.  The parser takes `p.mu` for every rune it processes (it keeps it while it emits the
sequences of that rune) and once more in `run`'s tail before `emit(EOF)`, `close(p.sequences)`.

`TSys` = the shutdown LTS `SSys` of `Model/Conc.lean` × one timer slot.  `stale` says whether `escGen`
has been bumped since the timer was armed.  While the callback holds `p.mu` (`emitting`) the parser's
steps that need the mutex are disabled; while the parser holds it (`PPc.emitting`) the callback cannot
start.  The terminal may send any number of lone ESCs (`escs`, environment label `termEsc`).
-/
import VaxisModel.Model.Conc

namespace VaxisModel.Model.ConcTimer
open VaxisModel.Model.Conc

inductive TPc
  | idle
  /-- `time.AfterFunc` is pending (or its callback is waiting for `p.mu`) -/
  | armed
  /-- the callback holds `p.mu`, has seen its generation, and is at `p.emit(C0(0x1B))` -/
  | emitting
  deriving DecidableEq, Repr

structure TSys where
  s : SSys
  timer : TPc := .idle
  stale : Bool := false
  escs : Nat := 0
  deriving DecidableEq, Repr

inductive TLabel
  | sys (l : SLabel)
  /-- the terminal sends a lone ESC (environment) -/
  | termEsc
  /-- the parser has read that ESC: the timer is armed with the current generation -/
  | arm
  /-- the callback gets `p.mu`: stale → it returns; else it is about to emit -/
  | fire
  /-- `p.emit(C0(0x1B)); p.state = ground; unlock` -/
  | temit
  deriving DecidableEq, Repr

/-- the parser is inside a critical section of `p.mu` (it emits the sequences of a rune under the lock) -/
def holdsMu : PPc → Bool
  | .emitting _ => true
  | _ => false

/-- the parser's next step takes `p.mu` (and bumps `escGen`): processing a rune, or `run`'s tail -/
def needsMu (s : SSys) : Bool :=
  match s.ppc with
  | .reading => true
  | .top => decide (s.closeSig > 0)
  | _ => false

/-- before `run`'s tail: the loop is still running -/
def preTail : PPc → Bool
  | .top | .reading | .emitting _ => true
  | _ => false

def tnext (t : TSys) : TLabel → Option TSys
  | .sys .parser =>
      if t.timer == .emitting && needsMu t.s then none
      else (snext t.s .parser).map fun s' => { t with s := s', stale := t.stale || needsMu t.s }
  | .sys l => (snext t.s l).map fun s' => { t with s := s' }
  | .termEsc => some { t with escs := t.escs + 1 }
  | .arm =>
      if t.timer == .idle && decide (t.escs > 0) && (t.s.ppc == .top || t.s.ppc == .reading)
      then some { t with timer := .armed, stale := false, escs := t.escs - 1 } else none
  | .fire =>
      if t.timer == .armed && !holdsMu t.s.ppc
      then some (if t.stale then { t with timer := .idle } else { t with timer := .emitting }) else none
  | .temit =>
      if t.timer == .emitting && decide (t.s.seqs.length < 2)
      then some { t with timer := .idle, s := { t.s with seqs := t.s.seqs ++ [.seq 1] } } else none

def TLabel.sched : TLabel → Bool
  | .sys l => l.sched
  | .termEsc => false
  | _ => true

def trun : TSys → List TLabel → Option TSys
  | t, [] => some t
  | t, l :: ls => match tnext t l with
    | some t' => trun t' ls
    | none => none

/-- Nothing a scheduler may pick is enabled. -/
def TSys.quiescent (t : TSys) : Bool :=
  (t.s.schedLabels.all fun l => (tnext t (.sys l)).isNone) &&
  (tnext t .arm).isNone && (tnext t .fire).isNone && (tnext t .temit).isNone

end VaxisModel.Model.ConcTimer
