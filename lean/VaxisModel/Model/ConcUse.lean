import VaxisModel.Model.Conc

/-!
# C10 — one LTS for concurrent use: posters, queries, the input goroutine, the application

`USys` puts all the actors of the property statement into one transition system:

* any number of goroutines posting events — `PostEvent`, `SyncFunc`, `Resize` (non-blocking, may be
  dropped when the queue is full) and `PostEventBlocking` (labels `post g b`, `g ≥ 1`);
* the input goroutine (poster `0`): it handles one sequence at a time; a sequence that is a reply to
  a query is first handed to the requester over that query's hand-off channel (label `deliver`), then
  the events of the sequence are posted with `PostEventBlocking` one by one (label `inputPost`);
* goroutines issuing terminal queries (`CursorPosition`, `ClipboardPop`, `QueryColor`,
  `QueryForeground`, `QueryBackground`, the size request of `reportWinsize`): `request` (write the
  query, start waiting), `recv` (take the reply), `giveUp` (time-out / cancelled context, for the
  queries that have one);
* the application receiving events (`consume`).

The hand-off channels have their real capacities (`HCh.cap`, pinned to `Gen.Conc.chanMakes`); every
hand-off send of the input goroutine is non-blocking or bounded (pinned to `Gen.Conc.handoffSends`), so
`deliver` never waits for a requester: replies may come early, late or never.
-/
namespace VaxisModel.Model.Conc

inductive HCh
  | cursorPos | clipboard | sizeDone | color | fg | bg
  deriving DecidableEq, Repr

/-- capacities of `chCursorPos`, `chClipboard`, `chSizeDone`, `chColor`, `chFg`, `chBg` -/
def HCh.cap : HCh → Nat
  | .clipboard => 0
  | _ => 1

/-- the requester has a time-out or a context (`CursorPosition`, `ClipboardPop`, `reportWinsize`);
the colour queries wait with a bare receive -/
def HCh.canGiveUp : HCh → Bool
  | .cursorPos | .clipboard | .sizeDone => true
  | _ => false

structure USys where
  q : QSys := {}
  /-- tokens in each hand-off channel -/
  occ : HCh → Nat := fun _ => 0
  /-- requesters blocked receiving from each hand-off channel (any number) -/
  waiting : HCh → Nat := fun _ => 0
  /-- blocking posts the input goroutine still has to do for the sequence it is handling -/
  pending : Nat := 0
  /-- replies that found neither a waiting requester nor room in the channel -/
  droppedReplies : Nat := 0

inductive ULabel
  | post (g : Nat) (blocking : Bool)
  | consume
  /-- the input goroutine takes the next sequence: not a reply (`none`) or the reply to a query on
  channel `c`; handling it posts `k` events -/
  | deliver (c : Option HCh) (k : Nat)
  | inputPost
  | request (c : HCh)
  | recv (c : HCh)
  | giveUp (c : HCh)
  /-- a requester, before it writes its query, takes a reply nobody asked for out of the channel and
  drops it (`select { case <-ch: default: }` in `QueryColor` / `QueryForeground` / `QueryBackground`
  and `CursorPosition`): never waits -/
  | dropStale (c : HCh)
  deriving DecidableEq, Repr

def upd (f : HCh → Nat) (c : HCh) (v : Nat) : HCh → Nat := fun c' => if c' = c then v else f c'

def unext (qcap : Nat) (s : USys) : ULabel → Option USys
  | .post g b =>
      if g = 0 then none else       -- poster 0 is the input goroutine
      match qnext qcap s.q (.post g b) with
      | some q' => some { s with q := q' }
      | none => none
  | .consume =>
      match qnext qcap s.q .consume with
      | some q' => some { s with q := q' }
      | none => none
  | .deliver c k =>
      if s.pending ≠ 0 then none else
      match c with
      | none => some { s with pending := k }
      | some c =>
        -- `select { case ch <- v: default: }` (or bounded by a 10 ms context on the unbuffered
        -- clipboard channel): never waits for a requester
        if c.cap = 0 then
          if s.waiting c > 0 then some { s with waiting := upd s.waiting c (s.waiting c - 1), pending := k }   -- handed over directly
          else some { s with droppedReplies := s.droppedReplies + 1, pending := k }
        else if s.occ c < c.cap then some { s with occ := upd s.occ c (s.occ c + 1), pending := k }
        else some { s with droppedReplies := s.droppedReplies + 1, pending := k }
  | .inputPost =>
      if s.pending = 0 then none else
      match qnext qcap s.q (.post 0 true) with
      | some q' => some { s with q := q', pending := s.pending - 1 }
      | none => none
  | .request c => some { s with waiting := upd s.waiting c (s.waiting c + 1) }
  | .recv c =>
      if s.occ c > 0 ∧ s.waiting c > 0 then
        some { s with occ := upd s.occ c (s.occ c - 1), waiting := upd s.waiting c (s.waiting c - 1) }
      else none
  | .giveUp c =>
      if c.canGiveUp ∧ s.waiting c > 0 then some { s with waiting := upd s.waiting c (s.waiting c - 1) } else none
  | .dropStale c => some { s with occ := upd s.occ c (s.occ c - 1) }

inductive UReachable (qcap : Nat) : USys → Prop
  | init : UReachable qcap {}
  | step {s s' : USys} (l : ULabel) : UReachable qcap s → unext qcap s l = some s' → UReachable qcap s'

end VaxisModel.Model.Conc
