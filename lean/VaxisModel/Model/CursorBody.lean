import VaxisModel.Model.GoBody
import VaxisModel.Model.Input
import VaxisModel.Gen.InputBody

/-!
# Interpreter for the regenerated body of `CursorPosition` (vaxis.go)

`Gen.InputBody.cp`; the extractor rewrites `select { case <-CH: default: }` into `tryRecv(CH)` and the
final `select { case <-timeout.C: … case pos := <-vx.chCursorPos: … }` into
`if selectRecv(timeout.C, vx.chCursorPos) { … } else { pos := recv(vx.chCursorPos); … }`.
The requester is run as a function of what the environment decides — whether the timer fires first
(`fired`) and, if not, the pair received — to the trace of its operations on the request flag, the
reply channel and the terminal, and the pair it returns.  Go `int` subtraction wraps at 64 bits
(`wrap64`); an index out of range is a run-time panic.  Core Lean only.
-/
namespace VaxisModel.Model.CursorBody
open VaxisModel.Model.GoBody VaxisModel.Model.Input

inductive CFx
  | tryRecv (ch : String)
  | store (field : String) (v : Bool)
  | write (what : String)
  | timer (ms : Int)
  | timerFired
  | recv (ch : String)
  deriving DecidableEq, Repr

inductive CV
  | int (n : Int)
  | bool (b : Bool)
  | ints (l : List Int)
  | ref (x : String)
  | name (x : String)     -- a channel / console / sequence constant, by its name
  | dur (ms : Int)
  | timer
  deriving DecidableEq, Repr

structure CIn where
  fired : Bool
  pos : List Int

structure CSt where
  env : List (String × CV) := []
  fx : List CFx := []

inductive CR
  | norm (st : CSt)
  | ret (st : CSt) (a b : Int)
  | fail (why : String)

def names : List String := ["vx.chCursorPos", "vx.console", "dsrcpr", "timeout.C"]

mutual
  def ceval (env : List (String × CV)) : E → Except String CV
    | .int n => .ok (.int n)
    | .tt => .ok (.bool true)
    | .ff => .ok (.bool false)
    | .var x =>
      (match env.lookup x with
       | some v => .ok v
       | none => if x = "time.Millisecond" then .ok (.dur 1) else if names.contains x then .ok (.name x) else .error ("unbound " ++ x))
    | .un op a =>
      (match op with
       | .neg => (match ceval env a with | .ok (.int n) => .ok (.int (-n)) | .ok _ => .error "-" | .error w => .error w)
       | .addr => (match a with | .var x => .ok (.ref x) | _ => .error "&")
       | _ => .error "unary operator")
    | .bin op a b =>
      (match op with
       | .sub =>
         (match ceval env a, ceval env b with
          | .ok (.int x), .ok (.int y) => .ok (.int (wrap64 (x - y)))
          | .error w, _ => .error w
          | _, .error w => .error w
          | _, _ => .error "-")
       | _ => .error "operator")
    | .idx a i =>
      (match ceval env a, ceval env i with
       | .ok (.ints l), .ok (.int k) => if 0 ≤ k then (match l[k.toNat]? with | some x => .ok (.int x) | none => .error "panic") else .error "panic"
       | .error w, _ => .error w
       | _, .error w => .error w
       | _, _ => .error "index")
    | .call fn args =>
      (match cevals env args with
       | .ok l =>
         if fn = "mul" then (match l with | [.int n, .dur d] => .ok (.dur (n * d)) | _ => .error "mul")
         else .error ("call " ++ fn)
       | .error w => .error w)
    | _ => .error "expression"
  def cevals (env : List (String × CV)) : Es → Except String (List CV)
    | .nil => .ok []
    | .cons h t =>
      match ceval env h with
      | .ok v => (match cevals env t with | .ok l => .ok (v :: l) | .error w => .error w)
      | .error w => .error w
end

/-- A call in statement position, or on the right of an assignment whose results are ignored or
bound to one name. -/
def ccall (inp : CIn) (st : CSt) (fn : String) (args : List CV) : Except String (CSt × CV) :=
  if fn = "tryRecv" then (match args with | [.name ch] => .ok ({ st with fx := st.fx ++ [.tryRecv ch] }, .bool false) | _ => .error "tryRecv")
  else if fn = "atomicStore" then (match args with | [.ref x, .bool b] => .ok ({ st with fx := st.fx ++ [.store x b] }, .bool false) | _ => .error "atomicStore")
  else if fn = "io.WriteString" then
    (match args with | [.name "vx.console", .name q] => .ok ({ st with fx := st.fx ++ [.write q] }, .bool false) | _ => .error "WriteString")
  else if fn = "time.NewTimer" then (match args with | [.dur ms] => .ok ({ st with fx := st.fx ++ [.timer ms] }, .timer) | _ => .error "NewTimer")
  else if fn = "recv" then (match args with | [.name ch] => .ok ({ st with fx := st.fx ++ [.recv ch] }, .ints inp.pos) | _ => .error "recv")
  else if fn = "log.Warn" then .ok (st, .bool false)
  else .error ("call " ++ fn)

def CR.andThen (r : CR) (f : CSt → CR) : CR :=
  match r with
  | .norm st => f st
  | r => r

mutual
  def cexecS (inp : CIn) : S → CSt → CR
    | .expr (.call fn args), st =>
      (match cevals st.env args with
       | .ok l => (match ccall inp st fn l with | .ok (st', _) => .norm st' | .error w => .fail w)
       | .error w => .fail w)
    | .assign _ lhs (.cons (.call fn args) .nil), st =>
      (match cevals st.env args with
       | .ok l =>
         (match ccall inp st fn l with
          | .ok (st', v) =>
            (match lhs with
             | .cons (.var x) .nil => .norm { st' with env := (x, v) :: st'.env }
             | .cons (.var "_") (.cons (.var "_") .nil) => .norm st'
             | _ => .fail "assignment target")
          | .error w => .fail w)
       | .error w => .fail w)
    | .ifS .nil (.call fn (.cons (.var a) (.cons (.var b) .nil))) thn els, st =>
      if fn = "selectRecv" ∧ a = "timeout.C" ∧ (st.env.lookup "timeout" = some .timer) ∧ b = "vx.chCursorPos" then
        (if inp.fired then cexecSs inp thn { st with fx := st.fx ++ [.timerFired] } else cexecSs inp els st)
      else .fail "select"
    | .ret (.cons a (.cons b .nil)), st =>
      (match ceval st.env a, ceval st.env b with
       | .ok (.int x), .ok (.int y) => .ret st x y
       | .error w, _ => .fail w
       | _, .error w => .fail w
       | _, _ => .fail "return")
    | _, _ => .fail "statement"
  def cexecSs (inp : CIn) : Ss → CSt → CR
    | .nil, st => .norm st
    | .cons h t, st => (cexecS inp h st).andThen fun st' => cexecSs inp t st'
end

/-- `CursorPosition()` run on its regenerated body: the trace and the pair returned. -/
def runCp (inp : CIn) : Except String (List CFx × Int × Int) :=
  match cexecSs inp Gen.InputBody.cp {} with
  | .ret st a b => .ok (st.fx, a, b)
  | .norm _ => .error "no return"
  | .fail w => .error w

/-- The model: drop a stale answer, raise the request flag, write the query, arm a 50 ms timer, then
either the timer fires (lower the flag, `(-1, -1)`) or the answer is received (`(r-1, c-1)`). -/
def cursorPositionModel (fired : Bool) (r c : Int) : List CFx × Int × Int :=
  let pre : List CFx := [.tryRecv "vx.chCursorPos", .store "vx.reqCursorPos" true, .write "dsrcpr", .timer 50]
  if fired then (pre ++ [.timerFired, .store "vx.reqCursorPos" false], -1, -1)
  else (pre ++ [.recv "vx.chCursorPos"], wrap64 (r - 1), wrap64 (c - 1))

end VaxisModel.Model.CursorBody
