/-
An interpreter for ALL the methods of vxfw/list `Dynamic`, run directly on their regenerated bodies
(`Gen/DynSkel.lean`, flat syntax of `Model/GoSyn.lean`): `Draw` and `insertChildren` (loops with
`break`/`continue`, `range` loops, the children slice of the surface with CHECKED index
expressions, sub-surfaces, the Builder, the call `d.insertChildren(ctx, &s, ah)`), and the event
switches of `HandleEvent` / `CaptureEvent` (type switch, value switch, `ev.Matches(…)`, the calls of
`NextItem` / `PrevItem`), besides the small methods `Model/DynInterp.lean` already covers.

The flat lines are first parsed into a statement tree (`parse`, plain structural recursion on a
fuel = number of lines), the tree is executed by structural recursion (`exec`); only loops consume
fuel (`loopN`: one unit per iteration, running out = `Err.oof` = the Go code hangs).  The Builder is
a FUNCTION `Nat → Option Nat` (index ↦ height of the widget, `none` = nil), so infinite builders can
be stated.

What the interpreter keeps of the Go values:
  * `d.cursor`, `d.scroll.*` — the model state `DynList.St`; `uint` arithmetic wraps at 2^64
    (an expression is `uint` iff it is `d.cursor`, `d.scroll.top`, a local defined from a `uint`
    expression, `uint(…)`, or `+`/`-` with a `uint` left operand); `int(u)` reinterprets the bits;
  * the children of the surface being built (`s.Children` in `Draw`, `p.Children` in
    `insertChildren` — the same slice, `&s` is passed) — `List DynList.Child`;
  * a widget is its Builder index; a surface local `x` is `x.Size.Height`, `x.Widget`; a
    sub-surface local `c` is `c.Origin.Row`, `c.Surface.Size.Height`, `c.Surface.Widget`;
  * columns, cells (`WriteCell`), `uint16` wrap-around of the unused `totalHeight`, and the child of
    the cursor surface (`cur.AddChild`) are not represented (as in `Model/DynList.lean`).
Anything outside the subset is `Err.stuck`, never a silent default.
-/
import VaxisModel.Model.GoSyn
import VaxisModel.Model.DynList
import VaxisModel.Model.DynInterp

namespace VaxisModel.Model.DynExec
open VaxisModel.Model.GoSyn VaxisModel.Model.DynList
open VaxisModel.Model.DynInterp (splitBlock toUint)

/-! ### statement trees -/

inductive Stmt where
  | skip
  | bad
  | atom (l : Line)
  | seq (a b : Stmt)
  | ite (c : Expr) (t e : Stmt)
  | loop (c : Expr) (body post : Stmt)
  | range (k v : String) (body : Stmt)          -- `for k, v := range v1.Children`
  | rangeOver (k v : String) (coll : Expr) (body : Stmt)   -- `for k, v := range coll` (other collections; not used by `Dynamic`)
  | sw (isType : Bool) (tag : Expr) (cases : Stmt)
  | case (label : Expr) (body rest : Stmt)
deriving DecidableEq, Repr, Inhabited

/-- The body lines of a `for` up to its `forPost` marker (at depth `d`), and the post statement. -/
def splitPost (d : Nat) : List Line → List Line × List Line
  | [] => ([], [])
  | l :: ls =>
    if l.kind == .forPost && l.depth == d then ([], ls)
    else let r := splitPost d ls; (l :: r.1, r.2)

/-- Flat lines → tree; `fuel` ≥ number of lines + 1. -/
def parse : Nat → List Line → Stmt
  | 0, _ => .bad
  | _ + 1, [] => .skip
  | f + 1, l :: ls =>
    let blk := (splitBlock l.depth ls).1
    let rest := (splitBlock l.depth ls).2
    match l.kind with
    | .ifS =>
      match rest with
      | e :: rest' =>
        if e.kind == .elseS && e.depth == l.depth then
          .seq (.ite l.e1 (parse f blk) (parse f (splitBlock e.depth rest').1)) (parse f (splitBlock e.depth rest').2)
        else .seq (.ite l.e1 (parse f blk) .skip) (parse f rest)
      | [] => .seq (.ite l.e1 (parse f blk) .skip) .skip
    | .forS => .seq (.loop l.e1 (parse f (splitPost (l.depth + 1) blk).1) (parse f (splitPost (l.depth + 1) blk).2)) (parse f rest)
    | .forInit => .seq (parse f blk) (parse f rest)
    | .blockS => .seq (parse f blk) (parse f rest)
    | .rangeS =>
      match l.e1, l.e2 with
      | .pair (.var k) (.var v), .var "v1.Children" => .seq (.range k v (parse f blk)) (parse f rest)
      | .pair (.var k) (.var v), coll => .seq (.rangeOver k v coll (parse f blk)) (parse f rest)
      | _, _ => .bad
    | .switchS => .seq (.sw false l.e1 (parse f blk)) (parse f rest)
    | .typeSwitchS => .seq (.sw true l.e1 (parse f blk)) (parse f rest)
    | .caseS => .case l.e1 (parse f blk) (parse f rest)
    | .elseS => .bad
    | .forPost => .bad
    | .unknown => .bad
    | _ => .seq (.atom l) (parse f rest)

def parseBody (b : List Line) : Stmt := parse (b.length + 1) b

/-! ### machine -/

/-- An event, as far as the switches of `HandleEvent` / `CaptureEvent` look at it: its dynamic type,
    its `Button` (mouse), and the arguments for which `ev.Matches(arg)` holds (keys). -/
structure Ev where
  typ     : String
  button  : String
  keys    : List String

inductive Ctl where
  | norm | brk | cont
  | ret (vals : List Int)
deriving DecidableEq, Repr

inductive Err where
  | panic
  | stuck (why : String)
  | oof
deriving DecidableEq, Repr

structure M where
  st  : St
  cs  : List Child
  ρ   : List (String × Int)
  us  : List String           -- the locals of type `uint`
  tag : String                -- the tag of the innermost switch being matched

abbrev Res := Except Err (M × Ctl)

/-- What a method body is run with (read-only). -/
structure Ro where
  b          : Nat → Option Nat
  gap        : Int
  drawCursor : Bool
  disable    : Bool
  W          : Nat
  H          : Nat
  ev         : Ev
  matchFn    : String                                          -- the name `v1.Matches`
  buttonVar  : String                                          -- the name `v2.Button`
  call       : String → Option (List Int → Nat → M → Res)       -- the other methods of `Dynamic`

def bi (b : Bool) : Int := if b then 1 else 0

/-- Fields of `d`, the draw context, and the predeclared identifiers. -/
def fixedEnv (R : Ro) (s : St) : List (String × Int) :=
  [("d.scroll.offset", s.offset), ("d.scroll.pending", s.pending), ("d.scroll.top", (s.top : Int)),
   ("d.cursor", (s.cursor : Int)), ("d.scroll.wantsCursor", bi s.wantsCursor),
   ("d.Gap", R.gap), ("d.DrawCursor", bi R.drawCursor), ("d.DisableEventHandlers", bi R.disable),
   ("v0.Max.Width", (R.W : Int)), ("v0.Max.Height", (R.H : Int)), ("v1.Size.Height", (R.H : Int)),
   ("nil", 0), ("true", 1), ("false", 0)]

def look (R : Ro) (m : M) (n : String) : Option Int := lookup (fixedEnv R m.st ++ m.ρ) n

def toUintI (v : Int) : Int := v % (U : Int)
def toIntI (v : Int) : Int := if v < 2 ^ 63 then v else v - (U : Int)
/-- `x + y`, `x - y` on `uint`. -/
def uaddI (x y : Int) : Int := toUintI (x + y)
def usubI (x y : Int) : Int := toUintI (x - y)

def isU (us : List String) : Expr → Bool
  | .var n => n == "d.cursor" || n == "d.scroll.top" || us.contains n
  | .arg (.call (.var "uint")) _ => true
  | .bin "+" a _ => isU us a
  | .bin "-" a _ => isU us a
  | _ => false

def evI (R : Ro) (m : M) : Expr → Option Int
  | .var n => look R m n
  | .int n => some (n : Int)
  | .un "-" a => (evI R m a).map (fun x => - x)
  | .bin "+" a b => do
      let x ← evI R m a; let y ← evI R m b
      pure (if isU m.us a then uaddI x y else x + y)
  | .bin "-" a b => do
      let x ← evI R m a; let y ← evI R m b
      pure (if isU m.us a then usubI x y else x - y)
  | .bin "*" a b => do let x ← evI R m a; let y ← evI R m b; pure (x * y)
  | .arg (.call (.var "int")) a => (evI R m a).map (fun x => if isU m.us a then toIntI x else x)
  | .arg (.call (.var "uint")) (.arg (.call (.var "len")) (.var "v1.Children")) => some (m.cs.length : Int)   -- `len` is a non-negative `int`
  | .arg (.call (.var "uint")) a => (evI R m a).map toUintI
  | .arg (.call (.var "uint16")) a => evI R m a
  | .arg (.call (.var "len")) (.var "v1.Children") => some (m.cs.length : Int)
  | _ => Option.none

def keyTok : Expr → String
  | .lit s => s
  | .var s => s
  | _ => "?"

def evB (R : Ro) (m : M) : Expr → Option Bool
  | .var n => (look R m n).map (fun x => x != 0)
  | .un "!" a => (evB R m a).map (fun x => !x)
  | .bin "&&" a b => do
      let x ← evB R m a
      if x then evB R m b else pure false
  | .bin "||" a b => do
      let x ← evB R m a
      if x then pure true else evB R m b
  | .bin "<" a b => do let x ← evI R m a; let y ← evI R m b; pure (decide (x < y))
  | .bin "<=" a b => do let x ← evI R m a; let y ← evI R m b; pure (decide (x ≤ y))
  | .bin ">" a b => do let x ← evI R m a; let y ← evI R m b; pure (decide (x > y))
  | .bin ">=" a b => do let x ← evI R m a; let y ← evI R m b; pure (decide (x ≥ y))
  | .bin "==" (.arg (.arg (.call (.var "d.Builder")) i) _) (.var "nil") =>
      (evI R m i).map (fun iv => (R.b iv.toNat).isNone)
  | .bin "==" a b => do let x ← evI R m a; let y ← evI R m b; pure (decide (x = y))
  | .bin "!=" a b => do let x ← evI R m a; let y ← evI R m b; pure (decide (x ≠ y))
  | .call (.var "v0.Max.HasUnboundedHeight") => some (R.H == 65535)
  | .call (.var "v0.Max.HasUnboundedWidth") => some (R.W == 65535)
  | .arg (.call (.var f)) k => if f == R.matchFn then some (R.ev.keys.contains (keyTok k)) else Option.none
  | _ => Option.none

/-- Store into a field of `d` or a local. -/
def store (m : M) (t : String) (v : Int) : M :=
  if t = "d.cursor" then { m with st := { m.st with cursor := toUint v } }
  else if t = "d.scroll.top" then { m with st := { m.st with top := toUint v } }
  else if t = "d.scroll.offset" then { m with st := { m.st with offset := v } }
  else if t = "d.scroll.pending" then { m with st := { m.st with pending := v } }
  else if t = "d.scroll.wantsCursor" then { m with st := { m.st with wantsCursor := v != 0 } }
  else { m with ρ := (t, v) :: m.ρ }

def bind (m : M) (t : String) (v : Int) : M := { m with ρ := (t, v) :: m.ρ }

/-- Bind a sub-surface local `x` to a child. -/
def bindChild (m : M) (x : String) (c : Child) : M :=
  bind (bind (bind m (x ++ ".Origin.Row") c.row) (x ++ ".Surface.Size.Height") (c.height : Int))
    (x ++ ".Surface.Widget") (c.idx : Int)

/-- The child a sub-surface local denotes. -/
def childOf (R : Ro) (m : M) (x : String) : Option Child := do
  let r ← look R m (x ++ ".Origin.Row")
  let h ← look R m (x ++ ".Surface.Size.Height")
  let w ← look R m (x ++ ".Surface.Widget")
  pure { idx := w.toNat, row := r, height := h.toNat }

def ok (m : M) : Res := .ok (m, .norm)

def retVal (R : Ro) (m : M) : Expr → Int
  | .var "nil" => 0
  | .var x => (look R m x).getD 1
  | _ => 1

def retVals (R : Ro) (m : M) : Expr → List Int
  | .none => []
  | .pair a b => retVals R m a ++ [retVal R m b]
  | e => [retVal R m e]

/-- Call another method of `Dynamic`: fresh locals, shared state and children. -/
def callMethod (R : Ro) (f : Nat) (m : M) (name : String) (args : List Int) : Except Err (M × List Int) :=
  match R.call name with
  | Option.none => .error (.stuck ("call " ++ name))
  | some g =>
    match g args f { m with ρ := [], us := [] } with
    | .error e => .error e
    | .ok (m', .ret vs) => .ok ({ m with st := m'.st, cs := m'.cs }, vs)
    | .ok (m', _) => .ok ({ m with st := m'.st, cs := m'.cs }, [])

def setAt (cs : List Child) (i : Nat) (c : Child) : List Child := cs.set i c

/-- One simple statement. -/
def atom (R : Ro) (f : Nat) (m : M) (l : Line) : Res :=
  match l.kind, l.e1, l.e2 with
  | .breakS, _, _ => .ok (m, .brk)
  | .continueS, _, _ => .ok (m, .cont)
  | .returnS, e, _ => .ok (m, .ret (retVals R m e))
  | .varS, .var x, .lit ty => ok { (bind m x 0) with us := if ty == "uint" then x :: m.us else m.us }
  -- expression statements
  | .exprS, .arg (.call (.var "panic")) _, _ => .error .panic
  | .exprS, .call (.var "d.ensureScroll"), _ =>
    match callMethod R f m "d.ensureScroll" [] with
    | .ok (m', _) => ok m'
    | .error e => .error e
  | .exprS, .arg (.arg (.arg (.call (.var "v1.AddChild")) _) row) (.var sf), _ =>
    match evI R m row, look R m (sf ++ ".Size.Height"), look R m (sf ++ ".Widget") with
    | some r, some h, some w => ok { m with cs := m.cs ++ [{ idx := w.toNat, row := r, height := h.toNat }] }
    | _, _, _ => .error (.stuck "AddChild")
  | .exprS, .arg (.arg (.arg (.call (.var fn)) _) _) _, _ =>             -- WriteCell / AddChild on another surface
    if fn == "v1.AddChild" then .error (.stuck "AddChild") else ok m
  -- x := d.Builder(i, cursor)
  | .define, .var x, .arg (.arg (.call (.var "d.Builder")) i) _ =>
    match evI R m i with
    | Option.none => .error (.stuck "Builder index")
    | some iv =>
      match R.b iv.toNat with
      | Option.none => ok (bind m x 0)
      | some h => ok (bind (bind (bind m x 1) (x ++ ".Draw.Size.Height") (h : Int)) (x ++ ".Draw.Widget") (iv.toNat : Int))
  -- s, err := w.Draw(ctx)
  | .define, .pair (.var sf) (.var er), .arg (.call (.var fn)) _ =>
    match look R m (fn ++ ".Size.Height"), look R m (fn ++ ".Widget") with
    | some h, some w => ok (bind (bind (bind m (sf ++ ".Size.Height") h) (sf ++ ".Widget") w) er 0)
    | _, _ => .error (.stuck "widget Draw")
  -- the surfaces
  | .define, .var _, .arg (.arg (.arg (.call (.var "vxfw.NewSurface")) _) _) (.var "d") => ok { m with cs := [] }
  | .define, .var x, .arg (.arg (.arg (.call (.var "vxfw.NewSurface")) _) h) wd =>
    match evI R m h, evI R m wd with
    | some hv, some w => ok (bind (bind m (x ++ ".Size.Height") hv) (x ++ ".Widget") w)
    | _, _ => .error (.stuck "NewSurface")
  | .define, .var x, .arg (.arg (.arg (.call (.var "vxfw.NewSubSurface")) _) row) (.var sf) =>
    match evI R m row, look R m (sf ++ ".Size.Height"), look R m (sf ++ ".Widget") with
    | some r, some h, some w => ok (bindChild m x { idx := w.toNat, row := r, height := h.toNat })
    | _, _, _ => .error (.stuck "NewSubSurface")
  -- the children slice
  | .define, .var x, .index (.var "v1.Children") i =>
    match evI R m i with
    | Option.none => .error (.stuck "index")
    | some iv =>
      if iv < 0 then .error .panic else
      match m.cs[iv.toNat]? with
      | Option.none => .error .panic
      | some c => ok (bindChild m x c)
  | .assign, .index (.var "v1.Children") i, .var x =>
    match evI R m i, childOf R m x with
    | some iv, some c =>
      if iv < 0 ∨ iv.toNat ≥ m.cs.length then .error .panic else ok { m with cs := setAt m.cs iv.toNat c }
    | _, _ => .error (.stuck "store child")
  | .assign, .var "v1.Children", .arg (.arg (.arg (.call (.var "slices.Insert")) (.var "v1.Children")) (.int 0)) (.var x) =>
    match childOf R m x with
    | some c => ok { m with cs := c :: m.cs }
    | Option.none => .error (.stuck "slices.Insert")
  -- calls of other methods
  | .define, .var x, .arg (.arg (.arg (.call (.var "d.insertChildren")) _) _) a =>
    match evI R m a with
    | Option.none => .error (.stuck "insertChildren arg")
    | some av =>
      match callMethod R f m "d.insertChildren" [av] with
      | .ok (m', vs) => ok (bind m' x (vs.headD 0))
      | .error e => .error e
  | .define, .var x, .call (.var fn) =>
    match callMethod R f m fn [] with
    | .ok (m', vs) => ok (bind m' x (vs.headD 0))
    | .error e => .error e
  | .define, .var x, .lit _ => ok (bind m x 1)
  -- arithmetic
  | .define, .var x, e =>
    match evI R m e with
    | Option.none => .error (.stuck "define")
    | some v => ok { (bind m x v) with us := if isU m.us e then x :: m.us else m.us }
  | .assign, .var x, e =>
    match evI R m e with
    | Option.none => .error (.stuck "assign")
    | some v => ok (store m x v)
  | .addAssign, .var x, e =>
    match look R m x, evI R m e with
    | some cur, some v => ok (store m x (if isU m.us (.var x) then uaddI cur v else cur + v))
    | _, _ => .error (.stuck "+=")
  | .subAssign, .var x, e =>
    match look R m x, evI R m e with
    | some cur, some v => ok (store m x (if isU m.us (.var x) then usubI cur v else cur - v))
    | _, _ => .error (.stuck "-=")
  | _, _, _ => .error (.stuck "statement")

/-- `for cond { body; post }`: one unit of fuel per iteration. -/
def loopN (c : M → Option Bool) (body post : Nat → M → Res) : Nat → M → Res
  | 0, _ => .error .oof
  | f + 1, m =>
    match c m with
    | Option.none => .error (.stuck "loop condition")
    | some false => .ok (m, .norm)
    | some true =>
      match body f m with
      | .error e => .error e
      | .ok (m', .brk) => .ok (m', .norm)
      | .ok (m', .ret vs) => .ok (m', .ret vs)
      | .ok (m', _) =>
        match post f m' with
        | .error e => .error e
        | .ok (m'', _) => loopN c body post f m''

/-- `for k, v := range v1.Children` with `n` elements left, at index `i` (the length is evaluated
    once, the element is read when its iteration starts). -/
def rangeN (k v : String) (body : M → Res) : Nat → Nat → M → Res
  | 0, _, m => .ok (m, .norm)
  | n + 1, i, m =>
    match m.cs[i]? with
    | Option.none => .error (.stuck "range element")
    | some c =>
      match body (bindChild (bind m k (i : Int)) v c) with
      | .error e => .error e
      | .ok (m', .brk) => .ok (m', .norm)
      | .ok (m', .ret vs) => .ok (m', .ret vs)
      | .ok (m', _) => rangeN k v body n (i + 1) m'

def tagOf (R : Ro) (isType : Bool) : Expr → String
  | .var n => if isType then R.ev.typ else if n == R.buttonVar then R.ev.button else "?"
  | _ => if isType then R.ev.typ else "?"

def exec (R : Ro) : Stmt → Nat → M → Res
  | .skip, _, m => .ok (m, .norm)
  | .bad, _, _ => .error (.stuck "unparsed")
  | .atom l, f, m => atom R f m l
  | .seq a b, f, m =>
    match exec R a f m with
    | .ok (m', .norm) => exec R b f m'
    | r => r
  | .ite c t e, f, m =>
    match evB R m c with
    | Option.none => .error (.stuck "if condition")
    | some true => exec R t f m
    | some false => exec R e f m
  | .loop c body post, f, m => loopN (fun m => evB R m c) (exec R body) (exec R post) f m
  | .range k v body, f, m => rangeN k v (exec R body f) m.cs.length 0 m
  | .rangeOver _ _ _ _, _, _ => .error (.stuck "range over another collection")
  | .sw isType tag cases, f, m =>
    match exec R cases f { m with tag := tagOf R isType tag } with
    | .ok (m', .brk) => .ok (m', .norm)
    | r => r
  | .case label body rest, f, m =>
    if keyTok label == m.tag then exec R body f m else exec R rest f m

/-! ### running the methods of `Dynamic` -/

def noEv : Ev := ⟨"", "", []⟩

def mkM (s : St) (cs : List Child) (ρ : List (String × Int)) : M := ⟨s, cs, ρ, [], ""⟩

/-- The bodies of the methods, parsed (regenerated: `Gen.DynSkel`; or the expected copy). -/
structure Bodies where
  draw : Stmt
  insertChildren : Stmt
  nextItem : Stmt
  prevItem : Stmt
  ensureScroll : Stmt
  handleEvent : Stmt
  captureEvent : Stmt

def Bodies.ofLines (draw insertChildren nextItem prevItem ensureScroll handleEvent captureEvent : List Line) : Bodies :=
  ⟨parseBody draw, parseBody insertChildren, parseBody nextItem, parseBody prevItem, parseBody ensureScroll,
   parseBody handleEvent, parseBody captureEvent⟩

def roBase (b : Nat → Option Nat) (cfg : Cfg) (W H : Nat) : Ro :=
  { b := b, gap := cfg.gap, drawCursor := cfg.drawCursor, disable := false, W := W, H := H, ev := noEv,
    matchFn := "v1.Matches", buttonVar := "v2.Button", call := fun _ => Option.none }

/-- `insertChildren(ctx, &s, ah)` as a callee: parameter `v2 = ah`. -/
def insertCallee (B : Bodies) (R : Ro) : List Int → Nat → M → Res :=
  fun args f m => exec R B.insertChildren f { m with ρ := [("v2", args.headD 0)], us := [] }

def ensureCallee (B : Bodies) (R : Ro) : List Int → Nat → M → Res :=
  fun _ f m => exec R B.ensureScroll f m

/-- `Draw(ctx)` with `ctx.Max = (W, H)`: new state and the children of the returned surface. -/
def runDraw (B : Bodies) (b : Nat → Option Nat) (cfg : Cfg) (s : St) (W H fuel : Nat) : Except Err (St × List Child) :=
  let R0 := roBase b cfg W H
  let R := { R0 with call := fun n => if n = "d.insertChildren" then some (insertCallee B R0) else Option.none }
  match exec R B.draw fuel (mkM s [] []) with
  | .error e => .error e
  | .ok (m, _) => .ok (m.st, m.cs)

/-- `insertChildren` on its own (the surface has the children `cs`). -/
def runInsert (B : Bodies) (b : Nat → Option Nat) (cfg : Cfg) (s : St) (cs : List Child) (ah : Int) (fuel : Nat) :
    Except Err (St × List Child) :=
  match insertCallee B (roBase b cfg 0 0) [ah] fuel (mkM s cs []) with
  | .error e => .error e
  | .ok (m, _) => .ok (m.st, m.cs)

/-- For `NextItem` / `PrevItem` / `SetCursor`: the callee `ensureScroll`. -/
def roSmall (B : Bodies) (b : Nat → Option Nat) (disable : Bool) (ev : Ev) (matchFn : String) : Ro :=
  let R0 : Ro := { b := b, gap := 0, drawCursor := false, disable := disable, W := 0, H := 0, ev := ev,
                   matchFn := matchFn, buttonVar := "v2.Button", call := fun _ => Option.none }
  { R0 with call := fun n => if n = "d.ensureScroll" then some (ensureCallee B R0) else Option.none }

/-- For the event handlers: the callees `NextItem` / `PrevItem` (which call `ensureScroll`). -/
def roEv (B : Bodies) (b : Nat → Option Nat) (disable : Bool) (ev : Ev) (matchFn : String) : Ro :=
  let R1 := roSmall B b disable ev matchFn
  { R1 with call := fun n =>
      if n = "d.NextItem" then some (fun _ f m => exec R1 B.nextItem f m)
      else if n = "d.PrevItem" then some (fun _ f m => exec R1 B.prevItem f m)
      else Option.none }

/-- An event handler: new state and whether a (non-nil) command is returned. -/
def runHandler (body : Stmt) (R : Ro) (s : St) : Except Err (St × Bool) :=
  match exec R body 1 (mkM s [] []) with
  | .error e => .error e
  | .ok (m, .ret (v :: _)) => .ok (m.st, v != 0)
  | .ok (m, _) => .ok (m.st, false)

def wheelDownEv : Ev := ⟨"vaxis.Mouse", "vaxis.MouseWheelDown", []⟩
def wheelUpEv : Ev := ⟨"vaxis.Mouse", "vaxis.MouseWheelUp", []⟩
def keyEv (ks : List String) : Ev := ⟨"vaxis.Key", "", ks⟩

def runNextItem (B : Bodies) (b : Nat → Option Nat) (s : St) : Except Err (St × Bool) :=
  runHandler B.nextItem (roSmall B b false noEv "") s

def runPrevItem (B : Bodies) (b : Nat → Option Nat) (s : St) : Except Err (St × Bool) :=
  runHandler B.prevItem (roSmall B b false noEv "") s

def runHandleEvent (B : Bodies) (b : Nat → Option Nat) (disable : Bool) (ev : Ev) (s : St) : Except Err (St × Bool) :=
  runHandler B.handleEvent (roEv B b disable ev "v2.Matches") s

def runCaptureEvent (B : Bodies) (b : Nat → Option Nat) (disable : Bool) (ev : Ev) (s : St) : Except Err (St × Bool) :=
  runHandler B.captureEvent (roEv B b disable ev "v1.Matches") s

end VaxisModel.Model.DynExec
