/-
The regenerated bodies of vxfw/list `Dynamic` (`Gen/DynSkel.lean`), parsed for the interpreter
`Model/DynExec.lean`.  `Driver/C19.lean` runs every `dl` operation of the correspondence stream
through these (besides `Model/DynList.lean`), `Props/C19Exec.lean` proves the two equal.
-/
import VaxisModel.Model.DynExec
import VaxisModel.Gen.DynSkel

namespace VaxisModel.Model.DynExec
open VaxisModel.Gen

def genBodies : Bodies :=
  Bodies.ofLines DynSkel.draw DynSkel.insertChildren DynSkel.nextItem DynSkel.prevItem DynSkel.ensureScroll
    DynSkel.handleEvent DynSkel.captureEvent

/-- Fuel that is enough for every loop of `Draw` on a finite builder: the walk back and the upward
    insertion make at most `top` iterations, the downward loop at most one per item, the gutter loops
    one per row of the viewport resp. of the cursored widget. -/
def drawFuel (hs : List Nat) (s : DynList.St) (H : Nat) : Nat :=
  s.top + hs.length + H + hs.foldl max 0 + 2

end VaxisModel.Model.DynExec
