/-
An interpreter for the small methods of vxfw/list `Dynamic`, run directly on their regenerated
syntax (`Gen/DynSkel.lean`, syntax of `Model/GoSyn.lean`): straight-line assignments to the scroll
state, `if cond { … }` blocks, `return`, the Builder call `x := d.Builder(i, d.cursor)` and the call
`d.ensureScroll()`.  `Props/C19Tie.lean` proves that running `ensureScroll`, `SetCursor`,
`SetPendingScroll`, `NextItem`, `PrevItem`, `Cursor`, `Offset` through this interpreter IS what
`Model/DynList.lean` defines — for all states and builders.  Anything else (loops, slices,
surfaces: `Draw`, `insertChildren`) is outside its subset and yields `none`.
-/
import VaxisModel.Model.GoSyn
import VaxisModel.Model.DynList

namespace VaxisModel.Model.DynInterp
open VaxisModel.Model.GoSyn VaxisModel.Model.DynList

/-- The fields of `Dynamic` as variables, plus `nil`/`true`/`false`. -/
def fieldEnv (s : St) : List (String × Int) :=
  [("d.scroll.offset", s.offset), ("d.scroll.pending", s.pending), ("d.scroll.top", (s.top : Int)),
   ("d.cursor", (s.cursor : Int)), ("d.scroll.wantsCursor", if s.wantsCursor then 1 else 0),
   ("nil", 0), ("true", 1), ("false", 0)]

/-- `uint(v)`: the value modulo 2^64. -/
def toUint (v : Int) : Nat := (v % (U : Int)).toNat

/-- Store `v` into the field or local `t`. -/
def store (s : St) (ρ : List (String × Int)) (t : String) (v : Int) : St × List (String × Int) :=
  if t = "d.cursor" then ({ s with cursor := toUint v }, ρ)
  else if t = "d.scroll.top" then ({ s with top := toUint v }, ρ)
  else if t = "d.scroll.offset" then ({ s with offset := v }, ρ)
  else if t = "d.scroll.pending" then ({ s with pending := v }, ρ)
  else if t = "d.scroll.wantsCursor" then ({ s with wantsCursor := v != 0 }, ρ)
  else (s, (t, v) :: ρ)

/-- The lines nested deeper than depth `d` (the block that follows a statement head), and the rest. -/
def splitBlock (d : Nat) : List Line → List Line × List Line
  | [] => ([], [])
  | l :: ls =>
    if l.depth > d then
      let r := splitBlock d ls
      (l :: r.1, r.2)
    else ([], l :: ls)

/-- What a `return` returns, as "is a non-nil command / value present". -/
def retVal : Expr → Bool
  | .none => false
  | .var "nil" => false
  | _ => true

structure Result where
  st  : St
  env : List (String × Int)
  ret : Option Bool      -- `some b`: a `return` was executed
deriving Repr

/-- Run `body` (fuel bounds the number of statements executed). `hs` = the Builder's heights,
    `ensure` = the body of `ensureScroll` (for the call `d.ensureScroll()`). -/
def exec (hs : List Nat) (ensure : List Line) : Nat → List Line → St → List (String × Int) → Option Result
  | 0, _, _, _ => Option.none
  | _ + 1, [], s, ρ => some ⟨s, ρ, Option.none⟩
  | f + 1, l :: ls, s, ρ =>
    let full := ρ ++ fieldEnv s
    match l.kind, l.e1, l.e2 with
    | .returnS, e, _ => some ⟨s, ρ, some (retVal e)⟩
    | .ifS, c, _ =>
      let blk := splitBlock l.depth ls
      match evalB full c with
      | Option.none => Option.none
      | some true =>
        match exec hs ensure f blk.1 s ρ with
        | some ⟨s', ρ', Option.none⟩ => exec hs ensure f blk.2 s' ρ'
        | r => r
      | some false => exec hs ensure f blk.2 s ρ
    | .define, .var x, .arg (.arg (.call (.var "d.Builder")) i) _ =>
      match evalI full i with
      | Option.none => Option.none
      | some iv => exec hs ensure f ls s ((x, if (builder hs (toUint iv)).isSome then 1 else 0) :: ρ)
    | .assign, .var t, e =>
      match evalI full e with
      | Option.none => Option.none
      | some v => let r := store s ρ t v; exec hs ensure f ls r.1 r.2
    | .addAssign, .var t, e =>
      match lookup full t, evalI full e with
      | some cur, some v => let r := store s ρ t (cur + v); exec hs ensure f ls r.1 r.2
      | _, _ => Option.none
    | .subAssign, .var t, e =>
      match lookup full t, evalI full e with
      | some cur, some v => let r := store s ρ t (cur - v); exec hs ensure f ls r.1 r.2
      | _, _ => Option.none
    | .exprS, .call (.var "d.ensureScroll"), _ =>
      match exec hs ensure f ensure s [] with
      | some r => exec hs ensure f ls r.st ρ
      | Option.none => Option.none
    | _, _, _ => Option.none

/-- Run a method body with parameter `v0 = p`. -/
def runMethod (hs : List Nat) (ensure body : List Line) (s : St) (p : Int) : Option Result :=
  exec hs ensure 32 body s [("v0", p)]

end VaxisModel.Model.DynInterp
