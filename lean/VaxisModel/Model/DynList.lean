/-
Model of /repo/vxfw/list/list.go (`Dynamic`).

The `Builder` is represented by the list `hs` of the heights of the widgets it returns for the
indices `0, 1, …` (`none` = `nil` past the end); child widgets are stubs of a fixed height, so a
child surface is (index, origin row, height).  Columns play no role.

Go types: `cursor`, `scroll.top` and loop indices are `uint` (64 bit): subtraction wraps
(`usub`), `int(idx)` reinterprets the bits (`toInt`).  `offset`, `pending`, rows and `ah` are `int`
(`Int`).  Index expressions are checked (`Panic`).  Heights are `uint16` in Go; the model assumes
they and their sums stay below 2^16 (the harness keeps them tiny).
-/
namespace VaxisModel.Model.DynList

def U : Nat := 2 ^ 64

/-- `a - b` on `uint`. -/
def usub (a b : Nat) : Nat := (a + U - b % U) % U
/-- `a + b` on `uint`. -/
def uadd (a b : Nat) : Nat := (a + b) % U
/-- `int(u)` for a `uint` on a 64-bit platform. -/
def toInt (u : Nat) : Int := if u < 2 ^ 63 then (u : Int) else (u : Int) - (U : Int)

inductive Panic where
  | unbounded                       -- explicit panic("Dynamic cannot have unbounded height or width")
  | lastOfEmpty                     -- s.Children[len(s.Children)-1] with no children
  | childIndex (i len : Nat)        -- s.Children[idx] out of range
deriving DecidableEq, Repr

structure Cfg where
  gap        : Int
  drawCursor : Bool
deriving DecidableEq, Repr

structure St where
  cursor      : Nat
  top         : Nat
  offset      : Int
  pending     : Int
  wantsCursor : Bool
deriving DecidableEq, Repr

def init : St := { cursor := 0, top := 0, offset := 0, pending := 0, wantsCursor := false }

structure Child where
  idx    : Nat
  row    : Int
  height : Nat
deriving DecidableEq, Repr

/-- `d.Builder(i, cursor)`: `some height` or `none` (nil). -/
def builder (hs : List Nat) (i : Nat) : Option Nat := hs[i]?

/-! ### state-changing methods -/

def ensureScroll (s : St) : St :=
  if s.cursor > s.top then { s with wantsCursor := true }
  else { s with top := s.cursor, offset := 0 }

def setCursor (s : St) (c : Nat) : St := ensureScroll { s with cursor := c }

/-- `NextItem`: returns the state and whether a command was returned. -/
def nextItem (hs : List Nat) (s : St) : St × Bool :=
  match builder hs (uadd s.cursor 1) with
  | none => (s, false)
  | some _ => (ensureScroll { s with cursor := uadd s.cursor 1 }, true)

def prevItem (hs : List Nat) (s : St) : St × Bool :=
  if s.cursor = 0 then (s, false)
  else match builder hs (usub s.cursor 1) with
    | none => (s, false)
    | some _ => (ensureScroll { s with cursor := usub s.cursor 1 }, true)

def wheelDown (s : St) : St × Bool := ({ s with pending := s.pending + 3 }, true)

def wheelUp (s : St) : St × Bool :=
  if s.offset > 0 ∧ s.top > 0 then ({ s with pending := s.pending - 3 }, true) else (s, false)

def setPending (s : St) (k : Int) : St := { s with pending := k }

/-! ### insertChildren -/

/-- The `for ah > 0` loop of `insertChildren`; `fuel` bounds the iterations (`top` decreases by one
    per iteration and the loop stops at 0, so the old `top` is enough fuel).
    Returns (top, ah, children). -/
def insertLoop (hs : List Nat) : Nat → Nat → Int → List Child → Nat × Int × List Child
  | 0, top, ah, acc => (top, ah, acc)
  | fuel + 1, top, ah, acc =>
    if ah > 0 then
      match builder hs top with
      | none => (top, ah, acc)
      | some h =>
        let ah' := ah - (h : Int)
        let acc' := { idx := top, row := ah', height := h } :: acc
        if top = 0 then (top, ah', acc')
        else insertLoop hs fuel (usub top 1) ah' acc'
    else (top, ah, acc)

/-- Rows reassigned from 0 when the first widget was reached below row 0. -/
def restack : Int → List Child → List Child
  | _, [] => []
  | row, c :: cs => { c with row := row } :: restack (row + (c.height : Int)) cs

/-- `insertChildren(ctx, &s, ah)`: new `top`, new `offset`, the children (the surface had none). -/
def insertChildren (hs : List Nat) (top : Nat) (ah : Int) : Nat × Int × List Child :=
  let top0 := usub top 1
  let (top1, ah1, cs) := insertLoop hs top top0 ah []
  if top1 = 0 ∧ ah1 > 0 then (top1, 0, restack 0 cs) else (top1, ah1, cs)

/-! ### Draw -/

/-- The downward loop over `rest = hs.drop i`.  It stops at the end of the list (Builder returns
    nil), or when enough height is accumulated — unless the cursor still has to be reached. -/
def drawDown (gap : Int) (wants : Bool) (cursor : Nat) (H : Int) :
    List Nat → Nat → Int → List Child → List Child
  | [], _, _, acc => acc
  | h :: rest, i, ah, acc =>
    let acc' := acc ++ [{ idx := i, row := ah, height := h }]
    let ah' := ah + (h : Int) + gap
    let i' := i + 1
    if wants ∧ i' ≤ cursor then drawDown gap wants cursor H rest i' ah' acc'
    else if ah' ≥ H then acc'
    else drawDown gap wants cursor H rest i' ah' acc'

/-- The final loop: `for i, ch := range s.Children { if ch.Origin.Row <= 0 && … > 0 { top += i; offset = -row } }`. -/
def retop : List Child → Nat → Nat × Int → Nat × Int
  | [], _, acc => acc
  | c :: cs, i, (top, off) =>
    if c.row ≤ 0 ∧ c.row + (c.height : Int) > 0 then retop cs (i + 1) (uadd top i, - c.row)
    else retop cs (i + 1) (top, off)

/-- `s.Children[idx]` guarded by `int(idx) < len(s.Children)`: `none` = guard false. -/
def cursorChild (cs : List Child) (cursor top : Nat) : Except Panic (Option Child) :=
  let idx := usub cursor top
  if toInt idx < (cs.length : Int) then
    match cs[idx]? with
    | some c => .ok (some c)
    | none => .error (.childIndex idx cs.length)
  else .ok none

/-- The start of `Draw`: the accumulated height from offset and pending scroll; an upward scroll at
    the first widget is cancelled. -/
def prologue (s : St) : Int × St :=
  let ah0 : Int := - (s.offset + s.pending)
  let s := { s with pending := 0 }
  if ah0 > 0 ∧ s.top = 0 then (0, { s with offset := 0 }) else (ah0, s)

/-- `if ah > 0 { insertChildren(…); last := s.Children[len(s.Children)-1]; ah = last.Origin.Row + height }`. -/
def scrollUp (hs : List Nat) (s : St) (ah1 : Int) : Except Panic (Int × St × List Child) :=
  if ah1 > 0 then
    let r := insertChildren hs s.top ah1
    match r.2.2.getLast? with
    | none => .error .lastOfEmpty
    | some last => .ok (last.row + (last.height : Int), { s with top := r.1, offset := r.2.1 }, r.2.2)
  else .ok (ah1, s, [])

/-- The cursor gutter (`if d.DrawCursor { … }`): replaces the cursored child by a surface with the
    same origin row and height, so only the index expression matters.  `guard` = the block tests
    `d.cursor >= d.scroll.top &&` first (regenerated fact `Gen.ListFacts.dynCursorGuard`). -/
def gutter (guard : Bool) (cfg : Cfg) (cs : List Child) (s : St) : Except Panic Unit :=
  if cfg.drawCursor ∧ (guard = false ∨ s.cursor ≥ s.top) then
    match cursorChild cs s.cursor s.top with
    | .error e => .error e
    | .ok _ => .ok ()
  else .ok ()

/-- `if d.scroll.wantsCursor { … }`: bring the bottom of the cursored child to the bottom row. -/
def reveal (cs : List Child) (s : St) (H : Nat) : Except Panic (List Child × St) :=
  if s.wantsCursor then
    match cursorChild cs s.cursor s.top with
    | .error e => .error e
    | .ok (some ch) =>
      let bRow := ch.row + (ch.height : Int)
      let cs' := if bRow > H then cs.map fun c => { c with row := c.row + ((H : Int) - bRow) } else cs
      .ok (cs', { s with wantsCursor := false })
    | .ok none => .ok (cs, s)
  else .ok (cs, s)

/-- `Draw(ctx)` with `ctx.Max = (W, H)`. -/
def draw (guard : Bool) (cfg : Cfg) (hs : List Nat) (s : St) (W H : Nat) : Except Panic (St × List Child) :=
  if H = 65535 ∨ W = 65535 then .error .unbounded else
  let p := prologue s
  match scrollUp hs p.2 p.1 with
  | .error e => .error e
  | .ok (ah2, s2, cs0) =>
    let cs1 := drawDown cfg.gap s2.wantsCursor s2.cursor H (hs.drop p.2.top) p.2.top ah2 cs0
    match gutter guard cfg cs1 s2 with
    | .error e => .error e
    | .ok _ =>
      match reveal cs1 s2 H with
      | .error e => .error e
      | .ok (cs2, s3) =>
        let t := retop cs2 0 (s3.top, s3.offset)
        .ok ({ s3 with top := t.1, offset := t.2 }, cs2)

/-! ### histories -/

inductive Op where
  | setCursor (c : Nat)
  | next | prev | wheelDown | wheelUp
  | pending (k : Int)
  | draw (W H : Nat)
deriving DecidableEq, Repr

def step (guard : Bool) (cfg : Cfg) (hs : List Nat) (s : St) : Op → Except Panic St
  | .setCursor c => .ok (setCursor s c)
  | .next => .ok (nextItem hs s).1
  | .prev => .ok (prevItem hs s).1
  | .wheelDown => .ok (wheelDown s).1
  | .wheelUp => .ok (wheelUp s).1
  | .pending k => .ok (setPending s k)
  | .draw W H => match draw guard cfg hs s W H with
    | .ok (s', _) => .ok s'
    | .error e => .error e

def run (guard : Bool) (cfg : Cfg) (hs : List Nat) (s : St) : List Op → Except Panic St
  | [] => .ok s
  | op :: ops => match step guard cfg hs s op with
    | .ok s' => run guard cfg hs s' ops
    | .error e => .error e

end VaxisModel.Model.DynList
