/-
Model of /repo/vxfw/list/list.go (`Dynamic`).

The `Builder` is represented by the list `hs` of the heights of the widgets it returns for the
indices `0, 1, …` (`none` = `nil` past the end); child widgets are stubs of a fixed height, so a
child surface is (index, origin row, height).  Columns play no role.

Go types: `cursor`, `scroll.top` and loop indices are `uint` (64 bit): subtraction wraps
(`usub`), `int(idx)` reinterprets the bits (`toInt`).  `offset`, `pending`, rows and `ah` are `int`
(`Int`).  Index expressions are checked (`Panic`).  Heights are `uint16` in Go; the model assumes
they and their sums stay below 2^16 (the harness keeps them tiny).
-/
namespace VaxisModel.Model.DynList

def U : Nat := 2 ^ 64

/-- `a - b` on `uint`. -/
def usub (a b : Nat) : Nat := (a + U - b % U) % U
/-- `a + b` on `uint`. -/
def uadd (a b : Nat) : Nat := (a + b) % U
/-- `int(u)` for a `uint` on a 64-bit platform. -/
def toInt (u : Nat) : Int := if u < 2 ^ 63 then (u : Int) else (u : Int) - (U : Int)

inductive Panic where
  | unbounded                       -- explicit panic("Dynamic cannot have unbounded height or width")
  | lastOfEmpty                     -- s.Children[len(s.Children)-1] with no children
  | childIndex (i len : Nat)        -- s.Children[idx] out of range
deriving DecidableEq, Repr

structure Cfg where
  gap        : Int
  drawCursor : Bool
deriving DecidableEq, Repr

structure St where
  cursor      : Nat
  top         : Nat
  offset      : Int
  pending     : Int
  wantsCursor : Bool
deriving DecidableEq, Repr

def init : St := { cursor := 0, top := 0, offset := 0, pending := 0, wantsCursor := false }

structure Child where
  idx    : Nat
  row    : Int
  height : Nat
deriving DecidableEq, Repr

/-- `d.Builder(i, cursor)`: `some height` or `none` (nil). -/
def builder (hs : List Nat) (i : Nat) : Option Nat := hs[i]?

/-! ### state-changing methods -/

def ensureScroll (s : St) : St :=
  if s.cursor > s.top then { s with wantsCursor := true }
  else { s with top := s.cursor, offset := 0 }

def setCursor (s : St) (c : Nat) : St := ensureScroll { s with cursor := c }

/-- `NextItem`: returns the state and whether a command was returned. -/
def nextItem (hs : List Nat) (s : St) : St × Bool :=
  match builder hs (uadd s.cursor 1) with
  | none => (s, false)
  | some _ => (ensureScroll { s with cursor := uadd s.cursor 1 }, true)

def prevItem (hs : List Nat) (s : St) : St × Bool :=
  if s.cursor = 0 then (s, false)
  else match builder hs (usub s.cursor 1) with
    | none => (s, false)
    | some _ => (ensureScroll { s with cursor := usub s.cursor 1 }, true)

def wheelDown (s : St) : St × Bool := ({ s with pending := s.pending + 3 }, true)

def wheelUp (s : St) : St × Bool :=
  if s.offset > 0 ∧ s.top > 0 then ({ s with pending := s.pending - 3 }, true) else (s, false)

def setPending (s : St) (k : Int) : St := { s with pending := k }

/-! ### insertChildren -/

/-- The `for ah > 0` loop of `insertChildren`; `fuel` bounds the iterations (`top` decreases).
    Returns (top, ah, children). -/
def insertLoop (hs : List Nat) : Nat → Nat → Int → List Child → Nat × Int × List Child
  | 0, top, ah, acc => (top, ah, acc)
  | fuel + 1, top, ah, acc =>
    if ah > 0 then
      match builder hs top with
      | none => (top, ah, acc)
      | some h =>
        let ah' := ah - (h : Int)
        let acc' := { idx := top, row := ah', height := h } :: acc
        if top = 0 then (top, ah', acc')
        else insertLoop hs fuel (usub top 1) ah' acc'
    else (top, ah, acc)

/-- Rows reassigned from 0 when the first widget was reached below row 0. -/
def restack : Int → List Child → List Child
  | _, [] => []
  | row, c :: cs => { c with row := row } :: restack (row + (c.height : Int)) cs

/-- `insertChildren(ctx, &s, ah)`: new `top`, new `offset`, the children (the surface had none). -/
def insertChildren (hs : List Nat) (top : Nat) (ah : Int) : Nat × Int × List Child :=
  let top0 := usub top 1
  let (top1, ah1, cs) := insertLoop hs (top0 + 1) top0 ah []
  if top1 = 0 ∧ ah1 > 0 then (top1, 0, restack 0 cs) else (top1, ah1, cs)

/-! ### Draw -/

/-- The downward loop over `rest = hs.drop i`.  It stops at the end of the list (Builder returns
    nil), or when enough height is accumulated — unless the cursor still has to be reached. -/
def drawDown (gap : Int) (wants : Bool) (cursor : Nat) (H : Int) :
    List Nat → Nat → Int → List Child → List Child
  | [], _, _, acc => acc
  | h :: rest, i, ah, acc =>
    let acc' := acc ++ [{ idx := i, row := ah, height := h }]
    let ah' := ah + (h : Int) + gap
    let i' := i + 1
    if wants ∧ i' ≤ cursor then drawDown gap wants cursor H rest i' ah' acc'
    else if ah' ≥ H then acc'
    else drawDown gap wants cursor H rest i' ah' acc'

/-- The final loop: `for i, ch := range s.Children { if ch.Origin.Row <= 0 && … > 0 { top += i; offset = -row } }`. -/
def retop : List Child → Nat → Nat × Int → Nat × Int
  | [], _, acc => acc
  | c :: cs, i, (top, off) =>
    if c.row ≤ 0 ∧ c.row + (c.height : Int) > 0 then retop cs (i + 1) (uadd top i, - c.row)
    else retop cs (i + 1) (top, off)

/-- `s.Children[idx]` guarded by `int(idx) < len(s.Children)`: `none` = guard false. -/
def cursorChild (cs : List Child) (cursor top : Nat) : Except Panic (Option Child) :=
  let idx := usub cursor top
  if toInt idx < (cs.length : Int) then
    match cs[idx]? with
    | some c => .ok (some c)
    | none => .error (.childIndex idx cs.length)
  else .ok none

/-- `Draw(ctx)` with `ctx.Max = (W, H)`.  `guard` = the cursor-gutter block tests
    `d.cursor >= d.scroll.top &&` before indexing (regenerated fact `Gen.ListFacts.dynCursorGuard`). -/
def draw (guard : Bool) (cfg : Cfg) (hs : List Nat) (s : St) (W H : Nat) : Except Panic (St × List Child) := do
  if H = 65535 ∨ W = 65535 then throw .unbounded
  let ah0 : Int := - (s.offset + s.pending)
  let s := { s with pending := 0 }
  let (ah1, s) := if ah0 > 0 ∧ s.top = 0 then ((0 : Int), { s with offset := 0 }) else (ah0, s)
  let i := s.top
  let (ah2, s, cs0) ←
    if ah1 > 0 then
      let (top', off', cs) := insertChildren hs s.top ah1
      match cs.getLast? with
      | none => throw .lastOfEmpty
      | some last => pure (last.row + (last.height : Int), { s with top := top', offset := off' }, cs)
    else pure (ah1, s, [])
  let cs1 := drawDown cfg.gap s.wantsCursor s.cursor H (hs.drop i) i ah2 cs0
  -- cursor gutter: replaces the cursored child by a surface of the same origin row and height
  if cfg.drawCursor ∧ (guard = false ∨ s.cursor ≥ s.top) then
    let _ ← cursorChild cs1 s.cursor s.top
  -- bring the cursor into view
  let (cs2, s) ←
    if s.wantsCursor then
      match ← cursorChild cs1 s.cursor s.top with
      | some ch =>
        let bRow := ch.row + (ch.height : Int)
        let cs := if bRow > H then cs1.map fun c => { c with row := c.row + ((H : Int) - bRow) } else cs1
        pure (cs, { s with wantsCursor := false })
      | none => pure (cs1, s)
    else pure (cs1, s)
  let (top', off') := retop cs2 0 (s.top, s.offset)
  pure ({ s with top := top', offset := off' }, cs2)

end VaxisModel.Model.DynList
