import VaxisModel.Model.EdRun
import VaxisModel.Gen.EditorLang

/-! The regenerated programs of the two line editors (the translated bodies of `Gen/EditorLang.lean`
    bundled for `Model/EdRun.lean`): what the C17 driver runs and the `*_body_eq_model` theorems speak about. -/
namespace VaxisModel.Model.EdGen
open VaxisModel.Model.EdRun VaxisModel.Gen.EditorLang

/-- The regenerated TextField. -/
def genTf : TfProg :=
  ⟨tfHandleEvent, tfCheckChanged, tfReset, tfInsertStringAtCursor, tfCursorTo, tfDeleteCharRightOfCursor,
   tfDeleteCharLeftOfCursor, tfDeleteCursorToEndOfLine, tfInsertLoop, tfGraphemeCount, tfDraw, tfDrawCursorKey⟩

/-- The regenerated textinput. -/
def genTi : TiProg := ⟨tiSetContent, tiUpdate, tiResegment, tiIsAlphaNumeric, tiWidthToCursor, tiString, tiCursorPosition⟩

end VaxisModel.Model.EdGen
