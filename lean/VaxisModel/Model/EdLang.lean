/-
A small statement language for the bodies of the two line editors (C17) and an interpreter for it
(core Lean only).  The C17 extractor (`extract/cmd/C17` → `Gen/EditorLang.lean`) translates the
Go functions of `vxfw/textfield/textfield.go` and `widgets/textinput/textinput.go` statement by
statement into this syntax (receiver renamed `tf` / `m`, parameters and locals `p0, p1, …`,
`l0, l1, …` in order of declaration); the models of C17 are tied to those bodies by
`*_body_eq_model` theorems (`Props/C17Body.lean`) and the driver runs the interpreter on them.

Values are dynamically typed.  Anything the translator does not recognise is `E.unknown src` /
`S.unknown src`; evaluating it is the error value — never a default.  Index and slice expressions
are checked (`err` = Go's run-time panic).  Loops take fuel — the size of the environment (clusters / characters held in it) plus two, enough
for every loop of the code at hand: each iteration consumes a cluster or moves an index over the
content — and are `hang` when it runs out; everything else is structural recursion over the syntax.

What the interpreter assumes about the libraries (the same reading as the hand-written models):
`uniseg.FirstGraphemeClusterInString(rest, state)` with the state threaded through yields the
clusters of the string it was started on, one per call (`S.nextCluster`: the first call segments
the string with `cl`, later calls walk that list); `vaxis.Characters` is `cl`; `len(x) > 0` of a
string that is being consumed this way is "a cluster is left".
-/
namespace VaxisModel.Model.EdLang

inductive E where
  | v (x : String)
  | num (n : Int)
  | strLit (s : String)
  | emptyStr
  | builderNew
  | nilV
  | redraw
  | opaque (src : String)
  | add (a b : E)
  | sub (a b : E)
  | cmp (op : String) (a b : E)
  | and (a b : E)
  | or (a b : E)
  | not (a : E)
  | nonEmpty (a : E)
  | len (a : E)
  | str (a : E)
  | chars (a : E)
  | runes (a : E)
  | index (a i : E)
  | slice (a lo hi : E)
  | absent
  | append (a b : E)
  | insert (a i b : E)
  | insert1 (a i b : E)
  | call (f : String) (a b : E)
  | pair (a b : E)
  | fst (a : E)
  | snd (a : E)
  /-- `char.Width` of a drawn character -/
  | width (a : E)
  | tt
  | ff
  | unknown (src : String)
  deriving Repr, Inhabited

mutual
inductive S where
  | assign (x : String) (e : E)
  /-- `x = f(a, b)` for a translated function or a callback -/
  | assignCall (x : String) (f : String) (a b : E)
  | addAssign (x : String) (e : E)
  | subAssign (x : String) (e : E)
  /-- `cluster, rest, _, state = uniseg.FirstGraphemeClusterInString(rest, state)` -/
  | nextCluster (cluster rest : String)
  /-- `b.WriteString(e)` -/
  | write (b : String) (e : E)
  | ite (c : E) (t : B) (e : B)
  /-- `for [c] { body }`, `post` runs after the body and after `continue` (`c = absent`: `for {`) -/
  | loop (c : E) (post : B) (body : B)
  /-- `for _, x := range e { body }` -/
  | range (x : String) (e : E) (body : B)
  | brk
  | cont
  | ret (e : E)
  /-- `return` without a result -/
  | retNone
  /-- `return f(a, b)` -/
  | retCall (f : String) (a b : E)
  /-- `return f(a, b), e2` -/
  | retCallPair (f : String) (a b : E) (e2 : E)
  /-- a call used as a statement -/
  | exprCall (f : String) (a b : E)
  | deferCall (f : String)
  /-- `for _, x := range ctx.Characters(e) { body }`: the characters a cluster is drawn as (known by their widths) -/
  | rangeDrawn (x : String) (e : E) (body : B)
  /-- `for i, x := range e { body }` over characters -/
  | rangeIdx (i x : String) (e : E) (body : B)
  /-- a call whose effect is outside the editor's state (writing a cell of the surface) -/
  | effect (what : String)
  | unknown (src : String)
inductive B where
  | nil
  | cons (s : S) (rest : B)
end

infixr:67 " ;; " => B.cons

def E.hasUnknown : E → Bool
  | .unknown _ => true
  | .add a b | .sub a b | .cmp _ a b | .and a b | .or a b | .index a b | .append a b | .call _ a b | .pair a b =>
    a.hasUnknown || b.hasUnknown
  | .not a | .nonEmpty a | .len a | .str a | .chars a | .runes a | .fst a | .snd a | .width a => a.hasUnknown
  | .slice a b c | .insert a b c | .insert1 a b c => a.hasUnknown || b.hasUnknown || c.hasUnknown
  | _ => false

mutual
def S.hasUnknown : S → Bool
  | .unknown _ => true
  | .assign _ e | .addAssign _ e | .subAssign _ e | .write _ e | .ret e => e.hasUnknown
  | .ite c t e => c.hasUnknown || t.hasUnknown || e.hasUnknown
  | .loop c p b => c.hasUnknown || p.hasUnknown || b.hasUnknown
  | .range _ e b | .rangeDrawn _ e b | .rangeIdx _ _ e b => e.hasUnknown || b.hasUnknown
  | .exprCall _ a b | .assignCall _ _ a b | .retCall _ a b => a.hasUnknown || b.hasUnknown
  | .retCallPair _ a b c => a.hasUnknown || b.hasUnknown || c.hasUnknown
  | _ => false
def B.hasUnknown : B → Bool
  | .nil => false
  | .cons s r => s.hasUnknown || r.hasUnknown
end

/-- A translated function: canonical parameter names and the body. -/
structure Fn where
  params : List String
  body : B

def Fn.fullyRecognised (f : Fn) : Bool := !f.body.hasUnknown

/-- The value a missing function degrades to. -/
def Fn.missing (why : String) : Fn := ⟨[], S.unknown why ;; B.nil⟩

/-! ### values and environments -/

inductive V (A : Type) where
  | num (n : Int)
  /-- a string / `strings.Builder` content / `[]rune`, as atoms (code points) -/
  | str (s : List A)
  /-- a `[]vaxis.Character`, or a string being consumed cluster by cluster -/
  | chars (l : List (List A))
  | bool (b : Bool)
  /-- string constants of the key map (`msg.String()` and the case labels) -/
  | name (s : String)
  /-- a `vxfw.Command`: `nil` or `ConsumeAndRedraw()` -/
  | cmd (redraw : Bool)
  | opaque
  | pair (a b : V A)
  | err (why : String)
  deriving Repr, Inhabited

abbrev Env (A : Type) := List (String × V A)

variable {A : Type}

def getV (env : Env A) (x : String) : V A :=
  match env with
  | [] => .err ("unbound " ++ x)
  | (k, v) :: r => if k = x then v else getV r x

/-- Assign: in place when the variable exists, appended otherwise; the blank identifier keeps nothing. -/
def setV (x : String) (val : V A) (env : Env A) : Env A :=
  if x = "_" then env else
  match env with
  | [] => [(x, val)]
  | (k, v) :: r => if k = x then (k, val) :: r else (k, v) :: setV x val r

inductive Res (A : Type) where
  | ok (env : Env A)
  | brk (env : Env A)
  | cont (env : Env A)
  | ret (env : Env A) (v : V A)
  | err (why : String)
  | hang
  deriving Repr, Inhabited

structure Ctx (A : Type) where
  /-- `uniseg` / `vaxis.Characters` -/
  cl : List A → List (List A)
  /-- `isAlphaNumeric` of a character -/
  isAlnum : List A → Bool
  /-- calls of other translated functions (one layer down): name, arguments, the caller's
      environment ↦ the environment with the receiver's fields updated, the result -/
  call : String → List (V A) → Env A → Option (Env A × V A)
  /-- `ctx.Characters(cluster)` in `Draw`: the widths of the characters a cluster is drawn as -/
  drawW : List A → List Int := fun _ => []
  /-- `unicode.IsLetter`, `unicode.IsNumber` of a code point -/
  isLetter : A → Bool := fun _ => false
  /-- `Width` of a character of the content -/
  charW : List A → Int := fun _ => 0
  isNumber : A → Bool := fun _ => false

def cmpI (op : String) (x y : Int) : V A :=
  if op = "==" then .bool (decide (x = y))
  else if op = "!=" then .bool (decide (x ≠ y))
  else if op = "<" then .bool (decide (x < y))
  else if op = "<=" then .bool (decide (x ≤ y))
  else if op = ">" then .bool (decide (x > y))
  else if op = ">=" then .bool (decide (x ≥ y))
  else .err ("operator " ++ op)

def cmpV [DecidableEq A] (op : String) : V A → V A → V A
  | .num x, .num y => cmpI op x y
  | .str x, .str y =>
    if op = "==" then .bool (decide (x = y)) else if op = "!=" then .bool (decide (x ≠ y)) else .err "string comparison"
  | .name x, .name y =>
    if op = "==" then .bool (decide (x = y)) else if op = "!=" then .bool (decide (x ≠ y)) else .err "string comparison"
  | .cmd x, .cmd y =>
    if op = "==" then .bool (decide (x = y)) else if op = "!=" then .bool (decide (x ≠ y)) else .err "command comparison"
  /- an installed callback / a non-nil interface value compared with `nil` -/
  | .opaque, .cmd false =>
    if op = "==" then .bool false else if op = "!=" then .bool true else .err "nil comparison"
  | _, _ => .err "comparison"

def inRange (l : List (List A)) (i : Int) : Bool := 0 ≤ i && i ≤ l.length

/-- `a[lo:hi]` on a character slice (an absent bound is `none`). -/
def sliceV (l : List (List A)) (lo hi : Option Int) : V A :=
  let lo' := lo.getD 0
  let hi' := hi.getD l.length
  if 0 ≤ lo' ∧ lo' ≤ hi' ∧ hi' ≤ l.length then .chars ((l.take hi'.toNat).drop lo'.toNat)
  else .err "slice bounds out of range"

/-- `len(x) > 0` -/
def nonEmptyV : V A → V A
  | .str s => .bool (!s.isEmpty)
  | .chars l => .bool (!l.isEmpty)
  | _ => .err "len"

def E.isAbsent : E → Bool
  | .absent => true
  | _ => false

def boundV (absent : Bool) (v : V A) : Option (Option Int) :=
  if absent then some none else match v with | .num x => some (some x) | _ => none

def sliceE (a : V A) (loAbs : Bool) (lo : V A) (hiAbs : Bool) (hi : V A) : V A :=
  match a, boundV loAbs lo, boundV hiAbs hi with
  | .chars l, some x, some y => sliceV l x y
  | .str l, some x, some y =>
    -- a `[]rune` (code points)
    let lo' := x.getD 0
    let hi' := y.getD l.length
    if 0 ≤ lo' ∧ lo' ≤ hi' ∧ hi' ≤ l.length then .str ((l.take hi'.toNat).drop lo'.toNat) else .err "slice bounds out of range"
  | _, _, _ => .err "slice"

def evalE [DecidableEq A] (cx : Ctx A) (env : Env A) : E → V A
  | .v x => getV env x
  | .num n => .num n
  | .strLit s => .name s
  | .emptyStr => .str []
  | .builderNew => .str []
  | .nilV => .cmd false
  | .redraw => .cmd true
  | .opaque _ => .opaque
  | .add a b =>
    (match evalE cx env a, evalE cx env b with
     | .num x, .num y => .num (x + y)
     | _, _ => .err "+")
  | .sub a b =>
    (match evalE cx env a, evalE cx env b with
     | .num x, .num y => .num (x - y)
     | _, _ => .err "-")
  | .cmp op a b => cmpV op (evalE cx env a) (evalE cx env b)
  | .and a b =>
    (match evalE cx env a with
     | .bool false => .bool false
     | .bool true => (match evalE cx env b with | .bool y => .bool y | _ => .err "&&")
     | _ => .err "&&")
  | .or a b =>
    (match evalE cx env a with
     | .bool true => .bool true
     | .bool false => (match evalE cx env b with | .bool y => .bool y | _ => .err "||")
     | _ => .err "||")
  | .not a => (match evalE cx env a with | .bool x => .bool (!x) | _ => .err "!")
  | .nonEmpty a => nonEmptyV (evalE cx env a)
  | .len a =>
    (match evalE cx env a with
     | .chars l => .num l.length
     | .str s => .num s.length
     | _ => .err "len")
  | .str a =>
    (match evalE cx env a with
     | .str s => .str s
     | .chars l => .str l.flatten
     | _ => .err "String")
  | .chars a => (match evalE cx env a with | .str s => .chars (cx.cl s) | _ => .err "Characters")
  | .runes a => (match evalE cx env a with | .str s => .str s | _ => .err "[]rune")
  | .index a i =>
    (match evalE cx env a, evalE cx env i with
     | .chars l, .num k => if 0 ≤ k then (match l[k.toNat]? with | some c => .str c | none => .err "index out of range") else .err "index out of range"
     | .str l, .num k => if 0 ≤ k then (match l[k.toNat]? with | some a => .str [a] | none => .err "index out of range") else .err "index out of range"
     | _, _ => .err "index")
  | .slice a lo hi => sliceE (evalE cx env a) lo.isAbsent (evalE cx env lo) hi.isAbsent (evalE cx env hi)
  | .absent => .err "absent"
  | .append a b =>
    (match evalE cx env a, evalE cx env b with
     | .chars x, .chars y => .chars (x ++ y)
     | .str x, .str y => .str (x ++ y)
     | _, _ => .err "append")
  | .insert a i b =>
    (match evalE cx env a, evalE cx env i, evalE cx env b with
     | .chars l, .num k, .chars ins => if inRange l k then .chars (l.take k.toNat ++ ins ++ l.drop k.toNat) else .err "slices.Insert out of range"
     | _, _, _ => .err "slices.Insert")
  | .insert1 a i b =>
    (match evalE cx env a, evalE cx env i, evalE cx env b with
     | .chars l, .num k, .str c => if inRange l k then .chars (l.take k.toNat ++ [c] ++ l.drop k.toNat) else .err "slices.Insert out of range"
     | _, _, _ => .err "slices.Insert")
  | .call f a _ =>
    if f = "isAlphaNumeric" then (match evalE cx env a with | .str c => .bool (cx.isAlnum c) | _ => .err "isAlphaNumeric")
    else if f = "unicode.IsLetter" then (match evalE cx env a with | .str [r] => .bool (cx.isLetter r) | _ => .err "unicode.IsLetter")
    else if f = "unicode.IsNumber" then (match evalE cx env a with | .str [r] => .bool (cx.isNumber r) | _ => .err "unicode.IsNumber")
    else .err ("call in expression: " ++ f)
  | .pair a b => .pair (evalE cx env a) (evalE cx env b)
  | .width a => (match evalE cx env a with | .num w => .num w | .str c => .num (cx.charW c) | _ => .err "Width")
  | .tt => .bool true
  | .ff => .bool false
  | .fst a => (match evalE cx env a with | .pair x _ => x | _ => .err "first result")
  | .snd a => (match evalE cx env a with | .pair _ y => y | _ => .err "second result")
  | .unknown s => .err ("unknown expression " ++ s)

/-- The arguments of a call (`absent` = no argument). -/
def evalArgs [DecidableEq A] (cx : Ctx A) (env : Env A) (a b : E) : List (V A) :=
  if a.isAbsent then [] else if b.isAbsent then [evalE cx env a] else [evalE cx env a, evalE cx env b]

/-- `for cond { body; post }` -/
def loopN (cond : Env A → V A) (body post : Env A → Res A) : Nat → Env A → Res A
  | 0, _ => .hang
  | k + 1, env =>
    match cond env with
    | .bool false => .ok env
    | .bool true =>
      (match body env with
       | .ok env' | .cont env' =>
         (match post env' with
          | .ok env'' => loopN cond body post k env''
          | r => r)
       | .brk env' => .ok env'
       | r => r)
    | _ => .err "loop condition"

/-- `for _, x := range l { body }` -/
def rangeN (x : String) (body : Env A → Res A) : List (V A) → Env A → Res A
  | [], env => .ok env
  | c :: rest, env =>
    match body (setV x c env) with
    | .ok env' | .cont env' => rangeN x body rest env'
    | .brk env' => .ok env'
    | r => r

/-- The number of clusters / characters an environment holds: the fuel of a loop. -/
def vSize (cl : List A → List (List A)) : V A → Nat
  | .str s => (cl s).length
  | .chars l => l.length
  | _ => 0

def envSize (cl : List A → List (List A)) : Env A → Nat
  | [] => 0
  | (_, v) :: r => vSize cl v + envSize cl r

/-- `for i, x := range l { body }` from index `k` on -/
def rangeIdxN (i x : String) (body : Env A → Res A) : Int → List (V A) → Env A → Res A
  | _, [], env => .ok env
  | k, c :: rest, env =>
    match body (setV x c (setV i (.num k) env)) with
    | .ok env' | .cont env' => rangeIdxN i x body (k + 1) rest env'
    | .brk env' => .ok env'
    | r => r

/-- A call statement / call on the right of an assignment: the result and the new environment. -/
def doCall [DecidableEq A] (cx : Ctx A) (env : Env A) (f : String) (a b : E) : Option (Env A × V A) :=
  cx.call f (evalArgs cx env a b) env

mutual
def execS [DecidableEq A] (cx : Ctx A) : S → Env A → Res A
  | .assignCall x f a b, env =>
    (match doCall cx env f a b with
     | some (env', r) => .ok (setV x r env')
     | none => .err ("call " ++ f))
  | .assign x e, env =>
    (match evalE cx env e with
     | .err w => .err w
     | val => .ok (setV x val env))
  | .addAssign x e, env =>
    (match getV env x, evalE cx env e with
     | .num a, .num b => .ok (setV x (.num (a + b)) env)
     | _, _ => .err "+=")
  | .subAssign x e, env =>
    (match getV env x, evalE cx env e with
     | .num a, .num b => .ok (setV x (.num (a - b)) env)
     | _, _ => .err "-=")
  | .nextCluster c r, env =>
    (match getV env r with
     | .str s =>
       (match cx.cl s with
        | [] => .err "FirstGraphemeCluster on an empty string"
        | g :: rest => .ok (setV r (.chars rest) (setV c (.str g) env)))
     | .chars (g :: rest) => .ok (setV r (.chars rest) (setV c (.str g) env))
     | _ => .err "FirstGraphemeCluster")
  | .write b e, env =>
    (match getV env b, evalE cx env e with
     | .str acc, .str s => .ok (setV b (.str (acc ++ s)) env)
     | .str acc, .chars l => .ok (setV b (.str (acc ++ l.flatten)) env)
     | _, _ => .err "WriteString")
  | .ite c t e, env =>
    (match evalE cx env c with
     | .bool true => execB cx t env
     | .bool false => execB cx e env
     | _ => .err "if condition")
  | .loop c post body, env =>
    loopN (fun env => if c.isAbsent then .bool true else evalE cx env c)
      (fun env => execB cx body env) (fun env => execB cx post env) (envSize cx.cl env + 2) env
  | .range x e body, env =>
    (match evalE cx env e with
     | .chars l => rangeN x (fun env => execB cx body env) (l.map V.str) env
     | _ => .err "range")
  | .rangeDrawn x e body, env =>
    (match evalE cx env e with
     | .str c => rangeN x (fun env => execB cx body env) ((cx.drawW c).map V.num) env
     | _ => .err "range ctx.Characters")
  | .rangeIdx i x e body, env =>
    (match evalE cx env e with
     | .chars l => rangeIdxN i x (fun env => execB cx body env) 0 (l.map V.str) env
     | _ => .err "range")
  | .effect _, env => .ok env
  | .brk, env => .brk env
  | .cont, env => .cont env
  | .retCall f a b, env =>
    (match doCall cx env f a b with
     | some (env', r) => .ret env' r
     | none => .err ("call " ++ f))
  | .retCallPair f a b e2, env =>
    (match doCall cx env f a b with
     | some (env', r) => .ret env' (.pair r (evalE cx env' e2))
     | none => .err ("call " ++ f))
  | .retNone, env => .ret env .opaque
  | .ret e, env =>
    (match evalE cx env e with
     | .err w => .err w
     | val => .ret env val)
  | .exprCall f a b, env =>
    (match doCall cx env f a b with
     | some (env', _) => .ok env'
     | none => .err ("call " ++ f))
  | .deferCall f, env =>
    (match getV env "deferred" with
     | .err _ => .ok (setV "deferred" (.name f) env)
     | _ => .err "second defer")
  | .unknown s, _ => .err ("unknown statement " ++ s)
def execB [DecidableEq A] (cx : Ctx A) : B → Env A → Res A
  | .nil, env => .ok env
  | .cons s rest, env =>
    match execS cx s env with
    | .ok env' => execB cx rest env'
    | r => r
end

/-- Run a function: bind the parameters behind the caller's receiver fields `recv` (name ↦ value),
    execute; a deferred call (one, without arguments) runs after the result is computed.
    Result: final environment and returned value (`opaque` when the end of the body is reached). -/
def runFn [DecidableEq A] (cx : Ctx A) (f : Fn) (recv : Env A) (args : List (V A)) : Option (Env A × V A) :=
  if f.params.length ≠ args.length then none else
  let env := recv ++ f.params.zip args
  let fin : Option (Env A × V A) :=
    match execB cx f.body env with
    | .ok env' => some (env', .opaque)
    | .ret env' r => some (env', r)
    | _ => none
  match fin with
  | none => none
  | some (env', r) =>
    match getV env' "deferred" with
    | .name g => (match cx.call g [] env' with | some (env'', _) => some (env'', r) | none => none)
    | _ => some (env', r)

/-- Copy the receiver fields `keys` of `src` into `dst`. -/
def copyBack (keys : List String) (src dst : Env A) : Env A :=
  keys.foldl (fun e k => setV k (getV src k) e) dst

/-- The receiver's fields of an environment. -/
def recvOf (keys : List String) (env : Env A) : Env A := keys.map fun k => (k, getV env k)

end VaxisModel.Model.EdLang
