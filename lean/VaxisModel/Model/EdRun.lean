import VaxisModel.Model.EdLang
import VaxisModel.Model.TextFieldCl
import VaxisModel.Model.TextInputCl

/-!
The two line editors as the interpreter of `Model/EdLang.lean` run on translated function bodies
(core Lean only).  A program is the bundle of translated functions (`TfProg`, `TiProg`; the
regenerated ones are `Gen.EditorLang.*`, bundled in `Props/C17Body.lean` and `Driver/C17.lean`);
calls between the functions are resolved layer by layer (no recursion in the code at hand).
-/
namespace VaxisModel.Model.EdRun
open VaxisModel.Model.EdLang

variable {A : Type} [DecidableEq A]

/-! ### TextField -/

structure TfProg where
  handleEvent : Fn
  checkChanged : Fn
  reset : Fn
  insertString : Fn
  cursorTo : Fn
  delRight : Fn
  delLeft : Fn
  kill : Fn
  insertLoop : Fn
  count : Fn
  draw : Fn
  /-- the variable `Draw` keeps the cursor column in -/
  drawKey : String

abbrev tfKeys : List String := ["tf.Value", "tf.cursor", "tf.n"]

open VaxisModel.Model.TextFieldCl (TF) in
def envOfTF (tf : TF A) : Env A :=
  [("tf.Value", .str tf.value), ("tf.cursor", .num tf.cursor), ("tf.n", .num tf.n)]

open VaxisModel.Model.TextFieldCl (TF) in
def tfOfEnv (env : Env A) : Option (TF A) :=
  match getV env "tf.Value", getV env "tf.cursor", getV env "tf.n" with
  | .str v, .num c, .num n => some ⟨v, c.toNat, n.toNat⟩
  | _, _, _ => none

/-- Call a method of the receiver: it runs on the receiver's fields, which are copied back. -/
def callMethod (cx : Ctx A) (keys : List String) (f : Fn) (args : List (V A)) (env : Env A) : Option (Env A × V A) :=
  match runFn cx f (recvOf keys env) args with
  | some (env', r) => some (copyBack keys env' env, r)
  | none => none

def cxBase (cl : List A → List (List A)) : Ctx A := { cl := cl, isAlnum := fun _ => false, call := fun _ _ _ => none }

/-- layer 0: `graphemeCountInString` -/
def tfCall0 (P : TfProg) (cl : List A → List (List A)) (f : String) (args : List (V A)) (env : Env A) : Option (Env A × V A) :=
  if f = "graphemeCountInString" then callMethod (cxBase cl) [] P.count args env else none

def tfCx1 (P : TfProg) (cl : List A → List (List A)) : Ctx A := { cl := cl, isAlnum := fun _ => false, call := tfCall0 P cl }

/-- layer 1: the functions that call nothing but `graphemeCountInString` -/
def tfCall1 (P : TfProg) (cl : List A → List (List A)) (f : String) (args : List (V A)) (env : Env A) : Option (Env A × V A) :=
  if f = "insertStringAtCursor" then callMethod (tfCx1 P cl) tfKeys P.insertLoop args env
  else if f = "Reset" then callMethod (tfCx1 P cl) tfKeys P.reset args env
  else if f = "CursorTo" then callMethod (tfCx1 P cl) tfKeys P.cursorTo args env
  else if f = "DeleteCharRightOfCursor" then callMethod (tfCx1 P cl) tfKeys P.delRight args env
  else if f = "DeleteCharLeftOfCursor" then callMethod (tfCx1 P cl) tfKeys P.delLeft args env
  else if f = "DeleteCursorToEndOfLine" then callMethod (tfCx1 P cl) tfKeys P.kill args env
  else tfCall0 P cl f args env

def tfCx2 (P : TfProg) (cl : List A → List (List A)) : Ctx A := { cl := cl, isAlnum := fun _ => false, call := tfCall1 P cl }

/-- The callbacks installed by the application: they are logged (newest first) and return
    `(nil, nil)`. -/
def callback (kind : String) (args : List (V A)) (env : Env A) : Option (Env A × V A) :=
  match args with
  | [.str v] => some (setV "log" (.pair (.pair (.name kind) (.str v)) (getV env "log")) env, .pair (.cmd false) (.cmd false))
  | _ => none

/-- layer 2: `InsertStringAtCursor`, `checkChanged` (calls the `OnChange` callback) -/
def tfCall2 (P : TfProg) (cl : List A → List (List A)) (f : String) (args : List (V A)) (env : Env A) : Option (Env A × V A) :=
  if f = "InsertStringAtCursor" then callMethod (tfCx2 P cl) tfKeys P.insertString args env
  else if f = "OnChange" then callback "change" args env
  else if f = "OnSubmit" then callback "submit" args env
  else tfCall1 P cl f args env

def tfCx3 (P : TfProg) (cl : List A → List (List A)) : Ctx A := { cl := cl, isAlnum := fun _ => false, call := tfCall2 P cl }

abbrev tfKeysCb : List String := tfKeys ++ ["tf.OnChange", "tf.OnSubmit", "log"]

def tfCall3 (P : TfProg) (cl : List A → List (List A)) (f : String) (args : List (V A)) (env : Env A) : Option (Env A × V A) :=
  if f = "checkChanged" then callMethod (tfCx3 P cl) tfKeysCb P.checkChanged args env
  else tfCall2 P cl f args env

def tfCx4 (P : TfProg) (cl : List A → List (List A)) : Ctx A := { cl := cl, isAlnum := fun _ => false, call := tfCall3 P cl }

open VaxisModel.Model.TextFieldCl (TF) in
/-- An API call on a `TextField` through the translated bodies: the new state and the result. -/
def tfApi (P : TfProg) (cl : List A → List (List A)) (f : String) (args : List (V A)) (tf : TF A) : Option (TF A × V A) :=
  match tfCall2 P cl f args (envOfTF tf) with
  | some (env, r) => (tfOfEnv env).map (·, r)
  | none => none

open VaxisModel.Model.TextField (KeyEv) in
/-- The event a key press is for `HandleEvent`: its dynamic type, `EventType`, `Text` and the
    verdicts of the `Matches` conditions in source order. -/
def keyEnv (ev : KeyEv A) : Env A :=
  [("p0.type", .name "vaxis.Key"),
   ("p0.EventType", .name (if ev.release then "vaxis.EventRelease" else "vaxis.EventPress")),
   ("p0.Text", .str ev.text),
   ("match0", .bool ev.home), ("match1", .bool ev.toEnd), ("match2", .bool ev.right), ("match3", .bool ev.left),
   ("match4", .bool ev.delRight), ("match5", .bool ev.delLeft), ("match6", .bool ev.kill), ("match7", .bool ev.enter)]

/-- The callback log of an environment, oldest first. -/
def logOf : V A → List (String × List A)
  | .pair (.pair (.name k) (.str v)) rest => logOf rest ++ [(k, v)]
  | _ => []

open VaxisModel.Model.TextFieldCl (TF) in
open VaxisModel.Model.TextField (KeyEv) in
/-- `HandleEvent` for a key event with both callbacks installed: new state and the callbacks. -/
def tfHandleKey (P : TfProg) (cl : List A → List (List A)) (tf : TF A) (ev : KeyEv A) : Option (TF A × List (String × List A)) :=
  let env : Env A := envOfTF tf ++ [("tf.OnChange", .opaque), ("tf.OnSubmit", .opaque), ("log", .opaque)] ++ keyEnv ev
  match runFn (tfCx4 P cl) P.handleEvent env [.opaque, .opaque] with
  | some (env', _) => (tfOfEnv env').map (·, logOf (getV env' "log"))
  | none => none

open VaxisModel.Model.TextFieldCl (TF) in
open VaxisModel.Model.TextField (KeyEv) in
/-- `HandleEvent` for a key event when the application installed NO callbacks (`OnChange == nil`, `OnSubmit == nil`). -/
def tfHandleKeyNoCb (P : TfProg) (cl : List A → List (List A)) (tf : TF A) (ev : KeyEv A) : Option (TF A × List (String × List A)) :=
  let env : Env A := envOfTF tf ++ [("tf.OnChange", .cmd false), ("tf.OnSubmit", .cmd false), ("log", .opaque)] ++ keyEnv ev
  match runFn (tfCx4 P cl) P.handleEvent env [.opaque, .opaque] with
  | some (env', _) => (tfOfEnv env').map (·, logOf (getV env' "log"))
  | none => none

open VaxisModel.Model.TextFieldCl (TF) in
/-- `Draw` through the translated body, reduced to what is observed of it: `none` = the interpreter has no
    meaning for a statement; `some none` = no cursor (a zero-sized surface); `some (some c)` = `s.Cursor.Col`
    (as an integer: Go's `uint16` arithmetic is this value modulo 65536).  `drawW` = the widths of the characters
    `ctx.Characters` draws a cluster as. -/
def tfDrawCol (P : TfProg) (cl : List A → List (List A)) (drawW : List A → List Int) (tf : TF A) (w h : Int) : Option (Option Int) :=
  let cx : Ctx A := { cl := cl, isAlnum := fun _ => false, call := fun _ _ _ => none, drawW := drawW }
  match runFn cx P.draw (envOfTF tf ++ [("tf.Style", .opaque), ("p0.Max.Width", .num w), ("p0.Max.Height", .num h)]) [.opaque] with
  | some (env, _) =>
    some (match getV env P.drawKey with
          | .num c => some c
          | _ => none)
  | none => none

/-! ### textinput.Model -/

structure TiProg where
  setContent : Fn
  update : Fn
  resegment : Fn
  isAlnum : Fn
  widthToCursor : Fn
  string : Fn
  cursorPosition : Fn

abbrev tiKeys : List String := ["m.content", "m.cursor", "m.offset", "m.paste"]

open VaxisModel.Model.TextInputCl (TIC) in
def envOfTI (m : TIC A) : Env A :=
  [("m.content", .chars m.content), ("m.cursor", .num m.cursor), ("m.offset", .num m.offset), ("m.paste", .str m.paste)]

open VaxisModel.Model.TextInputCl (TIC) in
def tiOfEnv (env : Env A) : Option (TIC A) :=
  match getV env "m.content", getV env "m.cursor", getV env "m.offset", getV env "m.paste" with
  | .chars c, .num cur, .num off, .str p => some ⟨c, cur, off, p⟩
  | _, _, _, _ => none

def tiCx0 (cl : List A → List (List A)) (isAlnum : List A → Bool) : Ctx A := { cl := cl, isAlnum := isAlnum, call := fun _ _ _ => none }

/-- layer 0: `resegment` -/
def tiCall0 (P : TiProg) (cl : List A → List (List A)) (isAlnum : List A → Bool) (f : String) (args : List (V A)) (env : Env A) :
    Option (Env A × V A) :=
  if f = "resegment" then callMethod (tiCx0 cl isAlnum) tiKeys P.resegment args env else none

def tiCx1 (P : TiProg) (cl : List A → List (List A)) (isAlnum : List A → Bool) : Ctx A := { cl := cl, isAlnum := isAlnum, call := tiCall0 P cl isAlnum }

open VaxisModel.Model.TextInputCl (Ev) in
/-- The event as `Update` sees it: dynamic type, `EventType`, `Text`, `String()`, the modifier tests. -/
def evEnv : Ev A → Env A
  | .pasteEnd => [("p0.type", .name "vaxis.PasteEndEvent")]
  | .release => [("p0.type", .name "vaxis.Key"), ("p0.EventType", .name "vaxis.EventRelease")]
  | .pasteKey t => [("p0.type", .name "vaxis.Key"), ("p0.EventType", .name "vaxis.EventPaste"), ("p0.Text", .str t)]
  | .key s c a sup t =>
    [("p0.type", .name "vaxis.Key"), ("p0.EventType", .name "vaxis.EventPress"), ("p0.Text", .str t), ("p0.String()", .name s),
     ("p0.mod.ModCtrl", .bool c), ("p0.mod.ModAlt", .bool a), ("p0.mod.ModSuper", .bool sup)]
  | .other => [("p0.type", .name "other")]

open VaxisModel.Model.TextInputCl (TIC Ev) in
/-- `Update` through the translated bodies (`none`: a run-time panic — or a statement without meaning). -/
def tiRunUpdate (P : TiProg) (cl : List A → List (List A)) (isAlnum : List A → Bool) (m : TIC A) (ev : Ev A) : Option (TIC A) :=
  match runFn (tiCx1 P cl isAlnum) P.update (envOfTI m ++ evEnv ev) [.opaque] with
  | some (env', _) => tiOfEnv env'
  | none => none

open VaxisModel.Model.TextInputCl (TIC) in
/-- `SetContent` through the translated body. -/
def tiRunSetContent (P : TiProg) (cl : List A → List (List A)) (isAlnum : List A → Bool) (m : TIC A) (s : List A) : Option (TIC A) :=
  match runFn (tiCx0 cl isAlnum) P.setContent (envOfTI m) [.str s] with
  | some (env', _) => tiOfEnv env'
  | none => none

/-- `isAlphaNumeric` of a character through the translated body (`none`: the index expression `runes[0]` panics — an
    empty grapheme, which `vaxis.Characters` never yields). `isLetter` / `isNumber` = `unicode.IsLetter` / `IsNumber`. -/
def tiIsAlnumI (P : TiProg) (isLetter isNumber : A → Bool) (c : List A) : Option Bool :=
  let cx : Ctx A := { cl := fun _ => [], isAlnum := fun _ => false, call := fun _ _ _ => none, isLetter := isLetter, isNumber := isNumber }
  match runFn cx P.isAlnum [("p0.Grapheme", .str c)] [.opaque] with
  | some (_, .bool b) => some b
  | _ => none

/-- `widthToCursor(chars, cursor, offset)` through the translated body (`charW` = the `Width` of a character). -/
def tiWidthToCursorI (P : TiProg) (charW : List A → Int) (chars : List (List A)) (cursor offset : Int) : Option Int :=
  let cx : Ctx A := { cl := fun _ => [], isAlnum := fun _ => false, call := fun _ _ _ => none, charW := charW }
  match runFn cx P.widthToCursor [] [.chars chars, .num cursor, .num offset] with
  | some (_, .num w) => some w
  | _ => none

open VaxisModel.Model.TextInputCl (TIC) in
/-- `String()` and `CursorPosition()` — what the harness observes of the widget — through the translated bodies. -/
def tiStringI (P : TiProg) (m : TIC A) : Option (List A) :=
  match runFn (tiCx0 (fun _ => []) (fun _ => false)) P.string (envOfTI m) [] with
  | some (_, .str s) => some s
  | _ => none

open VaxisModel.Model.TextInputCl (TIC) in
def tiCursorPositionI (P : TiProg) (m : TIC A) : Option Int :=
  match runFn (tiCx0 (fun _ => []) (fun _ => false)) P.cursorPosition (envOfTI m) [] with
  | some (_, .num c) => some c
  | _ => none

end VaxisModel.Model.EdRun
