/-
Model of the embedded terminal emulator (widgets/term: term.go, csi.go, esc.go, c0.go, mode.go,
osc.go, sgr.go, cell.go) as a pure machine over *parsed* sequences.

* Go `int`/`row`/`column` are `Int` (negative values do arise). Every index / slice expression of
  the Go code is a checked access (`getI`/`setI`) whose failure is the value `Panic.oob`.
* Loops whose trip count is a parameter (`cnl`, `cpl`) refuse more than `hangLimit` iterations
  with `Panic.hang`.
* The functions are transcribed AS THEY ARE in /repo, including their defects. `Fixes` names the
  repairs that were committed to /repo as `fix:` commits: `Fixes.current` is the code as it is now
  (validated by the correspondence check on every run); a `Fixes` with one flag off is the code
  before that commit (used by `Witness/Fnn.lean` to prove that the defect was real).
* Dispatch goes through `Gen.TermModes` (regenerated from the source on every run): the model
  matches exhaustively on the generated arm enums.
Core Lean only.
-/
import VaxisModel.Gen.TermModes
import VaxisModel.Model.EmuState

namespace VaxisModel.Model.Emu
open VaxisModel.Gen.TermModes

/-! ### checked accesses -/

def getI {α : Type} (l : List α) (i : Int) : M α :=
  if 0 ≤ i then
    match l[i.toNat]? with
    | some x => .ok x
    | none => .error .oob
  else .error .oob

def setI {α : Type} (l : List α) (i : Int) (x : α) : M (List α) :=
  if 0 ≤ i ∧ i.toNat < l.length then .ok (l.set i.toNat x) else .error .oob

/-- `g[r][c] = f(g[r][c])` -/
def modCell (g : Grid) (r c : Int) (f : ECell → ECell) : M Grid := do
  let row ← getI g r
  let x ← getI row c
  let row' ← setI row c (f x)
  setI g r row'

/-- `copy(g[dst], g[src])` -/
def copyRow (g : Grid) (dst src : Int) : M Grid := do
  let d ← getI g dst
  let s ← getI g src
  setI g dst (s.take d.length ++ d.drop s.length)

/-! ### loops

A loop that would run more than `hangLimit` iterations is a hang: the model runs `hangLimit`
iterations (a panic inside them is still a panic) and then answers `Panic.hang`. -/

def hangLimit : Nat := 1000000

/-- `for i := lo; i <= hi; i++ { s = body i s }` (bounds fixed at entry). -/
def forUpGo {σ : Type} (body : Int → σ → M σ) : Nat → Int → σ → M σ
  | 0, _, s => .ok s
  | n + 1, i, s => do
    let s' ← body i s
    forUpGo body n (i + 1) s'

def forUp {σ : Type} (lo hi : Int) (body : Int → σ → M σ) (s : σ) : M σ :=
  let n := (hi + 1 - lo).toNat
  if n ≤ hangLimit then forUpGo body n lo s
  else do
    let _ ← forUpGo body hangLimit lo s
    .error .hang

/-- `for i := hi; i >= lo; i-- { s = body i s }`. -/
def forDownGo {σ : Type} (body : Int → σ → M σ) : Nat → Int → σ → M σ
  | 0, _, s => .ok s
  | n + 1, i, s => do
    let s' ← body i s
    forDownGo body n (i - 1) s'

def forDown {σ : Type} (hi lo : Int) (body : Int → σ → M σ) (s : σ) : M σ :=
  let n := (hi + 1 - lo).toNat
  if n ≤ hangLimit then forDownGo body n hi s
  else do
    let _ ← forDownGo body hangLimit hi s
    .error .hang

/-- Loop with `break`: the body returns `(s, true)` to go on, `(s, false)` to leave the loop.
    The result flag is `true` iff the loop left through `break`. -/
def forUpBrkGo {σ : Type} (body : Int → σ → M (σ × Bool)) : Nat → Int → σ → M (σ × Bool)
  | 0, _, s => .ok (s, false)
  | n + 1, i, s => do
    let (s', go) ← body i s
    if go then forUpBrkGo body n (i + 1) s' else .ok (s', true)

def forUpBrk {σ : Type} (lo hi : Int) (body : Int → σ → M (σ × Bool)) (s : σ) : M σ :=
  let n := (hi + 1 - lo).toNat
  if n ≤ hangLimit then do
    let (s', _) ← forUpBrkGo body n lo s
    .ok s'
  else do
    let (s', broke) ← forUpBrkGo body hangLimit lo s
    if broke then .ok s' else .error .hang

/-- `n` repetitions of `f` (for `cnl`/`cpl`). -/
def repeatGo {σ : Type} (f : σ → M σ) : Nat → σ → M σ
  | 0, s => .ok s
  | n + 1, s => do
    let s' ← f s
    repeatGo f n s'

def repeatN {σ : Type} (f : σ → M σ) (n : Nat) (s : σ) : M σ :=
  if n ≤ hangLimit then repeatGo f n s
  else do
    let _ ← repeatGo f hangLimit s
    .error .hang

/-- erase `g[r][lo..hi]` (inclusive) -/
def eraseCols (g : Grid) (r lo hi : Int) (bg : Nat) : M Grid :=
  forUp lo hi (fun c g => modCell g r c (·.erase bg)) g

/-! ### term.go: scrollUp / scrollDown -/

def scrollUp (e : Emu) (n : Int) : M Emu := do
  let g ← forUp 0 (e.height - 1) (fun row g =>
    if row > e.bottom then .ok g
    else if row < e.top then .ok g
    else if row + n > e.bottom then eraseCols g row e.left e.right e.bg
    else copyRow g row (row + n)) e.active
  .ok (e.setActive g)

def scrollDown (e : Emu) (n : Int) : M Emu := do
  let g ← forDown e.bottom e.top (fun r g =>
    if r - n < e.top then eraseCols g r e.left e.right e.bg
    else copyRow g r (r - n)) e.active
  .ok (e.setActive g)

/-! ### esc.go: IND NEL RI -/

def ind (e : Emu) : M Emu :=
  let e := { e with lastCol := false }
  if e.cur.row = e.bottom then scrollUp e 1
  else if e.cur.row ≥ e.height - 1 then .ok e
  else .ok { e with cur := { e.cur with row := e.cur.row + 1 } }

def nel (e : Emu) : M Emu := do
  let e ← ind e
  .ok { e with cur := { e.cur with col := e.left } }

def ri (fx : Fixes) (e : Emu) : M Emu :=
  let e := { e with lastCol := false }
  if fx.f105f then
    if e.cur.row = e.top then scrollDown e 1
    else if e.cur.row ≤ 0 then .ok e
    else .ok { e with cur := { e.cur with row := e.cur.row - 1 } }
  else
    if e.cur.row < 0 then .ok e
    else if e.cur.row = e.top then scrollDown e 1
    else .ok { e with cur := { e.cur with row := e.cur.row - 1 } }

/-! ### term.go: print -/

def lookupSpecial (b : Nat) : Option G := (decSpecial.find? (·.1 = b)).map (·.2)

def print (fx : Fixes) (e : Emu) (g0 : G) (w : Nat) : M Emu := do
  -- charset translation
  let g : G :=
    match g0 with
    | [b] => if e.cs.desig e.cs.sel = 1 then (lookupSpecial b).getD g0 else g0
    | _ => g0
  let e := if e.cs.ss then { e with cs := { e.cs with sel := e.cs.saved } } else e
  let wi : Int := w
  let wrap := (e.lastCol || decide (e.cur.col + wi - 1 > e.right)) && e.mode.decawm
  let e ← if wrap then do
      let e := { e with lastCol := false }
      let g' ← modCell e.active e.cur.row (e.width - 1) (fun c => { c with wrapped := true })
      nel (e.setActive g')
    else .ok e
  let col := e.cur.col
  let rw := e.cur.row
  let e ← if e.mode.irm then do
      let line ← getI e.active rw
      let line' ← forDown e.right (if fx.f16 then col + wi else col + 1) (fun i line => do
          let x ← getI line (i - wi)
          setI line i x) line
      let g' ← setI e.active rw line'
      .ok (e.setActive g')
    else .ok e
  let col := if col > e.width - 1 then e.width - 1 else col
  let rw := if rw > e.height - 1 then e.height - 1 else rw
  if w = 0 then .ok e
  else do
    let cell : ECell := { g := g, w := w, st := e.cur.st }
    let row ← getI e.active rw
    let row' ← setI row col cell
    let g1 ← setI e.active rw row'
    -- trailing cells of a wide glyph
    let g2 ← forUpBrk 1 (wi - 1) (fun i gr =>
      if col + i > e.right then .ok (gr, false)
      else do
        let gr' ← modCell gr rw (col + i) (fun c => { c with g := [32], st := e.cur.st })
        .ok (gr', true)) g1
    let e := e.setActive g2
    let e :=
      if !e.mode.decawm && decide (e.cur.col + wi > e.right) then e
      else { e with cur := { e.cur with col := e.cur.col + wi } }
    let e :=
      if fx.f105c && decide (e.cur.col > e.right + 1) then { e with cur := { e.cur with col := e.right + 1 } } else e
    .ok (if decide (e.cur.col ≥ e.right + 1) && e.mode.decawm then { e with lastCol := true } else e)

/-! ### csi.go -/

/-- ps(params) -/
def ps (params : List Param) : Int :=
  match params with
  | [] => 0
  | p :: _ => p.1

def dflt1 (n : Int) : Int := if n = 0 then 1 else n

def blankCell : ECell := { g := [32], w := 1 }

def ich (fx : Fixes) (e : Emu) (n : Int) : M Emu := do
  let n := dflt1 n
  let col := e.cur.col
  let row := e.cur.row
  let line ← getI e.active row
  let line1 ← forDown e.right (if fx.f21 then col + n else col + 1) (fun i line =>
    if !fx.f21 && decide (i - n < 0) then .ok line
    else do
      let x ← getI line (i - n)
      setI line i x) line
  let line2 ← forUpBrk 0 (n - 1) (fun i line =>
    if (if fx.f21 then decide (col + i > e.right) else decide (col + i ≥ e.width - 1)) then .ok (line, false)
    else do
      let l ← setI line (col + i) (if fx.f21 then ({} : ECell).erase e.bg else blankCell)
      .ok (l, true)) line1
  let g ← setI e.active row line2
  .ok (e.setActive g)

def cuu (e : Emu) (n : Int) : Emu :=
  let e := { e with lastCol := false }
  let n := dflt1 n
  let clamp : Int := if e.cur.row ≥ e.top then e.top else 0
  let r := e.cur.row - n
  { e with cur := { e.cur with row := if r < clamp then clamp else r } }

def cud (fx : Fixes) (e : Emu) (n : Int) : Emu :=
  let e := { e with lastCol := false }
  let n := dflt1 n
  let clamp : Int := if fx.f106b && !decide (e.cur.row ≤ e.bottom) then e.height - 1 else e.bottom
  let r := e.cur.row + n
  { e with cur := { e.cur with row := if r > clamp then clamp else r } }

def cuf (e : Emu) (n : Int) : Emu :=
  let e := { e with lastCol := false }
  let n := dflt1 n
  let c := e.cur.col + n
  { e with cur := { e.cur with col := if c > e.right then e.right else c } }

def cub (e : Emu) (n : Int) : Emu :=
  let e := { e with lastCol := false }
  let n := dflt1 n
  let c := e.cur.col - n
  { e with cur := { e.cur with col := if c < e.left then e.left else c } }

def cnl (fx : Fixes) (e : Emu) (n : Int) : M Emu :=
  if fx.f54 then
    let e := cud fx e n
    .ok { e with cur := { e.cur with col := e.left } }
  else
    let e := { e with lastCol := false }
    let n := dflt1 n
    repeatN nel n.toNat e

def cpl (fx : Fixes) (e : Emu) (n : Int) : M Emu := do
  if fx.f54 then
    let e := cuu e n
    .ok { e with cur := { e.cur with col := e.left } }
  else
    let e := { e with lastCol := false }
    let n := dflt1 n
    let e ← repeatN (ri fx) n.toNat e
    .ok { e with cur := { e.cur with col := e.left } }

def cha (e : Emu) (n : Int) : Emu :=
  let e := { e with lastCol := false }
  let n := dflt1 n
  let c := n - 1
  let c := if c > e.right then e.right else c
  let c := if c < e.left then e.left else c
  { e with cur := { e.cur with col := c } }

def cup (fx : Fixes) (e : Emu) (pm : List Param) : Emu :=
  let e := { e with lastCol := false }
  let (r, c) : Int × Int :=
    match pm with
    | [] => (0, 0)
    | [a] => (a.1 - 1, 0)
    | [a, b] => (a.1 - 1, b.1 - 1)
    | a :: b :: _ => if fx.f106d then (a.1 - 1, b.1 - 1) else (e.cur.row, e.cur.col)
  let c := if c > e.width - 1 then e.width - 1 else c
  let r := if r > e.height - 1 then e.height - 1 else r
  let c := if fx.f15 && decide (c < 0) then 0 else c
  let r := if fx.f15 && decide (r < 0) then 0 else r
  { e with cur := { e.cur with row := r, col := c } }

/-- the loop of cht over the tab stops: state (col, n, stopped) -/
def chtLoop (n : Int) : List Int → Int → Int → Int
  | [], col, _ => col
  | ts :: rest, col, k =>
    if k = n then col
    else if col > ts then chtLoop n rest col k
    else chtLoop n rest ts (k + 1)

def cht (fx : Fixes) (e : Emu) (n : Int) : Emu :=
  let e := { e with lastCol := false }
  let n := dflt1 n
  let c := chtLoop n e.tabs e.cur.col 0
  let c := if fx.f105b && decide (c > e.right) then e.right else c
  { e with cur := { e.cur with col := c } }

def ed (e : Emu) (n : Int) : M Emu :=
  if n = 0 then do
    let e := { e with lastCol := false }
    let g ← forUp e.cur.row (e.height - 1) (fun r g =>
      forUp 0 (e.width - 1) (fun col g =>
        if r = e.cur.row ∧ col < e.cur.col then .ok g
        else modCell g r col (·.erase e.bg)) g) e.active
    .ok (e.setActive g)
  else if n = 1 then do
    let e := { e with lastCol := false }
    let g ← forUp 0 e.cur.row (fun r g =>
      forUpBrk 0 (e.width - 1) (fun col g =>
        if r = e.cur.row ∧ col > e.cur.col then .ok (g, false)
        else do
          let g' ← modCell g r col (·.erase e.bg)
          .ok (g', true)) g) e.active
    .ok (e.setActive g)
  else if n = 2 then do
    let e := { e with lastCol := false }
    let g ← forUp 0 (e.height - 1) (fun r g =>
      forUp 0 (e.width - 1) (fun col g => modCell g r col (·.erase e.bg)) g) e.active
    .ok (e.setActive g)
  else .ok e

def el (fx : Fixes) (e : Emu) (n : Int) : M Emu := do
  let r := e.cur.row
  let e := { e with lastCol := false }
  if n = 0 then
    let g ← eraseCols e.active r e.cur.col (e.width - 1) e.bg
    .ok (e.setActive g)
  else if n = 1 then
    let hi := if fx.f105a && decide (e.cur.col ≥ e.width) then e.width - 1 else e.cur.col
    let g ← eraseCols e.active r 0 hi e.bg
    .ok (e.setActive g)
  else if n = 2 then
    let g ← eraseCols e.active r 0 (e.width - 1) e.bg
    .ok (e.setActive g)
  else .ok e

def ilClamp (fx : Fixes) (e : Emu) (n : Int) : Int :=
  let n := dflt1 n
  if fx.f22 then (if e.bottom - e.cur.row + 1 < n then e.bottom - e.cur.row + 1 else n)
  else if e.bottom - e.cur.row < n - 1 then e.bottom - e.cur.row else n

def il (fx : Fixes) (e : Emu) (n : Int) : M Emu := do
  let e := { e with lastCol := false }
  if e.cur.row < e.top ∨ e.cur.row > e.bottom ∨ e.cur.col < e.left ∨ e.cur.col > e.right then .ok e
  else
    let n := ilClamp fx e n
    let g ← forDown e.bottom (e.cur.row + n) (fun r g => copyRow g r (r - n)) e.active
    let g ← forUp 0 (n - 1) (fun r g => eraseCols g (e.cur.row + r) e.left e.right e.bg) g
    .ok { (e.setActive g) with cur := { e.cur with col := e.left } }

def dl (fx : Fixes) (e : Emu) (n : Int) : M Emu := do
  let e := { e with lastCol := false }
  if e.cur.row < e.top ∨ e.cur.row > e.bottom ∨ e.cur.col < e.left ∨ e.cur.col > e.right then .ok e
  else
    let n := ilClamp fx e n
    let g ← forUp e.cur.row e.bottom (fun r g =>
      if r ≤ e.bottom - n then copyRow g r (r + n)
      else eraseCols g r e.left e.right e.bg) e.active
    .ok { (e.setActive g) with cur := { e.cur with col := e.left } }

def dch (e : Emu) (n : Int) : M Emu := do
  let e := { e with lastCol := false }
  let n := dflt1 n
  let row := e.cur.row
  let g ← forUp e.cur.col e.right (fun col g =>
    if col + n > e.right then modCell g row col (·.erase e.bg)
    else do
      let r ← getI g row
      let x ← getI r (col + n)
      let r' ← setI r col x
      setI g row r') e.active
  .ok (e.setActive g)

def ech (e : Emu) (n : Int) : M Emu := do
  let e := { e with lastCol := false }
  let n := dflt1 n
  let g ← forUpBrk 0 (n - 1) (fun i g =>
    if e.cur.col + i = e.width then .ok (g, false)
    else do
      let g' ← modCell g e.cur.row (e.cur.col + i) (·.erase e.bg)
      .ok (g', true)) e.active
  .ok (e.setActive g)

/-- the loop of cbt, over the tab stops from the last one down: state (col, n) -/
def cbtLoop (n : Int) : List Int → Int → Int → Int
  | [], col, _ => col
  | ts :: rest, col, k =>
    if k = n then col
    else if col < ts then col
    else cbtLoop n rest ts (k + 1)

def cbt (e : Emu) (n : Int) : Emu :=
  let e := { e with lastCol := false }
  let n := dflt1 n
  { e with cur := { e.cur with col := cbtLoop n e.tabs.reverse e.cur.col 0 } }

def tbc (e : Emu) (n : Int) : Emu :=
  if n = 0 then { e with tabs := e.tabs.filter (fun t => t ≠ e.cur.col) }
  else if n = 3 then { e with tabs := [] }
  else e

def vpa (fx : Fixes) (e : Emu) (n : Int) : Emu :=
  let e := { e with lastCol := false }
  let n := dflt1 n
  let r := n - 1
  let c := if fx.f106a && decide (e.cur.col > e.right) then e.right else e.cur.col
  { e with cur := { e.cur with row := if r > e.height - 1 then e.height - 1 else r, col := c } }

def vpr (e : Emu) (n : Int) : Emu :=
  let e := { e with lastCol := false }
  let n := dflt1 n
  let r := e.cur.row + n
  { e with cur := { e.cur with row := if r > e.height - 1 then e.height - 1 else r } }

def hpa (e : Emu) (n : Int) : Emu :=
  let e := { e with lastCol := false }
  let n := dflt1 n
  let c := n - 1
  { e with cur := { e.cur with col := if c > e.width - 1 then e.width - 1 else c } }

def hpr (e : Emu) (n : Int) : Emu :=
  let e := { e with lastCol := false }
  let n := dflt1 n
  let c := e.cur.col + n
  { e with cur := { e.cur with col := if c > e.width - 1 then e.width - 1 else c } }

def rep (fx : Fixes) (e : Emu) (n : Int) : M Emu := do
  let e := { e with lastCol := false }
  let col := e.cur.col
  if col = 0 then .ok e
  else
    let row ← getI e.active e.cur.row
    let ch ← getI row (col - 1)
    let g ← forUpBrk 0 (n - 1) (fun i g =>
      if (if fx.f105a then decide (col + i ≥ e.right) else decide (col + i = e.right)) then .ok (g, false)
      else do
        let g' ← modCell g e.cur.row (e.cur.col + i) (fun c => { c with g := ch.g, w := ch.w })
        .ok (g', true)) e.active
    .ok (e.setActive g)

def decstbm (fx : Fixes) (e : Emu) (pm : List Param) : Emu :=
  let h := e.height
  let tb : Int × Int :=
    match pm with
    | [] => (0, h - 1)
    | [a] => (a.1 - 1, h - 1)
    | [a, b] => (a.1 - 1, b.1 - 1)
    | a :: b :: _ => if fx.f106d then (a.1 - 1, b.1 - 1) else (0, 0)
  let top := if fx.f17 && decide (tb.1 < 0) then 0 else tb.1
  let bot := if fx.f17 && (decide (tb.2 < 0) || decide (tb.2 > h - 1)) then h - 1 else tb.2
  match (top, bot) with
  | (top, bot) =>
    if top ≥ bot then e
    else { e with lastCol := false, top := top, bottom := bot, cur := { e.cur with row := 0, col := 0 } }

/-! ### esc.go: DECSC DECRC RIS HTS -/

def decsc (e : Emu) : Emu :=
  let st : Saved := { cur := e.cur, decawm := e.mode.decawm, decom := e.mode.decom,
                      cs := { sel := e.cs.sel, saved := e.cs.saved, ss := false,
                              g0 := e.cs.g0, g1 := e.cs.g1, g2 := e.cs.g2, g3 := e.cs.g3 } }
  if e.mode.smcup then { e with savedA := st } else { e with savedP := st }

def decrc (e : Emu) : Emu :=
  let st := if e.mode.smcup then e.savedA else e.savedP
  { e with cur := st.cur,
           cs := { sel := st.cs.sel, saved := st.cs.saved, ss := false,
                   g0 := st.cs.g0, g1 := st.cs.g1, g2 := st.cs.g2, g3 := st.cs.g3 },
           mode := { e.mode with decawm := st.decawm, decom := st.decom },
           lastCol := false }

def risF (fx : Fixes) (e : Emu) : Emu :=
  let w := e.width
  let h := e.height
  { e with alt := blankGrid w.toNat h.toNat, primary := blankGrid w.toNat h.toNat,
           top := if fx.f106e then 0 else e.top, bottom := h - 1, right := w - 1,
           cur := { e.cur with row := 0, col := 0, st := if fx.f106e then {} else e.cur.st },
           savedP := if fx.f106e then {} else e.savedP, savedA := if fx.f106e then {} else e.savedA,
           lastCol := false, altActive := false,
           cs := {}, mode := { decawm := true, dectcem := true }, tabs := defaultTabs }

/-- ris() as it is now -/
def ris (e : Emu) : Emu := risF Fixes.current e

def hts (e : Emu) : Emu := { e with tabs := e.tabs ++ [e.cur.col] }

/-! ### c0.go -/

def bs (fx : Fixes) (e : Emu) : Emu :=
  let e := { e with lastCol := false }
  if e.cur.col = e.left then
    if e.cur.row = e.top || (fx.f105e && decide (e.cur.row = 0)) then e
    else { e with cur := { e.cur with col := e.right, row := e.cur.row - 1 } }
  else { e with cur := { e.cur with col := e.cur.col - 1 } }

def lf (e : Emu) : M Emu := do
  let e ← ind e
  .ok (if !e.mode.lnm then e else { e with cur := { e.cur with col := e.left } })

def cr (e : Emu) : Emu := { e with lastCol := false, cur := { e.cur with col := e.left } }

/-! ### mode.go -/

def lookupMode (t : List (Int × ModeField)) (n : Int) : Option ModeField := (t.find? (·.1 = n)).map (·.2)

def smOne (tab : List (Int × ModeField)) (b : Bool) (e : Emu) (p : Param) : Emu :=
  match lookupMode tab p.1 with
  | some f => { e with mode := e.mode.set f b }
  | none => e

def sm (e : Emu) (pm : List Param) : Emu := pm.foldl (smOne smTable true) e
def rm (e : Emu) (pm : List Param) : Emu := pm.foldl (smOne rmTable false) e

def decsetOne (fx : Fixes) (e : Emu) (p : Param) : M Emu :=
  match lookupMode decsetTable p.1 with
  | some f => .ok { e with mode := e.mode.set f true }
  | none =>
    if p.1 = 7 then .ok { e with mode := { e.mode with decawm := true }, lastCol := false }
    else if p.1 = 1049 then do
      let e := decsc e
      let e := { e with altActive := true }
      let e ← if fx.f106c then ed e 2 else .ok e
      .ok { e with mode := { e.mode with smcup := true, altScroll := true } }
    else .ok e

def decset (fx : Fixes) (e : Emu) (pm : List Param) : M Emu := pm.foldlM (decsetOne fx) e

def decrstOne (e : Emu) (p : Param) : M Emu :=
  match lookupMode decrstTable p.1 with
  | some f => .ok { e with mode := e.mode.set f false }
  | none =>
    if p.1 = 7 then .ok { e with mode := { e.mode with decawm := false }, lastCol := false }
    else if p.1 = 1049 then do
      let e ← if e.mode.smcup then ed e 2 else .ok e
      let e := { e with altActive := false, mode := { e.mode with smcup := false, altScroll := false } }
      .ok (decrc e)
    else .ok e

def decrst (e : Emu) (pm : List Param) : M Emu := pm.foldlM decrstOne e

/-! ### sgr.go -/

def u8 (n : Int) : Nat := (n % 256).toNat
def indexedBit : Nat := 2 ^ 24
def rgbBit : Nat := 2 ^ 25
def indexColor (n : Int) : Nat := u8 n + indexedBit
def rgbColor (r g b : Int) : Nat := u8 r * 65536 + u8 g * 256 + u8 b + rgbBit

def attrOn (s : EStyle) (bit : Nat) : EStyle := { s with attr := s.attr ||| bit }
def attrOff (s : EStyle) (bit : Nat) : EStyle := { s with attr := s.attr &&& (255 - bit) }

inductive ColSlot where
  | fg | bg | ul
  deriving DecidableEq, Repr

def setCol (s : EStyle) (slot : ColSlot) (c : Nat) : EStyle :=
  match slot with
  | .fg => { s with fg := c }
  | .bg => { s with bg := c }
  | .ul => { s with ul := c }

/-- The shared body of `case 38/48/58`. Returns the new pen and how many *extra* parameters were
    consumed, or `none` for "malformed: return from sgr". -/
def sgrExt (s : EStyle) (slot : ColSlot) (p : Param) (rest : List Param) : M (Option (EStyle × Nat)) :=
  match p.len with
  | 1 =>
    -- len(params[i:]) = 1 + rest.length
    if rest.length + 1 < 3 then .ok none
    else match rest with
      | k :: r1 =>
        if k.1 = 2 then
          if rest.length + 1 < 5 then .ok none
          else match r1 with
            | a :: b :: c :: _ => .ok (some (setCol s slot (rgbColor a.1 b.1 c.1), 4))
            | _ => .error .oob
        else if k.1 = 5 then
          match r1 with
          | a :: _ => .ok (some (setCol s slot (indexColor a.1), 2))
          | _ => .error .oob
        else .ok none
      | [] => .error .oob
  | 3 => do
    let k ← p.get 1
    if k ≠ 5 then .ok none
    else
      let v ← p.get 2
      .ok (some (setCol s slot (indexColor v), 0))
  | 5 => do
    let k ← p.get 1
    if k ≠ 2 then .ok none
    else
      let r ← p.get 2
      let g ← p.get 3
      let b ← p.get 4
      .ok (some (setCol s slot (rgbColor r g b), 0))
  | 6 => do
    let k ← p.get 1
    if k ≠ 2 then .ok none
    else
      let r ← p.get 3
      let g ← p.get 4
      let b ← p.get 5
      .ok (some (setCol s slot (rgbColor r g b), 0))
  | _ => .ok (some (s, 0))

/-- One iteration of the loop of sgr(): returns the pen and the number of extra parameters to skip,
    `none` = return. -/
def sgrOne (s : EStyle) (p : Param) (rest : List Param) : M (Option (EStyle × Nat)) :=
  let n := p.1
  if n = 0 then .ok (some ({ s with attr := 0, fg := 0, bg := 0, ul := 0, ulStyle := 0 }, 0))
  else if n = 1 then .ok (some (attrOn s attrBold, 0))
  else if n = 2 then .ok (some (attrOn s attrDim, 0))
  else if n = 3 then .ok (some (attrOn s attrItalic, 0))
  else if n = 4 then
    match p.len with
    | 1 => .ok (some ({ s with ulStyle := underlineSingle }, 0))
    | 2 => do
      let k ← p.get 1
      .ok (some ((if k = 0 then { s with ulStyle := underlineOff }
        else if k = 1 then { s with ulStyle := underlineSingle }
        else if k = 2 then { s with ulStyle := underlineDouble }
        else if k = 3 then { s with ulStyle := underlineCurly }
        else if k = 4 then { s with ulStyle := underlineDotted }
        else if k = 5 then { s with ulStyle := underlineDashed }
        else s), 0))
    | _ => .ok (some (s, 0))
  else if n = 5 then .ok (some (attrOn s attrBlink, 0))
  else if n = 7 then .ok (some (attrOn s attrReverse, 0))
  else if n = 8 then .ok (some (attrOn s attrInvisible, 0))
  else if n = 9 then .ok (some (attrOn s attrStrikethrough, 0))
  else if n = 22 then .ok (some (attrOff (attrOff s attrBold) attrDim, 0))
  else if n = 23 then .ok (some (attrOff s attrItalic, 0))
  else if n = 24 then .ok (some ({ s with ulStyle := underlineOff }, 0))
  else if n = 25 then .ok (some (attrOff s attrBlink, 0))
  else if n = 27 then .ok (some (attrOff s attrReverse, 0))
  else if n = 28 then .ok (some (attrOff s attrInvisible, 0))
  else if n = 29 then .ok (some (attrOff s attrStrikethrough, 0))
  else if 30 ≤ n ∧ n ≤ 37 then .ok (some ({ s with fg := indexColor (n - 30) }, 0))
  else if n = 38 then sgrExt s .fg p rest
  else if n = 39 then .ok (some ({ s with fg := 0 }, 0))
  else if 40 ≤ n ∧ n ≤ 47 then .ok (some ({ s with bg := indexColor (n - 40) }, 0))
  else if n = 48 then sgrExt s .bg p rest
  else if n = 49 then .ok (some ({ s with bg := 0 }, 0))
  else if n = 58 then sgrExt s .ul p rest
  else if n = 59 then .ok (some ({ s with ul := 0 }, 0))
  else if 90 ≤ n ∧ n ≤ 97 then .ok (some ({ s with fg := indexColor (n - 90 + 8) }, 0))
  else if 100 ≤ n ∧ n ≤ 107 then .ok (some ({ s with bg := indexColor (n - 100 + 8) }, 0))
  else .ok (some (s, 0))

def sgrLoop : Nat → EStyle → List Param → M EStyle
  | 0, s, _ => .ok s
  | _, s, [] => .ok s
  | fuel + 1, s, p :: rest => do
    match ← sgrOne s p rest with
    | none => .ok s
    | some (s', skip) => sgrLoop fuel s' (rest.drop skip)

def sgr (e : Emu) (pm : List Param) : M Emu := do
  let pm := if pm.isEmpty then [((0 : Int), ([] : List Int))] else pm
  let s ← sgrLoop (pm.length + 1) e.cur.st pm
  .ok { e with cur := { e.cur with st := s } }

/-! ### osc.go -/

/-- cutString(s, ";") -/
def cutSemi (s : List Nat) : List Nat × List Nat × Bool :=
  match s.span (· ≠ 59) with
  | (a, []) => (a, [], false)
  | (a, _ :: b) => (a, b, true)

/-- returns the state and the number of events posted -/
def osc (fx : Fixes) (e : Emu) (data : List Nat) (info : OscInfo) : M (Emu × Nat) :=
  let (sel, val, found) := cutSemi data
  if !found then .ok (e, 0)
  else if sel = [48] ∨ sel = [50] then .ok (e, 1)                 -- "0", "2": title
  else if sel = [56] then                                          -- "8"
    if e.osc8 then
      let (params, url, found) := cutSemi val
      if !found then .ok (e, 0)
      else .ok ({ e with cur := { e.cur with st := { e.cur.st with link := url, linkParams := params } } }, 0)
    else .ok (e, 0)
  else if sel = [57] then .ok (e, 1)                               -- "9": notify
  else if sel = [49, 49] then .ok (e, 0)                           -- "11": reply only
  else if sel = [53, 50] then                                      -- "52"
    if fx.f105d && !e.hasVx then .ok (e, 0)
    else if !info.b64ok then .ok (e, 0)
    else if e.hasVx then .ok (e, 0) else .error .oob               -- vt.vx.ClipboardPush on nil
  else if sel = [55, 55, 55] then                                  -- "777"
    let (sel2, val2, found2) := cutSemi val
    if !found2 then .ok (e, 0)
    else if sel2 = [110, 111, 116, 105, 102, 121] then             -- "notify"
      let (_, _, found3) := cutSemi val2
      if !found3 then .ok (e, 0) else .ok (e, 1)
    else .ok (e, 0)
  else .ok (e, 0)

/-! ### dispatch (csi.go csi(), esc.go esc(), c0.go c0()) -/

def lookupArm {α : Type} (t : List (List Nat × α × ArgKind)) (label : List Nat) : Option α :=
  (t.find? (·.1 = label)).map (·.2.1)

def maxParam : Int := 65535

def clampParam (n : Int) : Int := if n < 0 ∨ n > maxParam then maxParam else n

def clampParams (pm : List Param) : List Param := pm.map (fun p => (clampParam p.1, p.2.map clampParam))

def csi (fx : Fixes) (e : Emu) (label : List Nat) (pm0 : List Param) : M Emu :=
  let pm := if fx.f18 then clampParams pm0 else pm0
  match lookupArm csiTable label with
  | none => .ok e
  | some arm =>
    match arm with
    | .ich => ich fx e (ps pm)
    | .cuu => .ok (cuu e (ps pm))
    | .cud => .ok (cud fx e (ps pm))
    | .cuf => .ok (cuf e (ps pm))
    | .cub => .ok (cub e (ps pm))
    | .cnl => cnl fx e (ps pm)
    | .cpl => cpl fx e (ps pm)
    | .cha => .ok (cha e (ps pm))
    | .cup => .ok (cup fx e pm)
    | .cht => .ok (cht fx e (ps pm))
    | .ed => ed e (ps pm)
    | .el => el fx e (ps pm)
    | .il => il fx e (ps pm)
    | .dl => dl fx e (ps pm)
    | .dch => dch e (ps pm)
    | .arm_53 => scrollUp e (dflt1 (ps pm))
    | .arm_54 => if pm.length = 5 then .ok e else scrollDown e (dflt1 (ps pm))
    | .ech => ech e (ps pm)
    | .cbt => .ok (cbt e (ps pm))
    | .hpa => .ok (hpa e (ps pm))
    | .hpr => .ok (hpr e (ps pm))
    | .rep => rep fx e (ps pm)
    | .arm_63 => .ok e            -- DA1: reply only
    | .arm_3e63 => .ok e          -- DA2: reply only
    | .vpa => .ok (vpa fx e (ps pm))
    | .vpr => .ok (vpr e (ps pm))
    | .tbc => .ok (tbc e (ps pm))
    | .sm => .ok (sm e pm)
    | .decset => decset fx e pm
    | .rm => .ok (rm e pm)
    | .decrst => decrst e pm
    | .sgr => sgr e pm
    | .arm_6e => .ok e            -- DSR: reply only
    | .arm_2470 => .ok e
    | .decrqm => .ok e            -- reply only
    | .decstbm => .ok (decstbm fx e pm)
    | .decsc => .ok (decsc e)
    | .decrc => .ok (decrc e)
    | .arm_2071 => .ok { e with cur := { e.cur with shape := ps pm } }

def esc (fx : Fixes) (e : Emu) (label : List Nat) : M Emu :=
  match lookupArm escTable label with
  | none => .ok e
  | some arm =>
    match arm with
    | .decsc => .ok (decsc e)
    | .decrc => .ok (decrc e)
    | .ind => ind e
    | .nel => nel e
    | .hts => .ok (hts e)
    | .ri => ri fx e
    | .arm_4e => .ok { e with cs := { e.cs with ss := true, sel := 2 } }
    | .arm_4f => .ok { e with cs := { e.cs with ss := true, sel := 3 } }
    | .arm_3d => .ok { e with mode := { e.mode with deckpam := true, deckpnm := false } }
    | .arm_3e => .ok { e with mode := { e.mode with deckpnm := true, deckpam := false } }
    | .ris => .ok (risF fx e)
    | .arm_2830 => .ok { e with cs := { e.cs with g0 := 1 } }
    | .arm_2930 => .ok { e with cs := { e.cs with g1 := 1 } }
    | .arm_2a30 => .ok { e with cs := { e.cs with g2 := 1 } }
    | .arm_2b30 => .ok { e with cs := { e.cs with g3 := 1 } }
    | .arm_2842 => .ok { e with cs := { e.cs with g0 := 0 } }
    | .arm_2942 => .ok { e with cs := { e.cs with g1 := 0 } }
    | .arm_2a42 => .ok { e with cs := { e.cs with g2 := 0 } }
    | .arm_2b42 => .ok { e with cs := { e.cs with g3 := 0 } }
    | .arm_2338 => .ok e

/-- returns the state and the number of events posted -/
def c0 (fx : Fixes) (e : Emu) (r : Nat) : M (Emu × Nat) :=
  match lookupArm c0Table [r] with
  | none => .ok (e, 0)
  | some arm =>
    match arm with
    | .arm_07 => .ok (e, 1)
    | .bs => .ok (bs fx e, 0)
    | .ht => .ok (cht fx e 1, 0)
    | .lf => do .ok (← lf e, 0)
    | .vt => do .ok (← lf e, 0)
    | .ff => do .ok (← lf e, 0)
    | .cr => .ok (cr e, 0)
    | .arm_0e => .ok ({ e with cs := { e.cs with sel := 1 } }, 0)
    | .arm_0f => .ok ({ e with cs := { e.cs with sel := 2 } }, 0)

/-! ### term.go: resize -/

def reflowRow (fx : Fixes) (e : Emu) (cells : Row) : M (Emu × Bool) :=
  cells.foldlM (fun (acc : Emu × Bool) cell => do
    let e := { acc.1 with cur := { acc.1.cur with st := cell.st } }
    let e ← print fx e cell.g cell.w
    .ok (e, cell.wrapped)) (e, false)

def reflow (fx : Fixes) (last : Int) : List Row → Nat → Emu → M Emu
  | [], _, e => .ok e
  | r :: rest, k, e =>
    if (k : Int) = last then .ok e
    else do
      let (e, wrapped) ← reflowRow fx e r
      let e ← if !wrapped then nel e else .ok e
      reflow fx last rest (k + 1) e

def resize (fx : Fixes) (e : Emu) (w h : Int) : M Emu :=
  if w < 0 ∨ h < 0 then .error .oob          -- make([]cell, negative) panics
  else do
    let old := e.primary
    let last := e.cur.row
    let clampSaved (s : Saved) : Saved :=
      if fx.f19 then
        { s with cur := { s.cur with row := if s.cur.row > h - 1 then h - 1 else s.cur.row,
                                     col := if s.cur.col > w - 1 then w - 1 else s.cur.col } }
      else s
    let e := { e with alt := blankGrid w.toNat h.toNat, primary := blankGrid w.toNat h.toNat,
                      savedP := clampSaved e.savedP, savedA := clampSaved e.savedA,
                      bottom := h - 1, right := w - 1, top := if fx.f19 then 0 else e.top,
                      cur := { e.cur with row := 0, col := 0 }, lastCol := false, altActive := false }
    let pen := e.cur.st
    let e ← reflow fx last old 0 e
    let e := if fx.f112c then { e with cur := { e.cur with st := pen } } else e
    .ok { e with altActive := e.mode.smcup }

/-! ### update(): one parsed sequence -/

/-- The state after the operation and the number of events it posted. -/
def emuStepF (fx : Fixes) (e : Emu) : EOp → M (Emu × Nat)
  | .print g w => do .ok (← print fx e g w, 0)
  | .c0 r => c0 fx e r
  | .esc l => do .ok (← esc fx e l, 0)
  | .csi l pm => do .ok (← csi fx e l pm, 0)
  | .osc d info => osc fx e d info
  | .dcs => .ok (e, 0)
  | .apc => .ok (e, 1)
  | .resize w h => do .ok (← resize fx e w h, 0)

def emuStep (e : Emu) (op : EOp) : M (Emu × Nat) := emuStepF Fixes.current e op

/-- New() followed by resize(w,h), as StartWithSize and the VerifNew hook do. -/
def Emu.init : Emu := { tabs := defaultTabs }

def Emu.new (fx : Fixes) (w h : Int) : M Emu := resize fx Emu.init w h

def runOps (e : Emu) : List EOp → M Emu
  | [] => .ok e
  | op :: rest => do
    let (e', _) ← emuStep e op
    runOps e' rest

end VaxisModel.Model.Emu
