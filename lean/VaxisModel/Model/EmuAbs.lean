/-
Abstraction of the emulator state to the reference terminal (`abs : Emu → Spec.Term.T`) and the
translation of the emulator's parsed operations to the reference vocabulary (`tokOf`), for C06.
Core Lean only.
-/
import VaxisModel.Model.EmuState
import VaxisModel.Spec.Term

namespace VaxisModel.Model.EmuAbs
open VaxisModel.Model.Emu VaxisModel.Spec VaxisModel.Gen.TermModes

/-- vaxis.Color → terminal colour: 0 = default, bit 24 = palette index, bit 25 = direct colour. -/
def absCol (c : Nat) : Col :=
  if c / 2 ^ 24 % 2 = 1 then .idx (c % 256)
  else if c / 2 ^ 25 % 2 = 1 then .rgb (c / 65536 % 256) (c / 256 % 256) (c % 256)
  else .default

def hasBit (attr bit : Nat) : Bool := attr / bit % 2 = 1

def absStyle (s : EStyle) : TStyle :=
  { fg := absCol s.fg, bg := absCol s.bg, ul := absCol s.ul, ulStyle := s.ulStyle,
    bold := hasBit s.attr attrBold, dim := hasBit s.attr attrDim, italic := hasBit s.attr attrItalic,
    blink := hasBit s.attr attrBlink, reverse := hasBit s.attr attrReverse,
    hidden := hasBit s.attr attrInvisible, strike := hasBit s.attr attrStrikethrough }

/-- One cell, on its own: an erased / never written cell is blank with its stored background. -/
def absCell (c : ECell) : Term.TCell :=
  if c.g = [] then .blank (absCol c.st.bg) else .glyph c.g c.w (absStyle c.st) c.st.link

/-- Cell by cell (used to COMPARE with the reference: the reference's `cont` accepts anything). -/
def absRow (r : Row) : Term.TRow := r.map absCell

/-- With shadowing: the cell after a width-2 glyph is its `cont` half (used to CONTINUE the reference
    from an emulator state). -/
def absRowShadow : Row → Term.TRow
  | [] => []
  | c :: rest =>
    if c.g ≠ [] ∧ c.w ≥ 2 then
      match rest with
      | _ :: rest' => absCell c :: .cont :: absRowShadow rest'
      | [] => [absCell c]
    else absCell c :: absRowShadow rest

def absSaved (s : Saved) (cols : Nat) : Term.SavedCursor :=
  { row := s.cur.row.toNat, col := min s.cur.col.toNat (cols - 1), pw := decide (s.cur.col.toNat ≥ cols),
    pen := absStyle s.cur.st, link := s.cur.st.link }

def absWith (rowF : Row → Term.TRow) (e : Emu) : Term.T :=
  let rows := e.height.toNat
  let cols := e.width.toNat
  { rows := rows, cols := cols, primary := e.primary.map rowF, alt := e.alt.map rowF,
    onAlt := e.altActive, row := e.cur.row.toNat, col := min e.cur.col.toNat (cols - 1),
    pw := decide (e.cur.col.toNat ≥ cols), pen := absStyle e.cur.st, link := e.cur.st.link,
    top := e.top.toNat, bottom := e.bottom.toNat,
    savedP := some (absSaved e.savedP cols), savedA := some (absSaved e.savedA cols),
    cursorVisible := e.mode.dectcem, cursorShape := e.cur.shape.toNat }

/-- The abstraction used for comparison. -/
def abs (e : Emu) : Term.T := absWith absRow e
/-- The abstraction used to continue the reference from an emulator state. -/
def absShadow (e : Emu) : Term.T := absWith absRowShadow e

/-- A parameter list of plain non-negative values (no sub-parameters), else `none`. -/
def plainParams (pm : List Param) : Option (List Nat) :=
  pm.mapM fun p => if p.2 = [] ∧ 0 ≤ p.1 then some p.1.toNat else none

def nth0 (l : List Nat) (k : Nat) : Nat := l.getD k 0

/-- SGR parameters of the vocabulary. Outside it (not judged — DEC VT and xterm differ or do not
    define them): 6 (rapid blink: ECMA-48 only), 21 (xterm: double underline, DEC: undefined, Linux
    console: bold off), negative values and values above 255 (colour components / indices out of range). -/
def sgrParams (pm : List Param) : Option (List (List Nat)) :=
  pm.mapM fun p =>
    if 0 ≤ p.1 ∧ p.1 ≠ 6 ∧ p.1 ≠ 21 ∧ p.1 ≤ 255 ∧ p.2.all (fun v => decide (0 ≤ v) && decide (v ≤ 255)) then
      some (p.1.toNat :: p.2.map Int.toNat)
    else none

/-- The reference token of an emulator operation; `none` = outside the vocabulary of C06. -/
def tokOf : EOp → Option Term.Tok
  | .print g w => some (.print g w)
  | .c0 13 => some .cr
  | .c0 10 => some .lf
  | .c0 11 => some .lf
  | .c0 12 => some .lf
  | .esc [68] => some .ind
  | .esc [69] => some .nel
  | .esc [77] => some .ri
  | .esc [55] => some .decsc
  | .esc [56] => some .decrc
  | .csi [109] pm => (sgrParams pm).map .sgr
  | .csi [63, 104] [(1049, [])] => some .altOn
  | .csi [63, 108] [(1049, [])] => some .altOff
  | .csi [f] pm =>
    match plainParams pm with
    | none => none
    | some ps =>
      if ps.length > 2 then none
      else if f = 72 ∨ f = 102 then some (.cup (nth0 ps 0) (nth0 ps 1))
      else if f = 114 then some (.decstbm (nth0 ps 0) (nth0 ps 1))
      else if ps.length > 1 then none
      else
        let n := nth0 ps 0
        if f = 71 ∨ f = 96 then some (.cha n)
        else if f = 100 then some (.vpa n)
        else if f = 65 then some (.cuu n)
        else if f = 66 then some (.cud n)
        else if f = 67 then some (.cuf n)
        else if f = 68 then some (.cub n)
        else if f = 69 then some (.cnl n)
        else if f = 70 then some (.cpl n)
        else if f = 75 then some (.el n)
        else if f = 74 then some (.ed n)
        else if f = 88 then some (.ech n)
        else if f = 64 then some (.ich n)
        else if f = 80 then some (.dch n)
        else if f = 76 then some (.il n)
        else if f = 77 then some (.dl n)
        else if f = 83 then some (.su n)
        else if f = 84 then some (.sd n)
        else none
  | _ => none

/-! ### extension (round 2): long parameter lists, cursor visibility and shape

The functions with ONE numeric parameter read only the first parameter (`ps(params)`); further
parameters are ignored, as DEC STD 070 and xterm do. `firstOnly` keeps that first parameter.
Outside, still: a first parameter with colon sub-parameters (xterm accepts `:` in SGR only; the
emulator takes the main value — terminal specific); CUP/HVP and DECSTBM with more than two
parameters (xterm uses the first two, the emulator ignores the sequence: noted in notes/C06.md);
`CSI 5-parameter T` (xterm: mouse-highlight tracking, ignored by both). -/

def firstOnly (pm : List Param) : List Param :=
  match pm with
  | [] => []
  | p :: _ => [(p.1, p.2)]

/-- Final bytes of the one-parameter functions of the vocabulary. -/
def onePs : List Nat := [64, 65, 66, 67, 68, 69, 70, 71, 74, 75, 76, 77, 80, 83, 84, 88, 96, 100]

/-- Final bytes of the two-parameter functions of the vocabulary: CUP, HVP, DECSTBM. Parameters after the
    second are ignored (ECMA-48 / DEC STD 070: a control function uses the parameters it defines; xterm does
    the same) — round 3, finding F106d: the emulator ignored the whole sequence. -/
def twoPs : List Nat := [72, 102, 114]

/-- `s` cut at its first `;` (59): what is before and what is after it; `none` without a `;`. -/
def splitSemi (s : List Nat) : Option (List Nat × List Nat) :=
  match s.span (· ≠ 59) with
  | (_, []) => none
  | (a, _ :: b) => some (a, b)

/-- `OSC 8 ; params ; url ST` (round 3): the payload is `8;params;url`, `params` without `;`. -/
def osc8Tok (payload : List Nat) : Option Term.Tok :=
  match splitSemi payload with
  | some ([56], rest) =>
    match splitSemi rest with
    | some (params, url) => some (.osc8 params url)
    | none => none
  | _ => none

/-- `tokOf`, extended: any number of parameters for the one-parameter functions; `CSI ? 25 h/l`;
    `CSI n SP q` (n ≤ 65535 — the emulator clamps a larger value). -/
def tokOfX : EOp → Option Term.Tok
  | .csi [63, 104] [(25, [])] => some (.showCursor true)
  | .csi [63, 108] [(25, [])] => some (.showCursor false)
  | .csi [32, 113] [(n, [])] => if 0 ≤ n ∧ n ≤ 65535 then some (.cursorShape n.toNat) else none
  | .csi [f] pm =>
    if f ∈ onePs ∧ (f = 84 → pm.length ≠ 5) then tokOf (.csi [f] (firstOnly pm))
    else if f ∈ twoPs ∧ pm.length > 2 then tokOf (.csi [f] (pm.take 2))
    else tokOf (.csi [f] pm)
  | .osc payload _ => osc8Tok payload
  | .esc [99] => some .ris
  | op => tokOf op

/-! ### round 4: colon sub-parameters outside SGR

`Spec.Term` decides: a DEC VT and xterm IGNORE a CSI control function other than SGR whose parameter string contains a colon.
`tokOfJ` is the vocabulary the oracle judges: `tokOfX`, plus `Tok.ignored` for the one- and two-parameter functions of the
vocabulary (`onePs`, `twoPs`) carrying a sub-parameter anywhere. The emulator does NOT ignore these sequences — it executes the
function on the main values (`Props.C06.emu_subparams_ignored`): finding F106f, recorded, with `Witness/F106f.lean`. The
refinement theorems stay on `tokOfX` (= `tokOfJ` minus exactly that region). -/

def hasSub (pm : List Param) : Bool := pm.any (fun p => !p.2.isEmpty)

def tokOfJ : EOp → Option Term.Tok
  | .csi [f] pm => if (f ∈ onePs ∨ f ∈ twoPs) ∧ hasSub pm = true then some .ignored else tokOfX (.csi [f] pm)
  | op => tokOfX op

end VaxisModel.Model.EmuAbs
