/-
Meaning of the statement language of `Model/EmuBodyLang.lean` (the translated bodies of the control
functions of widgets/term) in the vocabulary of the hand-written model `Model/Emu.lean`:
checked accesses `getI`/`setI`/`modCell`/`copyRow`, the loop combinators `forUp`/`forDown`/`forUpBrk`
(trip count fixed at loop entry, more than `hangLimit` iterations = hang), `Panic` values.

Conventions (each is a syntactic side condition checked by `Body.wf`, proved for all generated
bodies by `bodies_wf` in Props/C05Bodies.lean):
* a `for` body only touches cells of `vt.activeScreen` (no assignment to locals, cursor, margins
  inside loops), so the loop bounds, `vt.width()`, `vt.height()`, the pen and all places read inside
  a loop are those at loop entry (cell writes and `copy` never change a slice length);
* `return` inside a loop is only allowed when the loop is the last statement of the function (then
  it is a `break`), never inside a nested loop;
* `break`/`continue` only inside loops.
`pm[k][0]` is a checked access: a statement that evaluates it with `k ≥ len(pm)` is `Panic.oob`.
Core Lean only.
-/
import VaxisModel.Model.Emu
import VaxisModel.Model.EmuBodyLang

namespace VaxisModel.Model.EmuBody
open VaxisModel.Gen.TermModes VaxisModel.Model.Emu

/-- The mutable part: the emulator and the function's int locals. -/
structure Frame where
  e : Emu
  vars : Nat → Int
  /-- the grapheme being printed (print() only) -/
  g : G := []
  /-- the cell local `ch` (rep() only) -/
  cell : ECell := {}
  /-- the tab stop of the enclosing loop over vt.tabStop -/
  tab : Int := 0
  /-- the local slice `tabs` (tbc() only) -/
  acc : List Int := []
  /-- the local `primary` (resize() only): the primary screen before the resize -/
  old : Grid := []
  /-- the local `pen` (resize() only): the pen before the reflow -/
  pen : EStyle := {}
  /-- `param[0]` of the enclosing loop over the parameter list -/
  param : Int := 0
  /-- the local `state` of decsc()/decrc() -/
  state : Saved := {}
  /-- sgr(): the parameter list after `if len(params) == 0 { params = [][]int{{0}} }` -/
  pmOv : Option (List Param) := none
  /-- sgr(): `params[i]`, `params[i+1:]` and the extra increment of `i` in the current iteration of `forSgr` -/
  curP : Param := (0, [])
  restP : List Param := []
  skip : Nat := 0
  /-- osc(): string locals (UTF-8 bytes; local 0 is the parameter `data`), events posted, the inputs of the call -/
  strs : Nat → List Nat := fun _ => []
  events : Nat := 0
  info : OscInfo := {}
  hostEmpty : Bool := false
  /-- csi(): the value `p` of the enclosing loop over all values of the parameter list (`Stmt.forPmAll`) -/
  pcur : Int := 0

def Frame.get (s : Frame) : Loc → Int
  | .curRow => s.e.cur.row
  | .curCol => s.e.cur.col
  | .top => s.e.top
  | .bottom => s.e.bottom
  | .left => s.e.left
  | .right => s.e.right
  | .var k => s.vars k

def Frame.set (s : Frame) (l : Loc) (v : Int) : Frame :=
  match l with
  | .curRow => { s with e := { s.e with cur := { s.e.cur with row := v } } }
  | .curCol => { s with e := { s.e with cur := { s.e.cur with col := v } } }
  | .top => { s with e := { s.e with top := v } }
  | .bottom => { s with e := { s.e with bottom := v } }
  | .left => { s with e := { s.e with left := v } }
  | .right => { s with e := { s.e with right := v } }
  | .var k => { s with vars := fun j => if j = k then v else s.vars j }

def pmGet (pm : List Param) (k : Nat) : Int :=
  match pm[k]? with
  | some p => p.1
  | none => 0

/-- `len(primary[0])` (0 for an empty screen: `Stmt.forS` refuses to evaluate it then) -/
def oldWidth (g : Grid) : Int :=
  match g with
  | [] => 0
  | r :: _ => r.length

def evalEx (pm : List Param) (s : Frame) (lvs : List Int) : Ex → Int
  | .lit n => n
  | .loc l => s.get l
  | .lv k => lvs.getD k 0
  | .width => s.e.width
  | .height => s.e.height
  | .add a b => evalEx pm s lvs a + evalEx pm s lvs b
  | .sub a b => evalEx pm s lvs a - evalEx pm s lvs b
  | .pm k => pmGet pm k
  | .lenPm => pm.length
  | .psParams => ps pm
  | .tab => s.tab
  | .param0 => s.param
  | .lenOld => s.old.length
  | .lenOld0 => oldWidth s.old
  | .cur k => match k with
    | 0 => s.curP.1
    | k + 1 => s.curP.2.getD k 0
  | .nxt j k => match s.restP[j - 1]? with
    | none => 0
    | some p => match k with
      | 0 => p.1
      | k + 1 => p.2.getD k 0
  | .lenCur => s.curP.len
  | .lenFrom => s.restP.length + 1
  | .pcur => s.pcur

/-- every `pm[k][0]` inside the expression is in range -/
def exOk (pm : List Param) : Ex → Bool
  | .add a b => exOk pm a && exOk pm b
  | .sub a b => exOk pm a && exOk pm b
  | .pm k => decide (k < pm.length)
  | _ => true

/-- every index expression into the parameter list relative to `i` is in range -/
def exOkS (s : Frame) : Ex → Bool
  | .add a b => exOkS s a && exOkS s b
  | .sub a b => exOkS s a && exOkS s b
  | .cur k => decide (k < s.curP.len)
  | .nxt j k => decide (1 ≤ j) && (match s.restP[j - 1]? with
    | none => false
    | some p => decide (k < p.len))
  | _ => true

def evalCmp (op : Cmp) (a b : Int) : Bool :=
  match op with
  | .lt => decide (a < b)
  | .le => decide (a ≤ b)
  | .gt => decide (a > b)
  | .ge => decide (a ≥ b)
  | .eq => decide (a = b)
  | .ne => decide (a ≠ b)

def evalCond (pm : List Param) (s : Frame) (lvs : List Int) : Cond → Bool
  | .cmp op a b => evalCmp op (evalEx pm s lvs a) (evalEx pm s lvs b)
  | .and a b => evalCond pm s lvs a && evalCond pm s lvs b
  | .or a b => evalCond pm s lvs a || evalCond pm s lvs b
  | .not a => !evalCond pm s lvs a
  | .mode f => s.e.mode.get f
  | .lastCol => s.e.lastCol
  | .strEq v lit => decide (s.strs v = lit)
  | .osc8 => s.e.osc8
  | .vxNil => !s.e.hasVx
  | .hostEmpty => s.hostEmpty

/-- inclusive upper bound of an ascending loop -/
def evalBnd (pm : List Param) (s : Frame) (lvs : List Int) : Bnd → Int
  | .lt e => evalEx pm s lvs e - 1
  | .le e => evalEx pm s lvs e
  | .both a b => min (evalBnd pm s lvs a) (evalBnd pm s lvs b)

def condOkS (s : Frame) : Cond → Bool
  | .cmp _ a b => exOkS s a && exOkS s b
  | .and a b => condOkS s a && condOkS s b
  | .or a b => condOkS s a && condOkS s b
  | .not a => condOkS s a
  | _ => true

inductive Sig where
  | norm | brk | cont | ret
  deriving DecidableEq, Repr, Inhabited

/-- does the body leave its loop early (`break`/`return` not inside a nested loop)? -/
def hasBrk : Stmt → Bool
  | .seq a b => hasBrk a || hasBrk b
  | .ite _ t f => hasBrk t || hasBrk f
  | .ret => true
  | .brk => true
  | _ => false

def goOn (sg : Sig) : Bool := sg = .norm || sg = .cont

/-- An ascending loop over the grid: through `forUpBrk` when the body can leave early. -/
def loopUp (brk : Bool) (lo hi : Int) (body : Int → Grid → M (Grid × Sig)) (g : Grid) : M Grid :=
  if brk then forUpBrk lo hi (fun i g => do let r ← body i g; .ok (r.1, goOn r.2)) g
  else forUp lo hi (fun i g => do let r ← body i g; .ok r.1) g

def loopDown (hi lo : Int) (body : Int → Grid → M (Grid × Sig)) (g : Grid) : M Grid :=
  forDown hi lo (fun i g => do let r ← body i g; .ok r.1) g

/-- `g[r][c] = g[r2][c2]` -/
def cellCopy (g : Grid) (r c r2 c2 : Int) : M Grid := do
  let row ← getI g r
  let row2 ← getI g r2
  let x ← getI row2 c2
  let row' ← setI row c x
  setI g r row'

/-- Statements inside (and including) a loop: the frame is read-only, the grid is threaded. -/
def evalG (pm : List Param) (s : Frame) : Stmt → List Int → Grid → M (Grid × Sig)
  | .skip, _, g => .ok (g, .norm)
  | .seq a b, lvs, g => do
    let r ← evalG pm s a lvs g
    if r.2 = .norm then evalG pm s b lvs r.1 else .ok r
  | .ite c t f, lvs, g => if evalCond pm s lvs c then evalG pm s t lvs g else evalG pm s f lvs g
  | .ret, _, g => .ok (g, .ret)
  | .brk, _, g => .ok (g, .brk)
  | .cont, _, g => .ok (g, .cont)
  | .forUp lo hi body, lvs, g => do
    let g' ← loopUp (hasBrk body) (evalEx pm s lvs lo) (evalBnd pm s lvs hi)
      (fun i g => evalG pm s body (lvs ++ [i]) g) g
    .ok (g', .norm)
  | .forDown hi lo body, lvs, g => do
    let g' ← loopDown (evalEx pm s lvs hi) (evalEx pm s lvs lo) (fun i g => evalG pm s body (lvs ++ [i]) g) g
    .ok (g', .norm)
  | .erase r c, lvs, g => do
    let g' ← modCell g (evalEx pm s lvs r) (evalEx pm s lvs c) (·.erase s.e.bg)
    .ok (g', .norm)
  | .copyRow d sr, lvs, g => do
    let g' ← copyRow g (evalEx pm s lvs d) (evalEx pm s lvs sr)
    .ok (g', .norm)
  | .cellCopy r c r2 c2, lvs, g => do
    let g' ← cellCopy g (evalEx pm s lvs r) (evalEx pm s lvs c) (evalEx pm s lvs r2) (evalEx pm s lvs c2)
    .ok (g', .norm)
  | .cellZero r c, lvs, g => do
    let g' ← modCell g (evalEx pm s lvs r) (evalEx pm s lvs c) (fun _ => {})
    .ok (g', .norm)
  | .touchRow r, lvs, g => do
    let _ ← getI g (evalEx pm s lvs r)
    .ok (g, .norm)
  | .setWrapped r c, lvs, g => do
    let g' ← modCell g (evalEx pm s lvs r) (evalEx pm s lvs c) (fun x => { x with wrapped := true })
    .ok (g', .norm)
  | .putGlyph r c w, lvs, g => do
    let row ← getI g (evalEx pm s lvs r)
    let row' ← setI row (evalEx pm s lvs c) { g := s.g, w := (evalEx pm s lvs w).toNat, st := s.e.cur.st }
    let g' ← setI g (evalEx pm s lvs r) row'
    .ok (g', .norm)
  | .setSpace r c, lvs, g => do
    let g' ← modCell g (evalEx pm s lvs r) (evalEx pm s lvs c) (fun x => { x with g := [32] })
    .ok (g', .norm)
  | .setPen r c, lvs, g => do
    let g' ← modCell g (evalEx pm s lvs r) (evalEx pm s lvs c) (fun x => { x with st := s.e.cur.st })
    .ok (g', .norm)
  | .setCharFromCell r c, lvs, g => do
    let g' ← modCell g (evalEx pm s lvs r) (evalEx pm s lvs c) (fun x => { x with g := s.cell.g, w := s.cell.w })
    .ok (g', .norm)
  | .loadCell _ _, _, g => .ok (g, .norm)    -- excluded by `wf`
  | .allocAlt _, _, g => .ok (g, .norm)      -- excluded by `wf`
  | .allocPrimary _, _, g => .ok (g, .norm)  -- excluded by `wf`
  | .fillRows _, _, g => .ok (g, .norm)      -- excluded by `wf`
  | .clampSaved _ _, _, g => .ok (g, .norm)  -- excluded by `wf`
  | .tabsNew, _, g => .ok (g, .norm)         -- excluded by `wf`
  | .tabsAppendTab, _, g => .ok (g, .norm)   -- excluded by `wf`
  | .tabsStore, _, g => .ok (g, .norm)       -- excluded by `wf`
  | .tabsClear, _, g => .ok (g, .norm)       -- excluded by `wf`
  | .tabsPushCol, _, g => .ok (g, .norm)     -- excluded by `wf`
  | .forTabs _, _, g => .ok (g, .norm)       -- excluded by `wf`
  | .forTabsDown _, _, g => .ok (g, .norm)   -- excluded by `wf`
  | .prim _, _, g => .ok (g, .norm)          -- excluded by `wf`
  | .assign _ _, _, g => .ok (g, .norm)      -- excluded by `wf`
  | .setLastCol _, _, g => .ok (g, .norm)    -- excluded by `wf`
  | .call _ _, _, g => .ok (g, .norm)        -- excluded by `wf`
  | .tabsAppendRange _ _ _, _, g => .ok (g, .norm)  -- excluded by `wf`
  | .setMode _ _, _, g => .ok (g, .norm)     -- excluded by `wf`
  | .forParams _, _, g => .ok (g, .norm)     -- excluded by `wf`
  | .reply _, _, g => .ok (g, .norm)           -- excluded by `wf`
  | .setSS _, _, g => .ok (g, .norm)         -- excluded by `wf`
  | .setSel _, _, g => .ok (g, .norm)        -- excluded by `wf`
  | .setDesig _ _, _, g => .ok (g, .norm)    -- excluded by `wf`
  | .setShape _, _, g => .ok (g, .norm)      -- excluded by `wf`
  | .cut _ _ _ _, _, g => .ok (g, .norm)     -- excluded by `wf`
  | .post, _, g => .ok (g, .norm)            -- excluded by `wf`
  | .setLink _, _, g => .ok (g, .norm)       -- excluded by `wf`
  | .setLinkParams _, _, g => .ok (g, .norm) -- excluded by `wf`
  | .hostQuery, _, g => .ok (g, .norm)       -- excluded by `wf`
  | .b64Decode _, _, g => .ok (g, .norm)     -- excluded by `wf`
  | .clipPush, _, g => .ok (g, .norm)        -- excluded by `wf`
  | .pmDefault0, _, g => .ok (g, .norm)      -- excluded by `wf`
  | .forSgr _, _, g => .ok (g, .norm)        -- excluded by `wf`
  | .skipParams _, _, g => .ok (g, .norm)    -- excluded by `wf`
  | .attrOn _, _, g => .ok (g, .norm)        -- excluded by `wf`
  | .attrOff _, _, g => .ok (g, .norm)       -- excluded by `wf`
  | .attrClear, _, g => .ok (g, .norm)       -- excluded by `wf`
  | .setCol _ _, _, g => .ok (g, .norm)      -- excluded by `wf`
  | .setUl _, _, g => .ok (g, .norm)         -- excluded by `wf`
  | .logErr, _, g => .ok (g, .norm)          -- excluded by `wf`
  | .iteP _ _ _, _, g => .ok (g, .norm)      -- excluded by `wf`
  | .forS _ _ _ _, _, g => .ok (g, .norm)    -- excluded by `wf`
  | .loadOldCell _ _, _, g => .ok (g, .norm) -- excluded by `wf`
  | .penFromCell, _, g => .ok (g, .norm)     -- excluded by `wf`
  | .printCell, _, g => .ok (g, .norm)       -- excluded by `wf`
  | .assignCellWrapped _, _, g => .ok (g, .norm)  -- excluded by `wf`
  | .forPmAll _, _, g => .ok (g, .norm)      -- excluded by `wf`
  | .setPcur _, _, g => .ok (g, .norm)       -- excluded by `wf`
  | .unknown _, _, g => .ok (g, .norm)       -- excluded by `noUnknown`

/-- `vt.f(arg)` for the modelled callees (the code as it is now: `Fixes.current`). -/
def callFn (f : Fn) (n : Int) (e : Emu) : M Emu :=
  match f with
  | .cuu => .ok (cuu e n)
  | .cud => .ok (cud Fixes.current e n)
  | .ind => ind e
  | .nel => nel e
  | .ri => ri Fixes.current e
  | .lf => lf e
  | .cht => .ok (cht Fixes.current e n)
  | .scrollUp => scrollUp e n
  | .scrollDown => scrollDown e n
  | .decsc => .ok (decsc e)
  | .decrc => .ok (decrc e)
  | .ed => ed e n
  | .setDefaultTabStops => .ok { e with tabs := defaultTabs }

/-- A loop over the tab stops: the body may assign to scalars, `break` and `continue`. -/
def tabLoop (body : Int → Frame → M (Frame × Sig)) : List Int → Frame → M Frame
  | [], s => .ok s
  | t :: rest, s => do
    let r ← body t s
    if r.2 = .brk ∨ r.2 = .ret then .ok r.1 else tabLoop body rest r.1

/-- A loop over the parameter list: the body runs at function level (it may assign, call, set
    modes); `break`/`return` leave the loop. -/
def paramLoop (body : Int → Frame → M (Frame × Sig)) : List Param → Frame → M Frame
  | [], s => .ok s
  | p :: rest, s => do
    let r ← body p.1 s
    if r.2 = .brk ∨ r.2 = .ret then .ok r.1 else paramLoop body rest r.1

/-- A function-level ascending loop: `n` iterations from `i`; `break` ends the loop, `return` ends the function. No
    iteration limit: the trip count is the length of a slice. -/
def forSGo (body : Int → Frame → M (Frame × Sig)) : Nat → Int → Frame → M (Frame × Sig)
  | 0, _, s => .ok (s, .norm)
  | n + 1, i, s => do
    let r ← body i s
    if r.2 = .brk then .ok (r.1, .norm)
    else if r.2 = .ret then .ok (r.1, .ret)
    else forSGo body n (i + 1) r.1

/-- does the bound read `len(primary[0])`? (then `primary` must not be empty) -/
def exReadsOld0 : Ex → Bool
  | .lenOld0 => true
  | .add a b => exReadsOld0 a || exReadsOld0 b
  | .sub a b => exReadsOld0 a || exReadsOld0 b
  | _ => false

def bndReadsOld0 : Bnd → Bool
  | .lt e => exReadsOld0 e
  | .le e => exReadsOld0 e
  | .both a b => bndReadsOld0 a || bndReadsOld0 b

/-- `for i := first; i < limit; i += step`: the values of `i` -/
def rangeStep (first limit step : Nat) : List Int :=
  if step = 0 then [] else (List.range ((limit - first + step - 1) / step)).map (fun k => ((first + k * step : Nat) : Int))

/-- sgr(): the walk over the parameter list; `fuel` bounds the number of iterations (each consumes at least one parameter) -/
def sgrWalk (body : Param → List Param → Frame → M (Frame × Sig)) : Nat → List Param → Frame → M Frame
  | 0, _, s => .ok s
  | _, [], s => .ok s
  | fuel + 1, p :: rest, s => do
    let r ← body p rest s
    if r.2 = .ret ∨ r.2 = .brk then .ok r.1 else sgrWalk body fuel (rest.drop r.1.skip) r.1

/-- every value of a list, in order -/
def mapValsM (f : Int → M Int) : List Int → M (List Int)
  | [] => .ok []
  | v :: rest => do
    let a ← f v
    let b ← mapValsM f rest
    .ok (a :: b)

/-- every value of the parameter list (first values and colon sub-parameters), in order -/
def mapPmM (f : Int → M Int) : List Param → M (List Param)
  | [] => .ok []
  | p :: rest => do
    let a ← f p.1
    let b ← mapValsM f p.2
    let c ← mapPmM f rest
    .ok ((a, b) :: c)

def setPenCol (st : EStyle) (slot : Slot) (c : Nat) : EStyle :=
  match slot with
  | .fg => { st with fg := c }
  | .bg => { st with bg := c }
  | .ul => { st with ul := c }

/-- Statements at function level. -/
def evalS (pm : List Param) : Stmt → Frame → M (Frame × Sig)
  | .skip, s => .ok (s, .norm)
  | .seq a b, s => do
    let r ← evalS pm a s
    if r.2 = .norm then evalS pm b r.1 else .ok r
  | .assign l x, s =>
    if exOk pm x then .ok (s.set l (evalEx pm s [] x), .norm) else .error .oob
  | .setLastCol b, s => .ok ({ s with e := { s.e with lastCol := b } }, .norm)
  | .ite c t f, s => if evalCond pm s [] c then evalS pm t s else evalS pm f s
  | .ret, s => .ok (s, .ret)
  | .brk, s => .ok (s, .brk)
  | .cont, s => .ok (s, .cont)
  | .call f arg, s => do
    let e' ← callFn f (match arg with | some x => evalEx pm s [] x | none => 0) s.e
    .ok ({ s with e := e' }, .norm)
  | .unknown _, s => .ok (s, .norm)
  | .prim .snapshotPrimary, s => .ok ({ s with old := s.e.primary }, .norm)
  | .prim .activePrimary, s => .ok ({ s with e := { s.e with altActive := false } }, .norm)
  | .prim .activeBySmcup, s => .ok ({ s with e := { s.e with altActive := s.e.mode.smcup } }, .norm)
  | .prim .activeAlt, s => .ok ({ s with e := { s.e with altActive := true } }, .norm)
  | .prim .stateCapture, s =>
    .ok ({ s with state := { cur := s.e.cur, decawm := s.e.mode.decawm, decom := s.e.mode.decom,
                             cs := { sel := s.e.cs.sel, saved := s.e.cs.saved, ss := false,
                                     g0 := s.e.cs.g0, g1 := s.e.cs.g1, g2 := s.e.cs.g2, g3 := s.e.cs.g3 } } }, .norm)
  | .prim .stateStoreAlt, s => .ok ({ s with e := { s.e with savedA := s.state } }, .norm)
  | .prim .stateStorePrimary, s => .ok ({ s with e := { s.e with savedP := s.state } }, .norm)
  | .prim .stateZero, s => .ok ({ s with state := { decawm := false } }, .norm)
  | .prim .stateLoadAlt, s => .ok ({ s with state := s.e.savedA }, .norm)
  | .prim .stateLoadPrimary, s => .ok ({ s with state := s.e.savedP }, .norm)
  | .prim .cursorFromState, s => .ok ({ s with e := { s.e with cur := s.state.cur } }, .norm)
  | .prim .charsetsFromState, s =>
    .ok ({ s with e := { s.e with cs := { sel := s.state.cs.sel, saved := s.state.cs.saved, ss := false,
                                          g0 := s.state.cs.g0, g1 := s.state.cs.g1, g2 := s.state.cs.g2, g3 := s.state.cs.g3 } } }, .norm)
  | .prim .decawmFromState, s => .ok ({ s with e := { s.e with mode := { s.e.mode with decawm := s.state.decawm } } }, .norm)
  | .prim .decomFromState, s => .ok ({ s with e := { s.e with mode := { s.e.mode with decom := s.state.decom } } }, .norm)
  | .prim .charsetsReset, s => .ok ({ s with e := { s.e with cs := {} } }, .norm)
  | .prim .penReset, s => .ok ({ s with e := { s.e with cur := { s.e.cur with st := {} } } }, .norm)
  | .prim .savedPReset, s => .ok ({ s with e := { s.e with savedP := {} } }, .norm)
  | .prim .savedAReset, s => .ok ({ s with e := { s.e with savedA := {} } }, .norm)
  | .prim .modeReset, s => .ok ({ s with e := { s.e with mode := { decawm := true, dectcem := true } } }, .norm)
  | .setMode f b, s => .ok ({ s with e := { s.e with mode := s.e.mode.set f b } }, .norm)
  | .reply _, s => .ok (s, .norm)
  | .forPmAll body, s => do
    -- the loop rewrites the list in place: the result is held in `pmOv` (read by `evalPm`)
    let l ← mapPmM (fun v => do
      let r ← evalS pm body { s with pcur := v }
      .ok r.1.pcur) (s.pmOv.getD pm)
    .ok ({ s with pmOv := some l }, .norm)
  | .setPcur x, s => .ok ({ s with pcur := evalEx pm s [] x }, .norm)
  | .tabsAppendRange a b c, s => .ok ({ s with e := { s.e with tabs := s.e.tabs ++ rangeStep a b c } }, .norm)
  | .forS v lo hi body, s =>
    -- `primary[0]` in the loop condition is an index expression
    if bndReadsOld0 hi && s.old.isEmpty then .error .oob
    else if !exOk pm lo then .error .oob
    else
      forSGo (fun i s => evalS pm body (s.set (.var v) i))
        (evalBnd pm s [] hi + 1 - evalEx pm s [] lo).toNat (evalEx pm s [] lo) s
  | .loadOldCell r c, s => do
    let row ← getI s.old (evalEx pm s [] r)
    let x ← getI row (evalEx pm s [] c)
    .ok ({ s with cell := x }, .norm)
  | .penFromCell, s => .ok ({ s with e := { s.e with cur := { s.e.cur with st := s.cell.st } } }, .norm)
  | .printCell, s => do
    let e' ← print Fixes.current s.e s.cell.g s.cell.w
    .ok ({ s with e := e' }, .norm)
  | .assignCellWrapped k, s => .ok (s.set (.var k) (if s.cell.wrapped then 1 else 0), .norm)
  | .pmDefault0, s => .ok ((if pm.isEmpty then { s with pmOv := some [((0 : Int), ([] : List Int))] } else s), .norm)
  | .forSgr body, s => do
    let l := s.pmOv.getD pm
    let s' ← sgrWalk (fun p rest s => evalS pm body { s with curP := p, restP := rest, skip := 0 }) (l.length + 1) l s
    .ok (s', .norm)
  | .skipParams c, s => .ok ({ s with skip := s.skip + c }, .norm)
  | .attrOn bit, s => .ok ({ s with e := { s.e with cur := { s.e.cur with st := attrOn s.e.cur.st bit } } }, .norm)
  | .attrOff bit, s => .ok ({ s with e := { s.e with cur := { s.e.cur with st := attrOff s.e.cur.st bit } } }, .norm)
  | .attrClear, s => .ok ({ s with e := { s.e with cur := { s.e.cur with st := { s.e.cur.st with attr := 0 } } } }, .norm)
  | .setCol slot c, s =>
    match c with
    | .zero => .ok ({ s with e := { s.e with cur := { s.e.cur with st := setPenCol s.e.cur.st slot 0 } } }, .norm)
    | .index x =>
      if exOkS s x then
        .ok ({ s with e := { s.e with cur := { s.e.cur with st := setPenCol s.e.cur.st slot (indexColor (evalEx pm s [] x)) } } }, .norm)
      else .error .oob
    | .rgb a b c =>
      if exOkS s a && exOkS s b && exOkS s c then
        let col := rgbColor (evalEx pm s [] a) (evalEx pm s [] b) (evalEx pm s [] c)
        .ok ({ s with e := { s.e with cur := { s.e.cur with st := setPenCol s.e.cur.st slot col } } }, .norm)
      else .error .oob
  | .setUl n, s => .ok ({ s with e := { s.e with cur := { s.e.cur with st := { s.e.cur.st with ulStyle := n } } } }, .norm)
  | .logErr, s => .ok (s, .norm)
  | .iteP c t f, s =>
    if condOkS s c then (if evalCond pm s [] c then evalS pm t s else evalS pm f s) else .error .oob
  | .cut a b f src, s =>
    let r := cutSemi (s.strs src)
    let strs1 : Nat → List Nat := fun k => if some k = b then r.2.1 else if some k = a then r.1 else s.strs k
    let s1 : Frame := { s with strs := strs1 }
    .ok ((match f with
      | some k => s1.set (.var k) (if r.2.2 then 1 else 0)
      | none => s1), .norm)
  | .post, s => .ok ({ s with events := s.events + 1 }, .norm)
  | .setLink v, s => .ok ({ s with e := { s.e with cur := { s.e.cur with st := { s.e.cur.st with link := s.strs v } } } }, .norm)
  | .setLinkParams v, s =>
    .ok ({ s with e := { s.e with cur := { s.e.cur with st := { s.e.cur.st with linkParams := s.strs v } } } }, .norm)
  | .hostQuery, s => .ok (s, .norm)
  | .b64Decode k, s => .ok (s.set (.var k) (if s.info.b64ok then 0 else 1), .norm)
  | .clipPush, s => if s.e.hasVx then .ok (s, .norm) else .error .oob
  | .setSS b, s => .ok ({ s with e := { s.e with cs := { s.e.cs with ss := b } } }, .norm)
  | .setSel n, s => .ok ({ s with e := { s.e with cs := { s.e.cs with sel := n } } }, .norm)
  | .setDesig k v, s =>
    .ok ({ s with e := { s.e with cs :=
      (if k = 0 then { s.e.cs with g0 := v } else if k = 1 then { s.e.cs with g1 := v }
       else if k = 2 then { s.e.cs with g2 := v } else if k = 3 then { s.e.cs with g3 := v } else s.e.cs) } }, .norm)
  | .setShape x, s =>
    if exOk pm x then .ok ({ s with e := { s.e with cur := { s.e.cur with shape := evalEx pm s [] x } } }, .norm) else .error .oob
  | .forParams body, s => do
    let s' ← paramLoop (fun p s => do
      let r ← evalS pm body { s with param := p }
      .ok ({ r.1 with param := s.param }, r.2)) pm s
    .ok (s', .norm)
  | .prim .savePen, s => .ok ({ s with pen := s.e.cur.st }, .norm)
  | .prim .restorePen, s => .ok ({ s with e := { s.e with cur := { s.e.cur with st := s.pen } } }, .norm)
  | .allocAlt h, s =>
    -- make([][]cell, h) panics on a negative length
    if evalEx pm s [] h < 0 then .error .oob
    else .ok ({ s with e := { s.e with alt := List.replicate (evalEx pm s [] h).toNat [] } }, .norm)
  | .allocPrimary h, s =>
    if evalEx pm s [] h < 0 then .error .oob
    else .ok ({ s with e := { s.e with primary := List.replicate (evalEx pm s [] h).toNat [] } }, .norm)
  | .fillRows w, s =>
    -- no iteration: `make([]cell, w)` is never evaluated
    if s.e.alt.isEmpty then .ok (s, .norm)
    else if evalEx pm s [] w < 0 then .error .oob
    else if s.e.primary.length < s.e.alt.length then .error .oob      -- vt.primaryScreen[i]
    else
      let blank : Row := List.replicate (evalEx pm s [] w).toNat {}
      .ok ({ s with e := { s.e with alt := s.e.alt.map (fun _ => blank),
                                    primary := (s.e.primary.take s.e.alt.length).map (fun _ => blank) ++
                                               s.e.primary.drop s.e.alt.length } }, .norm)
  | .clampSaved h w, s =>
    let hh := evalEx pm s [] h
    let ww := evalEx pm s [] w
    let cl (sv : Saved) : Saved :=
      { sv with cur := { sv.cur with row := if sv.cur.row > hh - 1 then hh - 1 else sv.cur.row,
                                     col := if sv.cur.col > ww - 1 then ww - 1 else sv.cur.col } }
    .ok ({ s with e := { s.e with savedP := cl s.e.savedP, savedA := cl s.e.savedA } }, .norm)
  | .tabsNew, s => .ok ({ s with acc := [] }, .norm)
  | .tabsAppendTab, s => .ok ({ s with acc := s.acc ++ [s.tab] }, .norm)
  | .tabsStore, s => .ok ({ s with e := { s.e with tabs := s.acc } }, .norm)
  | .tabsClear, s => .ok ({ s with e := { s.e with tabs := [] } }, .norm)
  | .tabsPushCol, s => .ok ({ s with e := { s.e with tabs := s.e.tabs ++ [s.e.cur.col] } }, .norm)
  | .forTabs body, s => do
    let s' ← tabLoop (fun t s => do
      let r ← evalS pm body { s with tab := t }
      .ok ({ r.1 with tab := s.tab }, r.2)) s.e.tabs s
    .ok (s', .norm)
  | .forTabsDown body, s => do
    let s' ← tabLoop (fun t s => do
      let r ← evalS pm body { s with tab := t }
      .ok ({ r.1 with tab := s.tab }, r.2)) s.e.tabs.reverse s
    .ok (s', .norm)
  | .loadCell r c, s => do
    let row ← getI s.e.active (evalEx pm s [] r)
    let x ← getI row (evalEx pm s [] c)
    .ok ({ s with cell := x }, .norm)
  | .prim .decSpecial, s =>
    .ok ({ s with g := match s.g with
                       | [b] => if s.e.cs.desig s.e.cs.sel = 1 then (lookupSpecial b).getD s.g else s.g
                       | _ => s.g }, .norm)
  | .prim .singleShift, s =>
    .ok ((if s.e.cs.ss then { s with e := { s.e with cs := { s.e.cs with sel := s.e.cs.saved } } } else s), .norm)
  | st, s => do
    let r ← evalG pm s st [] s.e.active
    .ok ({ s with e := s.e.setActive r.1 }, .norm)

def initFrame (e : Emu) (args : List Int) : Frame := { e := e, vars := fun k => args.getD k 0 }

/-- print(seq): the grapheme and `seq.Width` (local 0) -/
def evalPrint (b : Body) (g : G) (w : Int) (e : Emu) : M Emu := do
  let r ← evalS [] b.stmt { e := e, vars := fun k => [w].getD k 0, g := g }
  .ok r.1.e

/-- osc(data): the payload (string local 0), the base64 verdict and the host's answer are inputs; the result is the
    state and the number of events posted -/
def evalOsc (b : Body) (data : List Nat) (info : OscInfo) (hostEmpty : Bool) (e : Emu) : M (Emu × Nat) := do
  let r ← evalS [] b.stmt { e := e, vars := fun _ => 0, strs := fun k => if k = 0 then data else [], info := info,
                            hostEmpty := hostEmpty }
  .ok (r.1.e, r.1.events)

/-- Run a translated body: `args` are the int parameters (`ps`, `n`), `pm` the parameter list of
    the functions that take `[][]int`. -/
def evalBody (b : Body) (pm : List Param) (args : List Int) (e : Emu) : M Emu := do
  let r ← evalS pm b.stmt (initFrame e args)
  .ok r.1.e

/-- Run a translated body that rewrites the parameter list (the statements of csi() in front of its dispatch switch):
    the list afterwards. -/
def evalPm (b : Body) (pm : List Param) : M (List Param) := do
  let r ← evalS pm b.stmt (initFrame default [])
  .ok (r.1.pmOv.getD pm)

/-- Run a translated body that may post events (BEL): the state and the number of events posted. -/
def evalBodyEv (b : Body) (pm : List Param) (args : List Int) (e : Emu) : M (Emu × Nat) := do
  let r ← evalS pm b.stmt (initFrame e args)
  .ok (r.1.e, r.1.events)

/-! ### syntactic side conditions -/

def noUnknown : Stmt → Bool
  | .seq a b => noUnknown a && noUnknown b
  | .ite _ t f => noUnknown t && noUnknown f
  | .forUp _ _ b => noUnknown b
  | .forDown _ _ b => noUnknown b
  | .forTabs b => noUnknown b
  | .forParams b => noUnknown b
  | .forS _ _ _ b => noUnknown b
  | .forSgr b => noUnknown b
  | .iteP _ t f => noUnknown t && noUnknown f
  | .forTabsDown b => noUnknown b
  | .forPmAll b => noUnknown b
  | .unknown _ => false
  | _ => true

/-- inside a loop: only cell statements and control flow; `return` only if `allowRet`; nested loops
    never contain `return` -/
def loopWf (allowRet : Bool) : Stmt → Bool
  | .skip => true
  | .seq a b => loopWf allowRet a && loopWf allowRet b
  | .ite _ t f => loopWf allowRet t && loopWf allowRet f
  | .ret => allowRet
  | .brk => true
  | .cont => true
  | .forUp _ _ b => loopWf false b
  | .forDown _ _ b => loopWf false b
  | .erase _ _ => true
  | .copyRow _ _ => true
  | .cellCopy _ _ _ _ => true
  | .cellZero _ _ => true
  | .touchRow _ => true
  | .setWrapped _ _ => true
  | .putGlyph _ _ _ => true
  | .setSpace _ _ => true
  | .setPen _ _ => true
  | .setCharFromCell _ _ => true
  | _ => false

/-- inside a loop over the tab stops: scalar assignments and control flow only -/
def tabLoopWf : Stmt → Bool
  | .skip => true
  | .seq a b => tabLoopWf a && tabLoopWf b
  | .ite _ t f => tabLoopWf t && tabLoopWf f
  | .assign _ _ => true
  | .tabsAppendTab => true
  | .brk => true
  | .cont => true
  | _ => false

/-- inside a loop over the parameter list: straight-line function-level statements, no nested loop,
    no `break`/`continue`/`return` -/
def paramLoopWf : Stmt → Bool
  | .skip => true
  | .seq a b => paramLoopWf a && paramLoopWf b
  | .ite _ t f => paramLoopWf t && paramLoopWf f
  | .assign _ _ => true
  | .setLastCol _ => true
  | .setMode _ _ => true
  | .call _ _ => true
  | .prim _ => true
  | _ => false

/-- a loop bound that cannot change while the loop runs: literals and the lengths of the local snapshot `primary` -/
def exStable : Ex → Bool
  | .lit _ => true
  | .lenOld => true
  | .lenOld0 => true
  | .add a b => exStable a && exStable b
  | .sub a b => exStable a && exStable b
  | _ => false

def bndStable : Bnd → Bool
  | .lt e => exStable e
  | .le e => exStable e
  | .both a b => bndStable a && bndStable b

/-- inside a function-level loop: function-level statements (no grid loops, no `return`), nested function-level loops;
    the loop variable `v` and the snapshot `primary` are not assigned (checked by the translator: they are declared by
    the loop / by `primary := vt.primaryScreen` and any other assignment to them is outside the language) -/
def sLoopWf : Stmt → Bool
  | .skip => true
  | .seq a b => sLoopWf a && sLoopWf b
  | .ite _ t f => sLoopWf t && sLoopWf f
  | .assign _ _ => true
  | .setLastCol _ => true
  | .call _ _ => true
  | .brk => true
  | .cont => true
  | .loadOldCell _ _ => true
  | .penFromCell => true
  | .printCell => true
  | .assignCellWrapped _ => true
  | .forS _ lo hi b => exStable lo && bndStable hi && sLoopWf b
  | _ => false

/-- inside the loop of sgr(): pen statements, branches, `i += c`, `return`; the parameter list is read only relative to `i` -/
def sgrLoopWf : Stmt → Bool
  | .skip => true
  | .seq a b => sgrLoopWf a && sgrLoopWf b
  | .ite _ t f => sgrLoopWf t && sgrLoopWf f
  | .iteP _ t f => sgrLoopWf t && sgrLoopWf f
  | .ret => true
  | .skipParams _ => true
  | .attrOn _ => true
  | .attrOff _ => true
  | .attrClear => true
  | .setCol _ _ => true
  | .setUl _ => true
  | .logErr => true
  | _ => false

/-- inside the loop over all values of the parameter list: tests on `p` and `param[i] = e` only -/
def pmAllWf : Stmt → Bool
  | .skip => true
  | .seq a b => pmAllWf a && pmAllWf b
  | .ite _ t f => pmAllWf t && pmAllWf f
  | .setPcur _ => true
  | _ => false

/-- function level; `tail` = nothing follows this statement in the function -/
def topWf (tail : Bool) : Stmt → Bool
  | .seq a b => topWf false a && topWf tail b
  | .ite _ t f => topWf tail t && topWf tail f
  | .brk => false
  | .cont => false
  | .forUp _ _ b => loopWf tail b
  | .forDown _ _ b => loopWf tail b
  | .forTabs b => tabLoopWf b
  | .forTabsDown b => tabLoopWf b
  | .forParams b => paramLoopWf b
  | .forS _ lo hi b => exStable lo && bndStable hi && sLoopWf b
  | .forSgr b => tail && sgrLoopWf b
  | .forPmAll b => pmAllWf b
  | .setPcur _ => false
  | _ => true

def Body.wf (b : Body) : Bool := topWf true b.stmt
def Body.recognised (b : Body) : Bool := noUnknown b.stmt

end VaxisModel.Model.EmuBody
