/-
The restricted statement language into which `extract/cmd/C05` (bodies.go) translates the BODIES of
the control functions of widgets/term (csi.go, esc.go, c0.go, term.go): a deep embedding, so that
`Gen/TermBodies.lean` is a plain data value per function and a source edit changes that value.

Only types here (imported by the generated file). The meaning is in `Model/EmuBody.lean`
(`evalBody`), the theorems `body_<fn> : evalBody Gen.body_<fn> = Model.<fn>` in `Props/C05Bodies.lean`.

Go forms covered (everything else becomes `Stmt.unknown "<source text>"`):
  places     vt.cursor.row / .col, vt.margin.top/bottom/left/right, int locals and parameters
  values     integer literals, places, loop variables, vt.width(), vt.height(), `+`, `-`,
             pm[k][0], len(pm), ps(params); the conversions row(..) column(..) int(..) are identities
  conditions comparisons, `&&`, `||`, `!`, vt.mode.<field>, vt.lastCol
  statements `x = e`, `x += e`, `x -= e`, `x := e`, `var x T`, vt.lastCol = b, if / else, switch on
             an int (as an if-chain), return / break / continue,
             `for v := lo; v < hi [&& v <= hi2]; v += 1`, `for v := hi; v >= lo; v -= 1`,
             `for v := range vt.activeScreen`,
             cell statements on vt.activeScreen[r][c] (or a `line := vt.activeScreen[r]` alias):
             `.erase(vt.cursor.Style.Background)`, `= vt.activeScreen[r'][c']`, `= cell{}`,
             `copy(vt.activeScreen[d], vt.activeScreen[s])`, calls of other modelled functions.
Core Lean only.
-/
import VaxisModel.Gen.TermModes

namespace VaxisModel.Model.EmuBody
open VaxisModel.Gen.TermModes

/-- An assignable integer place. -/
inductive Loc where
  | curRow | curCol | top | bottom | left | right
  | var (k : Nat)            -- k-th local of the function (parameters first)
  deriving DecidableEq, Repr, Inhabited

inductive Ex where
  | lit (n : Int)
  | loc (l : Loc)
  | lv (k : Nat)             -- variable of the k-th enclosing `for` (0 = outermost)
  | width | height           -- vt.width(), vt.height()
  | add (a b : Ex)
  | sub (a b : Ex)
  | pm (k : Nat)             -- pm[k][0]
  | lenPm                    -- len(pm)
  | psParams                 -- ps(params)
  | tab                      -- the tab stop of the enclosing loop over vt.tabStop
  | param0                   -- `param[0]` of the enclosing `for _, param := range params`
  | lenOld                   -- resize(): `len(primary)` (the snapshot of the old primary screen)
  | lenOld0                  -- resize(): `len(primary[0])` (a checked access: see `Stmt.forS`)
  | cur (k : Nat)            -- sgr(): `params[i][k]` inside `Stmt.forSgr` (a checked access)
  | nxt (j k : Nat)          -- sgr(): `params[i+j][k]`, j ≥ 1 (a checked access)
  | lenCur                   -- sgr(): `len(params[i])`
  | lenFrom                  -- sgr(): `len(params[i:])`
  | pcur                     -- csi(): the value `p` of the enclosing `for i, p := range param` (`Stmt.forPmAll`)
  deriving DecidableEq, Repr, Inhabited

inductive Cmp where
  | lt | le | gt | ge | eq | ne
  deriving DecidableEq, Repr, Inhabited

inductive Cond where
  | cmp (op : Cmp) (a b : Ex)
  | and (a b : Cond)
  | or (a b : Cond)
  | not (a : Cond)
  | mode (f : ModeField)     -- vt.mode.f
  | lastCol                  -- vt.lastCol
  | strEq (v : Nat) (lit : List Nat)   -- osc(): `<string local> == "<literal>"` (UTF-8 bytes)
  | osc8                     -- vt.OSC8
  | vxNil                    -- vt.vx == nil
  | hostEmpty                -- osc() 11: `len(rgb) == 0` (the host terminal's answer: an input)
  deriving DecidableEq, Repr, Inhabited

/-- which colour of the pen -/
inductive Slot where
  | fg | bg | ul
  deriving DecidableEq, Repr, Inhabited

/-- a colour value: `0`, `vaxis.IndexColor(uint8(e))`, `vaxis.RGBColor(uint8(a), uint8(b), uint8(c))` -/
inductive ColEx where
  | zero
  | index (e : Ex)
  | rgb (a b c : Ex)
  deriving DecidableEq, Repr, Inhabited

/-- Upper bound of an ascending loop `v < e` / `v <= e` / a conjunction of those. -/
inductive Bnd where
  | lt (e : Ex)
  | le (e : Ex)
  | both (a b : Bnd)
  deriving DecidableEq, Repr, Inhabited

/-- Other modelled functions a body may call. -/
inductive Fn where
  | cuu | cud | ind | nel | ri | lf | cht | scrollUp | scrollDown
  | decsc | decrc | ed | setDefaultTabStops
  deriving DecidableEq, Repr, Inhabited

/-- Two statements of print() about the character sets, recognised as a whole (their source text
    is fixed in the translator): the DEC special graphics translation of a one-byte grapheme and the
    end of a single shift. -/
inductive Prim where
  | decSpecial | singleShift
  /-- resize(): `primary := vt.primaryScreen` -/
  | snapshotPrimary
  /-- resize(): `vt.activeScreen = vt.primaryScreen` -/
  | activePrimary
  /-- resize(): `switch vt.mode.smcup { case false: vt.activeScreen = vt.primaryScreen default: vt.activeScreen = vt.altScreen }` -/
  | activeBySmcup
  /-- resize(): `pen := vt.cursor.Style` (a copy of the pen, held in the frame) -/
  | savePen
  /-- resize(): `vt.cursor.Style = pen` -/
  | restorePen
  /-- `vt.activeScreen = vt.altScreen` -/
  | activeAlt
  /-- decsc(): `state := cursorState{cursor: vt.cursor, decawm: vt.mode.decawm, decom: vt.mode.decom, charsets: charsets{selected, saved,
      designations: map{g0..g3: vt.charsets.designations[..]}}}` (source text fixed in the translator) -/
  | stateCapture
  /-- `vt.altState = state` / `vt.primaryState = state` -/
  | stateStoreAlt | stateStorePrimary
  /-- decrc(): `var state cursorState` -/
  | stateZero
  /-- `state = vt.altState` / `state = vt.primaryState` -/
  | stateLoadAlt | stateLoadPrimary
  /-- `vt.cursor = state.cursor` -/
  | cursorFromState
  /-- `vt.charsets = charsets{selected: state.charsets.selected, saved: …, designations: map{g0..g3: state.charsets.designations[..]}}` -/
  | charsetsFromState
  /-- `vt.mode.decawm = state.decawm` / `vt.mode.decom = state.decom` -/
  | decawmFromState | decomFromState
  /-- ris(): `vt.charsets = charsets{selected: 0, saved: 0, designations: map{g0..g3: ascii}}` -/
  | charsetsReset
  /-- ris(): `vt.mode = mode{decawm: true, dectcem: true}` -/
  | modeReset
  /-- ris(): `vt.cursor.Style = vaxis.Style{}` -/
  | penReset
  /-- ris(): `vt.primaryState = cursorState{charsets: charsets{designations: map{g0..g3: ascii}}, decawm: true}` / `vt.altState = …`
      (the value New() gives them) -/
  | savedPReset | savedAReset
  deriving DecidableEq, Repr, Inhabited

/-- What a reply statement does with the reply text (round 5: the text is carried, so that the bytes written to the child are
    part of the translated body; `Model/EmuReply.lean` gives them a meaning). String literals are UTF-8 bytes; a format may contain
    `%d` verbs only (checked by the translator), its arguments are int expressions of the language. -/
inductive Reply where
  /-- `resp := strings.Builder{}` -/
  | newBuilder
  /-- `resp.WriteString("…")` -/
  | append (lit : List Nat)
  /-- `resp := fmt.Sprintf("…", <ints>)` -/
  | sprintf (fmt : List Nat) (args : List Ex)
  /-- `vt.pty.WriteString(resp)` / `vt.pty.WriteString(resp.String())` -/
  | sendResp
  /-- `vt.pty.WriteString("…")` -/
  | sendLit (lit : List Nat)
  /-- `fmt.Fprintf(vt.pty, "…", <ints>)` -/
  | fprintf (fmt : List Nat) (args : List Ex)
  /-- a reply whose text is NOT carried (osc() 11: the host's colour formatted with `%02x`; C12 models it) -/
  | opaque
  deriving DecidableEq, Repr, Inhabited

inductive Stmt where
  | skip
  | seq (a b : Stmt)
  | assign (l : Loc) (e : Ex)
  | setLastCol (b : Bool)
  | ite (c : Cond) (t f : Stmt)
  | ret | brk | cont
  /-- `for v := lo; v <bnd>; v += 1 { body }` -/
  | forUp (lo : Ex) (hi : Bnd) (body : Stmt)
  /-- `for v := hi; v >= lo; v -= 1 { body }` -/
  | forDown (hi lo : Ex) (body : Stmt)
  /-- `vt.activeScreen[r][c].erase(vt.cursor.Style.Background)` -/
  | erase (r c : Ex)
  /-- `copy(vt.activeScreen[dst], vt.activeScreen[src])` -/
  | copyRow (dst src : Ex)
  /-- `vt.activeScreen[r][c] = vt.activeScreen[r2][c2]` -/
  | cellCopy (r c r2 c2 : Ex)
  /-- `vt.activeScreen[r][c] = cell{}` -/
  | cellZero (r c : Ex)
  /-- `line := vt.activeScreen[r]` (the index expression is evaluated; the alias itself is resolved
      by the translator) -/
  | touchRow (r : Ex)
  /-- `vt.activeScreen[r][c].wrapped = true` -/
  | setWrapped (r c : Ex)
  /-- `vt.activeScreen[r][c] = cell{grapheme, width, vt.cursor.Style}` (the glyph being printed) -/
  | putGlyph (r c : Ex) (w : Ex)
  /-- `vt.activeScreen[r][c].Character.Grapheme = " "` -/
  | setSpace (r c : Ex)
  /-- `vt.activeScreen[r][c].Style = vt.cursor.Style` -/
  | setPen (r c : Ex)
  /-- `for _, ts := range vt.tabStop { body }` (`ts` is `Ex.tab`) -/
  | forTabs (body : Stmt)
  /-- `for i := len(vt.tabStop) - 1; i >= 0; i -= 1 { body }` (`vt.tabStop[i]` is `Ex.tab`) -/
  | forTabsDown (body : Stmt)
  /-- resize(): `vt.altScreen = make([][]cell, h)` -/
  | allocAlt (h : Ex)
  /-- resize(): `vt.primaryScreen = make([][]cell, h)` -/
  | allocPrimary (h : Ex)
  /-- resize(): `for i := range vt.altScreen { vt.altScreen[i] = make([]cell, w); vt.primaryScreen[i] = make([]cell, w) }` -/
  | fillRows (w : Ex)
  /-- resize(): the loop over `[]*cursorState{&vt.primaryState, &vt.altState}` clamping both saved
      cursors to `row(h)-1` / `column(w)-1` -/
  | clampSaved (h w : Ex)
  /-- `tabs := []column{}` (a local slice of tab stops) -/
  | tabsNew
  /-- `tabs = append(tabs, tab)` inside a loop over vt.tabStop -/
  | tabsAppendTab
  /-- `vt.tabStop = tabs` -/
  | tabsStore
  /-- `vt.tabStop = []column{}` -/
  | tabsClear
  /-- `vt.tabStop = append(vt.tabStop, vt.cursor.col)` -/
  | tabsPushCol
  /-- setDefaultTabStops(): `for i := first; i < limit; i += step { vt.tabStop = append(vt.tabStop, column(i)) }` (constants folded) -/
  | tabsAppendRange (first limit step : Nat)
  /-- `vt.mode.f = true` / `= false` -/
  | setMode (f : ModeField) (b : Bool)
  /-- `for _, param := range params { body }` (`param[0]` is `Ex.param0`) -/
  | forParams (body : Stmt)
  /-- A function-level loop `for v := lo; v <bnd>; v += 1 { body }` whose body runs at function level (it may assign,
      call, break): `v` is the int local `v`; the bounds may only read literals and the lengths of the local snapshot
      `primary` (immutable), so they are those at loop entry. -/
  | forS (v : Nat) (lo : Ex) (hi : Bnd) (body : Stmt)
  /-- resize(): `cell := primary[r][c]` (a copy of an OLD cell, held in the frame) -/
  | loadOldCell (r c : Ex)
  /-- resize(): `vt.cursor.Style = cell.Style` -/
  | penFromCell
  /-- resize(): `vt.print(ansi.Print{Grapheme: cell.Character.Grapheme, Width: cell.Character.Width})` -/
  | printCell
  /-- resize(): `wrapped = cell.wrapped` (a bool local, held as 0/1) -/
  | assignCellWrapped (k : Nat)
  /-- sgr(): `if len(params) == 0 { params = [][]int{{0}} }` (only as the first statement of a function whose other reads of
      the parameter list are inside `forSgr`) -/
  | pmDefault0
  /-- sgr(): `for i := 0; i < len(params); i += 1 { body }` where the body reads the parameter list only relative to `i`
      (`Ex.cur`, `Ex.nxt`, `Ex.lenCur`, `Ex.lenFrom`) and changes `i` only by `i += c` (`skipParams`) -/
  | forSgr (body : Stmt)
  /-- `i += c` inside `forSgr` -/
  | skipParams (c : Nat)
  /-- `vt.cursor.Attribute |= bit` / `&^= bit` / `= 0` -/
  | attrOn (bit : Nat)
  | attrOff (bit : Nat)
  | attrClear
  /-- `vt.cursor.Foreground / Background / UnderlineColor = …` -/
  | setCol (slot : Slot) (c : ColEx)
  /-- `vt.cursor.UnderlineStyle = vaxis.Underline…` -/
  | setUl (n : Nat)
  /-- `log.Error(…)`: no effect on the emulator state -/
  | logErr
  /-- an `if` whose condition contains checked accesses into the parameter list (`params[i+1][0]`, `params[i][1]`) -/
  | iteP (c : Cond) (t f : Stmt)
  /-- osc(): `a, b, f := cutString(src, ";")` (string locals `a`, `b`, bool local `f`; `none` = `_`) -/
  | cut (a b f : Option Nat) (src : Nat)
  /-- `vt.postEvent(…)` -/
  | post
  /-- `vt.cursor.Hyperlink = <string local>` / `vt.cursor.HyperlinkParams = <string local>` -/
  | setLink (v : Nat)
  | setLinkParams (v : Nat)
  /-- osc() 11: `rgb := vt.vx.QueryBackground().Params()` (asks the HOST terminal; no effect on the emulator state) -/
  | hostQuery
  /-- osc() 52: `decodedBytes, err := base64.StdEncoding.DecodeString(<string local>)`: the bool local is `err != nil` -/
  | b64Decode (err : Nat)
  /-- osc() 52: `vt.vx.ClipboardPush(string(decodedBytes))` (a nil dereference without a Vaxis) -/
  | clipPush
  /-- inline arms of esc() / c0() / csi(): `vt.charsets.singleShift = b`, `vt.charsets.selected = g<n>`,
      `vt.charsets.designations[g<k>] = ascii (0) | decSpecialAndLineDrawing (1)`, `vt.cursor.style = vaxis.CursorStyle(e)` -/
  | setSS (b : Bool)
  | setSel (n : Nat)
  | setDesig (k v : Nat)
  | setShape (x : Ex)
  /-- a statement that only builds or sends a reply to the child — `fmt.Fprintf(vt.pty, …)`, `vt.pty.WriteString(…)`,
      `resp := strings.Builder{}`, `resp.WriteString("…")`, `resp := fmt.Sprintf("…", <ints>)` with `resp` a local used
      for nothing else: no effect on the emulator state -/
  | reply (r : Reply)
  /-- csi(): `for _, param := range params { for i, p := range param { body } }` — every value of the parameter list,
      sub-parameters included, in place; inside, `p` is `Ex.pcur` and `param[i] = e` is `setPcur e` -/
  | forPmAll (body : Stmt)
  /-- `param[i] = e` inside `forPmAll` -/
  | setPcur (e : Ex)
  /-- `ch := vt.activeScreen[r][c]` (a copy of the cell, held in the frame) -/
  | loadCell (r c : Ex)
  /-- `vt.activeScreen[r][c].Character = ch.Character` -/
  | setCharFromCell (r c : Ex)
  | prim (p : Prim)
  /-- `vt.f()` / `vt.f(arg)` -/
  | call (f : Fn) (arg : Option Ex)
  | unknown (text : String)
  deriving DecidableEq, Repr, Inhabited

/-- The kinds of parsed sequence update() switches on (`ansi.Print`, `ansi.C0`, …). -/
inductive SeqKind where
  | print | c0 | esc | csi | osc | dcs | apc
  deriving DecidableEq, Repr, Inhabited

/-- What an arm of update()'s type switch does (recognised by the shape of its statements). -/
inductive UArm where
  /-- `vt.print(seq)` -/
  | print
  /-- `vt.c0(rune(seq))` -/
  | c0
  /-- `esc := append(seq.Intermediate, seq.Final); vt.esc(string(esc))` -/
  | esc
  /-- `csi := append(seq.Intermediate, seq.Final); vt.csi(string(csi), seq.Parameters)` -/
  | csi
  /-- `vt.osc(string(seq.Payload))` -/
  | osc
  /-- `switch seq.Final { case 'q': … }`: the sixel arm (Model/EmuDcs.lean; guards = the generated `dcsGuards`) -/
  | dcs
  /-- `vt.postEvent(…)` -/
  | post
  | unknown (text : String)
  deriving DecidableEq, Repr, Inhabited

/-- A translated function: number of int locals (parameters first) and the body. -/
structure Body where
  name : String
  nlocals : Nat
  stmt : Stmt
  deriving DecidableEq, Repr, Inhabited

end VaxisModel.Model.EmuBody
