/-
"Go `int` is modelled by ℤ" made checkable: `rangeS` follows the execution of a translated body
(Model/EmuBody.lean) and answers whether EVERY integer addition / subtraction the Go code performs
on the way — operands of assignments, conditions, loop bounds, index expressions, call arguments,
and the loop counters up to their exit value — has a result within ±2^62 (so that int64 arithmetic
and ℤ arithmetic coincide, with a factor 2 to spare). Inside loops the check is conservative: both
branches of an `if` are checked, and the statements after a `break`/`continue`.
`Props/C05Overflow.lean` proves `rangeS … = true` for every covered body from every state that
satisfies the emulator invariant on a terminal of at most 65535×65535 with clamped parameters.
Core Lean only.
-/
import VaxisModel.Model.EmuBody

namespace VaxisModel.Model.EmuBody
open VaxisModel.Gen.TermModes VaxisModel.Model.Emu

/-- 2^62 -/
def lim : Int := 4611686018427387904

def inR (v : Int) : Bool := decide (-lim ≤ v ∧ v ≤ lim)

/-- every `+` / `-` node of the expression has a value in range -/
def exR (pm : List Param) (s : Frame) (lvs : List Int) : Ex → Bool
  | .add a b => exR pm s lvs a && exR pm s lvs b && inR (evalEx pm s lvs (.add a b))
  | .sub a b => exR pm s lvs a && exR pm s lvs b && inR (evalEx pm s lvs (.sub a b))
  | _ => true

/-- a list of argument expressions (a formatted reply) -/
def exsR (pm : List Param) (s : Frame) : List Ex → Bool
  | [] => true
  | x :: rest => exR pm s [] x && exsR pm s rest

def condR (pm : List Param) (s : Frame) (lvs : List Int) : Cond → Bool
  | .cmp _ a b => exR pm s lvs a && exR pm s lvs b
  | .and a b => condR pm s lvs a && condR pm s lvs b
  | .or a b => condR pm s lvs a && condR pm s lvs b
  | .not a => condR pm s lvs a
  | _ => true

def bndR (pm : List Param) (s : Frame) (lvs : List Int) : Bnd → Bool
  | .lt e => exR pm s lvs e
  | .le e => exR pm s lvs e
  | .both a b => bndR pm s lvs a && bndR pm s lvs b

/-- statements inside loops (the frame is read-only there) -/
def rangeG (pm : List Param) (s : Frame) : Stmt → List Int → Bool
  | .seq a b, l => rangeG pm s a l && rangeG pm s b l
  | .ite c t f, l => condR pm s l c && rangeG pm s t l && rangeG pm s f l
  | .forUp lo hi body, l =>
    exR pm s l lo && bndR pm s l hi &&
    -- the counter runs from lo to (inclusive bound) + 1, its exit value
    inR (evalEx pm s l lo) && inR (evalBnd pm s l hi + 1) &&
    (List.range (evalBnd pm s l hi + 1 - evalEx pm s l lo).toNat).all
      (fun k => rangeG pm s body (l ++ [evalEx pm s l lo + (k : Int)]))
  | .forDown hi lo body, l =>
    exR pm s l hi && exR pm s l lo &&
    inR (evalEx pm s l hi) && inR (evalEx pm s l lo - 1) &&
    (List.range (evalEx pm s l hi + 1 - evalEx pm s l lo).toNat).all
      (fun k => rangeG pm s body (l ++ [evalEx pm s l hi - (k : Int)]))
  | .erase r c, l => exR pm s l r && exR pm s l c
  | .copyRow d sr, l => exR pm s l d && exR pm s l sr
  | .cellCopy r c r2 c2, l => exR pm s l r && exR pm s l c && exR pm s l r2 && exR pm s l c2
  | .cellZero r c, l => exR pm s l r && exR pm s l c
  | .touchRow r, l => exR pm s l r
  | .setWrapped r c, l => exR pm s l r && exR pm s l c
  | .putGlyph r c w, l => exR pm s l r && exR pm s l c && exR pm s l w
  | .setSpace r c, l => exR pm s l r && exR pm s l c
  | .setPen r c, l => exR pm s l r && exR pm s l c
  | .setCharFromCell r c, l => exR pm s l r && exR pm s l c
  | _, _ => true

/-- continue a check with the result of a computation (nothing to check after a panic) -/
def andThenM {α : Type} (r : M α) (k : α → Bool) : Bool :=
  match r with
  | .ok a => k a
  | .error _ => true

/-- continue the check in the state a statement leaves behind (nothing to check after a `return`
    or a panic) -/
def andThen (r : M (Frame × Sig)) (k : Frame → Bool) : Bool :=
  match r with
  | .ok (s1, .norm) => k s1
  | _ => true

/-- a loop over the tab stops (`tabLoop`): the body is checked at every tab stop actually visited, in the frame it is run in -/
def rangeTabLoop (chk : Frame → Bool) (run : Frame → M (Frame × Sig)) : List Int → Frame → Bool
  | [], _ => true
  | t :: rest, s =>
    chk { s with tab := t } &&
      (match run { s with tab := t } with
       | .ok (s2, sg) => if sg = .brk ∨ sg = .ret then true else rangeTabLoop chk run rest { s2 with tab := s.tab }
       | .error _ => true)

/-- statements at function level: follows the execution -/
def rangeS (pm : List Param) : Stmt → Frame → Bool
  | .seq a b, s =>
    rangeS pm a s && andThen (evalS pm a s) (fun s1 => rangeS pm b s1)
  | .assign _ x, s => exR pm s [] x
  | .ite c t f, s => condR pm s [] c && (if evalCond pm s [] c then rangeS pm t s else rangeS pm f s)
  | .call _ (some x), s => exR pm s [] x
  | .skip, _ => true
  | .setLastCol _, _ => true
  | .ret, _ => true
  | .brk, _ => true
  | .cont, _ => true
  | .call _ none, _ => true
  | .unknown _, _ => true
  | .prim _, _ => true
  | .loadCell r c, s => exR pm s [] r && exR pm s [] c
  | .tabsNew, _ => true
  | .allocAlt _, _ => false       -- not analysed
  | .allocPrimary _, _ => false
  | .fillRows _, _ => false
  | .clampSaved _ _, _ => false
  | .tabsAppendTab, _ => true
  | .tabsStore, _ => true
  | .tabsClear, _ => true
  | .tabsPushCol, _ => true
  | .forTabs body, s => rangeTabLoop (fun s => rangeS pm body s) (fun s => evalS pm body s) s.e.tabs s
  | .forTabsDown body, s => rangeTabLoop (fun s => rangeS pm body s) (fun s => evalS pm body s) s.e.tabs.reverse s
  | .forS _ _ _ _, _ => false     -- not analysed (round 3: function-level loops, sgr, osc, modes)
  | .forSgr _, _ => false
  | .forParams _, _ => false
  | .iteP _ _ _, _ => false
  | .setCol _ _, _ => false
  | .tabsAppendRange _ _ _, _ => false
  | .cut _ _ _ _, _ => true
  | .setSS _, _ => true
  | .setSel _, _ => true
  | .setDesig _ _, _ => true
  | .setShape x, s => exR pm s [] x
  | .pmDefault0, _ => true
  | .skipParams _, _ => true
  | .attrOn _, _ => true
  | .attrOff _, _ => true
  | .attrClear, _ => true
  | .setUl _, _ => true
  | .logErr, _ => true
  -- the int arguments of a formatted reply (`vt.cursor.row+1`, `vt.cursor.col+1` of the cursor-position report) are Go arithmetic too
  | .reply (.sprintf _ args), s => exsR pm s args
  | .reply (.fprintf _ args), s => exsR pm s args
  | .reply _, _ => true
  | .setMode _ _, _ => true
  | .post, _ => true
  | .setLink _, _ => true
  | .setLinkParams _, _ => true
  | .hostQuery, _ => true
  | .b64Decode _, _ => true
  | .clipPush, _ => true
  | .loadOldCell r c, s => exR pm s [] r && exR pm s [] c
  | .penFromCell, _ => true
  | .printCell, _ => false        -- print() is not analysed
  | .assignCellWrapped _, _ => true
  | st, s => rangeG pm s st []

def rangeBody (b : Body) (pm : List Param) (args : List Int) (e : Emu) : Bool :=
  rangeS pm b.stmt (initFrame e args)

end VaxisModel.Model.EmuBody
