/-
The range check of Model/EmuBodyRange.lean extended to the statements of resize() (round 4): `rangeR` follows the
function-level loops (`Stmt.forS`, through `forSGo`: the body is checked in every iteration actually run, in the frame it runs
in, and the counter's next value `v += 1` is checked too), the allocation statements (their argument expressions), the saved-cursor
clamp (`row(h) - 1`, `column(w) - 1`) and `printCell` — the check of print()'s translated body on the cell's width in the state
the call is made in. Everything else is `rangeS`. Core Lean only.
-/
import VaxisModel.Model.EmuBodyRange
import VaxisModel.Gen.TermBodies

namespace VaxisModel.Model.EmuBody
open VaxisModel.Gen.TermModes VaxisModel.Model.Emu VaxisModel.Gen

/-- a function-level ascending loop (`forSGo`): `n` iterations from `i` -/
def rangeForS (chk : Frame → Bool) (run : Frame → M (Frame × Sig)) (v : Nat) : Nat → Int → Frame → Bool
  | 0, _, _ => true
  | n + 1, i, s =>
    inR (i + 1) && chk (s.set (.var v) i) &&
      (match run (s.set (.var v) i) with
       | .ok (s2, sg) => if sg = .brk ∨ sg = .ret then true else rangeForS chk run v n (i + 1) s2
       | .error _ => true)

def rangeR (pm : List Param) : Stmt → Frame → Bool
  | .seq a b, s => rangeR pm a s && andThen (evalS pm a s) (fun s1 => rangeR pm b s1)
  | .ite c t f, s => condR pm s [] c && (if evalCond pm s [] c then rangeR pm t s else rangeR pm f s)
  | .forS v lo hi body, s =>
    exR pm s [] lo && bndR pm s [] hi && inR (evalEx pm s [] lo) && inR (evalBnd pm s [] hi + 1) &&
      rangeForS (fun s => rangeR pm body s) (fun s => evalS pm body s) v
        (evalBnd pm s [] hi + 1 - evalEx pm s [] lo).toNat (evalEx pm s [] lo) s
  | .allocAlt h, s => exR pm s [] h
  | .allocPrimary h, s => exR pm s [] h
  | .fillRows w, s => exR pm s [] w
  | .clampSaved h w, s => exR pm s [] h && exR pm s [] w && inR (evalEx pm s [] h - 1) && inR (evalEx pm s [] w - 1)
  | .printCell, s => rangeBody TermBodies.body_print [] [(s.cell.w : Int)] s.e
  | st, s => rangeS pm st s

def rangeBodyR (b : Body) (pm : List Param) (args : List Int) (e : Emu) : Bool :=
  rangeR pm b.stmt (initFrame e args)

end VaxisModel.Model.EmuBody
