/-
The DCS branch of update() (widgets/term/term.go): `ESC P … q <data> ST` is handed to the external
sixel decoder (github.com/mattn/go-sixel) unless it carries intermediates / parameters or —
since fix F105i (107607c) — `sixelTooLarge(data)` holds. A decoded image is appended to
`vt.graphics`, which is not part of `Emu` (Draw places it; it never touches the grid).

The decoder is a PARAMETER: what it does on a payload is the value `DecOutcome` passed in (the
harness observes it on the real library). `sixelTooLarge` itself is transcribed (and compared with
the real function on every generated payload by the C05 stream).
Kept apart from `EOp`/`emuStepF` (whose shape the C06/C12 refinement proofs unfold).
Core Lean only.
-/
import VaxisModel.Model.Emu

namespace VaxisModel.Model.Emu
open VaxisModel.Gen.TermModes

/-- the scanner of sixelTooLarge: `n` the number being read, `x` the width of the current sixel
    line, `lines` the sixel lines seen; `data` as code points -/
def sixelScan : List Nat → Nat → Nat → Nat → Bool
  | [], _, _, _ => false
  | c :: rest, n, x, lines =>
    if 48 ≤ c ∧ c ≤ 57 then
      if n * 10 + (c - 48) > maxSixelSize then true else sixelScan rest (n * 10 + (c - 48)) x lines
    else if c = 32 ∨ c = 33 then sixelScan rest n x lines
    else if c = 36 then sixelScan rest 0 0 lines
    else if c = 45 then
      if (lines + 1) * 6 > maxSixelSize then true else sixelScan rest 0 0 (lines + 1)
    else if 63 ≤ c ∧ c ≤ 126 then
      if x + (if n = 0 then 1 else n) > maxSixelSize then true
      else sixelScan rest 0 (x + (if n = 0 then 1 else n)) lines
    else sixelScan rest 0 x lines

def sixelTooLarge (data : List Nat) : Bool := sixelScan data 0 0 0

/-- What the external decoder does with a payload: an image, an error, or a crash of the host
    (panic, unbounded allocation, unbounded loop). -/
inductive DecOutcome where
  | image | error | crash
  deriving DecidableEq, Repr, Inhabited

structure DcsInfo where
  final : Nat
  nInter : Nat := 0
  nParams : Nat := 0
  data : List Nat := []
  dec : DecOutcome := .error
  deriving Repr, Inhabited

/-- `case ansi.DCS:` of update(); `f105i` = the size guard is present. -/
def dcsF (f105i : Bool) (e : Emu) (d : DcsInfo) : M Emu :=
  if d.final ≠ 113 then .ok e                       -- only 'q'
  else if d.nInter > 0 then .ok e
  else if d.nParams > 0 then .ok e
  else if f105i && sixelTooLarge d.data then .ok e
  else match d.dec with
    | .crash => .error .oob
    | _ => .ok e                                    -- image: appended to vt.graphics (outside Emu)

def dcs (e : Emu) (d : DcsInfo) : M Emu := dcsF dcsGuardsSize e d

end VaxisModel.Model.Emu
