/-
Model of `(*term.Model).Draw(win vaxis.Window)` (widgets/term/term.go) and of the part of
`vaxis.Window` it uses (window.go: `New`, `SetCell`, `ShowCursor`; screen.go: `setCell`).

* `drawCalls` transcribes the two loops of Draw: `for row := 0; row < height; row++ { for col := 0;
  col < width; { cell := activeScreen[row][col]; …; win.SetCell(col,row,cell.Cell); col += max w 1 } }`.
  Every index expression is a checked access (`getI`, failure = `Panic.oob`). The inner loop has a
  variable step ≥ 1, so it gets fuel = width; running out of fuel is `Panic.hang` (unreachable, but
  that is a theorem, not an assumption).
* `draw` = the resize when the window size differs from the emulator size (`Model.Emu.resize`; the
  ioctl on the pty is not modelled), the calls, and the cursor passed to `win.ShowCursor`.
  `fixCursor = true` is the code as it is now (commit f1d14bf, finding F105g: the column is
  `min(cursor.col, margin.right)`); `false` is the code before that commit (`cursor.col`).
* Not modelled: the loop over `vt.graphics` (sixel images; the emulator model has no graphics, the
  list is always empty in the states the model describes), `vt.dirty`, the mutex.
* `Win`/`setCellChain`/`showCursorChain`: a window is its offset from the parent and its size; a
  chain lists the window, its parent, … up to (and including) the root window; below the root is
  the screen buffer `screenNext` of `sw × sh` cells.
Core Lean only.
-/
import VaxisModel.Model.Emu

namespace VaxisModel.Model.EmuDraw
open VaxisModel.Model.Emu

/-- One `win.SetCell(col, row, cell)` made by Draw (window-relative coordinates). -/
structure DrawCall where
  col : Int
  row : Int
  cell : ECell
  deriving DecidableEq, Repr, Inhabited

/-- `cell.Cell` after `if cell.Grapheme == "" { cell.Grapheme = " " }` (the `wrapped` flag is not
    part of `vaxis.Cell`). -/
def drawnCell (c : ECell) : ECell :=
  { c with g := if c.g = [] then [32] else c.g, wrapped := false }

/-- The inner loop of Draw for one row, from column `col`. -/
def rowCalls (g : Grid) (width row : Int) : Nat → Int → M (List DrawCall)
  | 0, col => if col < width then .error .hang else .ok []
  | fuel + 1, col =>
    if col < width then do
      let line ← getI g row
      let cell ← getI line col
      let w : Int := if cell.w = 0 then 1 else (cell.w : Int)
      let rest ← rowCalls g width row fuel (col + w)
      .ok ({ col := col, row := row, cell := drawnCell cell } :: rest)
    else .ok []

/-- The outer loop: `n` rows starting at `row`. -/
def allRows (g : Grid) (width : Int) : Nat → Int → M (List DrawCall)
  | 0, _ => .ok []
  | n + 1, row => do
    let a ← rowCalls g width row width.toNat 0
    let b ← allRows g width n (row + 1)
    .ok (a ++ b)

def drawCalls (e : Emu) : M (List DrawCall) := allRows e.active e.width e.height.toNat 0

/-- The argument of `win.ShowCursor`, if it is called. -/
def shownCursor (fixCursor : Bool) (e : Emu) (focused : Bool) : Option (Int × Int) :=
  if e.mode.dectcem && focused then
    let col := if fixCursor && decide (e.cur.col > e.right) then e.right else e.cur.col
    some (col, e.cur.row)
  else none

/-- `Draw(win)` for a window of size `winW × winH`: the state afterwards, the `SetCell` calls in
    order, and the `ShowCursor` call (column, row). -/
def draw (fixCursor : Bool) (fx : Fixes) (e : Emu) (winW winH : Int) (focused : Bool) :
    M (Emu × List DrawCall × Option (Int × Int)) := do
  let e ← if winW ≠ e.width ∨ winH ≠ e.height then resize fx e winW winH else .ok e
  let calls ← drawCalls e
  .ok ({ e with hasVx := true }, calls, shownCursor fixCursor e focused)

/-- `Draw` as it is now (fcc8f92, F105h): a window without area draws nothing and does not resize
    the terminal; otherwise `draw`. `guardArea = false` is the code before that commit. -/
def drawG (guardArea fixCursor : Bool) (fx : Fixes) (e : Emu) (winW winH : Int) (focused : Bool) :
    M (Emu × List DrawCall × Option (Int × Int)) :=
  if guardArea && (decide (winW ≤ 0) || decide (winH ≤ 0)) then .ok (e, [], none)
  else draw fixCursor fx e winW winH focused

/-! ### vaxis.Window -/

structure Win where
  /-- Column: offset from the parent -/
  col : Int
  /-- Row -/
  row : Int
  w : Int
  h : Int
  deriving DecidableEq, Repr, Inhabited

/-- `vx.Window()` -/
def Win.root (sw sh : Int) : Win := { col := 0, row := 0, w := sw, h := sh }

/-- `parent.New(col, row, cols, rows)` -/
def Win.new (parent : Win) (col row cols rows : Int) : Win :=
  { col := col, row := row,
    w := if cols < 0 then parent.w - col else if cols + col > parent.w then parent.w - col else cols,
    h := if rows < 0 then parent.h - row else if rows + row > parent.h then parent.h - row else rows }

/-- `win.SetCell(col, row, _)` through the parent chain down to `screenNext.setCell`: the host cell
    written, `none` if the call is discarded. -/
def setCellChain (sw sh : Int) : List Win → Int → Int → Option (Int × Int)
  | [], col, row =>
    if col < 0 ∨ row < 0 then none
    else if col ≥ sw then none
    else if row ≥ sh then none
    else some (col, row)
  | win :: parents, col, row =>
    if row ≥ win.h ∨ col ≥ win.w then none
    else if row < 0 ∨ col < 0 then none
    else setCellChain sw sh parents (col + win.col) (row + win.row)

/-- `win.ShowCursor(col, row, _)`: not clipped anywhere. -/
def showCursorChain : List Win → Int → Int → Int × Int
  | [], col, row => (col, row)
  | win :: parents, col, row => showCursorChain parents (col + win.col) (row + win.row)

/-- `win.Origin()` -/
def origin (chain : List Win) : Int × Int := showCursorChain chain 0 0

end VaxisModel.Model.EmuDraw
