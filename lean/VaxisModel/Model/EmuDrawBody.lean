/-
Meaning of the translated body of `(*Model).Draw` (Model/EmuDrawLang.lean, Gen/TermDraw.lean) in the vocabulary of the
hand-written model Model/EmuDraw.lean: the `SetCell` calls in order, the `ShowCursor` call, the state afterwards.
Conventions: every index expression is a checked access (`getI`, failure = `Panic.oob`); `forUp` reads its bound at loop
entry (the body of the row loop changes neither the screen nor its size); `forWhile` (the column loop, whose step is the
width of the cell just drawn) re-reads the bound and gets fuel = the bound at loop entry — running out of fuel with the
condition still true is `Panic.hang` (unreachable for steps ≥ 1, which is a theorem of Props/C05Draw.lean, not an
assumption here). Not modelled: the mutex, `vt.dirty`, the pty ioctl of `Resize`, `win.Width/Height` (a copy), the
graphics loop. Core Lean only.
-/
import VaxisModel.Model.EmuDrawLang
import VaxisModel.Model.EmuBody
import VaxisModel.Model.EmuDraw

namespace VaxisModel.Model.EmuDrawBody
open VaxisModel.Model.Emu VaxisModel.Model.EmuBody VaxisModel.Model.EmuDraw

structure DFrame where
  /-- the emulator, the int locals and the cell local (`Frame.e`, `.vars`, `.cell`) -/
  f : Frame
  winW : Int
  winH : Int
  focused : Bool
  calls : List DrawCall := []
  cursor : Option (Int × Int) := none

def DFrame.setVar (s : DFrame) (k : Nat) (v : Int) : DFrame := { s with f := s.f.set (.var k) v }

def ev (s : DFrame) (x : Ex) : Int := evalEx [] s.f [] x

/-- `n` iterations from `i` (a `return` in the body ends the function) -/
def upLoop (body : Int → DFrame → M (DFrame × Bool)) : Nat → Int → DFrame → M (DFrame × Bool)
  | 0, _, s => .ok (s, false)
  | n + 1, i, s => do
    let r ← body i s
    if r.2 then .ok r else upLoop body n (i + 1) r.1

/-- `while cond { body }` with fuel -/
def whileLoop (cond : DFrame → Bool) (body : DFrame → M (DFrame × Bool)) : Nat → DFrame → M (DFrame × Bool)
  | 0, s => if cond s then .error .hang else .ok (s, false)
  | fuel + 1, s =>
    if cond s then do
      let r ← body s
      if r.2 then .ok r else whileLoop cond body fuel r.1
    else .ok (s, false)

/-- the frame afterwards and "the function has returned" -/
def evalD : DStmt → DFrame → M (DFrame × Bool)
  | .skip, s => .ok (s, false)
  | .seq a b, s => do
    let r ← evalD a s
    if r.2 then .ok r else evalD b r.1
  | .lock, s => .ok (s, false)
  | .deferUnlock, s => .ok (s, false)
  | .dirtyFalse, s => .ok (s, false)
  | .winSize w h, s => .ok ((s.setVar w s.winW).setVar h s.winH, false)
  | .ite c t f, s => if evalCond [] s.f [] c then evalD t s else evalD f s
  | .iteFocused c t, s => if evalCond [] s.f [] c && s.focused then evalD t s else .ok (s, false)
  | .ret, s => .ok (s, true)
  | .setWinW _, s => .ok (s, false)
  | .setWinH _, s => .ok (s, false)
  | .resize w h, s => do
    let e' ← Emu.resize Fixes.current s.f.e (ev s w) (ev s h)
    .ok ({ s with f := { s.f with e := e' } }, false)
  | .forUp v lo hi body, s =>
    upLoop (fun i s => evalD body (s.setVar v i)) (ev s hi - ev s lo).toNat (ev s lo) s
  | .forWhile v lo hi body, s =>
    let s0 := s.setVar v (ev s lo)
    whileLoop (fun s => decide (s.f.vars v < ev s hi)) (fun s => evalD body s) (ev s0 hi - ev s lo).toNat s0
  | .loadCell r c, s => do
    let row ← getI s.f.e.active (ev s r)
    let x ← getI row (ev s c)
    .ok ({ s with f := { s.f with cell := x } }, false)
  | .wFromCell k, s => .ok (s.setVar k (s.f.cell.w : Int), false)
  | .spaceIfEmpty, s => .ok ({ s with f := { s.f with cell := { s.f.cell with g := if s.f.cell.g = [] then [32] else s.f.cell.g } } }, false)
  | .setCell c r, s =>
    -- `cell.Cell`: the `wrapped` flag is not part of vaxis.Cell
    .ok ({ s with calls := s.calls ++ [{ col := ev s c, row := ev s r, cell := { s.f.cell with wrapped := false } }] }, false)
  | .assign k x, s => .ok (s.setVar k (ev s x), false)
  | .showCursor c r, s => .ok ({ s with cursor := some (ev s c, ev s r) }, false)
  | .vxLocal, s => .ok (s, false)
  | .setVx, s => .ok ({ s with f := { s.f with e := { s.f.e with hasVx := true } } }, false)
  | .graphics, s => .ok (s, false)
  | .unknown _, s => .ok (s, false)

/-- Run the translated body of Draw on a window of `winW × winH`: the state afterwards, the `SetCell` calls, the `ShowCursor` call. -/
def evalDraw (st : DStmt) (e : Emu) (winW winH : Int) (focused : Bool) : M (Emu × List DrawCall × Option (Int × Int)) := do
  let r ← evalD st { f := initFrame e [], winW := winW, winH := winH, focused := focused }
  .ok (r.1.f.e, r.1.calls, r.1.cursor)

def recognised : DStmt → Bool
  | .seq a b => recognised a && recognised b
  | .ite _ t f => recognised t && recognised f
  | .iteFocused _ t => recognised t
  | .forUp _ _ _ b => recognised b
  | .forWhile _ _ _ b => recognised b
  | .unknown _ => false
  | _ => true

end VaxisModel.Model.EmuDrawBody
