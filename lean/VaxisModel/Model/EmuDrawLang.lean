/-
The statement language into which `extract/cmd/C05/draw.go` translates the body of `(*Model).Draw(win vaxis.Window)`
(widgets/term/term.go): a deep embedding, so that `Gen/TermDraw.lean` is a plain data value and a source edit changes it.
Expressions (`Ex`), conditions (`Cond`) and places are those of the statement language of the control functions
(Model/EmuBodyLang.lean); int locals are numbered in order of declaration. Only types here; the meaning is `evalDraw` in
Model/EmuDrawBody.lean; `Props/C05DrawBody.lean` proves `evalDraw Gen.stmt_Draw = Model.EmuDraw.drawG` for all states.
Core Lean only.
-/
import VaxisModel.Model.EmuBodyLang

namespace VaxisModel.Model.EmuDrawBody
open VaxisModel.Model.EmuBody

inductive DStmt where
  | skip
  | seq (a b : DStmt)
  /-- `vt.mu.Lock()` / `defer vt.mu.Unlock()` / `vt.dirty = false`: no effect on the modelled state -/
  | lock | deferUnlock | dirtyFalse
  /-- `width, height := win.Size()` (int locals `w`, `h`) -/
  | winSize (w h : Nat)
  | ite (c : Cond) (t f : DStmt)
  /-- `if <c> && atomicLoad(&vt.focused) { t }` -/
  | iteFocused (c : Cond) (t : DStmt)
  | ret
  /-- `win.Width = e` / `win.Height = e` (the window value is a copy: nothing outside Draw sees it) -/
  | setWinW (e : Ex) | setWinH (e : Ex)
  /-- `vt.Resize(w, h)`: `vt.resize(w, h)` + the ioctl on the pty (not modelled) -/
  | resize (w h : Ex)
  /-- `for v := lo; v < hi; v += 1 { body }` (int local `v`; the bound is read at loop entry: the body does not change it) -/
  | forUp (v : Nat) (lo hi : Ex) (body : DStmt)
  /-- `for v := lo; v < hi; { body }`: no post statement, the body advances `v` itself -/
  | forWhile (v : Nat) (lo hi : Ex) (body : DStmt)
  /-- `cell := vt.activeScreen[r][c]` (a copy; both index expressions are checked accesses) -/
  | loadCell (r c : Ex)
  /-- `w := cell.Width` -/
  | wFromCell (k : Nat)
  /-- `if cell.Grapheme == "" { cell.Grapheme = " " }` -/
  | spaceIfEmpty
  /-- `win.SetCell(c, r, cell.Cell)` -/
  | setCell (c r : Ex)
  /-- int local `k` := e (`x := e`, `x = e`, `x += e`) -/
  | assign (k : Nat) (e : Ex)
  /-- `win.ShowCursor(int(c), int(r), vt.cursor.style)` -/
  | showCursor (c r : Ex)
  /-- `vx := win.Vx` / `vt.vx = vx` -/
  | vxLocal | setVx
  /-- the loop over `vt.graphics` (sixel images: the emulator model has none; its source text is the generated `graphicsSrc`) -/
  | graphics
  | unknown (text : String)
  deriving DecidableEq, Repr, Inhabited

end VaxisModel.Model.EmuDrawBody
