/-!
# The embedded terminal's PTY goroutine and its own event channel (property C05, "events never stall")

Transcribed from `/repo/widgets/term/term.go`:

```go
vt.events = make(chan vaxis.Event, 2)            // New():  capacity  = `cap`
func (vt *Model) postEvent(ev) { vt.events <- ev }  // plain blocking send, called from update()

go func() {                                      // StartWithSize
    for {
        select {                                 // (only since commit 2f4ad1d: `drainFirst`)
        case ev := <-vt.events: vt.eventHandler(ev); continue     -- drainRecv
        default:                                                  -- drainDefault
        }
        select {
        case seq := <-vt.parser.Next():
            EOF     -> eventHandler(EventClosed); return          -- eof
            default -> vt.update(seq)                             -- pickParser  (may postEvent once)
        case ev := <-vt.events: vt.eventHandler(ev)               -- pickEvents
        case <-vt.timer.C: ... eventHandler(Redraw{})             -- pickTimer
        }
    }
}()
```

`update(seq)` raises at most one event per sequence (BEL, OSC 0/2/9/777;notify, APC) by calling
`postEvent` **on this same goroutine**, which is also the only receiver of `vt.events`.  So a send
on a full channel can never complete: the state "blocked in postEvent" has no successor.

The model is a labelled transition system.  Go's `select` picks *any* ready arm, so every label
that is enabled may be taken (all schedules); a `select` with `default` takes `default` only when
no other arm is ready.  The timer arm may become ready at any time and changes nothing that
matters here.  The parser arm is ready whenever the child has produced another item; the input is
an arbitrary `List Bool` (item i raises an event?), its end is the parser's `EOF` item.
-/
namespace VaxisModel.Model.EmuEvents

/-- Where the goroutine is. -/
inductive PC where
  /-- at the non-blocking "deliver pending events first" select -/
  | drain
  /-- at the main blocking select -/
  | main
  /-- inside `postEvent`, sending on a full channel -/
  | blocked
  /-- returned after EOF (EventClosed delivered) -/
  | done
  deriving DecidableEq, Repr

structure Sys where
  /-- parser items not yet consumed: `true` = `update` posts one event for it -/
  input : List Bool
  /-- number of events waiting in `vt.events` -/
  occ : Nat
  pc : PC
  /-- events handed to the handler so far -/
  delivered : Nat
  deriving DecidableEq, Repr

inductive Label where
  | drainRecv | drainDefault | pickParser | pickEvents | pickTimer | eof
  deriving DecidableEq, Repr

/-- Top of the `for` loop. -/
def top (drainFirst : Bool) : PC := if drainFirst then .drain else .main

def init (drainFirst : Bool) (input : List Bool) : Sys :=
  { input := input, occ := 0, pc := top drainFirst, delivered := 0 }

/-- One transition; `none` = the label is not enabled in this state. -/
def step (cap : Nat) (drainFirst : Bool) (s : Sys) (l : Label) : Option Sys :=
  match s.pc, l with
  | .drain, .drainRecv =>
      -- `case ev := <-vt.events` is ready iff the channel is non-empty; then `continue`
      if 0 < s.occ then
        some { s with occ := s.occ - 1, delivered := s.delivered + 1, pc := top drainFirst }
      else none
  | .drain, .drainDefault =>
      -- `default` is taken only when no other arm is ready
      if s.occ = 0 then some { s with pc := .main } else none
  | .main, .pickParser =>
      match s.input with
      | [] => none
      | false :: rest => some { s with input := rest, pc := top drainFirst }
      | true :: rest =>
          -- postEvent: the send proceeds iff there is room in the buffer
          if s.occ < cap then
            some { s with input := rest, occ := s.occ + 1, pc := top drainFirst }
          else
            some { s with input := rest, pc := .blocked }
  | .main, .eof =>
      match s.input with
      | [] => some { s with pc := .done }
      | _ :: _ => none
  | .main, .pickEvents =>
      if 0 < s.occ then
        some { s with occ := s.occ - 1, delivered := s.delivered + 1, pc := top drainFirst }
      else none
  | .main, .pickTimer => some { s with pc := top drainFirst }
  | _, _ => none

/-- A schedule: the labels taken, in order. `none` if one of them was not enabled. -/
def run (cap : Nat) (drainFirst : Bool) (s : Sys) : List Label → Option Sys
  | [] => some s
  | l :: ls =>
      match step cap drainFirst s l with
      | some s' => run cap drainFirst s' ls
      | none => none

/-- `s` is reached from the initial state by some schedule. -/
def Reachable (cap : Nat) (drainFirst : Bool) (input : List Bool) (s : Sys) : Prop :=
  ∃ ls, run cap drainFirst (init drainFirst input) ls = some s

/-- Blocked in `postEvent`: nobody else receives from that channel, so this is forever. -/
def stuck (s : Sys) : Prop := s.pc = .blocked

instance (s : Sys) : Decidable (stuck s) := by unfold stuck; infer_instance

def allLabels : List Label :=
  [.drainRecv, .drainDefault, .pickParser, .pickEvents, .pickTimer, .eof]

/-- Number of event-raising items in an input. -/
def raising (input : List Bool) : Nat := input.count true

/-! ## Invariants (stated here, proved in `Props/C05Events.lean`) -/

/-- With the priority drain: the channel is empty at the main select (and after return), holds at
    most the one event of the last sequence at the drain select, and the goroutine is never
    inside a blocked send. -/
def DrainInv (s : Sys) : Prop :=
  s.pc ≠ .blocked ∧ (s.pc = .drain → s.occ ≤ 1) ∧ (s.pc = .main ∨ s.pc = .done → s.occ = 0)

/-- 1 while the goroutine is inside `postEvent` with an event that is not yet in the channel. -/
def inFlight (s : Sys) : Nat := if s.pc = .blocked then 1 else 0

/-- Nothing is lost or invented: the events delivered, waiting in the channel or being sent are
    exactly those raised by the items consumed so far. -/
def Conserved (input0 : List Bool) (s : Sys) : Prop :=
  ∃ consumed, input0 = consumed ++ s.input ∧
    s.delivered + s.occ + inFlight s = raising consumed

/-! ## Executable schedulers (used by the correspondence driver)

A scheduler is a priority list of labels; the first enabled one is taken.  `pickTimer` is left
out (it only re-enters the loop).  Fuel bounds the number of steps; `3 * length + 3` always
suffices (each item costs at most pickParser + drainRecv/pickEvents + drainDefault). -/

def firstEnabled (cap : Nat) (drainFirst : Bool) (s : Sys) : List Label → Option Sys
  | [] => none
  | l :: ls =>
      match step cap drainFirst s l with
      | some s' => some s'
      | none => firstEnabled cap drainFirst s ls

def runSched (cap : Nat) (drainFirst : Bool) (prio : List Label) : Nat → Sys → Sys
  | 0, s => s
  | fuel + 1, s =>
      match firstEnabled cap drainFirst s prio with
      | some s' => runSched cap drainFirst prio fuel s'
      | none => s

/-- Always take the parser item when one is there (the schedule that fills the channel fastest). -/
def parserFirst : List Label := [.pickParser, .eof, .drainRecv, .drainDefault, .pickEvents]
/-- Always deliver a pending event before anything else. -/
def eventsFirst : List Label := [.drainRecv, .pickEvents, .drainDefault, .pickParser, .eof]

def fuelFor (input : List Bool) : Nat := 3 * input.length + 3

def runWith (cap : Nat) (drainFirst : Bool) (prio : List Label) (input : List Bool) : Sys :=
  runSched cap drainFirst prio (fuelFor input) (init drainFirst input)

end VaxisModel.Model.EmuEvents
