/-
Line-protocol side of the emulator model: parsing of op lines, rendering and parsing of state
snapshots (the same text format is produced by the Go harness from `VerifSnapshot`).
Shared by the drivers C05, C06 (a file under Driver/ would become an executable of its own).

(tabs: `D` = the default tab stops, written out in full only on `new` lines)
Snapshot := `dim=R,C,PR,AR cur=r,c,L mar=t,b,l,r md=BITS act=p|a pen=STYLE sh=N chs=CS sp=SAVED sa=SAVED tabs=T P=GRID A=GRID`
STYLE    := `-` (zero style) | `fg.bg.ul.us.attr.linkhex.paramshex`
CS       := `sel.saved.ss.g0g1g2g3`
SAVED    := `row;col;awm;om;shape;CS;STYLE`
GRID     := `-` (no rows) | rows joined by `/`;  row := `e` (no cells) | runs joined by `,`;
            run := CELL | `N*CELL`;  CELL := `_` (zero cell) | `ghex:w:wrapped:STYLE`
Core Lean only.
-/
import VaxisModel.Driver.Common
import VaxisModel.Model.EmuState

namespace VaxisModel.Model.EmuIO
open VaxisModel.Driver VaxisModel.Model.Emu VaxisModel.Gen.TermModes

def b01 (b : Bool) : String := if b then "1" else "0"

def renderStyle (s : EStyle) : String :=
  if s = {} then "-" else
  s!"{s.fg}.{s.bg}.{s.ul}.{s.ulStyle}.{s.attr}.{hexOfBytes s.link}.{hexOfBytes s.linkParams}"

def renderCell (c : ECell) : String :=
  if c = {} then "_" else s!"{hexOfBytes c.g}:{c.w}:{b01 c.wrapped}:{renderStyle c.st}"

/-- run-length encode a row -/
def rleRow : Row → List (Nat × ECell)
  | [] => []
  | c :: rest =>
    match rleRow rest with
    | (n, d) :: more => if c = d then (n + 1, d) :: more else (1, c) :: (n, d) :: more
    | [] => [(1, c)]

def renderRow (r : Row) : String :=
  if r.isEmpty then "e" else
  ",".intercalate ((rleRow r).map fun (n, c) => if n = 1 then renderCell c else s!"{n}*{renderCell c}")

def renderGrid (g : Grid) : String :=
  if g.isEmpty then "-" else "/".intercalate (g.map renderRow)

def renderCs (c : Charsets) : String := s!"{c.sel}.{c.saved}.{b01 c.ss}.{c.g0}{c.g1}{c.g2}{c.g3}"

def renderSaved (s : Saved) : String :=
  s!"{s.cur.row};{s.cur.col};{b01 s.decawm};{b01 s.decom};{s.cur.shape};{renderCs s.cs};{renderStyle s.cur.st}"

def renderModes (m : Modes) : String := String.join (modeFields.map fun f => b01 (m.get f))

/-- Tab stops equal to the default ones are abbreviated `D` unless `fullTabs`. -/
def renderTabs (fullTabs : Bool) (t : List Int) : String :=
  if !fullTabs && t = defaultTabs then "D" else joinInts "," t

def renderSnap (e : Emu) (fullTabs : Bool := false) : String :=
  s!"dim={e.height},{e.width},{e.primary.length},{e.alt.length} cur={e.cur.row},{e.cur.col},{b01 e.lastCol} " ++
  s!"mar={e.top},{e.bottom},{e.left},{e.right} md={renderModes e.mode} act={if e.altActive then "a" else "p"} " ++
  s!"pen={renderStyle e.cur.st} sh={e.cur.shape} chs={renderCs e.cs} sp={renderSaved e.savedP} sa={renderSaved e.savedA} " ++
  s!"tabs={renderTabs fullTabs e.tabs} P={renderGrid e.primary} A={renderGrid e.alt}"

/-! ### parsing -/

def parseBool? (s : String) : Option Bool := if s = "1" then some true else if s = "0" then some false else none

def parseStyle? (s : String) : Option EStyle :=
  if s = "-" then some {} else
  match s.splitOn "." with
  | [fg, bg, ul, us, att, l, lp] => do
    some { fg := ← fg.toNat?, bg := ← bg.toNat?, ul := ← ul.toNat?, ulStyle := ← us.toNat?, attr := ← att.toNat?,
           link := ← hexBytes? l, linkParams := ← hexBytes? lp }
  | _ => none

def parseCell? (s : String) : Option ECell :=
  if s = "_" then some {} else
  match s.splitOn ":" with
  | [g, w, wr, st] => do
    some { g := ← hexBytes? g, w := ← w.toNat?, wrapped := ← parseBool? wr, st := ← parseStyle? st }
  | _ => none

def parseRun? (s : String) : Option (List ECell) :=
  match s.splitOn "*" with
  | [c] => do some [← parseCell? c]
  | [n, c] => do some (List.replicate (← n.toNat?) (← parseCell? c))
  | _ => none

def parseRow? (s : String) : Option Row :=
  if s = "e" then some [] else do
    let runs ← (s.splitOn ",").mapM parseRun?
    some runs.flatten

def parseGrid? (s : String) : Option Grid :=
  if s = "-" then some [] else (s.splitOn "/").mapM parseRow?

def digit01? (c : Char) : Option Nat := if c = '0' then some 0 else if c = '1' then some 1 else none

def parseCs? (s : String) : Option Charsets :=
  match s.splitOn "." with
  | [sel, sv, ss, gs] =>
    match gs.toList with
    | [a, b, c, d] => do
      some { sel := ← sel.toNat?, saved := ← sv.toNat?, ss := ← parseBool? ss,
             g0 := ← digit01? a, g1 := ← digit01? b, g2 := ← digit01? c, g3 := ← digit01? d }
    | _ => none
  | _ => none

def parseSaved? (s : String) : Option Saved :=
  match s.splitOn ";" with
  | [r, c, awm, om, sh, cs, st] => do
    some { cur := { row := ← r.toInt?, col := ← c.toInt?, shape := ← sh.toInt?, st := ← parseStyle? st },
           decawm := ← parseBool? awm, decom := ← parseBool? om, cs := ← parseCs? cs }
  | _ => none

def parseModes? (s : String) : Option Modes :=
  let cs := s.toList
  if cs.length ≠ modeFields.length then none else
  (modeFields.zip cs).foldlM (fun (m : Modes) (fc : ModeField × Char) => do
    let b ← parseBool? (String.singleton fc.2)
    some (m.set fc.1 b)) ({} : Modes)

def kv? (key : String) (tok : String) : Option String :=
  if tok.startsWith (key ++ "=") then some ((tok.drop (key.length + 1)).toString) else none

/-- The parsed snapshot as an `Emu` (plus the four reported dimensions, which for a well-formed
    state are redundant). -/
structure Snap where
  e : Emu
  dimR : Int
  dimC : Int
  dimPR : Int
  dimAR : Int

def parseSnap? (s : String) : Option Snap :=
  match fields s with
  | [dim, cur, mar, md, act, pen, sh, chs, sp, sa, tabs, p, a] => do
    let dims ← commaInts? (← kv? "dim" dim)
    let curv ← kv? "cur" cur
    let marv ← commaInts? (← kv? "mar" mar)
    let mode ← parseModes? (← kv? "md" md)
    let actv ← kv? "act" act
    let penv ← parseStyle? (← kv? "pen" pen)
    let shv ← (← kv? "sh" sh).toInt?
    let csv ← parseCs? (← kv? "chs" chs)
    let spv ← parseSaved? (← kv? "sp" sp)
    let sav ← parseSaved? (← kv? "sa" sa)
    let tabs' ← kv? "tabs" tabs
    let tabv ← if tabs' = "D" then some defaultTabs else commaInts? tabs'
    let pg ← parseGrid? (← kv? "P" p)
    let ag ← parseGrid? (← kv? "A" a)
    match dims, curv.splitOn ",", marv with
    | [dr, dc, dpr, dar], [r, c, l], [t, b, lft, rgt] =>
      let e : Emu := { primary := pg, alt := ag, altActive := actv = "a",
                       cur := { row := ← r.toInt?, col := ← c.toInt?, st := penv, shape := shv },
                       top := t, bottom := b, left := lft, right := rgt, lastCol := ← parseBool? l,
                       mode := mode, cs := csv, tabs := tabv, savedP := spv, savedA := sav }
      some { e := e, dimR := dr, dimC := dc, dimPR := dpr, dimAR := dar }
    | _, _, _ => none
  | _ => none

/-! ### op lines -/

def parseParam? (s : String) : Option Param :=
  match (s.splitOn ":").mapM (·.toInt?) with
  | some (a :: rest) => some (a, rest)
  | _ => none

def parseParams? (s : String) : Option (List Param) :=
  if s = "-" then some [] else (s.splitOn ";").mapM parseParam?

inductive Cmd where
  | new (w h : Int)
  | op (o : EOp)
  /-- continue from the implementation's snapshot without judging (a silently executed prefix) -/
  | adopt

def parseOp? (line : String) : Option Cmd :=
  match fields line with
  | ["new", w, h] => do some (.new (← w.toInt?) (← h.toInt?))
  | ["adopt"] => some .adopt
  | ["print", g, w] => do some (.op (.print (← hexBytes? g) (← w.toNat?)))
  | ["c0", n] => do some (.op (.c0 (← n.toNat?)))
  | ["esc", l] => do some (.op (.esc (← hexBytes? l)))
  | ["csi", l, p] => do some (.op (.csi (← hexBytes? l) (← parseParams? p)))
  | ["osc", d, b] => do some (.op (.osc (← hexBytes? d) { b64ok := ← parseBool? b }))
  | ["dcs"] => some (.op .dcs)
  | ["apc"] => some (.op .apc)
  | ["resize", w, h] => do some (.op (.resize (← w.toInt?) (← h.toInt?)))
  | _ => none

/-! ### the run-time invariant oracle (what C05 states about the state after every sequence) -/

def rowsOk (g : Grid) (rows cols : Int) : Bool :=
  decide ((g.length : Int) = rows) && g.all (fun r => decide ((r.length : Int) = cols))

/-- `none` = fine, `some why` = the property's state clause is violated. Evaluated on the
    implementation's snapshot. -/
def invViolation (s : Snap) : Option String :=
  let e := s.e
  let rows := s.dimR
  let cols := s.dimC
  if rows < 1 ∨ cols < 1 then some s!"size {rows}x{cols}"
  else if !(rowsOk e.primary rows cols) then some "primary grid: a row count or row width differs from the terminal size"
  else if !(rowsOk e.alt rows cols) then some "alternate grid: a row count or row width differs from the terminal size"
  else if e.cur.row < 0 ∨ e.cur.row ≥ rows then some s!"cursor row {e.cur.row} outside 0..{rows - 1}"
  else if e.cur.col < 0 ∨ e.cur.col > cols then some s!"cursor column {e.cur.col} outside 0..{cols}"
  else if e.top < 0 ∨ e.bottom ≥ rows ∨ e.top > e.bottom then some s!"margins top={e.top} bottom={e.bottom} not ordered within 0..{rows - 1}"
  else if e.left ≠ 0 ∨ e.right ≠ cols - 1 then some s!"margins left={e.left} right={e.right}"
  else none

end VaxisModel.Model.EmuIO
