/-
The labelled transition system of the PTY goroutine READ OFF the translated loop (Model/EmuLoopLang.lean, Gen/TermLoop.lean),
over the same states and labels as the hand-written system `Model/EmuEvents.lean`:
* the goroutine is at the first `select` of the loop (`PC.drain`, when the loop has two selects) or at the last one (`PC.main`);
* a receive arm is enabled when its channel is ready — `vt.events`: an event is waiting; the parser: the next item (non-EOF
  arm) or the end of the input (EOF arm); the timer: always; the `default` arm: when no receive arm of that select is ready
  (a select with a parser or timer arm never takes `default`: those channels may be ready at any time);
* the statements of the arm run on the counters: `handle` after a receive from `vt.events` delivers that event; `update` posts
  one event for an event-raising item — a send that proceeds iff there is room in the channel (capacity `cap`), otherwise the
  goroutine is blocked for ever; `continue` → top of the loop, `return` → done, falling out of the first select → the next.
Core Lean only.
-/
import VaxisModel.Model.EmuLoopLang
import VaxisModel.Model.EmuEvents

namespace VaxisModel.Model.EmuLoop
open VaxisModel.Model.EmuEvents

inductive Exit where
  | fall | cont | ret | blocked
  deriving DecidableEq, Repr

/-- the statements of an arm; `raises` = the item just received from the parser raises an event -/
def runActs (cap : Nat) (raises : Bool) : List Act → Sys → Sys × Exit
  | [], s => (s, .fall)
  | .handle :: r, s => runActs cap raises r { s with delivered := s.delivered + 1 }
  | .update :: r, s =>
    if raises then
      (if s.occ < cap then runActs cap raises r { s with occ := s.occ + 1 } else (s, .blocked))
    else runActs cap raises r s
  | .cont :: _, s => (s, .cont)
  | .ret :: _, s => (s, .ret)
  | _ :: r, s => runActs cap raises r s

/-- top of the `for` loop -/
def topOf (sels : List Sel) : PC := if sels.length ≥ 2 then .drain else .main

def finish (sels : List Sel) (atDrain : Bool) (r : Sys × Exit) : Sys :=
  match r.2 with
  | .fall => { r.1 with pc := if atDrain then .main else topOf sels }
  | .cont => { r.1 with pc := topOf sels }
  | .ret => { r.1 with pc := .done }
  | .blocked => { r.1 with pc := .blocked }

def armOf (sel : Sel) (c : Chan) : Option Arm := sel.arms.find? (·.chan = c)

/-- is a receive arm of the select ready? -/
def ready (s : Sys) (a : Arm) : Bool :=
  match a.chan with
  | .events => decide (0 < s.occ)
  | .parser => true
  | .timer => true

def isDrainLabel : Label → Bool
  | .drainRecv => true
  | .drainDefault => true
  | _ => false

/-- One transition of the translated loop; `none` = the label is not enabled. -/
def genStep (cap : Nat) (sels : List Sel) (s : Sys) (l : Label) : Option Sys :=
  let atDrain := decide (s.pc = .drain)
  if s.pc = .blocked ∨ s.pc = .done then none
  else if isDrainLabel l ≠ atDrain then none
  else if atDrain && decide (sels.length < 2) then none
  else
    match (if atDrain then sels.head? else sels.getLast?) with
    | none => none
    | some sel =>
      match l with
      | .drainDefault =>
        match sel.dflt with
        | none => none
        | some acts => if sel.arms.any (ready s) then none else some (finish sels atDrain (runActs cap false acts s))
      | .drainRecv | .pickEvents =>
        match armOf sel .events with
        | none => none
        | some a =>
          if 0 < s.occ then some (finish sels atDrain (runActs cap false a.body { s with occ := s.occ - 1 })) else none
      | .pickParser =>
        match armOf sel .parser, s.input with
        | some a, b :: rest => some (finish sels atDrain (runActs cap b a.body { s with input := rest }))
        | _, _ => none
      | .eof =>
        match armOf sel .parser, s.input with
        | some a, [] =>
          (match a.eof with
           | some acts => some (finish sels atDrain (runActs cap false acts s))
           | none => none)
        | _, _ => none
      | .pickTimer =>
        match armOf sel .timer with
        | none => none
        | some a => some (finish sels atDrain (runActs cap false a.body s))

end VaxisModel.Model.EmuLoop
