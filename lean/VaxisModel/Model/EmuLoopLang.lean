/-
The data into which `extract/cmd/C05/loop.go` translates the PTY goroutine of StartWithSize (widgets/term/term.go): the
`select` statements of its `for` loop, each with its arms (the channel received from; what the arm does; for the parser arm
what it does when the item is `ansi.EOF`) and its `default` arm. Only types here (imported by Gen/TermLoop.lean); the labelled
transition system read off this data is `Model/EmuLoop.lean`, and `Props/C05Loop.lean` proves it is `Model.EmuEvents.step`.
Core Lean only.
-/
namespace VaxisModel.Model.EmuLoop

/-- the channels the loop receives from: `<-vt.events`, `<-vt.parser.Next()`, `<-vt.timer.C` -/
inductive Chan where
  | events | parser | timer
  deriving DecidableEq, Repr, Inhabited

/-- one statement of an arm -/
inductive Act where
  /-- `vt.eventHandler(ev)` with the event just received -/
  | handle
  /-- `vt.update(seq)` with the item just received (posts at most one event: `events_per_op_le_one`) -/
  | update
  | cont | ret
  /-- `err := cmd.Wait()` / `vt.eventHandler(EventClosed{Term: vt, Error: err})` -/
  | wait | handleClosed
  /-- `vt.mu.Lock()` / `vt.timer.Stop()` / `vt.mu.Unlock()` / `vt.eventHandler(vaxis.Redraw{})` -/
  | lock | timerStop | unlock | handleRedraw
  | unknown (text : String)
  deriving DecidableEq, Repr, Inhabited

structure Arm where
  chan : Chan
  /-- `switch seq := seq.(type) { case ansi.EOF: <eof> default: <body> }`; `none` = no type switch -/
  eof : Option (List Act)
  body : List Act
  deriving DecidableEq, Repr, Inhabited

structure Sel where
  arms : List Arm
  dflt : Option (List Act)
  deriving DecidableEq, Repr, Inhabited

end VaxisModel.Model.EmuLoop
