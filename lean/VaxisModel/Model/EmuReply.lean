/-
Round 5: the reply TEXT of the translated bodies.

`Stmt.reply r` (Model/EmuBodyLang.lean) carries what the Go statement does with the reply: `resp := strings.Builder{}`,
`resp.WriteString("…")`, `resp := fmt.Sprintf("…%d…", ints)`, `vt.pty.WriteString("…" | resp | resp.String())`,
`fmt.Fprintf(vt.pty, "…%d…", ints)` — literals as UTF-8 bytes, arguments as int expressions of the body language, both
regenerated from widgets/term on every run (extract/cmd/C05/bodies.go). `evalS` ignores the text (a reply has no effect on
the emulator state); `replyS` below is `evalS` on the statements a reply arm is made of (`skip`, `;`, `if`, `local := literal`,
`reply`) and additionally collects the bytes written to `vt.pty`:

* `replyS_sound` (Lemmas/EmuReply.lean): whenever `replyS` answers, `evalS` returns exactly that frame with signal `norm` —
  `replyS` is `evalS` plus the output, not a second semantics;
* anything else (a loop, a call, a reply whose text is not carried: `Reply.opaque`, osc() 11) makes `replyS` answer `none`
  ("outside the reply fragment"), never a made-up text.

`%d` of an `int` is rendered by `intBytes` (decimal, `-` for negatives; 20 digits of fuel cover int64). A `%d` without an
argument cannot occur: the translator only emits `sprintf`/`fprintf` when the number of `%d` verbs equals the number of
arguments and there is no other verb (`replyFmt`); `sprintfD` leaves such a verb in place.
Core Lean only.
-/
import VaxisModel.Model.EmuBody

namespace VaxisModel.Model.EmuReply
open VaxisModel.Model.Emu VaxisModel.Model.EmuBody

def natDigits : Nat → Nat → List Nat
  | 0, _ => []
  | fuel + 1, n => if n < 10 then [48 + n] else natDigits fuel (n / 10) ++ [48 + n % 10]

/-- `%d` -/
def intBytes (n : Int) : List Nat := if n < 0 then 45 :: natDigits 20 n.natAbs else natDigits 20 n.toNat

/-- `fmt.Sprintf(format, args…)` for a format whose only verbs are `%d` -/
def sprintfD : List Nat → List Int → List Nat
  | [], _ => []
  | [c], _ => [c]
  | c :: d :: rest, as =>
    if c = 37 ∧ d = 100 then
      match as with
      | a :: as' => intBytes a ++ sprintfD rest as'
      | [] => c :: d :: sprintfD rest []
    else c :: sprintfD (d :: rest) as

/-- the local `resp` (a `strings.Builder` or a `string`) and what has been written to `vt.pty` -/
structure Out where
  resp : List Nat := []
  out : List Nat := []
  deriving DecidableEq, Repr, Inhabited

def stepReply (pm : List Param) (s : Frame) (o : Out) : Reply → Option Out
  | .newBuilder => some { o with resp := [] }
  | .append l => some { o with resp := o.resp ++ l }
  | .sprintf f args => some { o with resp := sprintfD f (args.map (evalEx pm s [])) }
  | .sendResp => some { o with out := o.out ++ o.resp }
  | .sendLit l => some { o with out := o.out ++ l }
  | .fprintf f args => some { o with out := o.out ++ sprintfD f (args.map (evalEx pm s [])) }
  | .opaque => none

/-- `evalS` on the reply fragment, with the bytes written to the child -/
def replyS (pm : List Param) : Stmt → Frame → Out → Option (Frame × Out)
  | .skip, s, o => some (s, o)
  | .seq a b, s, o =>
    match replyS pm a s o with
    | some r => replyS pm b r.1 r.2
    | none => none
  | .ite c t f, s, o => if evalCond pm s [] c then replyS pm t s o else replyS pm f s o
  | .assign (.var k) (.lit n), s, o => some (s.set (.var k) n, o)
  | .reply r, s, o =>
    match stepReply pm s o r with
    | some o' => some (s, o')
    | none => none
  | _, _, _ => none

/-- What a translated body writes to the child (`none`: the body is outside the reply fragment). -/
def replyOf (b : Body) (pm : List Param) (args : List Int) (e : Emu) : Option (List Nat) :=
  match replyS pm b.stmt (initFrame e args) {} with
  | some r => some r.2.out
  | none => none

end VaxisModel.Model.EmuReply
