/-
State and operation TYPES of the emulator model (split from Model/Emu.lean so that the snapshot
parser, the abstraction to the reference terminal and the C06 oracle driver do not depend on the
transcribed function bodies / the dispatch tables). See Model/Emu.lean for the conventions.
Core Lean only.
-/
import VaxisModel.Gen.TermModes

namespace VaxisModel.Model.Emu
open VaxisModel.Gen.TermModes

inductive Panic where
  | oob      -- index out of range / nil dereference
  | hang     -- more than `hangLimit` iterations of a parameter-controlled loop
  deriving DecidableEq, Repr, Inhabited

abbrev M := Except Panic

/-- Repairs committed to /repo (`fix:` commits), one flag per commit. -/
structure Fixes where
  /-- F18 (5679380): csi() clamps every parameter to 0..65535 before dispatch. -/
  f18 : Bool := false
  /-- F15 (d96bec9): cup() clamps row/column at 0. -/
  f15 : Bool := false
  /-- F17 (1a478d8): decstbm() clamps top at 0 and a bottom margin that is negative or below the screen to the last line. -/
  f17 : Bool := false
  /-- F16 (c291254): print() in insert mode shifts only `i >= col+w`. -/
  f16 : Bool := false
  /-- F105a (d31fad1): el(1) stops at the last column; rep() stops at `>=` the right margin. -/
  f105a : Bool := false
  /-- F105b (d4f805b): cht() (HT/CHT) stops at the right margin. -/
  f105b : Bool := false
  /-- F105c (6499aba): print() keeps the cursor column ≤ right margin + 1. -/
  f105c : Bool := false
  /-- F105d (eaf913d): osc 52 returns when no Vaxis is attached yet. -/
  f105d : Bool := false
  /-- F19 (3cec8c3): resize() resets the top margin and clamps both saved cursors to the new size. -/
  f19 : Bool := false
  /-- F105e (7b2007f): bs() does not reverse-wrap from row 0. -/
  f105e : Bool := false
  /-- F105f (99781cb): ri() tests the top margin first and stays on row 0. -/
  f105f : Bool := false
  /-- F21 (054ce86): ich() shifts only `i >= col+ps`, blanks up to and including the right margin,
      and the blanks are erased cells with the pen's background. -/
  f21 : Bool := false
  /-- F22 (f975160): il()/dl() clamp the count to `bottom - row + 1`. -/
  f22 : Bool := false
  /-- F54 (aed2e67): cnl()/cpl() are cud()/cuu() followed by column := left margin (no scrolling). -/
  f54 : Bool := false
  /-- F106b (c201973): cud() stops at the last line when it starts below the bottom margin. -/
  f106b : Bool := false
  /-- F106a (3986f41): vpa() moves a cursor in the pending-wrap column back to the right margin. -/
  f106a : Bool := false
  /-- F106c: decset 1049 clears the alternate screen on entry (with the current background). -/
  f106c : Bool := false
  /-- F112c (aefad78): resize() saves the pen before the reflow loop and restores it afterwards. -/
  f112c : Bool := false
  /-- F106d: cup() and decstbm() use the first two parameters of a longer list (they ignored the sequence). -/
  f106d : Bool := false
  /-- F106e (c03d8ee): ris() also resets the top margin, the pen and both saved cursors. -/
  f106e : Bool := false
  deriving DecidableEq, Repr, Inhabited

/-- The code before any repair. -/
def Fixes.none : Fixes := {}
/-- The code as it is in /repo now (one flag per `fix:` commit made so far). -/
def Fixes.current : Fixes :=
  { f18 := true, f15 := true, f17 := true, f16 := true, f105a := true, f105b := true, f105c := true,
    f105d := true, f19 := true, f105e := true, f105f := true, f21 := true, f22 := true, f54 := true,
    f106b := true, f106a := true, f106c := true, f112c := true, f106d := true, f106e := true }

abbrev G := List Nat          -- a grapheme: its UTF-8 bytes

structure EStyle where
  link : G := []
  linkParams : G := []
  fg : Nat := 0                -- vaxis.Color values (uint32)
  bg : Nat := 0
  ul : Nat := 0
  ulStyle : Nat := 0
  attr : Nat := 0
  deriving DecidableEq, Repr, Inhabited

structure ECell where
  g : G := []
  w : Nat := 0
  st : EStyle := {}
  wrapped : Bool := false
  deriving DecidableEq, Repr, Inhabited

abbrev Row := List ECell
abbrev Grid := List Row

/-- cell.erase(bg) -/
def ECell.erase (c : ECell) (bg : Nat) : ECell :=
  { c with g := [], w := 0, st := { c.st with attr := 0, ulStyle := 0, bg := bg, link := [], linkParams := [] } }

structure Modes where
  kam : Bool := false
  irm : Bool := false
  srm : Bool := false
  lnm : Bool := false
  decckm : Bool := false
  decanm : Bool := false
  deccolm : Bool := false
  decsclm : Bool := false
  decom : Bool := false
  decawm : Bool := false
  decarm : Bool := false
  decpff : Bool := false
  decpex : Bool := false
  dectcem : Bool := false
  decnrcm : Bool := false
  deckpam : Bool := false
  deckpnm : Bool := false
  smcup : Bool := false
  paste : Bool := false
  mouseButtons : Bool := false
  mouseDrag : Bool := false
  mouseMotion : Bool := false
  mouseSGR : Bool := false
  altScroll : Bool := false
  deriving DecidableEq, Repr, Inhabited

def Modes.get (m : Modes) : ModeField → Bool
  | .kam => m.kam | .irm => m.irm | .srm => m.srm | .lnm => m.lnm | .decckm => m.decckm
  | .decanm => m.decanm | .deccolm => m.deccolm | .decsclm => m.decsclm | .decom => m.decom
  | .decawm => m.decawm | .decarm => m.decarm | .decpff => m.decpff | .decpex => m.decpex
  | .dectcem => m.dectcem | .decnrcm => m.decnrcm | .deckpam => m.deckpam | .deckpnm => m.deckpnm
  | .smcup => m.smcup | .paste => m.paste | .mouseButtons => m.mouseButtons
  | .mouseDrag => m.mouseDrag | .mouseMotion => m.mouseMotion | .mouseSGR => m.mouseSGR
  | .altScroll => m.altScroll

def Modes.set (m : Modes) (f : ModeField) (b : Bool) : Modes :=
  match f with
  | .kam => { m with kam := b } | .irm => { m with irm := b } | .srm => { m with srm := b }
  | .lnm => { m with lnm := b } | .decckm => { m with decckm := b } | .decanm => { m with decanm := b }
  | .deccolm => { m with deccolm := b } | .decsclm => { m with decsclm := b } | .decom => { m with decom := b }
  | .decawm => { m with decawm := b } | .decarm => { m with decarm := b } | .decpff => { m with decpff := b }
  | .decpex => { m with decpex := b } | .dectcem => { m with dectcem := b } | .decnrcm => { m with decnrcm := b }
  | .deckpam => { m with deckpam := b } | .deckpnm => { m with deckpnm := b } | .smcup => { m with smcup := b }
  | .paste => { m with paste := b } | .mouseButtons => { m with mouseButtons := b }
  | .mouseDrag => { m with mouseDrag := b } | .mouseMotion => { m with mouseMotion := b }
  | .mouseSGR => { m with mouseSGR := b } | .altScroll => { m with altScroll := b }

/-- charsets: designations is a map that always holds the four keys g0..g3 (0 = ascii, 1 = DEC special). -/
structure Charsets where
  sel : Nat := 0
  saved : Nat := 0
  ss : Bool := false
  g0 : Nat := 0
  g1 : Nat := 0
  g2 : Nat := 0
  g3 : Nat := 0
  deriving DecidableEq, Repr, Inhabited

def Charsets.desig (c : Charsets) (k : Nat) : Nat :=
  if k = 0 then c.g0 else if k = 1 then c.g1 else if k = 2 then c.g2 else if k = 3 then c.g3 else 0

/-- type cursor: the pen (`Style`), the cursor shape and the position. -/
structure Cursor where
  row : Int := 0
  col : Int := 0
  st : EStyle := {}
  shape : Int := 0
  deriving DecidableEq, Repr, Inhabited

structure Saved where
  cur : Cursor := {}
  decawm : Bool := true
  decom : Bool := false
  cs : Charsets := {}
  deriving DecidableEq, Repr, Inhabited

structure Emu where
  primary : Grid := []
  alt : Grid := []
  /-- activeScreen aliases altScreen (else primaryScreen) -/
  altActive : Bool := false
  cur : Cursor := {}
  top : Int := 0
  bottom : Int := 0
  left : Int := 0
  right : Int := 0
  lastCol : Bool := false
  mode : Modes := { decawm := true, dectcem := true }
  cs : Charsets := {}
  tabs : List Int := []
  savedP : Saved := {}
  savedA : Saved := {}
  /-- Model.OSC8 -/
  osc8 : Bool := true
  /-- vt.vx != nil (set by Draw) -/
  hasVx : Bool := false
  deriving DecidableEq, Repr, Inhabited

/-! ### state accessors -/

def Emu.active (e : Emu) : Grid := if e.altActive then e.alt else e.primary

def Emu.setActive (e : Emu) (g : Grid) : Emu :=
  if e.altActive then { e with alt := g } else { e with primary := g }

def Emu.height (e : Emu) : Int := e.active.length

def Emu.width (e : Emu) : Int :=
  match e.active with
  | [] => 0
  | r :: _ => r.length

def Emu.bg (e : Emu) : Nat := e.cur.st.bg

/-- One CSI parameter: the value and its colon sub-parameters (the parser never yields an empty
    parameter, so `param[0]` is total). -/
abbrev Param := Int × List Int

def Param.len (p : Param) : Nat := 1 + p.2.length
/-- `param[k]` -/
def Param.get (p : Param) (k : Nat) : M Int :=
  match k with
  | 0 => .ok p.1
  | k + 1 => match p.2[k]? with
    | some v => .ok v
    | none => .error .oob

/-- Is `s` accepted by base64.StdEncoding.DecodeString? Not modelled: passed in by the harness
    (`OscInfo`), because it only decides between "log an error" and "push to the clipboard". -/
structure OscInfo where
  b64ok : Bool := false
  deriving DecidableEq, Repr, Inhabited

inductive EOp where
  | print (g : G) (w : Nat)
  | c0 (r : Nat)
  | esc (label : List Nat)                    -- intermediates ++ [final]
  | csi (label : List Nat) (params : List Param)
  | osc (payload : List Nat) (info : OscInfo)
  | dcs
  | apc
  | resize (w h : Int)
  deriving Repr, Inhabited

def defaultTabs : List Int :=
  (List.range ((tabLimit - tabFirst + tabStep - 1) / tabStep)).map (fun k => ((tabFirst + k * tabStep : Nat) : Int))

def blankGrid (w h : Nat) : Grid := List.replicate h (List.replicate w ({} : ECell))

end VaxisModel.Model.Emu
