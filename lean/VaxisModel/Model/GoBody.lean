/-
A small statement / expression language for Go function bodies, as the extractors
(`extract/cmd/C09/gobody`) regenerate them from /repo's source on every run
(`Gen/KeyBody.lean`, `Gen/TermBody.lean`).

It records the *decision structure* of a body: the order of the `if` / `switch` arms, every guard
as an expression over fields / constants / calls, and what each arm assigns, writes or returns.
Shapes the extractor does not know become `.unknown "<source>"`; `Ss.clean` is the recogniser
used by the `*_fully_recognised` theorems.

`Model/KeyBody.lean` and `Model/TermBody.lean` give the language a meaning (an interpreter over
the same `Uni` / `Key` / `Modes` values the hand-written models use) so that the bodies are
*executed*, not only compared.  Core Lean only.
-/

namespace VaxisModel.Model.GoBody

inductive BinOp where
  | land | lor | eq | ne | lt | le | gt | ge | add | sub | band | bor | andNot
  | other (s : String)
deriving DecidableEq, Repr

inductive UnOp where
  | not | neg | addr | deref
  | other (s : String)
deriving DecidableEq, Repr

inductive AssignTok where
  | set | define | orSet | addSet
  | other (s : String)
deriving DecidableEq, Repr

def BinOp.clean : BinOp → Bool | .other _ => false | _ => true
def UnOp.clean : UnOp → Bool | .other _ => false | _ => true
def AssignTok.clean : AssignTok → Bool | .other _ => false | _ => true

mutual
  /-- Expressions. Identifiers and selector chains over identifiers are `var "a.b.c"`. -/
  inductive E where
    | int (n : Int)
    | str (s : List Int)
    | tt
    | ff
    | nilv
    | var (x : String)
    | sel (e : E) (f : String)
    | bin (op : BinOp) (a b : E)
    | un (op : UnOp) (a : E)
    | call (fn : String) (args : Es)
    | idx (a i : E)
    | slc (a lo hi : E)
    | lit (ty : String) (elts : Es)
    | unknown (src : String)
  inductive Es where
    | nil
    | cons (h : E) (t : Es)
end

mutual
  /-- Statements. -/
  inductive S where
    | assign (tok : AssignTok) (lhs rhs : Es)
    | ifS (init : Ss) (cond : E) (thn els : Ss)
    | ret (vals : Es)
    /-- `switch [init;] [tag] { case labels: body … }`; `tag = .nilv` for a tag-less switch;
        `labels = .nil` is the `default` arm. -/
    | switchS (init : Ss) (tag : E) (cases : Cs)
    | typeSwitch (bind : String) (x : E) (cases : Cs)
    | forRange (k v : String) (x : E) (body : Ss)
    | expr (e : E)
    | brk
    | cont
    | varDecl (name ty : String)
    | deferS (e : E)
    | unknown (src : String)
  inductive Ss where
    | nil
    | cons (h : S) (t : Ss)
  inductive Cs where
    | nil
    | cons (labels : Es) (body : Ss) (t : Cs)
end

def Es.ofList : List E → Es
  | [] => .nil
  | h :: t => .cons h (Es.ofList t)

def Ss.ofList : List S → Ss
  | [] => .nil
  | h :: t => .cons h (Ss.ofList t)

def Cs.ofList : List (Es × Ss) → Cs
  | [] => .nil
  | (l, b) :: t => .cons l b (Cs.ofList t)

def Es.toList : Es → List E
  | .nil => []
  | .cons h t => h :: t.toList

def Ss.toList : Ss → List S
  | .nil => []
  | .cons h t => h :: t.toList

/-! ## Recogniser: no `.unknown` anywhere -/

mutual
  def E.clean : E → Bool
    | .unknown _ => false
    | .sel e _ => e.clean
    | .bin op a b => op.clean && a.clean && b.clean
    | .un op a => op.clean && a.clean
    | .call _ args => args.clean
    | .idx a i => a.clean && i.clean
    | .slc a lo hi => a.clean && lo.clean && hi.clean
    | .lit _ elts => elts.clean
    | _ => true
  def Es.clean : Es → Bool
    | .nil => true
    | .cons h t => h.clean && t.clean
end

mutual
  def S.clean : S → Bool
    | .assign tok l r => tok.clean && l.clean && r.clean
    | .ifS i c t e => i.clean && c.clean && t.clean && e.clean
    | .ret v => v.clean
    | .switchS i t cs => i.clean && t.clean && cs.clean
    | .typeSwitch _ x cs => x.clean && cs.clean
    | .forRange _ _ x b => x.clean && b.clean
    | .expr e => e.clean
    | .deferS e => e.clean
    | .unknown _ => false
    | _ => true
  def Ss.clean : Ss → Bool
    | .nil => true
    | .cons h t => h.clean && t.clean
  def Cs.clean : Cs → Bool
    | .nil => true
    | .cons l b t => l.clean && b.clean && t.clean
end

/-! ## Size (number of statements and expression nodes), for the evidence -/

mutual
  def E.size : E → Nat
    | .sel e _ => e.size + 1
    | .bin _ a b => a.size + b.size + 1
    | .un _ a => a.size + 1
    | .call _ args => args.size + 1
    | .idx a i => a.size + i.size + 1
    | .slc a lo hi => a.size + lo.size + hi.size + 1
    | .lit _ elts => elts.size + 1
    | _ => 1
  def Es.size : Es → Nat
    | .nil => 0
    | .cons h t => h.size + t.size
end

mutual
  def S.size : S → Nat
    | .assign _ l r => l.size + r.size + 1
    | .ifS i c t e => i.size + c.size + t.size + e.size + 1
    | .ret v => v.size + 1
    | .switchS i t cs => i.size + t.size + cs.size + 1
    | .typeSwitch _ x cs => x.size + cs.size + 1
    | .forRange _ _ x b => x.size + b.size + 1
    | .expr e => e.size + 1
    | .deferS e => e.size + 1
    | _ => 1
  def Ss.size : Ss → Nat
    | .nil => 0
    | .cons h t => h.size + t.size
  def Cs.size : Cs → Nat
    | .nil => 0
    | .cons l b t => l.size + b.size + t.size + 1
end

end VaxisModel.Model.GoBody
