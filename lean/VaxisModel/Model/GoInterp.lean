/-
An interpreter for the Go-body language of `Model/GoBody.lean`: it *executes* the bodies the
extractor regenerates from /repo (`Gen/KeyBody.lean`, `Gen/TermBody.lean`) over the same values the
hand-written models use (`Uni`, code-point strings, `Int` runes, masks).

Pure expressions (`evalE`), statements with an environment, a pty output buffer and Go's control
flow (`return`, `break`, `continue`; `break` inside a `switch` leaves the switch).  Anything the
interpreter has no meaning for is the value `V.err` / the result `R.err` — never a default.
Index expressions are checked (`err "index"` = Go's run-time panic).

Structural recursion over the syntax, no fuel: loops run over finite lists.  Core Lean only.
-/
import VaxisModel.Model.GoBody
import VaxisModel.Model.Key

namespace VaxisModel.Model.GoInterp
open VaxisModel.Model.GoBody VaxisModel.Model.Key

inductive V where
  | int (n : Int)
  | str (s : Str)
  | bool (b : Bool)
  | ints (l : List Int)
  | intss (l : List (List Int))
  | strs (l : List Str)
  | tup (l : List V)
  | struct (fields : List (String × V))
  /-- a value of interface type with its dynamic type name (subject of a type switch) -/
  | tag (ty : String) (v : V)
  | unit
  | err (why : String)
deriving Inhabited

abbrev Env := List (String × V)

/-- Bind a variable; a record also binds its fields as `x.f`. -/
def bind (x : String) (v : V) (env : Env) : Env :=
  if x = "_" ∨ x = "" then env else
  match v with
  | .struct fs => (x, v) :: ((fs.map fun fw => (x ++ "." ++ fw.1, fw.2)) ++ env)
  | _ => (x, v) :: env

/-- A package-level map literal, keyed by the integer components of its key. A struct-valued map
    is given field by field (all fields are integers in the code at hand). -/
inductive MapTable where
  | strs (t : List (List Int × Str))
  | ints (t : List (List Int × Int))
  | structs (fields : List (String × List (List Int × Int)))

structure Ctx where
  u : Uni
  /-- named constants (`ModShift`, `vaxis.KeyTab`, `unicode.MaxRune`, …) -/
  consts : Env
  /-- package-level maps -/
  maps : List (String × MapTable)
  /-- package-level slices that are ranged over -/
  slices : List (String × List V)
  /-- struct types: field names with zero values, in declaration order -/
  structs : List (String × List (String × V))
  /-- calls into other modelled functions: (result, bytes they write to the pty) -/
  funcs : String → List V → Option (V × Str)
  /-- calls without a meaning for the property (locking, redraw scheduling) -/
  noops : List String
  /-- `%d` -/
  fmtD : Int → Str

def utf8Len (r : Int) : Int := if r < 128 then 1 else if r < 2048 then 2 else if r < 65536 then 3 else 4

def strLen : Str → Int
  | [] => 0
  | r :: t => utf8Len r + strLen t

def natOp (f : Nat → Nat → Nat) (a b : Int) : V := .int ((f a.toNat b.toNat : Nat) : Int)

def vEq (a b : V) : Option Bool :=
  match a, b with
  | .int x, .int y => some (decide (x = y))
  | .str x, .str y => some (decide (x = y))
  | .bool x, .bool y => some (decide (x = y))
  | _, _ => none

def intCmp (f : Int → Int → Bool) (a b : V) : V :=
  match a, b with
  | .int x, .int y => .bool (f x y)
  | _, _ => .err "compare"

def intBits (f : Nat → Nat → Nat) (a b : V) : V :=
  match a, b with
  | .int x, .int y => natOp f x y
  | _, _ => .err "bit operation"

def binop (op : BinOp) (a b : V) : V :=
  match op with
  | .land =>
    -- `a && b`: `b` is not evaluated (so may be an error value) when `a` is false
    (match a, b with
     | .bool x, .bool y => .bool (x && y)
     | .bool false, _ => .bool false
     | _, _ => .err "&&")
  | .lor =>
    (match a, b with
     | .bool x, .bool y => .bool (x || y)
     | .bool true, _ => .bool true
     | _, _ => .err "||")
  | .eq => (match vEq a b with | some r => .bool r | none => .err "==")
  | .ne => (match vEq a b with | some r => .bool (!r) | none => .err "!=")
  | .lt => intCmp (fun x y => decide (x < y)) a b
  | .le => intCmp (fun x y => decide (x ≤ y)) a b
  | .gt => intCmp (fun x y => decide (x > y)) a b
  | .ge => intCmp (fun x y => decide (x ≥ y)) a b
  | .add =>
    (match a, b with
     | .int x, .int y => .int (x + y)
     | .str x, .str y => .str (x ++ y)
     | _, _ => .err "+")
  | .sub => (match a, b with | .int x, .int y => .int (x - y) | _, _ => .err "-")
  | .band => intBits (· &&& ·) a b
  | .bor => intBits (· ||| ·) a b
  | .andNot => intBits andNot a b
  | .other _ => .err "operator"

def unop (op : UnOp) (a : V) : V :=
  match op with
  | .not => (match a with | .bool x => .bool (!x) | _ => .err "!")
  | .neg => (match a with | .int x => .int (-x) | _ => .err "-")
  | .addr => a
  | .deref => a
  | .other _ => .err "operator"

/-- `fmt.Sprintf` with `%d` and `%c` verbs. -/
def sprintfAux (d : Int → Str) : Str → Bool → List V → Str → V
  | [], false, [], acc => .str acc
  | [], _, _, _ => .err "sprintf"
  | ch :: rest, false, args, acc =>
    if ch = 37 then sprintfAux d rest true args acc else sprintfAux d rest false args (acc ++ [ch])
  | ch :: rest, true, args, acc =>
    match args with
    | .int n :: args' =>
      if ch = 100 then sprintfAux d rest false args' (acc ++ d n)
      else if ch = 99 then sprintfAux d rest false args' (acc ++ strOfRune n)
      else .err "sprintf verb"
    | _ => .err "sprintf arg"

def V.asKey : V → Option (List Int)
  | .int n => some [n]
  | .struct fs => fs.foldr (fun fw acc => match fw.2, acc with | .int n, some l => some (n :: l) | _, _ => none) (some [])
  | _ => none

def lookupKey {α : Type} (k : List Int) : List (List Int × α) → Option α
  | [] => none
  | (k', v) :: rest => if k = k' then some v else lookupKey k rest

/-- `m[k]` on a package-level map: `(value or zero value, ok)`. -/
def mapIndex (m : MapTable) (k : V) : V :=
  match k.asKey with
  | none => .err "map key"
  | some key =>
    match m with
    | .strs t => .tup [.str ((lookupKey key t).getD []), .bool (lookupKey key t).isSome]
    | .ints t => .tup [.int ((lookupKey key t).getD 0), .bool (lookupKey key t).isSome]
    | .structs fields =>
      .tup [.struct (fields.map fun ft => (ft.1, V.int ((lookupKey key ft.2).getD 0))),
            .bool (match fields with | ft :: _ => (lookupKey key ft.2).isSome | [] => false)]

def listIndex (a i : V) : V :=
  match a, i with
  | .ints l, .int n => if 0 ≤ n then match l[n.toNat]? with | some x => .int x | none => .err "index" else .err "index"
  | .intss l, .int n => if 0 ≤ n then match l[n.toNat]? with | some x => .ints x | none => .err "index" else .err "index"
  | .strs l, .int n => if 0 ≤ n then match l[n.toNat]? with | some x => .str x | none => .err "index" else .err "index"
  | _, _ => .err "index type"

def listSlice (a lo hi : V) : V :=
  match a, lo, hi with
  | .strs l, .int x, .int y =>
    if 0 ≤ x ∧ x ≤ y ∧ y ≤ (l.length : Int) then .strs ((l.take y.toNat).drop x.toNat) else .err "slice bounds"
  | _, _, _ => .err "slice type"

def litValue (c : Ctx) (ty : String) (elts : List V) : V :=
  if ty = "bytes.Buffer" then (if elts.isEmpty then .str [] else .err "lit")
  else if ty = "[][]int" then
    (elts.foldr (fun e acc => match e, acc with | .ints l, .intss r => .intss (l :: r) | _, _ => .err "lit") (.intss []))
  else if ty = "" then
    (elts.foldr (fun e acc => match e, acc with | .int n, .ints r => .ints (n :: r) | _, _ => .err "lit") (.ints []))
  else match c.structs.lookup ty with
    | some fields =>
      if elts.isEmpty then .struct fields
      else if elts.length = fields.length then .struct ((fields.map (·.1)).zip elts)
      else .err "lit arity"
    | none => .err ("lit " ++ ty)

def uniPred (f : Int → Bool) : List V → V
  | [.int r] => .bool (f r)
  | _ => .err "unicode arg"

def uniMap (f : Int → Int) : List V → V
  | [.int r] => .int (f r)
  | _ => .err "unicode arg"

/-- Calls (pure). -/
def callFn (c : Ctx) (env : Env) (fn : String) (args : List V) : V :=
  if fn = "string" then (match args with | [.int r] => .str (strOfRune r) | _ => .err "string()")
  else if fn = "rune" then (match args with | [.int r] => .int (toRune r) | _ => .err "rune()")
  else if fn = "int" ∨ fn = "ModifierMask" ∨ fn = "EventType" then (match args with | [.int r] => .int r | _ => .err "conv")
  else if fn = "unicode.IsUpper" then uniPred c.u.isUpper args
  else if fn = "unicode.IsLower" then uniPred c.u.isLower args
  else if fn = "unicode.IsLetter" then uniPred c.u.isLetter args
  else if fn = "unicode.IsGraphic" then uniPred c.u.isGraphic args
  else if fn = "unicode.IsPrint" then uniPred c.u.isPrint args
  else if fn = "unicode.ToUpper" then uniMap c.u.toUpper args
  else if fn = "unicode.ToLower" then uniMap c.u.toLower args
  else if fn = "len" then
    (match args with
     | [.str s] => .int (strLen s)
     | [.ints l] => .int l.length
     | [.intss l] => .int l.length
     | [.strs l] => .int l.length
     | _ => .err "len")
  else if fn = "utf8.DecodeRuneInString" then
    (match args with
     | [.str []] => .tup [.int 0xFFFD, .int 0]
     | [.str (r :: _)] => .tup [.int r, .int (utf8Len r)]
     | _ => .err "DecodeRuneInString")
  else if fn = "strings.Split" then
    (match args with | [.str s, .str [sep]] => .strs (splitOn sep s) | _ => .err "Split")
  else if fn = "strings.ToLower" then
    (match args with | [.str s] => .str (s.map c.u.toLower) | _ => .err "ToLower")
  else if fn = "strings.EqualFold" then
    (match args with | [.str a, .str b] => .bool (equalFold c.u a b) | _ => .err "EqualFold")
  else if fn = "fmt.Sprintf" then
    (match args with | .str f :: rest => sprintfAux c.fmtD f false rest [] | _ => .err "Sprintf")
  else if fn = "bytes.NewBuffer" then (match args with | [.unit] => .str [] | _ => .err "NewBuffer")
  else if fn = "buf.String" then (match args, env.lookup "buf" with | [], some (.str b) => .str b | _, _ => .err "buf.String")
  else match c.funcs fn args with
    | some (v, _) => v
    | none => .err ("call " ++ fn)

mutual
  def evalE (c : Ctx) (env : Env) : E → V
    | .int n => .int n
    | .str s => .str s
    | .tt => .bool true
    | .ff => .bool false
    | .nilv => .unit
    | .var x =>
      match env.lookup x with
      | some v => v
      | none => match c.consts.lookup x with
        | some v => v
        | none => .err ("unbound " ++ x)
    | .sel _ _ => .err "selector"
    | .bin op a b => binop op (evalE c env a) (evalE c env b)
    | .un op a => unop op (evalE c env a)
    | .call fn args => callFn c env fn (evalEs c env args)
    | .idx a i =>
      match a with
      | .var m =>
        match env.lookup m, c.maps.lookup m with
        | none, some tbl => mapIndex tbl (evalE c env i)
        | _, _ => listIndex (evalE c env a) (evalE c env i)
      | _ => listIndex (evalE c env a) (evalE c env i)
    | .slc a lo hi => listSlice (evalE c env a) (evalE c env lo) (evalE c env hi)
    | .lit ty elts => litValue c ty (evalEs c env elts)
    | .unknown _ => .err "unknown expression"
  def evalEs (c : Ctx) (env : Env) : Es → List V
    | .nil => []
    | .cons h t => evalE c env h :: evalEs c env t
end

structure St where
  env : Env
  /-- bytes written to the pty so far -/
  out : Str := []

inductive R where
  | norm (st : St)
  | ret (st : St) (v : V)
  | brk (st : St)
  | cont (st : St)
  | err (why : String)

/-- Sequencing: continue with `f` after a statement that completed normally. -/
def R.andThen (r : R) (f : St → R) : R :=
  match r with
  | .norm st => f st
  | r => r

/-- Two-way branch on a Go `bool`. -/
def branch (v : V) (a b : Unit → R) : R :=
  match v with
  | .bool x => if x = true then a () else b ()
  | .err e => .err e
  | _ => .err "condition is not a bool"

def V.isTrue : V → Bool
  | .bool x => x
  | _ => false

def lhsNames : Es → Option (List String)
  | .nil => some []
  | .cons (.var x) t => (lhsNames t).map (x :: ·)
  | .cons _ _ => none

def bindAll : List String → List V → Env → Env
  | x :: xs, v :: vs, env => bindAll xs vs (bind x v env)
  | _, _, env => env

def hasErr : List V → Bool
  | [] => false
  | .err _ :: _ => true
  | .tup l :: t => (l.any fun v => match v with | .err _ => true | _ => false) || hasErr t
  | _ :: t => hasErr t

/-- An assignment with already evaluated right-hand sides. -/
def assignVals (tok : AssignTok) (names : List String) (vals : List V) (st : St) : R :=
  if hasErr vals then .err "assign: error value" else
  match tok with
  | .set | .define =>
    (match names, vals with
     | [a, b], [.tup [x, y]] => .norm { st with env := bind b y (bind a x st.env) }
     | _, _ => if names.length = vals.length then .norm { st with env := bindAll names vals st.env } else .err "assign arity")
  | .orSet =>
    (match names, vals with
     | [a], [v] => (match st.env.lookup a with
        | some old => (match binop .bor old v with | .err e => .err e | w => .norm { st with env := bind a w st.env })
        | none => .err "assign |= unbound")
     | _, _ => .err "assign |=")
  | .addSet =>
    (match names, vals with
     | [a], [v] => (match st.env.lookup a with
        | some old => (match binop .add old v with | .err e => .err e | w => .norm { st with env := bind a w st.env })
        | none => .err "assign += unbound")
     | _, _ => .err "assign +=")
  | .other _ => .err "assign token"

/-- A call in statement position. -/
def callStmt (c : Ctx) (st : St) (fn : String) (args : List V) : R :=
  if hasErr args then .err "call: error value"
  else if fn = "vt.pty.WriteString" then
    (match args with | [.str s] => .norm { st with out := st.out ++ s } | _ => .err "WriteString")
  else if fn = "buf.WriteRune" then
    (match args, st.env.lookup "buf" with
     | [.int r], some (.str b) => .norm { st with env := bind "buf" (.str (b ++ strOfRune r)) st.env }
     | _, _ => .err "buf.WriteRune")
  else if fn = "buf.WriteString" then
    (match args, st.env.lookup "buf" with
     | [.str s], some (.str b) => .norm { st with env := bind "buf" (.str (b ++ s)) st.env }
     | _, _ => .err "buf.WriteString")
  else if c.noops.contains fn then .norm st
  else match c.funcs fn args with
    | some (_, w) => .norm { st with out := st.out ++ w }
    | none => .err ("call statement " ++ fn)

def zeroOf (ty : String) : V :=
  if ty = "ModifierMask" ∨ ty = "rune" ∨ ty = "int" then .int 0
  else if ty = "bool" then .bool false
  else if ty = "string" then .str []
  else .err ("zero " ++ ty)

def rangeItems (c : Ctx) (env : Env) (x : E) : Option (List V) :=
  match x with
  | .var name =>
    match env.lookup name, c.slices.lookup name with
    | none, some items => some items
    | _, _ =>
      match evalE c env x with
      | .str s => some (s.map V.int)
      | .ints l => some (l.map V.int)
      | .intss l => some (l.map V.ints)
      | .strs l => some (l.map V.str)
      | _ => none
  | _ => none

/-- Run `f` over the items of a `for … range`. -/
def loop (f : St → V → Nat → R) : List V → Nat → St → R
  | [], _, st => .norm st
  | it :: rest, i, st =>
    match f st it i with
    | .norm st' => loop f rest (i + 1) st'
    | .cont st' => loop f rest (i + 1) st'
    | .brk st' => .norm st'
    | r => r

def labelHit (c : Ctx) (env : Env) (tv : V) : Es → Bool
  | .nil => false
  | .cons l t => (binop .eq (evalE c env l) tv).isTrue || labelHit c env tv t

def tyHit (ty : String) : Es → Bool
  | .nil => false
  | .cons (.var x) t => x == ty || tyHit ty t
  | .cons _ t => tyHit ty t

def afterSwitch : R → R
  | .brk st => .norm st
  | r => r

mutual
  def execS (c : Ctx) : S → St → R
    | .assign tok lhs rhs, st =>
      match lhsNames lhs with
      | none => .err "assign target"
      | some names =>
        -- a single call to another modelled function may write to the pty
        match rhs with
        | .cons (.call fn args) .nil =>
          let vals := evalEs c st.env args
          (match c.funcs fn vals with
           | some (v, w) => if hasErr vals then .err "call: error value" else assignVals tok names [v] { st with out := st.out ++ w }
           | none => assignVals tok names (evalEs c st.env rhs) st)
        | _ => assignVals tok names (evalEs c st.env rhs) st
    | .ifS init cond thn els, st =>
      (execSs c init st).andThen fun st1 => branch (evalE c st1.env cond) (fun _ => execSs c thn st1) (fun _ => execSs c els st1)
    | .ret vals, st =>
      match evalEs c st.env vals with
      | [] => .ret st .unit
      | [v] => (match v with | .err e => .err e | _ => .ret st v)
      | vs => if hasErr vs then .err "return: error value" else .ret st (.tup vs)
    | .switchS init tag cases, st =>
      (execSs c init st).andThen fun st1 =>
        let tv := match tag with | .nilv => V.bool true | _ => evalE c st1.env tag
        match tv with
        | .err e => .err e
        | _ => afterSwitch (execCs c tv st1 (fun _ => execDefault c st1 cases) cases)
    | .typeSwitch bnd x cases, st =>
      match evalE c st.env x with
      | .tag ty inner =>
        let st1 := { st with env := bind bnd inner st.env }
        afterSwitch (execTy c ty st1 (fun _ => execDefault c st1 cases) cases)
      | _ => .err "type switch subject"
    | .forRange k v x body, st =>
      match rangeItems c st.env x with
      | none => .err "range"
      | some items =>
        loop (fun st' it i => execSs c body { st' with env := bind v it (bind k (.int i) st'.env) }) items 0 st
    | .expr e, st =>
      match e with
      | .call fn args => callStmt c st fn (evalEs c st.env args)
      | _ => .err "expression statement"
    | .brk, st => .brk st
    | .cont, st => .cont st
    | .varDecl name ty, st =>
      match zeroOf ty with
      | .err e => .err e
      | z => .norm { st with env := bind name z st.env }
    | .deferS e, st =>
      match e with
      | .call fn _ => if c.noops.contains fn then .norm st else .err "defer"
      | _ => .err "defer"
    | .unknown _, _ => .err "unknown statement"
  def execSs (c : Ctx) : Ss → St → R
    | .nil, st => .norm st
    | .cons h t, st => (execS c h st).andThen fun st' => execSs c t st'
  /-- the first non-default arm with a matching label, else `dflt` -/
  def execCs (c : Ctx) (tv : V) (st : St) (dflt : Unit → R) : Cs → R
    | .nil => dflt ()
    | .cons labels body t =>
      if labelHit c st.env tv labels = true then execSs c body st else execCs c tv st dflt t
  def execTy (c : Ctx) (ty : String) (st : St) (dflt : Unit → R) : Cs → R
    | .nil => dflt ()
    | .cons labels body t =>
      if tyHit ty labels = true then execSs c body st else execTy c ty st dflt t
  /-- the `default` arm (falling out of the switch if there is none) -/
  def execDefault (c : Ctx) (st : St) : Cs → R
    | .nil => .norm st
    | .cons .nil body _ => execSs c body st
    | .cons (.cons _ _) _ t => execDefault c st t
end

/-! Observers of a finished run -/

/-- the function returned a `bool` -/
def R.retBool : R → Option Bool
  | .ret _ (.bool b) => some b
  | _ => none

/-- the function returned a `string` -/
def R.retStr : R → Option Str
  | .ret _ (.str s) => some s
  | _ => none

/-- (bytes written to the pty, returned string) -/
def R.outRetStr : R → Option (Str × Str)
  | .ret st (.str s) => some (st.out, s)
  | _ => none

/-- bytes written to the pty by a function without result (returning or falling off its end) -/
def R.outOnly : R → Option Str
  | .ret st .unit => some st.out
  | .norm st => some st.out
  | _ => none

/-- the environment at the `return` -/
def R.retEnv : R → Option Env
  | .ret st _ => some st.env
  | _ => none

/-- Run a function body: `(returned value, bytes written to the pty, final environment)`. A body
    that falls off its end returns `unit`. -/
def run (c : Ctx) (body : Ss) (env : Env) : Except String (V × Str × Env) :=
  match execSs c body { env := env } with
  | .ret st v => .ok (v, st.out, st.env)
  | .norm st => .ok (.unit, st.out, st.env)
  | .brk _ => .error "break outside a loop"
  | .cont _ => .error "continue outside a loop"
  | .err e => .error e

end VaxisModel.Model.GoInterp
