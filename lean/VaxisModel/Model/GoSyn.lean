/-
A tiny abstract syntax for the Go function bodies the C19 extractor translates
(`extract/cmd/C19` → `Gen/DynSkel.lean`), plus an evaluator for its arithmetic / boolean
expressions.  Statements are kept FLAT (one `Line` per statement head, with its nesting depth), and
calls are curried, so that both types are plain (non-nested) inductives with derived decidable
equality: a regenerated body can be compared with the transcribed one by `decide`.

Anything the translator does not recognise becomes `Expr.unknown src` / a line of kind `unknown`;
`fullyRecognised` says none occurs.
-/
namespace VaxisModel.Model.GoSyn

inductive Expr where
  | var (name : String)              -- identifier or a selector chain of identifiers (`d.scroll.top`)
  | int (n : Nat)                    -- integer literal
  | lit (src : String)               -- other literal / composite literal / type, as source text
  | un (op : String) (a : Expr)      -- unary operator (`-`, `!`, `&`, `*`)
  | bin (op : String) (a b : Expr)   -- binary operator
  | sel (a : Expr) (field : String)  -- selector on a non-identifier
  | index (a i : Expr)
  | call (f : Expr)                  -- `f(` … the arguments follow as `arg` …
  | arg (c : Expr) (a : Expr)        -- `f(a, b)` = `arg (arg (call f) a) b`
  | pair (a b : Expr)                -- `a, b` (tuple on either side of an assignment, result lists)
  | none                             -- absent (no second operand)
  | unknown (src : String)
deriving DecidableEq, Repr, Inhabited

inductive Kind where
  | assign | define | addAssign | subAssign | inc | dec
  | ifS | elseS | forS | forInit | forPost | rangeS
  | switchS | typeSwitchS | caseS
  | breakS | continueS | returnS | exprS | varS | blockS
  | unknown
deriving DecidableEq, Repr, Inhabited

/-- One statement head: `depth` = nesting depth, `e1`, `e2` = its operands (lhs/rhs, condition, range
    variables / ranged expression, …). -/
structure Line where
  depth : Nat
  kind  : Kind
  e1    : Expr
  e2    : Expr
deriving DecidableEq, Repr, Inhabited

def Expr.hasUnknown : Expr → Bool
  | .unknown _ => true
  | .un _ a => a.hasUnknown
  | .bin _ a b => a.hasUnknown || b.hasUnknown
  | .sel a _ => a.hasUnknown
  | .index a i => a.hasUnknown || i.hasUnknown
  | .call f => f.hasUnknown
  | .arg c a => c.hasUnknown || a.hasUnknown
  | .pair a b => a.hasUnknown || b.hasUnknown
  | _ => false

def Line.hasUnknown (l : Line) : Bool := l.kind == .unknown || l.e1.hasUnknown || l.e2.hasUnknown

def fullyRecognised (body : List Line) : Bool := !(body.any Line.hasUnknown)

/-! ### evaluation of integer / boolean expressions

Variables are looked up by name in an environment; conversions `int(…)`, `uint(…)`, `uint16(…)`
are the identity here (the wrap-around of `uint` subtraction is the model's `usub`, stated where it
matters); `len(…)` is the variable `len`; everything else is not evaluable (`none`). -/

def lookup (ρ : List (String × Int)) (n : String) : Option Int :=
  match ρ with
  | [] => Option.none
  | (k, v) :: r => if k = n then some v else lookup r n

def evalI (ρ : List (String × Int)) : Expr → Option Int
  | .var n => lookup ρ n
  | .int n => some (n : Int)
  | .un "-" a => (evalI ρ a).map (fun x => - x)
  | .bin "+" a b => do let x ← evalI ρ a; let y ← evalI ρ b; pure (x + y)
  | .bin "-" a b => do let x ← evalI ρ a; let y ← evalI ρ b; pure (x - y)
  | .bin "*" a b => do let x ← evalI ρ a; let y ← evalI ρ b; pure (x * y)
  | .arg (.call (.var "int")) a => evalI ρ a
  | .arg (.call (.var "uint")) a => evalI ρ a
  | .arg (.call (.var "uint16")) a => evalI ρ a
  | .arg (.call (.var "len")) _ => lookup ρ "len"
  | _ => Option.none

/-- Boolean expressions; boolean variables are looked up as 0 / non-0. -/
def evalB (ρ : List (String × Int)) : Expr → Option Bool
  | .var n => (lookup ρ n).map (fun x => x != 0)
  | .un "!" a => (evalB ρ a).map (fun x => !x)
  | .bin "&&" a b => do let x ← evalB ρ a; let y ← evalB ρ b; pure (x && y)
  | .bin "||" a b => do let x ← evalB ρ a; let y ← evalB ρ b; pure (x || y)
  | .bin "<" a b => do let x ← evalI ρ a; let y ← evalI ρ b; pure (decide (x < y))
  | .bin "<=" a b => do let x ← evalI ρ a; let y ← evalI ρ b; pure (decide (x ≤ y))
  | .bin ">" a b => do let x ← evalI ρ a; let y ← evalI ρ b; pure (decide (x > y))
  | .bin ">=" a b => do let x ← evalI ρ a; let y ← evalI ρ b; pure (decide (x ≥ y))
  | .bin "==" a b => do let x ← evalI ρ a; let y ← evalI ρ b; pure (decide (x = y))
  | .bin "!=" a b => do let x ← evalI ρ a; let y ← evalI ρ b; pure (decide (x ≠ y))
  | _ => Option.none

/-! ### locating statements in a flat body -/

/-- The lines of the given kind whose first operand is `e1`. -/
def linesWith (body : List Line) (k : Kind) (e1 : Expr) : List Line :=
  body.filter fun l => l.kind == k && l.e1 == e1

/-- The second operand of the `n`-th line of kind `k` with first operand `e1` (`unknown` if absent). -/
def rhsOf (body : List Line) (k : Kind) (e1 : Expr) (n : Nat := 0) : Expr :=
  match (linesWith body k e1)[n]? with
  | some l => l.e2
  | Option.none => .unknown "no such statement"

/-- The conditions (`e1`) of the lines of kind `k`, in order. -/
def condsOf (body : List Line) (k : Kind) : List Expr :=
  (body.filter fun l => l.kind == k).map (·.e1)

end VaxisModel.Model.GoSyn
