/-
C20: what the `Draw` methods of the four image kinds do to a window (image.go), on top of C11's window
model (`Model/Window.lean`, import only).  Core Lean only.

* `HalfBlockImage.Draw` / `FullBlockImage.Draw`: `for i, cell := range cells { y := i / width; x := i - y*width;
  win.SetCell(x, y, cell) }` — one `SetCell` per entry of the cell list built by `Resize` (`Model/Blocks.lean`
  stores the entries with their `(x, y)` already computed by the same two expressions).
* `Sixel.Draw`: returns without drawing when `s.w > w || s.h > h` for `w, h := win.Size()`; otherwise marks the
  `s.w × s.h` cells with `win.SetCell(x, y, Cell{sixel: true})` and records a placement at `win.Origin()`.
* `KittyImage.Draw`: records a placement of `k.w × k.h` cells at `win.Origin()`; since the F120 repair
  (/repo 7b23fe1) behind the same size test as `Sixel.Draw`.

Round 3: the leading `if … { return }` statements of both methods are *interpreted* from the regenerated
`Gen.ImageConsts.kittyGates` / `sixelGates` (`gateFires`, `drawnWith`); a condition the extractor does not know
is `.unknown` and makes the model never draw (so that the theorems stated for Gen's lists fail visibly).
-/
import VaxisModel.Model.Window
import VaxisModel.Model.Blocks
import VaxisModel.Gen.ImageConsts
import VaxisModel.Model.Placements

namespace VaxisModel.Model.ImageDraw
open VaxisModel.Model.Window VaxisModel.Model.Blocks

/-- The `SetCell` calls of a block image's `Draw` (`toCell`: the `vaxis.Cell` a block cell becomes — glyph and
    colours are opaque ids in the window model). -/
def blockOps (toCell : BCell → Cell) (cells : List (Nat × Nat × BCell)) : List Op :=
  cells.map fun e => { col := (e.1 : Int), row := (e.2.1 : Int), cell := toCell e.2.2 }

open VaxisModel.Gen.ImageConsts (Gate Cmp Conn)

/-- A source comparison on `int`s. -/
def cmpInt : Cmp → Int → Int → Bool
  | .lt, a, b => decide (a < b)
  | .le, a, b => decide (a ≤ b)
  | .eq, a, b => decide (a = b)
  | .ne, a, b => decide (a ≠ b)
  | .ge, a, b => decide (a ≥ b)
  | .gt, a, b => decide (a > b)

def connBool : Conn → Bool → Bool → Bool
  | .and, a, b => a && b
  | .or, a, b => a || b

/-- Does this `if … { return }` return?  `hasData`: `buf.Len() ≠ 0`; `encoding`: the encoder goroutine is running;
    `iw × ih`: the image's cell size; `w, h := win.Size()`. -/
def gateFires (hasData encoding : Bool) (iw ih : Int) (win : Win) : Gate → Bool
  | .noData => !hasData
  | .encoding => encoding
  | .size cw conn ch => connBool conn (cmpInt cw iw win.width) (cmpInt ch ih win.height)
  | .zeroSize => decide (iw = 0) || decide (ih = 0)
  | .unknown _ => true

/-- `Draw` reaches its placement code iff no gate returns. -/
def drawnWith (gates : List Gate) (hasData encoding : Bool) (iw ih : Int) (win : Win) : Bool :=
  gates.all fun g => !(gateFires hasData encoding iw ih win g)

/-- `Sixel.Draw` of an image that has data and is not being encoded: is it drawn into this window?  (The other two
    gates only make it draw less.) -/
def sixelDrawn (sw sh : Int) (win : Win) : Bool := drawnWith VaxisModel.Gen.ImageConsts.sixelGates true false sw sh win

/-- The `SetCell` calls of `Sixel.Draw` (`y` outer, `x` inner). -/
def sixelOps (sw sh : Int) (mark : Cell) : List Op :=
  (upTo sh).flatMap fun y => (upTo sw).map fun x => { col := x, row := y, cell := mark }

/-- `KittyImage.Draw` once encoding is done: is the placement recorded?  (Since the F120 repair the source has the
    same size test as `Sixel.Draw`; before it, the list was `[.encoding]` — `Witness/F120.lean`.  Since the F520 repair
    an image without cells is not placed either: `.zeroSize`.) -/
def kittyDrawn (kw kh : Int) (win : Win) : Bool := drawnWith VaxisModel.Gen.ImageConsts.kittyGates true false kw kh win

/-- The cells a `w × h` placement at the window's origin covers, relative to the window: `(dx, dy)` with
    `0 ≤ dx < w`, `0 ≤ dy < h`. -/
def placementCovers (w h dx dy : Int) : Prop := 0 ≤ dx ∧ dx < w ∧ 0 ≤ dy ∧ dy < h

/-- The cells a `w × h` placement at the window's origin occupies, relative to the window. -/
def placementInside (w h : Int) (win : Win) : Prop := w ≤ win.width ∧ h ≤ win.height

/-! ### `Draw` as a step of the placement bookkeeping (round 3) -/

/-- What an application does with kitty / sixel images between frames, with the windows it draws into: `Draw` of an
    image (its method's gate list, whether it has data, whether its encoder runs, id, cell size) into a window;
    `Window.Clear`; `Render`; `Refresh`. -/
inductive AOp where
  | drawImg (gates : List Gate) (hasData encoding : Bool) (id : Nat) (iw ih : Int) (win : Win)
  | clear
  | render
  | refresh

/-- The placement-level operations an application operation amounts to: a `Draw` appends the placement
    `(id, win.Origin(), iw, ih)` to the next-frame list iff no gate returns. -/
def lower : AOp → List VaxisModel.Spec.Images.Op
  | .drawImg gates hasData encoding id iw ih win =>
    if drawnWith gates hasData encoding iw ih win then [.draw ⟨id, (win.origin).1, (win.origin).2, iw, ih⟩] else []
  | .clear => [.clear]
  | .render => [.render]
  | .refresh => [.refresh]

end VaxisModel.Model.ImageDraw
