/-
C20: what the `Draw` methods of the four image kinds do to a window (image.go), on top of C11's window
model (`Model/Window.lean`, import only).  Core Lean only.

* `HalfBlockImage.Draw` / `FullBlockImage.Draw`: `for i, cell := range cells { y := i / width; x := i - y*width;
  win.SetCell(x, y, cell) }` — one `SetCell` per entry of the cell list built by `Resize` (`Model/Blocks.lean`
  stores the entries with their `(x, y)` already computed by the same two expressions).
* `Sixel.Draw`: returns without drawing when `s.w > w || s.h > h` for `w, h := win.Size()`; otherwise marks the
  `s.w × s.h` cells with `win.SetCell(x, y, Cell{sixel: true})` and records a placement at `win.Origin()`.
* `KittyImage.Draw`: records a placement of `k.w × k.h` cells at `win.Origin()`; there is no size test.
-/
import VaxisModel.Model.Window
import VaxisModel.Model.Blocks

namespace VaxisModel.Model.ImageDraw
open VaxisModel.Model.Window VaxisModel.Model.Blocks

/-- The `SetCell` calls of a block image's `Draw` (`toCell`: the `vaxis.Cell` a block cell becomes — glyph and
    colours are opaque ids in the window model). -/
def blockOps (toCell : BCell → Cell) (cells : List (Nat × Nat × BCell)) : List Op :=
  cells.map fun e => { col := (e.1 : Int), row := (e.2.1 : Int), cell := toCell e.2.2 }

/-- `Sixel.Draw`'s size gate: is the image drawn into this window? (The other two gates — no data yet, still
    encoding — only make it draw less.) -/
def sixelDrawn (sw sh : Int) (win : Win) : Bool := !(decide (sw > win.width) || decide (sh > win.height))

/-- The `SetCell` calls of `Sixel.Draw` (`y` outer, `x` inner). -/
def sixelOps (sw sh : Int) (mark : Cell) : List Op :=
  (upTo sh).flatMap fun y => (upTo sw).map fun x => { col := x, row := y, cell := mark }

/-- `KittyImage.Draw`: always places (once encoding is done). -/
def kittyDrawn (_kw _kh : Int) (_win : Win) : Bool := true

/-- The cells a `w × h` placement at the window's origin occupies, relative to the window. -/
def placementInside (w h : Int) (win : Win) : Prop := w ≤ win.width ∧ h ≤ win.height

end VaxisModel.Model.ImageDraw
