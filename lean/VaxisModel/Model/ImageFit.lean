/-
Model of `resizeImage` (image.go) at the level of pixel / cell dimensions, and of the cell-size
computations of the four image kinds.  Core Lean only.

The shape of the code that may vary (rounding-up of the cell counts, the guard of the early return,
the arms of the scale-factor switch) is taken from `Gen.ImageConsts`, regenerated from image.go on
every run.  The two floating point steps are a parameter `FloatOps` (DESIGN §3.5).

Dimensions are `Nat`: image sizes are positive; a box may be 0 wide/high; negative boxes are out of
scope (see notes/C20.md).
-/
import VaxisModel.Gen.ImageConsts

namespace VaxisModel.Model.ImageFit
open VaxisModel.Gen.ImageConsts

/-- Run-time panics of the modelled code. -/
inductive Panic | divideByZero
  deriving DecidableEq, Repr

/-- The floating point steps of `resizeImage`.
  * `cmp a b c d` is the outcome of comparing `float64(a)/float64(b)` with `float64(c)/float64(d)`
    (the switch uses it as `sfX ? sfY` with `a b c d = w columns h lines`);
  * `scale a b x = int((float64(a)/float64(b)) * float64(x))`. -/
structure FloatOps where
  cmp : Nat → Nat → Nat → Nat → Ordering
  scale : Nat → Nat → Nat → Nat

/-- Exact comparison of the rationals `a/b` and `c/d` (for `b, d > 0`) by cross-multiplication. -/
def ratCmp (a b c d : Nat) : Ordering := compare (a * d) (c * b)

/-- The error hypothesis on the float steps: comparison is exact, and the truncated product lies in
    `[⌈q⌉-1, ⌊q⌋]` for the exact `q = a·x/b`. -/
structure Sound (F : FloatOps) : Prop where
  cmp_exact : ∀ a b c d, 0 < b → 0 < d → F.cmp a b c d = ratCmp a b c d
  scale_le : ∀ a b x, 0 < b → F.scale a b x * b ≤ a * x
  scale_ge : ∀ a b x, 0 < b → a * x ≤ (F.scale a b x + 1) * b

/-- The exact instance (⌊a·x/b⌋ and exact comparison); `Sound exactOps` is proved in Lemmas. -/
def exactOps : FloatOps := { cmp := ratCmp, scale := fun a b x => a * x / b }

def evalCmp (c : Cmp) (x y : Nat) : Bool :=
  match c with
  | .lt => x < y | .le => x ≤ y | .eq => x = y | .ne => x ≠ y | .ge => x ≥ y | .gt => x > y

/-- Does a comparison arm `case sfX <c> sfY` fire on the outcome `o` of comparing sfX with sfY? -/
def ordSat (c : Cmp) (o : Ordering) : Bool :=
  match c, o with
  | .lt, .lt => true | .le, .lt => true | .le, .eq => true | .eq, .eq => true
  | .ne, .lt => true | .ne, .gt => true | .ge, .eq => true | .ge, .gt => true | .gt, .gt => true
  | _, _ => false

/-- `x / c`, `+1` if there is a remainder (when the source has the `+= 1` statement).  Both `/` and
    `%` panic on a zero divisor. -/
def cells (roundUp : Bool) (x c : Nat) : Except Panic Nat :=
  if c = 0 then .error .divideByZero
  else .ok (x / c + (if roundUp && x % c != 0 then 1 else 0))

def evalFit (fc : Cmp × Conn × Cmp) (columns w lines h : Nat) : Bool :=
  match fc.2.1 with
  | .and => evalCmp fc.1 columns w && evalCmp fc.2.2 lines h
  | .or => evalCmp fc.1 columns w || evalCmp fc.2.2 lines h

def applyFactor (F : FloatOps) (f : Factor) (w columns h lines x : Nat) : Nat :=
  match f with
  | .none => x
  | .sfX => F.scale w columns x
  | .sfY => F.scale h lines x

/-- The switch: first arm whose comparison holds; no arm ⇒ dimensions unchanged. -/
def runArms (F : FloatOps) (arms : List Arm) (o : Ordering) (wPix hPix w columns h lines : Nat) : Nat × Nat :=
  match arms with
  | [] => (wPix, hPix)
  | a :: rest =>
    if ordSat a.cmp o then
      (applyFactor F a.fw w columns h lines wPix, applyFactor F a.fh w columns h lines hPix)
    else runArms F rest o wPix hPix w columns h lines

/-- Configuration taken from the source. -/
structure Cfg where
  colsUp : Bool
  linesUp : Bool
  fit : Cmp × Conn × Cmp
  arms : List Arm
  deriving DecidableEq, Repr

def genCfg : Cfg := ⟨columnsRoundUp, linesRoundUp, fitCond, resizeArms⟩

/-- Pixel dimensions of the image returned by `resizeImage` for a `wPix × hPix` image, a box of
    `w × h` cells and cells of `cellW × cellH` pixels. -/
def resizeDimsWith (cfg : Cfg) (F : FloatOps) (wPix hPix w h cellW cellH : Nat) : Except Panic (Nat × Nat) := do
  let columns ← cells cfg.colsUp wPix cellW
  let lines ← cells cfg.linesUp hPix cellH
  if evalFit cfg.fit columns w lines h then
    return (wPix, hPix)
  return runArms F cfg.arms (F.cmp w columns h lines) wPix hPix w columns h lines

def resizeDims (F : FloatOps) (wPix hPix w h cellW cellH : Nat) : Except Panic (Nat × Nat) :=
  resizeDimsWith genCfg F wPix hPix w h cellW cellH

/-- `max.X / cellPixW`, `+1` on remainder — the cell size computed by `KittyImage.Resize` and
    `Sixel.Resize` from the resized image (written out in those functions, always rounding up). -/
def cellsUp (x c : Nat) : Except Panic Nat := cells true x c

/-- Cell size of a kitty / sixel image after `Resize(w, h)`. -/
def protoCellSize (F : FloatOps) (wPix hPix w h cellW cellH : Nat) : Except Panic (Nat × Nat) := do
  let (pw, ph) ← resizeDims F wPix hPix w h cellW cellH
  let cw ← cellsUp pw cellW
  let ch ← cellsUp ph cellH
  return (cw, ch)

/-- `h = Max.Y; if h%2 != 0 { h += 1 }; height = h/2` of the block renderers. -/
def blockHeight (ph : Nat) : Nat := (if ph % 2 != 0 then ph + 1 else ph) / 2

/-- Cell size of a half-block image after `Resize(w, h)` (geometry literals from the source). -/
def halfCellSize (F : FloatOps) (wPix hPix w h : Nat) : Except Panic (Nat × Nat) := do
  let (pw, ph) ← resizeDims F wPix hPix w h halfBlockGeom.1 halfBlockGeom.2
  return (pw, blockHeight ph)

def fullCellSize (F : FloatOps) (wPix hPix w h : Nat) : Except Panic (Nat × Nat) := do
  let (pw, ph) ← resizeDims F wPix hPix w h fullBlockGeom.1 fullBlockGeom.2
  return (pw, blockHeight ph)

end VaxisModel.Model.ImageFit
