import VaxisModel.Gen.Writers
import VaxisModel.Gen.ImageCtors

/-!
Model of how `vaxis.New` settles `graphicsProtocol` and of what `NewImage` then hands out (vaxis.go,
image.go), for the run-time image lines of the C07caps driver.  `newImageGen` *interprets* the switch
of `NewImage` as the extractor `C07writers` regenerates it (`Gen.Writers.newImage`);
`Props.C07Image.new_image_interpreted` shows it equal to the hand model `newImage`.  Core Lean only.
-/
namespace VaxisModel.Model.ImageProto

/-- The constants of image.go in `iota` order. -/
inductive Proto | noGraphics | fullBlock | halfBlock | sixelGraphics | kitty
  deriving DecidableEq, Repr

def Proto.rank : Proto → Nat
  | .noGraphics => 0 | .fullBlock => 1 | .halfBlock => 2 | .sixelGraphics => 3 | .kitty => 4

def Proto.name : Proto → String
  | .noGraphics => "noGraphics" | .fullBlock => "fullBlock" | .halfBlock => "halfBlock"
  | .sixelGraphics => "sixelGraphics" | .kitty => "kitty"

/-- One notification arm of the start-up loop: `if vx.graphicsProtocol < X { vx.graphicsProtocol = X }`. -/
def raise (p x : Proto) : Proto := if p.rank < x.rank then x else p

/-- `New`: the loop (sixel and kitty-graphics notifications, in whatever order: `raise` is a maximum),
the default arm of the `VAXIS_GRAPHICS` switch (unset: at least the half-block renderer), and the
override after `reportWinsize` (no pixel size: half blocks). -/
def detected (sixelAdv kittyAdv pixKnown : Bool) : Proto :=
  let p := Proto.noGraphics
  let p := if sixelAdv then raise p .sixelGraphics else p
  let p := if kittyAdv then raise p .kitty else p
  let p := raise p .halfBlock
  if pixKnown then p else .halfBlock

/-! ### The same, interpreted from the regenerated assignments (`Gen.ImageCtors.protocolSteps`) -/

/-- What the run depends on: which of the two notifications the start-up loop receives, and whether
`reportWinsize` knows a pixel size.  The environment overrides (`VAXIS_GRAPHICS`, `ASCIINEMA_REC`) are unset. -/
structure Env where
  sixelAdv : Bool
  kittyAdv : Bool
  pixKnown : Bool

def allProtos : List Proto := [.noGraphics, .fullBlock, .halfBlock, .sixelGraphics, .kitty]

def protoOfName (s : String) : Option Proto := allProtos.find? fun c => s = c.name

/-- One guard of a guard stack; `none` = a guard this interpreter does not know (fails closed). -/
def evalGuard (e : Env) (p : Proto) (g : String) : Option Bool :=
  if g = "for" then some true
  else if g = "select ev := <-vx.queue" then some true
  else if g = "type capabilitySixel" then some e.sixelAdv
  else if g = "type kittyGraphics" then some e.kittyAdv
  else if g = "if ws.XPixel == 0 || ws.YPixel == 0" then some (!e.pixKnown)
  else if g = "if os.Getenv(\"ASCIINEMA_REC\") != \"\"" then some false
  else if g = "switch os.Getenv(\"VAXIS_GRAPHICS\") default" then some true
  else if ["none", "full", "half", "sixel", "kitty"].any (fun v => g = "switch os.Getenv(\"VAXIS_GRAPHICS\") case \"" ++ v ++ "\"") then some false
  else match allProtos.find? (fun c => g = "if vx.graphicsProtocol < " ++ c.name) with
    | some c => some (p.rank < c.rank)
    | none => none

def evalGuards (e : Env) (p : Proto) : List String → Option Bool
  | [] => some true
  | g :: r => match evalGuard e p g with
    | some true => evalGuards e p r
    | some false => some false
    | none => none

/-- Straight-line run of guarded assignments (no calls). -/
def runPlain (e : Env) : List (String × List String × String) → Proto → Option Proto
  | [], p => some p
  | (_, gs, w) :: r, p =>
    match evalGuards e p gs with
    | some true => (protoOfName w).bind fun c => runPlain e r c
    | some false => runPlain e r p
    | none => none

/-- The steps of `New`, with the steps of `applyQuirks` run where it is called (unguarded). -/
def runNew (e : Env) (quirks : List (String × List String × String)) : List (String × List String × String) → Proto → Option Proto
  | [], p => some p
  | (_, gs, w) :: r, p =>
    if w = "call applyQuirks" then
      (if gs.isEmpty then (runPlain e quirks p).bind fun c => runNew e quirks r c else none)
    else match evalGuards e p gs with
      | some true => (protoOfName w).bind fun c => runNew e quirks r c
      | some false => runNew e quirks r p
      | none => none

def detectedFrom (steps : List (String × List String × String)) (e : Env) : Option Proto :=
  runNew e (steps.filter fun s => s.1 == "applyQuirks") (steps.filter fun s => s.1 == "New") .noGraphics

/-- `graphicsProtocol` after `New`, as the current source settles it. -/
def detectedGen (e : Env) : Option Proto := detectedFrom VaxisModel.Gen.ImageCtors.protocolSteps e

/-- The classes of image objects (Go type names; `none` = the error return). -/
inductive Cls | fullBlock | halfBlock | sixel | kitty | none
  deriving DecidableEq, Repr

def Cls.name : Cls → String
  | .fullBlock => "FullBlockImage" | .halfBlock => "HalfBlockImage" | .sixel => "Sixel" | .kitty => "KittyImage" | .none => "none"

/-- `NewImage`, transcribed. -/
def newImage : Proto → Cls
  | .fullBlock => .fullBlock | .halfBlock => .halfBlock | .sixelGraphics => .sixel | .kitty => .kitty | .noGraphics => .none

def clsOfReturn (s : String) : Option Cls :=
  if s = "return vx.NewFullBlockImage(img), nil" then some .fullBlock
  else if s = "return vx.NewHalfBlockImage(img), nil" then some .halfBlock
  else if s = "return vx.NewSixel(img), nil" then some .sixel
  else if s = "return vx.NewKittyGraphic(img), nil" then some .kitty
  else if s = "return nil, fmt.Errorf(\"no supported image protocol\")" then some .none
  else none

/-- `NewImage`, interpreted from the regenerated switch: the arm labelled with the protocol's
constant, else the `default` arm; an unrecognised return statement is `none`. -/
def newImageFrom (table : List (String × String)) (p : Proto) : Option Cls :=
  match table.lookup ("vx.graphicsProtocol == " ++ p.name) with
  | some r => clsOfReturn r
  | none => (table.lookup "vx.graphicsProtocol == default").bind clsOfReturn

def newImageGen (p : Proto) : Option Cls := newImageFrom VaxisModel.Gen.Writers.newImage p

/-- `Draw` of a kitty / sixel image: `if k.w > w || k.h > h { return }`. -/
def fits (cw ch w h : Nat) : Bool := !(cw > w || ch > h)

/-- Which image escapes the scenario of the driver's `img` line produces: a kitty image is
transmitted and placed in the first frame it fits into (`t`, `p`) and is always deleted by `Destroy`
(`d`); a sixel image is written in a frame it fits into; block images are cells only.  A picture
scaled to zero cells on one side cannot be PNG-encoded: nothing is transmitted, yet `Draw` still places it. -/
def expectedEsc (c : Cls) (drawn : Bool) (cw ch : Nat) : String :=
  match c with
  | .kitty => if drawn then (if cw = 0 || ch = 0 then "kitty:pd" else "kitty:tpd") else "kitty:d"
  | .sixel => if drawn then "sixel" else "none"
  | _ => "none"

end VaxisModel.Model.ImageProto
