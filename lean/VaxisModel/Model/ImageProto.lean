import VaxisModel.Gen.Writers

/-!
Model of how `vaxis.New` settles `graphicsProtocol` and of what `NewImage` then hands out (vaxis.go,
image.go), for the run-time image lines of the C07caps driver.  `newImageGen` *interprets* the switch
of `NewImage` as the extractor `C07writers` regenerates it (`Gen.Writers.newImage`);
`Props.C07Image.new_image_interpreted` shows it equal to the hand model `newImage`.  Core Lean only.
-/
namespace VaxisModel.Model.ImageProto

/-- The constants of image.go in `iota` order. -/
inductive Proto | noGraphics | fullBlock | halfBlock | sixelGraphics | kitty
  deriving DecidableEq, Repr

def Proto.rank : Proto → Nat
  | .noGraphics => 0 | .fullBlock => 1 | .halfBlock => 2 | .sixelGraphics => 3 | .kitty => 4

def Proto.name : Proto → String
  | .noGraphics => "noGraphics" | .fullBlock => "fullBlock" | .halfBlock => "halfBlock"
  | .sixelGraphics => "sixelGraphics" | .kitty => "kitty"

/-- One notification arm of the start-up loop: `if vx.graphicsProtocol < X { vx.graphicsProtocol = X }`. -/
def raise (p x : Proto) : Proto := if p.rank < x.rank then x else p

/-- `New`: the loop (sixel and kitty-graphics notifications, in whatever order: `raise` is a maximum),
the default arm of the `VAXIS_GRAPHICS` switch (unset: at least the half-block renderer), and the
override after `reportWinsize` (no pixel size: half blocks). -/
def detected (sixelAdv kittyAdv pixKnown : Bool) : Proto :=
  let p := Proto.noGraphics
  let p := if sixelAdv then raise p .sixelGraphics else p
  let p := if kittyAdv then raise p .kitty else p
  let p := raise p .halfBlock
  if pixKnown then p else .halfBlock

/-- The classes of image objects (Go type names; `none` = the error return). -/
inductive Cls | fullBlock | halfBlock | sixel | kitty | none
  deriving DecidableEq, Repr

def Cls.name : Cls → String
  | .fullBlock => "FullBlockImage" | .halfBlock => "HalfBlockImage" | .sixel => "Sixel" | .kitty => "KittyImage" | .none => "none"

/-- `NewImage`, transcribed. -/
def newImage : Proto → Cls
  | .fullBlock => .fullBlock | .halfBlock => .halfBlock | .sixelGraphics => .sixel | .kitty => .kitty | .noGraphics => .none

def clsOfReturn (s : String) : Option Cls :=
  if s = "return vx.NewFullBlockImage(img), nil" then some .fullBlock
  else if s = "return vx.NewHalfBlockImage(img), nil" then some .halfBlock
  else if s = "return vx.NewSixel(img), nil" then some .sixel
  else if s = "return vx.NewKittyGraphic(img), nil" then some .kitty
  else if s = "return nil, fmt.Errorf(\"no supported image protocol\")" then some .none
  else none

/-- `NewImage`, interpreted from the regenerated switch: the arm labelled with the protocol's
constant, else the `default` arm; an unrecognised return statement is `none`. -/
def newImageFrom (table : List (String × String)) (p : Proto) : Option Cls :=
  match table.lookup ("vx.graphicsProtocol == " ++ p.name) with
  | some r => clsOfReturn r
  | none => (table.lookup "vx.graphicsProtocol == default").bind clsOfReturn

def newImageGen (p : Proto) : Option Cls := newImageFrom VaxisModel.Gen.Writers.newImage p

/-- `Draw` of a kitty / sixel image: `if k.w > w || k.h > h { return }`. -/
def fits (cw ch w h : Nat) : Bool := !(cw > w || ch > h)

/-- Which image escapes the scenario of the driver's `img` line produces: a kitty image is
transmitted and placed in the first frame it fits into (`t`, `p`) and is always deleted by `Destroy`
(`d`); a sixel image is written in a frame it fits into; block images are cells only.  A picture
scaled to zero cells on one side cannot be PNG-encoded: nothing is transmitted, yet `Draw` still places it. -/
def expectedEsc (c : Cls) (drawn : Bool) (cw ch : Nat) : String :=
  match c with
  | .kitty => if drawn then (if cw = 0 || ch = 0 then "kitty:pd" else "kitty:tpd") else "kitty:d"
  | .sixel => if drawn then "sixel" else "none"
  | _ => "none"

end VaxisModel.Model.ImageProto
