/-
C20, round 2 additions to the image-fit model (core Lean only):

* `termCell` — `(*Vaxis).cellPixelSize` (image.go, since the `fix:` for F52): the pixel size of a cell from
  the terminal's report, never below 1, so that `KittyImage.Resize` / `Sixel.Resize` cannot divide by zero;
  `protoCellSizeTerm` = `protoCellSize` at that geometry.
* `resizeDimsBox` — `resizeImage` for **signed** box dimensions (`w, h : Int`), transcribing what the Go
  code does with them: the cell counts and the early-return guard as before (`columns <= w` is false for
  negative `w`), the scale factors `float64(w)/float64(columns)` carry the sign of `w` (IEEE division,
  multiplication and the float→int truncation are sign-symmetric, so the signed steps are expressed
  through the unsigned parameter `FloatOps`), and `image.Rect(0, 0, nw, nh)` canonicalises a negative
  extent to an empty rectangle whose `Max` is 0 in that direction.  The result is `Bounds().Max`,
  which is what every caller uses.
-/
import VaxisModel.Model.ImageFit

namespace VaxisModel.Model.ImageTerm
open VaxisModel.Gen.ImageConsts VaxisModel.Model.ImageFit

/-- `cellPixelSize` for one direction in closed form: `pix / cells` (Go's truncating division) when there are cells
    and the quotient is positive, else 1 (= `termCellW` = `termCellH` for the current source:
    `Lemmas.ImageTerm.termCellW_eq`). -/
def termCell (pix cells : Int) : Nat :=
  if 0 < cells ∧ 0 < Int.tdiv pix cells then (Int.tdiv pix cells).toNat else 1

def evalCmpI (c : Cmp) (x y : Int) : Bool :=
  match c with
  | .lt => x < y | .le => x ≤ y | .eq => x = y | .ne => x ≠ y | .ge => x ≥ y | .gt => x > y

/-- One axis of `cellPixelSize` as *interpreted* from the regenerated `Gen.cellPixelSizeW/H` (round 3): the initial
    value, replaced by the truncating quotient when both conjuncts of the `if` hold.  A shape the extractor does not
    know (`none`) gives 0 — `Resize` would divide by it, and `no_panic_term` fails. -/
def termCellWith (ax : Option CellAxis) (pix cells : Int) : Nat :=
  match ax with
  | none => 0
  | some ax =>
    if evalCmpI ax.cellsCmp cells ax.cellsLit && evalCmpI ax.quotCmp (Int.tdiv pix cells) ax.quotLit
    then (Int.tdiv pix cells).toNat else ax.init

def termCellW (pix cells : Int) : Nat := termCellWith cellPixelSizeW pix cells
def termCellH (pix cells : Int) : Nat := termCellWith cellPixelSizeH pix cells

/-- Cell size of a kitty / sixel image after `Resize(w, h)` on a terminal reporting `xpix × ypix` pixels for
    `cols × rows` cells. -/
def protoCellSizeTerm (F : FloatOps) (wPix hPix w h : Nat) (xpix cols ypix rows : Int) : Except Panic (Nat × Nat) :=
  protoCellSize F wPix hPix w h (termCellW xpix cols) (termCellH ypix rows)

/-- The cell-size arithmetic of a `Resize` method as *interpreted* from the regenerated `Gen.kittyResize` /
    `Gen.sixelResize` (round 3): the quotient, plus one on a remainder when the source has that statement.  A missing
    quotient statement (or a geometry that does not come from `cellPixelSize`) leaves the field at what it was — the
    model then reports 0, and `resize_shape` fails. -/
def resizeCells (rs : ResizeShape) (hasQuot roundUp : Bool) (x c : Nat) : Except Panic Nat :=
  if rs.geom && hasQuot then cells roundUp x c else .ok 0

def protoCellSizeWith (rs : ResizeShape) (F : FloatOps) (wPix hPix w h cellW cellH : Nat) : Except Panic (Nat × Nat) := do
  let (pw, ph) ← resizeDims F wPix hPix w h cellW cellH
  let cw ← resizeCells rs rs.quotW rs.roundUpW pw cellW
  let ch ← resizeCells rs rs.quotH rs.roundUpH ph cellH
  return (cw, ch)

/-- `KittyImage.Resize` / `Sixel.Resize` at the terminal's geometry, each with its own regenerated arithmetic. -/
def kittyCellSizeTerm (F : FloatOps) (wPix hPix w h : Nat) (xpix cols ypix rows : Int) : Except Panic (Nat × Nat) :=
  protoCellSizeWith kittyResize F wPix hPix w h (termCellW xpix cols) (termCellH ypix rows)
def sixelCellSizeTerm (F : FloatOps) (wPix hPix w h : Nat) (xpix cols ypix rows : Int) : Except Panic (Nat × Nat) :=
  protoCellSizeWith sixelResize F wPix hPix w h (termCellW xpix cols) (termCellH ypix rows)

/-! ### Signed boxes -/

def evalFitI (fc : Cmp × Conn × Cmp) (columns : Nat) (w : Int) (lines : Nat) (h : Int) : Bool :=
  match fc.2.1 with
  | .and => evalCmpI fc.1 columns w && evalCmpI fc.2.2 lines h
  | .or => evalCmpI fc.1 columns w || evalCmpI fc.2.2 lines h

/-- Comparing `float64(w)/float64(columns)` with `float64(h)/float64(lines)` for signed numerators
    (`columns, lines > 0`): by sign, and `-p ? -q ⇔ q ? p`. -/
def cmpI (F : FloatOps) (w : Int) (columns : Nat) (h : Int) (lines : Nat) : Ordering :=
  if 0 ≤ w ∧ 0 ≤ h then F.cmp w.toNat columns h.toNat lines
  else if w < 0 ∧ 0 ≤ h then .lt
  else if 0 ≤ w ∧ h < 0 then .gt
  else F.cmp (-h).toNat lines (-w).toNat columns

/-- `int((float64(a)/float64(b)) * float64(x))` for a signed `a`. -/
def scaleI (F : FloatOps) (a : Int) (b x : Nat) : Int :=
  if 0 ≤ a then (F.scale a.toNat b x : Int) else -(F.scale (-a).toNat b x : Int)

def applyFactorI (F : FloatOps) (f : Factor) (w : Int) (columns : Nat) (h : Int) (lines x : Nat) : Int :=
  match f with
  | .none => x
  | .sfX => scaleI F w columns x
  | .sfY => scaleI F h lines x

def runArmsI (F : FloatOps) (arms : List Arm) (o : Ordering) (wPix hPix : Nat) (w : Int) (columns : Nat) (h : Int)
    (lines : Nat) : Int × Int :=
  match arms with
  | [] => (wPix, hPix)
  | a :: rest =>
    if ordSat a.cmp o then
      (applyFactorI F a.fw w columns h lines wPix, applyFactorI F a.fh w columns h lines hPix)
    else runArmsI F rest o wPix hPix w columns h lines

/-- The arguments `resizeImage` passes to `image.Rect(0, 0, nw, nh)` for a signed box (the image's own size when it
    already fits and is returned as it is). -/
def resizeRawBoxWith (cfg : Cfg) (F : FloatOps) (wPix hPix : Nat) (w h : Int) (cellW cellH : Nat) :
    Except Panic (Int × Int) := do
  let columns ← cells cfg.colsUp wPix cellW
  let lines ← cells cfg.linesUp hPix cellH
  if evalFitI cfg.fit columns w lines h then
    return ((wPix : Int), (hPix : Int))
  return runArmsI F cfg.arms (cmpI F w columns h lines) wPix hPix w columns h lines

/-- `Bounds().Max` of the image `resizeImage` returns, for a signed box: `image.Rect` canonicalises a negative
    extent, so `Max` is 0 in that direction (the rectangle itself then lies at negative coordinates and is empty only
    if an extent is 0). -/
def resizeDimsBoxWith (cfg : Cfg) (F : FloatOps) (wPix hPix : Nat) (w h : Int) (cellW cellH : Nat) :
    Except Panic (Nat × Nat) := do
  let r ← resizeRawBoxWith cfg F wPix hPix w h cellW cellH
  return (r.1.toNat, r.2.toNat)

def resizeRawBox (F : FloatOps) (wPix hPix : Nat) (w h : Int) (cellW cellH : Nat) : Except Panic (Int × Int) :=
  resizeRawBoxWith genCfg F wPix hPix w h cellW cellH

def resizeDimsBox (F : FloatOps) (wPix hPix : Nat) (w h : Int) (cellW cellH : Nat) : Except Panic (Nat × Nat) :=
  resizeDimsBoxWith genCfg F wPix hPix w h cellW cellH

/-! ### Upload bookkeeping of a kitty image

`KittyImage` keeps `buf` (encoded transmissions not yet sent), `uploaded` and `encoding`.  `Resize` (once its
goroutine is done) appends one encoding to `buf` and clears `uploaded`; the `writeTo` closure of a placement,
called by `render` exactly for the placements it transmits, first sends and empties `buf` unless `uploaded`
is set, then sets it.  `encs` counts the encodings in `buf` (each one a complete `f=100` transmission of
the image). -/

structure KImg where
  encs : Nat := 0
  uploaded : Bool := false
  deriving DecidableEq, Repr

/-- `Resize` finished encoding (`ok = false`: the PNG encoder refused, nothing appended, flags untouched). -/
def KImg.resize (k : KImg) (ok : Bool) : KImg := if ok then { encs := k.encs + 1, uploaded := false } else k

/-- One call of the placement's `writeTo`: how many encodings are transmitted before the `a=p` command. -/
def KImg.write (k : KImg) : KImg × Nat :=
  if k.uploaded then (k, 0) else ({ encs := 0, uploaded := true }, k.encs)

/-- Events in the life of one image: a completed `Resize`, or a transmission of one of its placements. -/
inductive KEv | resize (ok : Bool) | write
  deriving DecidableEq, Repr

/-- The numbers of encodings sent at each `write`, in order. -/
def uploads : KImg → List KEv → List Nat
  | _, [] => []
  | k, .resize ok :: r => uploads (k.resize ok) r
  | k, .write :: r => (k.write).2 :: uploads (k.write).1 r

end VaxisModel.Model.ImageTerm
