import VaxisModel.Gen.Caps

/-!
# Model of `Vaxis.handleSequence`, `parseMouseEvent` and the start-up capability collection

Transcription of /repo/vaxis.go `handleSequence` (every arm, in source order), /repo/mouse.go
`parseMouseEvent`, and the type switch of `New()` that turns internal events into capability
bits.  Conventions (DESIGN §3.2):

* every Go index expression is a checked access (`idx`, `idx2`) that yields `Panic.indexOutOfRange`;
* key decoding (`decodeKey`, property C09) is opaque: a key event is `Event.key seq paste`;
* Go strings are lists of code points (all runes delivered by the parser are valid, so
  `string([]rune)` is the identity at this level); `base64.StdEncoding.DecodeString` is a
  parameter (`b64`) of `handle`;
* all state mutations of an arm happen before its first blocking operation in the Go code, so an
  arm is `new state × list of effects` where the effects (posts, channel sends) are performed
  afterwards, in order, by the input goroutine (`Model/InputLoop.lean`).
-/
namespace VaxisModel.Model.Input

inductive Panic
  | indexOutOfRange
  deriving DecidableEq, Repr

/-- A parsed sequence as delivered by `ansi.Parser` (runes as `Nat`, Go `int` as `Int`). -/
inductive Seq
  | print (grapheme : List Nat) (width : Int)
  | c0 (r : Nat)
  | esc (interm : List Nat) (final : Nat)
  | ss3 (r : Nat)
  | csi (interm : List Nat) (params : List (List Int)) (final : Nat)
  | dcs (final : Nat) (interm : List Nat) (params : List Int) (data : List Nat)
  | apc (data : List Nat)
  | osc (payload : List Nat)
  /-- any other value on the channel (`error` from `hook`); `handleSequence` has no arm for it -/
  | other
  deriving DecidableEq, Repr

/-- `EventType` constants of key.go. -/
def evPress : Nat := 0
def evRelease : Nat := 2
def evMotion : Nat := 3
def evPaste : Nat := 4

structure Mouse where
  button : Int
  row : Int
  col : Int
  eventType : Nat
  mods : Nat
  deriving DecidableEq, Repr

/-- Unexported event types of event.go (capability notifications consumed by `New`). -/
inductive Internal
  | primaryDeviceAttribute | capabilitySixel | capabilityOsc4 | capabilityOsc10 | capabilityOsc11
  | synchronizedUpdates | unicodeCoreCap | kittyKeyboard | kittyGraphics | styledUnderlines
  | truecolor | notifyColorChange | textAreaPix | textAreaChar | inBandResizeEvents
  deriving DecidableEq, Repr

inductive Event
  | key (s : Seq) (paste : Bool)
  | mouse (m : Mouse)
  | focusIn | focusOut | pasteStart | pasteEnd
  | colorTheme (mode : Int)
  | redraw
  | internal (i : Internal)
  | appID (s : List Nat)
  | terminalID (s : List Nat)
  deriving DecidableEq, Repr

/-- Exported (application-visible) event types. -/
def Event.userVisible : Event → Bool
  | .key .. | .mouse .. | .focusIn | .focusOut | .pasteStart | .pasteEnd | .colorTheme .. | .redraw => true
  | .internal .. | .appID .. | .terminalID .. => false

inductive Effect
  /-- `vx.PostEventBlocking(ev)` -/
  | postB (e : Event)
  /-- `vx.PostEvent(ev)` (dropped when the queue is full) -/
  | postNB (e : Event)
  /-- `vx.chCursorPos <- [2]int{r, c}` (capacity 0) -/
  | sendCursorPos (r c : Int)
  /-- `vx.chSizeDone <- true` (capacity 1) -/
  | sendSizeDone
  | sendColor (s : List Nat)
  | sendFg (s : List Nat)
  | sendBg (s : List Nat)
  /-- `select { case vx.chClipboard <- s: case <-ctx.Done(): }` (capacity 0, 10 ms) -/
  | sendClipboard (s : List Nat)
  deriving DecidableEq, Repr

structure Caps where
  synchronizedUpdate : Bool := false
  unicodeCore : Bool := false
  noZWJ : Bool := false
  rgb : Bool := false
  kittyGraphics : Bool := false
  kittyKeyboard : Bool := false
  styledUnderlines : Bool := false
  sixels : Bool := false
  colorThemeUpdates : Bool := false
  reportSizeChars : Bool := false
  reportSizePixels : Bool := false
  osc4 : Bool := false
  osc10 : Bool := false
  osc11 : Bool := false
  osc176 : Bool := false
  inBandResize : Bool := false
  explicitWidth : Bool := false
  deriving DecidableEq, Repr

/-- The field names in declaration order (tied to `Gen.Caps.capFields` in Props/C03). -/
def Caps.fieldNames : List String :=
  ["synchronizedUpdate", "unicodeCore", "noZWJ", "rgb", "kittyGraphics", "kittyKeyboard", "styledUnderlines",
   "sixels", "colorThemeUpdates", "reportSizeChars", "reportSizePixels", "osc4", "osc10", "osc11", "osc176",
   "inBandResize", "explicitWidth"]

def Caps.toList (c : Caps) : List Bool :=
  [c.synchronizedUpdate, c.unicodeCore, c.noZWJ, c.rgb, c.kittyGraphics, c.kittyKeyboard, c.styledUnderlines,
   c.sixels, c.colorThemeUpdates, c.reportSizeChars, c.reportSizePixels, c.osc4, c.osc10, c.osc11, c.osc176,
   c.inBandResize, c.explicitWidth]

structure Resize where
  cols : Int := 0
  rows : Int := 0
  xpix : Int := 0
  ypix : Int := 0
  deriving DecidableEq, Repr

/-- The part of `Vaxis` that `handleSequence` reads or writes. -/
structure VState where
  pastePending : Bool := false
  reqCursorPos : Bool := false
  resizeFlag : Bool := false
  caps : Caps := {}
  nextSize : Resize := {}
  userCursorStyle : Int := 0
  deriving DecidableEq, Repr

/-! ## helpers -/

def idx {α} (l : List α) (i : Nat) : Except Panic α :=
  match l[i]? with
  | some a => .ok a
  | none => .error .indexOutOfRange

/-- `seq.Parameters[i][j]` -/
def idx2 (l : List (List Int)) (i j : Nat) : Except Panic Int := do
  let p ← idx l i
  idx p j

/-- Go `int` arithmetic wraps at 64 bits; only `x - 1` occurs. -/
def wrap64 (x : Int) : Int := (x + 9223372036854775808) % 18446744073709551616 - 9223372036854775808

def ch (c : Char) : Nat := c.toNat

def str (s : String) : List Nat := s.toList.map Char.toNat

def isPrefix : List Nat → List Nat → Bool
  | [], _ => true
  | _ :: _, [] => false
  | a :: as, b :: bs => a == b && isPrefix as bs

def isSuffix (suf l : List Nat) : Bool := isPrefix suf.reverse l.reverse

/-- `strings.Split(s, sep)` for a one-character separator. -/
def splitOn (sep : Nat) : List Nat → List (List Nat)
  | [] => [[]]
  | a :: as =>
    match splitOn sep as with
    | [] => [[]]       -- unreachable
    | hd :: tl => if a == sep then [] :: hd :: tl else (a :: hd) :: tl

def hexDigitU (n : Nat) : Nat := if n < 10 then 48 + n else 55 + n

/-- `fmt.Sprintf("%X", s)` for an ASCII string. -/
def hexEncode (s : List Nat) : List Nat := s.flatMap fun b => [hexDigitU (b / 16 % 16), hexDigitU (b % 16)]

/-- `len(seq.Intermediate) == 1 && seq.Intermediate[0] == '?'` -/
def isPrivate (interm : List Nat) : Bool := interm.length == 1 && interm[0]? == some (ch '?')

/-! ## parseMouseEvent (mouse.go) -/

def modShift : Nat := 1
def modAlt : Nat := 2
def modCtrl : Nat := 4

/-- The guard `len(seq.Intermediate) != 1 OP seq.Intermediate[0] != '<'` with `OP` = `||`
(`isOr`) or `&&`; Go evaluates the right operand only when the left one does not decide.
`true` = reject. -/
def mouseGuardWith (isOr : Bool) (interm : List Nat) : Except Panic Bool :=
  if isOr then
    if interm.length != 1 then .ok true
    else do let c ← idx interm 0; pure (c != ch '<')
  else
    if interm.length != 1 then do let c ← idx interm 0; pure (c != ch '<')
    else .ok false

/-- The guard as written in the current source (`Gen.Caps.mouseGuardIsOr`). -/
def mouseGuard (interm : List Nat) : Except Panic Bool := mouseGuardWith Gen.Caps.mouseGuardIsOr interm

/-- Go `x & m` for a two's-complement `int` `x` and a constant mask `m < 256`: only the low eight
bits of `x` matter, and `x % 256` (Euclidean) is exactly those bits. -/
def andMask (x : Int) (m : Nat) : Nat := (x % 256).toNat &&& m

def parseMouse (interm : List Nat) (params : List (List Int)) (final : Nat) : Except Panic (Option Mouse) := do
  if (← mouseGuard interm) then return none
  if params.length != 3 then return none
  let et0 := if final == ch 'M' then evPress else if final == ch 'm' then evRelease else evPress
  let b ← idx2 params 0 0
  let button : Int := andMask b Gen.Caps.buttonBits
  let et := if andMask b Gen.Caps.motion != 0 then evMotion else et0
  let m1 := if andMask b Gen.Caps.mouseModShift != 0 then modShift else 0
  let m2 := if andMask b Gen.Caps.mouseModAlt != 0 then modAlt else 0
  let m3 := if andMask b Gen.Caps.mouseModCtrl != 0 then modCtrl else 0
  let x ← idx2 params 1 0
  let y ← idx2 params 2 0
  return some { button := button, row := wrap64 (y - 1), col := wrap64 (x - 1), eventType := et, mods := m1 ||| m2 ||| m3 }

/-! ## handleSequence (vaxis.go) -/

abbrev Res := Except Panic (VState × List Effect)

def keyArm (st : VState) (s : Seq) : Res := .ok (st, [.postB (.key s st.pastePending)])

def post (st : VState) (i : Internal) : Res := .ok (st, [.postB (.internal i)])

/-- Decimal literal → number (structural, so that the kernel can evaluate it). -/
def digitsToNat : List Char → Nat → Option Nat
  | [], acc => some acc
  | c :: cs, acc => if '0' ≤ c ∧ c ≤ '9' then digitsToNat cs (acc * 10 + (c.toNat - 48)) else none

/-- The case labels of the k-th `switch seq.Parameters[1][0]` of `handleSequence` (the DECRPM
values that count as "the terminal knows the mode" for 2026, 2027, 2031), read from the source. -/
def decrpmVals (k : Nat) : List Int :=
  match (Gen.Caps.hs_switches.filter (·.1 == "seq.Parameters[1][0]"))[k]? with
  | some (_, labels) => labels.filterMap fun l => (digitsToNat l.toList 0).map Int.ofNat
  | none => []

def decrpmArm (st : VState) (params : List (List Int)) (i : Internal) (vals : List Int) : Res :=
  if params.length < 2 then .ok (st, []) else do
    let v ← idx2 params 1 0
    if vals.contains v then post st i else .ok (st, [])

def handleCSI (st : VState) (interm : List Nat) (params : List (List Int)) (final : Nat) : Res :=
  let self := Seq.csi interm params final
  if final == ch 'c' then
    if isPrivate interm then do
      let firsts ← params.mapM (fun ps => idx ps 0)
      let six := (firsts.filter (· == 4)).map fun _ => Effect.postB (.internal .capabilitySixel)
      pure (st, six ++ [.postB (.internal .primaryDeviceAttribute)])
    else keyArm st self
  else if final == ch 'I' then .ok (st, [.postB .focusIn])
  else if final == ch 'O' then .ok (st, [.postB .focusOut])
  else if final == ch 'R' then
    if st.reqCursorPos then
      let st := { st with reqCursorPos := false }
      if params.length != 2 then .ok (st, []) else do
        let r ← idx2 params 0 0
        let c ← idx2 params 1 0
        pure (st, [.sendCursorPos r c])
    else keyArm st self
  else if final == ch 'S' then
    if isPrivate interm then
      if params.length < 3 then keyArm st self else do
        let p0 ← idx2 params 0 0
        if p0 == 2 then
          let p1 ← idx2 params 1 0
          if p1 == 0 then post st .capabilitySixel else pure (st, [])
        else pure (st, [])
    else keyArm st self
  else if final == ch 'n' then
    if isPrivate interm then
      if params.length != 2 then keyArm st self else do
        let p0 ← idx2 params 0 0
        if p0 == Gen.Caps.colorThemeResp then
          let m ← idx2 params 1 0
          pure (st, [.postB (.colorTheme m)])
        else pure (st, [])
    else keyArm st self
  else if final == ch 'y' then
    if params.length < 1 then .ok (st, []) else do
      let p0 ← idx2 params 0 0
      if p0 == 2026 then decrpmArm st params .synchronizedUpdates (decrpmVals 0)
      else if p0 == 2027 then decrpmArm st params .unicodeCoreCap (decrpmVals 1)
      else if p0 == 2031 then decrpmArm st params .notifyColorChange (decrpmVals 2)
      else pure (st, [])
  else if final == ch 'u' then
    if isPrivate interm then post st .kittyKeyboard else keyArm st self
  else if final == ch '~' then
    if interm.length == 0 then
      if params.length == 0 then .ok (st, []) else do
        let p0 ← idx2 params 0 0
        if p0 == 200 then pure ({ st with pastePending := true }, [.postB .pasteStart])
        else if p0 == 201 then pure ({ st with pastePending := false }, [.postB .pasteEnd])
        else keyArm st self
    else keyArm st self
  else if final == ch 'M' || final == ch 'm' then do
    match (← parseMouse interm params final) with
    | some m => pure (st, [.postB (.mouse m)])
    | none => pure (st, [])
  else if final == ch 't' then
    if params.length < 3 then .ok (st, []) else do
      let typ ← idx2 params 0 0
      let h ← idx2 params 1 0
      let w ← idx2 params 2 0
      if typ == 4 then
        let st := { st with nextSize := { st.nextSize with xpix := w, ypix := h } }
        if !st.caps.reportSizePixels then post st .textAreaPix else pure (st, [])
      else if typ == 8 then
        let st := { st with nextSize := { st.nextSize with cols := w, rows := h } }
        if !st.caps.reportSizeChars then post st .textAreaChar else pure (st, [.sendSizeDone])
      else if typ == 48 then
        if params.length == 5 then
          let yp ← idx2 params 3 0
          let xp ← idx2 params 4 0
          let st := { st with resizeFlag := true, nextSize := { cols := w, rows := h, ypix := yp, xpix := xp } }
          let e1 := if !st.caps.inBandResize then [Effect.postB (.internal .inBandResizeEvents)] else []
          -- vx.Resize(): atomicStore(&vx.resize, true); vx.PostEvent(Redraw{})
          pure (st, e1 ++ [.postNB .redraw])
        else pure (st, [])
      else pure (st, [])
  else keyArm st self

def handleDCS (st : VState) (final : Nat) (interm : List Nat) (params : List Int) (data : List Nat) : Res :=
  if final == ch 'r' then
    if interm.length < 1 then .ok (st, []) else do
      let i0 ← idx interm 0
      if i0 == ch '+' then
        if params.length < 1 then pure (st, []) else do
          let p0 ← idx params 0
          if p0 == 0 then pure (st, []) else
            let vals := splitOn (ch '=') data
            let v0 ← idx vals 0
            if v0 == hexEncode (str "Smulx") then post st .styledUnderlines
            else if v0 == hexEncode (str "RGB") then post st .truecolor
            else pure (st, [])
      else if i0 == ch '$' then
        if isSuffix (str " q") data then do
          let cs ← idx data 0
          if cs < ch '0' || cs > ch '6' then pure (st, [])
          else pure ({ st with userCursorStyle := (cs : Int) - 0x30 }, [])
        else pure (st, [])
      else pure (st, [])
  else if final == ch '|' then
    if interm.length < 1 then .ok (st, []) else do
      let i0 ← idx interm 0
      if i0 == ch '!' then
        if data == hexEncode (str "~VTE") then post st .styledUnderlines else pure (st, [])
      else if i0 == ch '>' then pure (st, [.postB (.terminalID data)])
      else pure (st, [])
  else .ok (st, [])

/-- The OSC arm: five consecutive `if strings.HasPrefix(...)` blocks, two of them with early
returns. `b64 = base64.StdEncoding.DecodeString` (`none` = error). -/
def handleOSC (b64 : List Nat → Option (List Nat)) (st : VState) (payload : List Nat) : Res := do
  let e4 := if isPrefix (str "4") payload then
      (if st.caps.osc4 then [Effect.sendColor payload] else []) ++ [.postB (.internal .capabilityOsc4)] else []
  let e10 := if isPrefix (str "10") payload then
      (if st.caps.osc10 then [Effect.sendFg payload] else []) ++ [.postB (.internal .capabilityOsc10)] else []
  let e11 := if isPrefix (str "11") payload then
      (if st.caps.osc11 then [Effect.sendBg payload] else []) ++ [.postB (.internal .capabilityOsc11)] else []
  let acc := e4 ++ e10 ++ e11
  let vals := splitOn (ch ';') payload
  let (ret, acc) ←
    if isPrefix (str "52") payload then
      if vals.length != 3 then pure (true, acc) else do
        let v2 ← idx vals 2
        match b64 v2 with
        | none => pure (true, acc)
        | some b => pure (false, acc ++ [Effect.sendClipboard b])
    else pure (false, acc)
  if ret then return (st, acc)
  if isPrefix (str "176") payload then
    if vals.length != 2 then return (st, acc)
    let v1 ← idx vals 1
    return (st, acc ++ [.postNB (.appID v1)])
  return (st, acc)

def handle (b64 : List Nat → Option (List Nat)) (st : VState) (s : Seq) : Res :=
  match s with
  | .print .. | .c0 .. | .esc .. | .ss3 .. => keyArm st s
  | .csi interm params final => handleCSI st interm params final
  | .dcs final interm params data => handleDCS st final interm params data
  | .apc data =>
      if data.length == 0 then .ok (st, [])
      else if isPrefix (str "G") data then post st .kittyGraphics
      else .ok (st, [])
  | .osc payload => handleOSC b64 st payload
  | .other => .ok (st, [])

/-! ## New(): start-up collection (which internal event sets which capability)

`disableKitty` = `opts.DisableKittyKeyboard`. `primaryDeviceAttribute` ends the loop. -/
def collect (disableKitty : Bool) (c : Caps) : Internal → Caps
  | .primaryDeviceAttribute => c
  | .capabilitySixel => { c with sixels := true }
  | .capabilityOsc4 => { c with osc4 := true }
  | .capabilityOsc10 => { c with osc10 := true }
  | .capabilityOsc11 => { c with osc11 := true }
  | .synchronizedUpdates => { c with synchronizedUpdate := true }
  | .unicodeCoreCap => { c with unicodeCore := true }
  | .notifyColorChange => { c with colorThemeUpdates := true }
  | .kittyKeyboard => if disableKitty then c else { c with kittyKeyboard := true }
  | .styledUnderlines => { c with styledUnderlines := true }
  | .truecolor => { c with rgb := true }
  | .kittyGraphics => { c with kittyGraphics := true }
  | .textAreaPix => { c with reportSizePixels := true }
  | .textAreaChar => { c with reportSizeChars := true }
  | .inBandResizeEvents => { c with inBandResize := true }

def Internal.name : Internal → String
  | .primaryDeviceAttribute => "primaryDeviceAttribute" | .capabilitySixel => "capabilitySixel"
  | .capabilityOsc4 => "capabilityOsc4" | .capabilityOsc10 => "capabilityOsc10" | .capabilityOsc11 => "capabilityOsc11"
  | .synchronizedUpdates => "synchronizedUpdates" | .unicodeCoreCap => "unicodeCoreCap" | .kittyKeyboard => "kittyKeyboard"
  | .kittyGraphics => "kittyGraphics" | .styledUnderlines => "styledUnderlines" | .truecolor => "truecolor"
  | .notifyColorChange => "notifyColorChange" | .textAreaPix => "textAreaPix" | .textAreaChar => "textAreaChar"
  | .inBandResizeEvents => "inBandResizeEvents"

def Internal.all : List Internal :=
  [.primaryDeviceAttribute, .capabilitySixel, .capabilityOsc4, .capabilityOsc10, .capabilityOsc11, .synchronizedUpdates,
   .unicodeCoreCap, .notifyColorChange, .kittyKeyboard, .styledUnderlines, .truecolor, .kittyGraphics, .textAreaPix,
   .textAreaChar, .inBandResizeEvents]

/-- Position (in declaration order) of the capability an internal event stands for. -/
def fieldIndex : Internal → Option Nat
  | .primaryDeviceAttribute => none
  | .synchronizedUpdates => some 0 | .unicodeCoreCap => some 1 | .truecolor => some 3 | .kittyGraphics => some 4
  | .kittyKeyboard => some 5 | .styledUnderlines => some 6 | .capabilitySixel => some 7 | .notifyColorChange => some 8
  | .textAreaChar => some 9 | .textAreaPix => some 10 | .capabilityOsc4 => some 11 | .capabilityOsc10 => some 12
  | .capabilityOsc11 => some 13 | .inBandResizeEvents => some 15

/-- Fields that differ between two capability records (by name). -/
def Caps.diff (a b : Caps) : List String :=
  (Caps.fieldNames.zip (a.toList.zip b.toList)).filterMap fun (n, (x, y)) => if x != y then some n else none

/-- The model's collection table in the shape of `Gen.Caps.collect` (type, fields set). -/
def collectTable : List (String × List String) :=
  Internal.all.map fun i => (i.name, Caps.diff {} (collect false {} i))

end VaxisModel.Model.Input
