import VaxisModel.Model.GoBody
import VaxisModel.Model.InputLoop
import VaxisModel.Gen.InputBody

/-!
# Interpreter for the regenerated bodies of `handleSequence`, `parseMouseEvent` and `Resize`

`Gen/InputBody.lean` holds the three function bodies as terms of the statement language
`Model/GoBody.lean` (the language and the go/ast translator of C09/C13, reused unchanged; the C03
extractor only rewrites `select`/send statements into calls `trySend` / `sendOrDone` / `send` first).
This file gives those terms a meaning over the values of the hand model (`Model/Input.lean`): it
EXECUTES them.  `Props/C03Body.lean` proves, for all sequences and states, that the execution is the
hand model (`handleSequence_body_eq_model`, `parseMouse_body_eq_model`), including how each send is
written (blocking / non-blocking / with a time-out case) and every early `return` / `break`.

Conventions (those of `Model/Input.lean`):
* index expressions are checked: out of range = `Fail.panic` (Go's run-time panic); anything the
  interpreter has no meaning for is `Fail.stuck why`, never a default;
* `&&` / `||` evaluate their right operand only when the left one does not decide;
* Go `int` subtraction wraps at 64 bits (`wrap64`); `x & m` is defined for a mask `0 ≤ m < 256`
  (`andMask`: the low eight bits of the two's-complement `x`) — the only masks in these bodies;
* `decodeKey` is opaque (C09): its result is the value `key s paste`; `base64…DecodeString` is the
  parameter `b64`; `log.*`, the mutex, the yield point `verifC03` and the deferred `cancel` have no effect;
* effects (posts, sends) are collected in order with the kind the statement is written with; state
  fields (`vx.pastePending`, `vx.nextSize.*`, …) are those of `VState`.
Core Lean only.
-/
namespace VaxisModel.Model.InputBody
open VaxisModel.Model.GoBody VaxisModel.Model.Input VaxisModel.Model.InputLoop

inductive Fail
  | panic
  | stuck (why : String)
  deriving DecidableEq, Repr

inductive V
  | int (n : Int)
  | bool (b : Bool)
  | str (s : List Nat)
  | ints (l : List Int)
  | intss (l : List (List Int))
  | strs (l : List (List Nat))
  | seq (s : Seq)
  /-- the `Key` returned by `decodeKey(seq)` with its `EventType` override -/
  | key (s : Seq) (paste : Bool)
  | mouse (m : Mouse)
  | ev (e : Event)
  | pair (a b : V)
  | nil
  /-- a non-nil `error` -/
  | errv
  /-- `&x` -/
  | ref (x : String)
  /-- a channel field of `Vaxis` -/
  | chan (name : String)
  /-- values without structure for the property (contexts, durations, field names of literals) -/
  | opaque (what : String)
  deriving DecidableEq, Repr

abbrev Env := List (String × V)

/-- An effect with the way its statement is written. -/
abbrev KEff := Effect × SendKind

structure St where
  env : Env
  vs : VState
  effs : List KEff := []

inductive R where
  | norm (st : St)
  | ret (st : St) (v : V)
  | brk (st : St)
  | cont (st : St)
  | fail (f : Fail)

def R.andThen (r : R) (f : St → R) : R :=
  match r with
  | .norm st => f st
  | r => r

structure Ctx where
  b64 : List Nat → Option (List Nat)
  /-- `parseMouseEvent(seq)`: the pair it returns -/
  parseMouse : Seq → Except Fail V
  /-- `vx.Resize()` -/
  resize : St → R

/-! ## values -/

def zeroMouse : Mouse := { button := 0, row := 0, col := 0, eventType := 0, mods := 0 }

def seqTypeName : Seq → String
  | .print .. => "ansi.Print" | .c0 .. => "ansi.C0" | .esc .. => "ansi.ESC" | .ss3 .. => "ansi.SS3"
  | .csi .. => "ansi.CSI" | .dcs .. => "ansi.DCS" | .apc .. => "ansi.APC" | .osc .. => "ansi.OSC"
  | .other => "error"

def seqField (s : Seq) (f : String) : Except Fail V :=
  match s with
  | .csi interm params final =>
    if f = "Final" then .ok (.int final) else if f = "Intermediate" then .ok (.ints (interm.map Int.ofNat))
    else if f = "Parameters" then .ok (.intss params) else .error (.stuck "field")
  | .dcs final interm params data =>
    if f = "Final" then .ok (.int final) else if f = "Intermediate" then .ok (.ints (interm.map Int.ofNat))
    else if f = "Parameters" then .ok (.ints params) else if f = "Data" then .ok (.str data) else .error (.stuck "field")
  | .apc data => if f = "Data" then .ok (.str data) else .error (.stuck "field")
  | .osc payload => if f = "Payload" then .ok (.str payload) else .error (.stuck "field")
  | _ => .error (.stuck "field")

def envSeqField (env : Env) (f : String) : Except Fail V :=
  match env.lookup "seq" with
  | some (.seq s) => seqField s f
  | _ => .error (.stuck "seq")

/-- Identifiers that are not local variables: fields of the sequence, state of `Vaxis`, constants. -/
def readGlobal (env : Env) (vs : VState) (x : String) : Except Fail V :=
  if x = "seq.Final" then envSeqField env "Final"
  else if x = "seq.Intermediate" then envSeqField env "Intermediate"
  else if x = "seq.Parameters" then envSeqField env "Parameters"
  else if x = "seq.Data" then envSeqField env "Data"
  else if x = "seq.Payload" then envSeqField env "Payload"
  else if x = "vx.pastePending" then .ok (.bool vs.pastePending)
  else if x = "vx.caps.reportSizePixels" then .ok (.bool vs.caps.reportSizePixels)
  else if x = "vx.caps.reportSizeChars" then .ok (.bool vs.caps.reportSizeChars)
  else if x = "vx.caps.inBandResize" then .ok (.bool vs.caps.inBandResize)
  else if x = "EventPress" then .ok (.int evPress)
  else if x = "EventRelease" then .ok (.int evRelease)
  else if x = "EventMotion" then .ok (.int evMotion)
  else if x = "EventPaste" then .ok (.int evPaste)
  else if x = "ModShift" then .ok (.int modShift)
  else if x = "ModAlt" then .ok (.int modAlt)
  else if x = "ModCtrl" then .ok (.int modCtrl)
  else if x = "buttonBits" then .ok (.int Gen.Caps.buttonBits)
  else if x = "motion" then .ok (.int Gen.Caps.motion)
  else if x = "mouseModShift" then .ok (.int Gen.Caps.mouseModShift)
  else if x = "mouseModAlt" then .ok (.int Gen.Caps.mouseModAlt)
  else if x = "mouseModCtrl" then .ok (.int Gen.Caps.mouseModCtrl)
  else if x = "colorThemeResp" then .ok (.int Gen.Caps.colorThemeResp)
  else if x = "vx.chCursorPos" then .ok (.chan "chCursorPos")
  else if x = "vx.chSizeDone" then .ok (.chan "chSizeDone")
  else if x = "vx.chColor" then .ok (.chan "chColor")
  else if x = "vx.chFg" then .ok (.chan "chFg")
  else if x = "vx.chBg" then .ok (.chan "chBg")
  else if x = "vx.chClipboard" then .ok (.chan "chClipboard")
  else if x = "vx" then .ok (.opaque "vx")
  else if x = "time.Millisecond" then .ok (.opaque "duration")
  else if x = "Mode" then .ok (.opaque "field Mode")
  else .error (.stuck ("unbound " ++ x))

def readVar (env : Env) (vs : VState) (x : String) : Except Fail V :=
  match env.lookup x with
  | some v => .ok v
  | none => readGlobal env vs x

def vEq (a b : V) : Except Fail Bool :=
  match a, b with
  | .int x, .int y => .ok (decide (x = y))
  | .str x, .str y => .ok (decide (x = y))
  | .bool x, .bool y => .ok (decide (x = y))
  | .nil, .nil => .ok true
  | .errv, .nil => .ok false
  | .nil, .errv => .ok false
  | _, _ => .error (.stuck "==")

def intCmp (f : Int → Int → Bool) (a b : V) : Except Fail V :=
  match a, b with
  | .int x, .int y => .ok (.bool (f x y))
  | _, _ => .error (.stuck "compare")

/-- Strict binary operators (`&&`, `||` are in `evalE`). -/
def binop (op : BinOp) (a b : V) : Except Fail V :=
  match op with
  | .eq => (match vEq a b with | .ok r => .ok (.bool r) | .error f => .error f)
  | .ne => (match vEq a b with | .ok r => .ok (.bool (!r)) | .error f => .error f)
  | .lt => intCmp (fun x y => decide (x < y)) a b
  | .le => intCmp (fun x y => decide (x ≤ y)) a b
  | .gt => intCmp (fun x y => decide (x > y)) a b
  | .ge => intCmp (fun x y => decide (x ≥ y)) a b
  | .sub => (match a, b with | .int x, .int y => .ok (.int (wrap64 (x - y))) | _, _ => .error (.stuck "-"))
  | .band =>
    (match a, b with
     | .int x, .int m => if 0 ≤ m ∧ m < 256 then .ok (.int (andMask x m.toNat)) else .error (.stuck "& mask")
     | _, _ => .error (.stuck "&"))
  | _ => .error (.stuck "operator")

def utf8Len (r : Nat) : Int := if r < 128 then 1 else if r < 2048 then 2 else if r < 65536 then 3 else 4

/-- `len(s)` of a Go string: its length in bytes. -/
def strLen : List Nat → Int
  | [] => 0
  | r :: t => utf8Len r + strLen t

def index (a i : V) : Except Fail V :=
  match a, i with
  | .ints l, .int n => if 0 ≤ n then match l[n.toNat]? with | some x => .ok (.int x) | none => .error .panic else .error .panic
  | .intss l, .int n => if 0 ≤ n then match l[n.toNat]? with | some x => .ok (.ints x) | none => .error .panic else .error .panic
  | .strs l, .int n => if 0 ≤ n then match l[n.toNat]? with | some x => .ok (.str x) | none => .error .panic else .error .panic
  -- a `[]rune` (`ansi.DCS.Data`)
  | .str l, .int n => if 0 ≤ n then match l[n.toNat]? with | some x => .ok (.int x) | none => .error .panic else .error .panic
  | _, _ => .error (.stuck "index type")

def internalOfName (ty : String) : Option Internal :=
  Internal.all.find? fun i => i.name == ty

def litValue (ty : String) (elts : List V) : Except Fail V :=
  match elts with
  | [] =>
    if ty = "Mouse" then .ok (.mouse zeroMouse)
    else if ty = "FocusIn" then .ok (.ev .focusIn)
    else if ty = "FocusOut" then .ok (.ev .focusOut)
    else if ty = "PasteStartEvent" then .ok (.ev .pasteStart)
    else if ty = "PasteEndEvent" then .ok (.ev .pasteEnd)
    else if ty = "Redraw" then .ok (.ev .redraw)
    else match internalOfName ty with
      | some i => .ok (.ev (.internal i))
      | none => .error (.stuck ("literal " ++ ty))
  | [.opaque "field Mode", .int m] => if ty = "ColorThemeUpdate" then .ok (.ev (.colorTheme m)) else .error (.stuck ("literal " ++ ty))
  | [.int a, .int b] => if ty = "[2]int" then .ok (.ints [a, b]) else .error (.stuck ("literal " ++ ty))
  | _ => .error (.stuck ("literal " ++ ty))

/-- Calls without effect. -/
def callFn (c : Ctx) (env : Env) (vs : VState) (fn : String) (args : List V) : Except Fail V :=
  if fn = "len" then
    (match args with
     | [.str s] => .ok (.int (strLen s))
     | [.ints l] => .ok (.int l.length)
     | [.intss l] => .ok (.int l.length)
     | [.strs l] => .ok (.int l.length)
     | _ => .error (.stuck "len"))
  else if fn = "string" then (match args with | [.str s] => .ok (.str s) | _ => .error (.stuck "string()"))
  else if fn = "ColorThemeMode" ∨ fn = "MouseButton" ∨ fn = "CursorStyle" then
    (match args with | [.int n] => .ok (.int n) | _ => .error (.stuck "conversion"))
  else if fn = "terminalID" then (match args with | [.str s] => .ok (.ev (.terminalID s)) | _ => .error (.stuck "terminalID"))
  else if fn = "appID" then (match args with | [.str s] => .ok (.ev (.appID s)) | _ => .error (.stuck "appID"))
  else if fn = "decodeKey" then (match args with | [.seq s] => .ok (.key s false) | _ => .error (.stuck "decodeKey"))
  else if fn = "parseMouseEvent" then (match args with | [.seq s] => c.parseMouse s | _ => .error (.stuck "parseMouseEvent"))
  else if fn = "strings.Split" then
    (match args with | [.str s, .str [sep]] => .ok (.strs (splitOn sep s)) | _ => .error (.stuck "Split"))
  else if fn = "strings.HasPrefix" then
    (match args with | [.str s, .str p] => .ok (.bool (isPrefix p s)) | _ => .error (.stuck "HasPrefix"))
  else if fn = "strings.HasSuffix" then
    (match args with | [.str s, .str p] => .ok (.bool (isSuffix p s)) | _ => .error (.stuck "HasSuffix"))
  else if fn = "hexEncode" then (match args with | [.str s] => .ok (.str (hexEncode s)) | _ => .error (.stuck "hexEncode"))
  else if fn = "base64.StdEncoding.DecodeString" then
    (match args with
     | [.str s] => (match c.b64 s with | some b => .ok (.pair (.str b) .nil) | none => .ok (.pair (.str []) .errv))
     | _ => .error (.stuck "DecodeString"))
  else if fn = "vx.CanReportColor" then (match args with | [] => .ok (.bool vs.caps.osc4) | _ => .error (.stuck "Can"))
  else if fn = "vx.CanReportForegroundColor" then (match args with | [] => .ok (.bool vs.caps.osc10) | _ => .error (.stuck "Can"))
  else if fn = "vx.CanReportBackgroundColor" then (match args with | [] => .ok (.bool vs.caps.osc11) | _ => .error (.stuck "Can"))
  else if fn = "context.Background" then (match args with | [] => .ok (.opaque "background") | _ => .error (.stuck "Background"))
  else if fn = "mul" then (match args with | [.int _, .opaque "duration"] => .ok (.opaque "duration") | _ => .error (.stuck "mul"))
  else if fn = "context.WithTimeout" then
    (match args with
     | [.opaque "background", .opaque "duration"] => .ok (.pair (.opaque "timeout context") (.opaque "cancel"))
     | _ => .error (.stuck "WithTimeout"))
  else if fn = "ctx.Done" then
    (match args, env.lookup "ctx" with
     | [], some (.opaque "timeout context") => .ok (.opaque "done")
     | _, _ => .error (.stuck "ctx.Done"))
  else .error (.stuck ("call " ++ fn))

mutual
  def evalE (c : Ctx) (env : Env) (vs : VState) : E → Except Fail V
    | .int n => .ok (.int n)
    | .str s => .ok (.str (s.map Int.toNat))
    | .tt => .ok (.bool true)
    | .ff => .ok (.bool false)
    | .nilv => .ok .nil
    | .var x => readVar env vs x
    | .bin op a b =>
      match op with
      | .land =>
        (match evalE c env vs a with
         | .ok (.bool true) => (match evalE c env vs b with | .ok (.bool y) => .ok (.bool y) | .ok _ => .error (.stuck "&&") | .error f => .error f)
         | .ok (.bool false) => .ok (.bool false)
         | .ok _ => .error (.stuck "&&")
         | .error f => .error f)
      | .lor =>
        (match evalE c env vs a with
         | .ok (.bool false) => (match evalE c env vs b with | .ok (.bool y) => .ok (.bool y) | .ok _ => .error (.stuck "||") | .error f => .error f)
         | .ok (.bool true) => .ok (.bool true)
         | .ok _ => .error (.stuck "||")
         | .error f => .error f)
      | op =>
        (match evalE c env vs a with
         | .ok x => (match evalE c env vs b with | .ok y => binop op x y | .error f => .error f)
         | .error f => .error f)
    | .un op a =>
      match op with
      | .not => (match evalE c env vs a with | .ok (.bool x) => .ok (.bool (!x)) | .ok _ => .error (.stuck "!") | .error f => .error f)
      | .addr => (match a with | .var x => .ok (.ref x) | _ => .error (.stuck "&"))
      | _ => .error (.stuck "unary operator")
    | .call fn args =>
      (match evalEs c env vs args with
       | .ok l => callFn c env vs fn l
       | .error f => .error f)
    | .idx a i =>
      (match evalE c env vs a with
       | .ok x => (match evalE c env vs i with | .ok j => index x j | .error f => .error f)
       | .error f => .error f)
    | .lit ty elts =>
      (match evalEs c env vs elts with
       | .ok l => litValue ty l
       | .error f => .error f)
    | .sel _ _ => .error (.stuck "selector")
    | .slc _ _ _ => .error (.stuck "slice")
    | .unknown _ => .error (.stuck "unknown expression")
  def evalEs (c : Ctx) (env : Env) (vs : VState) : Es → Except Fail (List V)
    | .nil => .ok []
    | .cons h t =>
      match evalE c env vs h with
      | .ok v => (match evalEs c env vs t with | .ok l => .ok (v :: l) | .error f => .error f)
      | .error f => .error f
end

/-! ## statements -/

def eventOf : V → Except Fail Event
  | .key s p => .ok (.key s p)
  | .mouse m => .ok (.mouse m)
  | .ev e => .ok e
  | _ => .error (.stuck "not an event")

def St.emit (st : St) (e : Effect) (k : SendKind) : St := { st with effs := st.effs ++ [(e, k)] }

/-- The effect a send of `payload` on the channel field `ch` is. -/
def sendEffect (ch : String) (payload : V) : Except Fail Effect :=
  if ch = "chCursorPos" then (match payload with | .ints [r, c] => .ok (.sendCursorPos r c) | _ => .error (.stuck "chCursorPos payload"))
  else if ch = "chSizeDone" then (match payload with | .bool true => .ok .sendSizeDone | _ => .error (.stuck "chSizeDone payload"))
  else if ch = "chColor" then (match payload with | .str s => .ok (.sendColor s) | _ => .error (.stuck "chColor payload"))
  else if ch = "chFg" then (match payload with | .str s => .ok (.sendFg s) | _ => .error (.stuck "chFg payload"))
  else if ch = "chBg" then (match payload with | .str s => .ok (.sendBg s) | _ => .error (.stuck "chBg payload"))
  else if ch = "chClipboard" then (match payload with | .str s => .ok (.sendClipboard s) | _ => .error (.stuck "chClipboard payload"))
  else .error (.stuck ("channel " ++ ch))

def doSend (st : St) (k : SendKind) (ch : String) (payload : V) : R :=
  match sendEffect ch payload with
  | .ok e => .norm (st.emit e k)
  | .error f => .fail f

def noops : List String :=
  ["log.Trace", "log.Debug", "log.Info", "log.Warn", "log.Error", "vx.mu.Lock", "vx.mu.Unlock", "verifC03", "cancel"]

/-- A call in statement position (arguments already evaluated). -/
def callStmt (c : Ctx) (st : St) (fn : String) (args : List V) : R :=
  if fn = "vx.PostEventBlocking" then
    (match args with
     | [v] => (match eventOf v with | .ok e => .norm (st.emit (.postB e) .blocking) | .error f => .fail f)
     | _ => .fail (.stuck "PostEventBlocking"))
  else if fn = "vx.PostEvent" then
    (match args with
     | [v] => (match eventOf v with | .ok e => .norm (st.emit (.postNB e) .nonblocking) | .error f => .fail f)
     | _ => .fail (.stuck "PostEvent"))
  else if fn = "trySend" then
    (match args with | [.chan ch, v] => doSend st .nonblocking ch v | _ => .fail (.stuck "trySend"))
  else if fn = "send" then
    (match args with | [.chan ch, v] => doSend st .blocking ch v | _ => .fail (.stuck "send"))
  else if fn = "sendOrDone" then
    (match args with | [.chan ch, v, .opaque "done"] => doSend st .timeout ch v | _ => .fail (.stuck "sendOrDone"))
  else if fn = "atomicStore" then
    (match args with
     | [.ref "vx.resize", .bool b] => .norm { st with vs := { st.vs with resizeFlag := b } }
     | _ => .fail (.stuck "atomicStore"))
  else if fn = "vx.Resize" then (match args with | [] => c.resize st | _ => .fail (.stuck "Resize"))
  else if noops.contains fn then .norm st
  else .fail (.stuck ("call statement " ++ fn))

def lhsNames : Es → Option (List String)
  | .nil => some []
  | .cons (.var x) t => (lhsNames t).map (x :: ·)
  | .cons _ _ => none

def bindVar (x : String) (v : V) (env : Env) : Env := if x = "_" then env else (x, v) :: env

def setMouse (env : Env) (f : Mouse → Mouse) : Except Fail Env :=
  match env.lookup "mouse" with
  | some (.mouse m) => .ok (("mouse", .mouse (f m)) :: env)
  | _ => .error (.stuck "mouse")

/-- The local variables of the three bodies. An assignment to any other name (a field of `Vaxis` the
model does not know, say) is `stuck`, not silently a new local. -/
def localNames : List String :=
  ["_", "key", "mouse", "ok", "ps", "m", "typ", "h", "w", "report", "resize", "vals", "b", "err", "ctx", "cancel",
   "cursorStyle", "button"]

/-- `name = v` (also `:=`): a state field of `Vaxis`, a field of a local record, or a local. -/
def assign1 (name : String) (v : V) (st : St) : R :=
  if name = "vx.pastePending" then
    (match v with | .bool b => .norm { st with vs := { st.vs with pastePending := b } } | _ => .fail (.stuck "pastePending"))
  else if name = "vx.nextSize.XPixel" then
    (match v with | .int n => .norm { st with vs := { st.vs with nextSize := { st.vs.nextSize with xpix := n } } } | _ => .fail (.stuck "nextSize"))
  else if name = "vx.nextSize.YPixel" then
    (match v with | .int n => .norm { st with vs := { st.vs with nextSize := { st.vs.nextSize with ypix := n } } } | _ => .fail (.stuck "nextSize"))
  else if name = "vx.nextSize.Cols" then
    (match v with | .int n => .norm { st with vs := { st.vs with nextSize := { st.vs.nextSize with cols := n } } } | _ => .fail (.stuck "nextSize"))
  else if name = "vx.nextSize.Rows" then
    (match v with | .int n => .norm { st with vs := { st.vs with nextSize := { st.vs.nextSize with rows := n } } } | _ => .fail (.stuck "nextSize"))
  else if name = "vx.userCursorStyle" then
    (match v with | .int n => .norm { st with vs := { st.vs with userCursorStyle := n } } | _ => .fail (.stuck "userCursorStyle"))
  else if name = "key.EventType" then
    (match st.env.lookup "key", v with
     | some (.key s _), .int n => if n = evPaste then .norm { st with env := ("key", .key s true) :: st.env } else .fail (.stuck "key.EventType value")
     | _, _ => .fail (.stuck "key.EventType"))
  else if name = "mouse.EventType" then
    (match v with
     | .int n => (match setMouse st.env fun m => { m with eventType := n.toNat } with | .ok e => .norm { st with env := e } | .error f => .fail f)
     | _ => .fail (.stuck "mouse.EventType"))
  else if name = "mouse.Button" then
    (match v with
     | .int n => (match setMouse st.env fun m => { m with button := n } with | .ok e => .norm { st with env := e } | .error f => .fail f)
     | _ => .fail (.stuck "mouse.Button"))
  else if name = "mouse.Col" then
    (match v with
     | .int n => (match setMouse st.env fun m => { m with col := n } with | .ok e => .norm { st with env := e } | .error f => .fail f)
     | _ => .fail (.stuck "mouse.Col"))
  else if name = "mouse.Row" then
    (match v with
     | .int n => (match setMouse st.env fun m => { m with row := n } with | .ok e => .norm { st with env := e } | .error f => .fail f)
     | _ => .fail (.stuck "mouse.Row"))
  else if localNames.contains name then .norm { st with env := bindVar name v st.env }
  else .fail (.stuck ("assignment to " ++ name))

/-- `name |= v` — only `mouse.Modifiers` in these bodies. -/
def orAssign (name : String) (v : V) (st : St) : R :=
  if name = "mouse.Modifiers" then
    (match v with
     | .int n => if 0 ≤ n then
         (match setMouse st.env fun m => { m with mods := m.mods ||| n.toNat } with | .ok e => .norm { st with env := e } | .error f => .fail f)
       else .fail (.stuck "|= negative")
     | _ => .fail (.stuck "mouse.Modifiers"))
  else .fail (.stuck ("|= " ++ name))

def assignVals (tok : AssignTok) (names : List String) (v : V) (st : St) : R :=
  match tok, names with
  | .set, [a] => assign1 a v st
  | .define, [a] => assign1 a v st
  | .define, [a, b] =>
    (match v with
     | .pair x y => (assign1 a x st).andThen fun st1 => assign1 b y st1
     | _ => .fail (.stuck "assignment arity"))
  | .orSet, [a] => orAssign a v st
  | _, _ => .fail (.stuck "assignment")

/-- `atomic.CompareAndSwapInt32(&vx.reqCursorPos, 1, 0)` -/
def isCASReq : E → Bool
  | .call fn (.cons (.un .addr (.var x)) (.cons (.int 1) (.cons (.int 0) .nil))) =>
    fn == "atomic.CompareAndSwapInt32" && x == "vx.reqCursorPos"
  | _ => false

/-- The condition of an `if`: a `bool` expression, or the one call with an effect that occurs in a
condition, the compare-and-swap that takes the cursor-position request flag. -/
def evalCond (c : Ctx) (cond : E) (st : St) : Except Fail (Bool × St) :=
  if isCASReq cond then
    .ok (st.vs.reqCursorPos, { st with vs := { st.vs with reqCursorPos := false } })
  else match evalE c st.env st.vs cond with
    | .ok (.bool b) => .ok (b, st)
    | .ok _ => .error (.stuck "condition is not a bool")
    | .error f => .error f

def rangeItems (v : V) : Option (List V) :=
  match v with
  | .intss l => some (l.map V.ints)
  | .ints l => some (l.map V.int)
  | .strs l => some (l.map V.str)
  | _ => none

def loop (f : St → V → R) : List V → St → R
  | [], st => .norm st
  | it :: rest, st =>
    match f st it with
    | .norm st' => loop f rest st'
    | .cont st' => loop f rest st'
    | .brk st' => .norm st'
    | r => r

def afterSwitch : R → R
  | .brk st => .norm st
  | r => r

def tyHit (ty : String) : Es → Bool
  | .nil => false
  | .cons (.var x) t => x == ty || tyHit ty t
  | .cons _ t => tyHit ty t

mutual
  def execS (c : Ctx) : S → St → R
    | .assign tok lhs rhs, st =>
      match lhsNames lhs, rhs with
      | some names, .cons e .nil =>
        (match evalE c st.env st.vs e with
         | .ok v => assignVals tok names v st
         | .error f => .fail f)
      | _, _ => .fail (.stuck "assignment shape")
    | .ifS init cond thn els, st =>
      (execSs c init st).andThen fun st1 =>
        match evalCond c cond st1 with
        | .ok (b, st2) => if b = true then execSs c thn st2 else execSs c els st2
        | .error f => .fail f
    | .ret vals, st =>
      match evalEs c st.env st.vs vals with
      | .ok [] => .ret st .nil
      | .ok [v] => .ret st v
      | .ok [a, b] => .ret st (.pair a b)
      | .ok _ => .fail (.stuck "return arity")
      | .error f => .fail f
    | .switchS init tag cases, st =>
      (execSs c init st).andThen fun st1 =>
        match (match tag with | .nilv => Except.ok (V.bool true) | _ => evalE c st1.env st1.vs tag) with
        | .ok tv => afterSwitch (execCs c tv st1 (fun _ => execDefault c st1 cases) cases)
        | .error f => .fail f
    | .typeSwitch bnd x cases, st =>
      match evalE c st.env st.vs x with
      | .ok (.seq s) =>
        afterSwitch (execTy c (seqTypeName s) { st with env := bindVar bnd (.seq s) st.env }
          (fun _ => execDefault c { st with env := bindVar bnd (.seq s) st.env } cases) cases)
      | .ok _ => .fail (.stuck "type switch subject")
      | .error f => .fail f
    | .forRange _ v x body, st =>
      match evalE c st.env st.vs x with
      | .ok xv =>
        (match rangeItems xv with
         | some items => loop (fun st' it => execSs c body { st' with env := bindVar v it st'.env }) items st
         | none => .fail (.stuck "range"))
      | .error f => .fail f
    | .expr e, st =>
      match e with
      | .call fn args =>
        (match evalEs c st.env st.vs args with
         | .ok l => callStmt c st fn l
         | .error f => .fail f)
      | _ => .fail (.stuck "expression statement")
    | .brk, st => .brk st
    | .cont, st => .cont st
    | .deferS e, st =>
      match e with
      | .call fn .nil => if noops.contains fn then .norm st else .fail (.stuck "defer")
      | _ => .fail (.stuck "defer")
    | .varDecl _ _, _ => .fail (.stuck "var declaration")
    | .unknown _, _ => .fail (.stuck "unknown statement")
  def execSs (c : Ctx) : Ss → St → R
    | .nil, st => .norm st
    | .cons h t, st => (execS c h st).andThen fun st' => execSs c t st'
  /-- the first non-default arm one of whose labels equals the tag, else `dflt` -/
  def execCs (c : Ctx) (tv : V) (st : St) (dflt : Unit → R) : Cs → R
    | .nil => dflt ()
    | .cons labels body t =>
      match labelHit c tv st labels with
      | .ok true => execSs c body st
      | .ok false => execCs c tv st dflt t
      | .error f => .fail f
  def labelHit (c : Ctx) (tv : V) (st : St) : Es → Except Fail Bool
    | .nil => .ok false
    | .cons l t =>
      match evalE c st.env st.vs l with
      | .ok lv =>
        (match vEq tv lv with
         | .ok true => .ok true
         | .ok false => labelHit c tv st t
         | .error f => .error f)
      | .error f => .error f
  def execTy (c : Ctx) (ty : String) (st : St) (dflt : Unit → R) : Cs → R
    | .nil => dflt ()
    | .cons labels body t =>
      if tyHit ty labels = true then execSs c body st else execTy c ty st dflt t
  def execDefault (c : Ctx) (st : St) : Cs → R
    | .nil => .norm st
    | .cons .nil body _ => execSs c body st
    | .cons (.cons _ _) _ t => execDefault c st t
end

/-! ## the three functions -/

def ctx0 (b64 : List Nat → Option (List Nat)) : Ctx :=
  { b64 := b64, parseMouse := fun _ => .error (.stuck "no callee"), resize := fun _ => .fail (.stuck "no callee") }

/-- The value a finished run returns. -/
def retVal (r : R) : Except Fail V :=
  match r with
  | .ret _ v => .ok v
  | .fail f => .error f
  | _ => .error (.stuck "no return")

/-- `parseMouseEvent(seq)` run on its regenerated body: the pair `(mouse, ok)`. -/
def runPm (s : Seq) : Except Fail V :=
  retVal (execSs (ctx0 fun _ => none) Gen.InputBody.pm { env := [("seq", .seq s)], vs := {} })

/-- `vx.Resize()` run on its regenerated body. -/
def runRz (st : St) : R :=
  match execSs (ctx0 fun _ => none) Gen.InputBody.rz st with
  | .norm st' => .norm st'
  | .ret st' _ => .norm st'
  | .fail f => .fail f
  | _ => .fail (.stuck "break outside a loop")

def ctxHs (b64 : List Nat → Option (List Nat)) : Ctx :=
  { b64 := b64, parseMouse := runPm, resize := runRz }

/-- What a finished run of `handleSequence` leaves: the new state and the effects performed. -/
def finish (r : R) : Except Fail (VState × List KEff) :=
  match r with
  | .norm st => .ok (st.vs, st.effs)
  | .ret st _ => .ok (st.vs, st.effs)
  | .fail f => .error f
  | _ => .error (.stuck "break outside a loop")

/-- `handleSequence(seq)` run on its regenerated body from the state `vs`: the new state and the
effects performed, in order, each with the way its statement is written. -/
def runHs (b64 : List Nat → Option (List Nat)) (vs : VState) (s : Seq) : Except Fail (VState × List KEff) :=
  finish (execSs (ctxHs b64) Gen.InputBody.hs { env := [("seq", .seq s)], vs := vs })

/-- How the hand model's effect is written according to the send kinds of the source. -/
def kindOf (k : Kinds) : Effect → SendKind
  | .postB _ => .blocking
  | .postNB _ => .nonblocking
  | .sendCursorPos .. => k.cursorPos
  | .sendSizeDone => k.sizeDone
  | .sendColor _ => k.color
  | .sendFg _ => k.fg
  | .sendBg _ => k.bg
  | .sendClipboard _ => k.clipboard

/-- What the hand model predicts in the vocabulary of the interpreter. -/
def ofModel (k : Kinds) (r : Res) : Except Fail (VState × List KEff) :=
  match r with
  | .ok (vs, effs) => .ok (vs, effs.map fun e => (e, kindOf k e))
  | .error _ => .error .panic

def pmOfModel (r : Except Panic (Option Mouse)) : Except Fail V :=
  match r with
  | .ok (some m) => .ok (.pair (.mouse m) (.bool true))
  | .ok none => .ok (.pair (.mouse zeroMouse) (.bool false))
  | .error _ => .error .panic

end VaxisModel.Model.InputBody
