import VaxisModel.Model.Input

/-!
# Labelled transition system of the input goroutine and its reply hand-offs (DESIGN §3.4)

Components: the input goroutine of `openTty` (either at its `select`, `pend = []`, or in the
middle of `handleSequence` with the remaining effects `pend`), the event queue (FIFO, capacity
`qcap`), the six reply channels with their real capacities (chCursorPos 1 since the F12 repair —
read from the source, `cursorCapGen` —, chSizeDone 1, chColor 1, chFg 1, chBg 1, chClipboard 0)
and the requesters (`CursorPosition`, `reportWinsize`, `Query*`, `ClipboardPop`).  Real time is abstracted: a time-out is a label that may fire whenever
its timer is armed.

How each send in `handleSequence` is written (bare send / `select` with `default` / `select` with
a time-out case) is read from the source: `Gen.Caps.hs_sends`.
-/
namespace VaxisModel.Model.InputLoop
open VaxisModel.Model.Input

inductive SendKind
  | blocking | nonblocking | timeout
  deriving DecidableEq, Repr

/-- How the six sends of `handleSequence` are written. -/
structure Kinds where
  cursorPos : SendKind
  sizeDone : SendKind
  color : SendKind
  fg : SendKind
  bg : SendKind
  clipboard : SendKind
  deriving DecidableEq, Repr

def kindOfString (s : String) : SendKind :=
  if s == "nonblocking" then .nonblocking else if s == "timeout" then .timeout else .blocking

def lookupKind (ch : String) : SendKind :=
  match Gen.Caps.hs_sends.find? (·.1 == ch) with
  | some (_, k) => kindOfString k
  | none => .blocking

/-- The send kinds of the current source. -/
def Kinds.ofGen : Kinds :=
  { cursorPos := lookupKind "chCursorPos", sizeDone := lookupKind "chSizeDone", color := lookupKind "chColor",
    fg := lookupKind "chFg", bg := lookupKind "chBg", clipboard := lookupKind "chClipboard" }

/-- The send kinds of the source before the F10/F11 repairs (every reply send bare). -/
def Kinds.original : Kinds :=
  { cursorPos := .blocking, sizeDone := .blocking, color := .blocking, fg := .blocking, bg := .blocking, clipboard := .timeout }

/-- Capacity of `chCursorPos` as written in `New()` (`make(chan [2]int, 1)` since the F12 repair,
unbuffered before). -/
def cursorCapGen : Nat :=
  match Gen.Caps.chanCaps.lookup "chCursorPos" with
  | some "1" => 1
  | _ => 0

/-- Does `CursorPosition()` start by dropping a stale answer (`select { case <-vx.chCursorPos: default: }`)? -/
def cursorDrainGen : Bool :=
  Gen.Caps.cp_stmts.head? == some "select { case <-vx.chCursorPos: default: }"

/-- Does the time-out arm of `CursorPosition()`'s select withdraw the request
(`atomicStore(&vx.reqCursorPos, false)`)? -/
def cursorTimeoutResetsGen : Bool :=
  match Gen.Caps.cp_select.find? (·.1 == "<-timeout.C") with
  | some (_, body) => body.contains "atomicStore(&vx.reqCursorPos, false)"
  | none => false

/-- Parameters of the system. -/
structure Params where
  qcap : Nat
  kinds : Kinds
  b64 : List Nat → Option (List Nat)
  /-- capacity of `chCursorPos` (0 = rendezvous) -/
  cursorCap : Nat := cursorCapGen
  /-- `CursorPosition()` drains `chCursorPos` before it raises the request flag -/
  cursorDrain : Bool := cursorDrainGen
  /-- the time-out exit of `CursorPosition()` clears the request flag -/
  cursorTimeoutResets : Bool := cursorTimeoutResetsGen

structure Sys where
  vs : VState := {}
  /-- remaining effects of the sequence being handled; `[]` = the goroutine is at its `select` -/
  pend : List Effect := []
  queue : List Event := []
  /-- contents of `chCursorPos` when it is buffered -/
  cursorCh : List (Int × Int) := []
  /-- occupancy of the capacity-1 channels -/
  sizeDone : Nat := 0
  color : List (List Nat) := []
  fg : List (List Nat) := []
  bg : List (List Nat) := []
  /-- a goroutine is inside `CursorPosition`'s select / `ClipboardPop`'s select -/
  cursorWaiting : Bool := false
  clipWaiting : Bool := false
  /-- what the requesters received -/
  cursorGot : List (Int × Int) := []
  clipGot : List (List Nat) := []
  /-- events dropped by non-blocking posts -/
  dropped : Nat := 0
  /-- events delivered to the application, in order -/
  delivered : List Event := []

inductive Label
  /-- the parser delivers a sequence to the goroutine waiting at its `select` -/
  | input (s : Seq)
  /-- the goroutine performs the effect at the head of `pend` -/
  | step
  /-- the 10 ms context of the clipboard hand-off expires -/
  | clipTimeout
  /-- the application receives one event from the queue -/
  | consume
  /-- `CursorPosition()`: set the flag and wait / its 50 ms timer fires -/
  | cursorCall | cursorTimeout
  /-- `CursorPosition()`: the non-blocking receive that drops a stale answer (before the flag is
  raised) / the waiting requester receives the answer from the buffered channel -/
  | cursorDrain | cursorRecv
  /-- a requester receives from a capacity-1 reply channel -/
  | sizeRecv | colorRecv | fgRecv | bgRecv
  /-- `ClipboardPop()` starts waiting / its context is cancelled -/
  | clipCall | clipCancel
  deriving DecidableEq, Repr

/-- A send on a capacity-1 channel holding `n` items. `some true` = stored, `some false` =
dropped (non-blocking / timed-out), `none` = not enabled (would block). -/
def send1 (k : SendKind) (n : Nat) : Option Bool :=
  if n < 1 then some true
  else match k with
    | .blocking => none
    | .nonblocking => some false
    | .timeout => some false

/-- One step of the goroutine on its head effect. `none` = blocked. -/
def stepEffect (p : Params) (s : Sys) (e : Effect) (rest : List Effect) : Option Sys :=
  match e with
  | .postB ev =>
      if s.queue.length < p.qcap then some { s with pend := rest, queue := s.queue ++ [ev] } else none
  | .postNB ev =>
      if s.queue.length < p.qcap then some { s with pend := rest, queue := s.queue ++ [ev] }
      else some { s with pend := rest, dropped := s.dropped + 1 }
  | .sendCursorPos r c =>
      if p.cursorCap = 0 then
        -- rendezvous (the source before the F12 repair)
        if s.cursorWaiting then some { s with pend := rest, cursorWaiting := false, cursorGot := s.cursorGot ++ [(r, c)] }
        else match p.kinds.cursorPos with
          | .blocking => none
          | _ => some { s with pend := rest }
      else
        match send1 p.kinds.cursorPos s.cursorCh.length with
        | some true => some { s with pend := rest, cursorCh := s.cursorCh ++ [(r, c)] }
        | some false => some { s with pend := rest }
        | none => none
  | .sendSizeDone =>
      match send1 p.kinds.sizeDone s.sizeDone with
      | some true => some { s with pend := rest, sizeDone := s.sizeDone + 1 }
      | some false => some { s with pend := rest }
      | none => none
  | .sendColor v =>
      match send1 p.kinds.color s.color.length with
      | some true => some { s with pend := rest, color := s.color ++ [v] }
      | some false => some { s with pend := rest }
      | none => none
  | .sendFg v =>
      match send1 p.kinds.fg s.fg.length with
      | some true => some { s with pend := rest, fg := s.fg ++ [v] }
      | some false => some { s with pend := rest }
      | none => none
  | .sendBg v =>
      match send1 p.kinds.bg s.bg.length with
      | some true => some { s with pend := rest, bg := s.bg ++ [v] }
      | some false => some { s with pend := rest }
      | none => none
  | .sendClipboard v =>
      if s.clipWaiting then some { s with pend := rest, clipWaiting := false, clipGot := s.clipGot ++ [v] }
      else match p.kinds.clipboard with
        | .blocking => none
        | .nonblocking => some { s with pend := rest }   -- `select` with `default`: dropped when nobody is waiting
        | .timeout => none   -- waits for `clipTimeout`

/-- The transition relation as a partial function (`none` = label not enabled, `some (.error _)`
= the goroutine panicked). -/
def next (p : Params) (s : Sys) : Label → Option (Except Panic Sys)
  | .input q =>
      match s.pend with
      | [] =>
        match handle p.b64 s.vs q with
        | .ok (vs, effs) => some (.ok { s with vs := vs, pend := effs })
        | .error e => some (.error e)
      | _ :: _ => none
  | .step =>
      match s.pend with
      | [] => none
      | e :: rest => (stepEffect p s e rest).map .ok
  | .clipTimeout =>
      match s.pend with
      | .sendClipboard _ :: rest =>
          if p.kinds.clipboard == .timeout then some (.ok { s with pend := rest }) else none
      | _ => none
  | .consume =>
      match s.queue with
      | [] => none
      | ev :: q => some (.ok { s with queue := q, delivered := s.delivered ++ [ev] })
  | .cursorCall =>
      if s.cursorWaiting then none
      else some (.ok { s with vs := { s.vs with reqCursorPos := true }, cursorWaiting := true })
  | .cursorTimeout =>
      if s.cursorWaiting then
        some (.ok { s with vs := { s.vs with reqCursorPos := if p.cursorTimeoutResets then false else s.vs.reqCursorPos },
                           cursorWaiting := false })
      else none
  | .cursorDrain =>
      if p.cursorDrain && !s.cursorWaiting then some (.ok { s with cursorCh := [] }) else none
  | .cursorRecv =>
      if s.cursorWaiting then
        match s.cursorCh with
        | [] => none
        | v :: t => some (.ok { s with cursorCh := t, cursorWaiting := false, cursorGot := s.cursorGot ++ [v] })
      else none
  | .sizeRecv => if s.sizeDone > 0 then some (.ok { s with sizeDone := s.sizeDone - 1 }) else none
  | .colorRecv => match s.color with | [] => none | _ :: t => some (.ok { s with color := t })
  | .fgRecv => match s.fg with | [] => none | _ :: t => some (.ok { s with fg := t })
  | .bgRecv => match s.bg with | [] => none | _ :: t => some (.ok { s with bg := t })
  | .clipCall => if s.clipWaiting then none else some (.ok { s with clipWaiting := true })
  | .clipCancel => if s.clipWaiting then some (.ok { s with clipWaiting := false }) else none

/-- Run a list of labels; `none` if some label is not enabled or the goroutine panics. -/
def run (p : Params) : Sys → List Label → Option Sys
  | s, [] => some s
  | s, l :: ls =>
    match next p s l with
    | some (.ok s') => run p s' ls
    | _ => none

/-- Reachable states (from `s0`, any number of steps, no panic). -/
inductive Reachable (p : Params) (s0 : Sys) : Sys → Prop
  | init : Reachable p s0 s0
  | step {s s' : Sys} (l : Label) : Reachable p s0 s → next p s l = some (.ok s') → Reachable p s0 s'

/-- Labels that need neither further terminal input nor any requester: the goroutine's own
steps, the clipboard hand-off's own time-out, and the application reading its events. -/
def Label.internal : Label → Bool
  | .step | .clipTimeout | .consume => true
  | _ => false

/-- The goroutine is back at its `select`. -/
def Sys.idle (s : Sys) : Bool := s.pend.isEmpty

/-- Which channel the goroutine is blocked on in state `s` (no `step` enabled), for reports. -/
def blockedOn (p : Params) (s : Sys) : Option String :=
  match s.pend with
  | [] => none
  | e :: rest =>
    match stepEffect p s e rest with
    | some _ => none
    | none =>
      match e with
      | .postB _ => some "queue"
      | .postNB _ => none
      | .sendCursorPos .. => some "chCursorPos"
      | .sendSizeDone => some "chSizeDone"
      | .sendColor _ => some "chColor"
      | .sendFg _ => some "chFg"
      | .sendBg _ => some "chBg"
      | .sendClipboard _ => some "chClipboard"

end VaxisModel.Model.InputLoop
