import VaxisModel.Model.Color
import VaxisModel.Model.InputLoop

/-!
# The requester side of the colour queries: `QueryColor`, `QueryForeground`, `QueryBackground`

```go
func (vx *Vaxis) QueryColor(c Color) Color {
	if !vx.CanReportColor() { return Color(0) }
	p := c.Params()
	if len(p) == 3 { return c }            // an RGB colour is returned as is
	if len(p) != 1 { return Color(0) }     // the default colour has no index
	select { case <-vx.chColor: default: } // (F203) drop a reply nobody asked for
	vx.tw.WriteStringLocked(tparm(osc4, p[0]))
	resp := <-vx.chColor
	var r, g, b int
	prefix := fmt.Sprintf("4;%v;", p[0])
	_, err := fmt.Sscanf(resp, prefix+"rgb:%x/%x/%x", &r, &g, &b)
	if err != nil { return Color(0) }
	return RGBColor(uint8(r), uint8(g), uint8(b))
}
```
`QueryForeground` / `QueryBackground` are the same with the formats `"10;rgb:%x/%x/%x"` / `"11;rgb:%x/%x/%x"`.

`fmt.Sscanf` is modelled for exactly the format shape used here — literal text, then three `%x`
verbs into `int`s separated by literal `/` (fmt/scan.go: `doScanf`, `advance`, `scanOne`,
`scanInt`, `scanNumber`, `SkipSpace`; `strconv.ParseInt(tok, 16, 64)`):
* a literal rune of the format must equal the next input rune (no blank skipping, EOF is an error);
* before a verb blanks are skipped (`SkipSpace`; a newline is an error in `Sscanf`);
* `%x` into an `int`: EOF is an error; an optional sign; then at least one rune out of
  `0123456789aAbBcCdDeEfF_`, as many as follow; the token goes to `ParseInt(tok, 16, 64)`, which
  rejects `_` (only legal with base 0) and values outside the `int64` range;
* input left over after the last verb is ignored.
The input is the list of code points of the payload (`string(seq.Payload)` re-decoded by `Sscanf`;
assumption of C03: the parser delivers valid code points).
-/
namespace VaxisModel.Model.InputQuery
open VaxisModel.Model.Color

/-- `fmt.isSpace`. -/
def isSpace (r : Nat) : Bool :=
  (9 ≤ r && r ≤ 13) || r == 32 || r == 0x85 || r == 0xA0 || r == 0x1680 || (0x2000 ≤ r && r ≤ 0x200a) ||
  r == 0x2028 || r == 0x2029 || r == 0x202f || r == 0x205f || r == 0x3000

/-- `ss.SkipSpace` for `Sscanf` (`nlIsSpace = false`): `none` = "unexpected newline". -/
def skipSpace : List Nat → Option (List Nat)
  | [] => some []
  | r :: rest => if r == 10 then none else if isSpace r then skipSpace rest else some (r :: rest)

/-- Value of a hexadecimal digit. -/
def hexVal (r : Nat) : Option Nat :=
  if 48 ≤ r && r ≤ 57 then some (r - 48)
  else if 97 ≤ r && r ≤ 102 then some (r - 87)
  else if 65 ≤ r && r ≤ 70 then some (r - 55)
  else none

/-- The runes `scanNumber` accepts for base 16: the hexadecimal digits and `_`. -/
def isNumRune (r : Nat) : Bool := (hexVal r).isSome || r == 95

/-- Value of a string of hexadecimal digits; `none` if one of them is `_`. -/
def hexNum : List Nat → Nat → Option Nat
  | [], acc => some acc
  | d :: ds, acc => match hexVal d with
    | some v => hexNum ds (acc * 16 + v)
    | none => none

/-- One `%x` verb into an `int`: blanks, sign, digits, `ParseInt(tok, 16, 64)`. -/
def scanHex (inp : List Nat) : Option (Int × List Nat) :=
  match skipSpace inp with
  | none => none
  | some [] => none
  | some (c :: rest) =>
    let (neg, body) := if c == 45 then (true, rest) else if c == 43 then (false, rest) else (false, c :: rest)
    let digs := body.takeWhile isNumRune
    let rest' := body.dropWhile isNumRune
    if digs.isEmpty then none
    else match hexNum digs 0 with
      | none => none
      | some v =>
        if neg then (if v ≤ 2 ^ 63 then some (-(v : Int), rest') else none)
        else (if v < 2 ^ 63 then some ((v : Int), rest') else none)

/-- Literal text of the format against the input. -/
def matchLit : List Nat → List Nat → Option (List Nat)
  | [], inp => some inp
  | _ :: _, [] => none
  | f :: fs, c :: inp => if f == c then matchLit fs inp else none

def ascii (s : String) : List Nat := s.toList.map Char.toNat

/-- `fmt.Sscanf(resp, lit ++ "%x/%x/%x", &r, &g, &b)`: `none` = an error is returned. -/
def sscanf3 (lit : List Nat) (resp : List Nat) : Option (Int × Int × Int) :=
  match matchLit lit resp with
  | none => none
  | some i1 =>
    match scanHex i1 with
    | none => none
    | some (r, i2) =>
      match matchLit [47] i2 with
      | none => none
      | some i3 =>
        match scanHex i3 with
        | none => none
        | some (g, i4) =>
          match matchLit [47] i4 with
          | none => none
          | some i5 =>
            match scanHex i5 with
            | none => none
            | some (b, _) => some (r, g, b)

/-- Go's `uint8(x)` for an `int`. -/
def u8 (x : Int) : Nat := (x % 256).toNat

/-- What the requester returns for the payload it received. -/
def colorOfReply (lit : List Nat) (resp : List Nat) : Color :=
  match sscanf3 lit resp with
  | some (r, g, b) => rgbColor (u8 r) (u8 g) (u8 b)
  | none => 0

def decimal (n : Nat) : List Nat := ascii (toString n)

/-- The literal part of the three formats. -/
def litColor (idx : Nat) : List Nat := ascii "4;" ++ decimal idx ++ ascii ";rgb:"
def litFg : List Nat := ascii "10;rgb:"
def litBg : List Nat := ascii "11;rgb:"

/-- The prologue of `QueryColor`: `inl c` = returns `c` without asking, `inr idx` = asks for `idx`. -/
def queryColorPre (can : Bool) (c : Color) : Sum Color Nat :=
  if !can then .inl 0
  else match params c with
    | [_, _, _] => .inl c
    | [i] => .inr i
    | _ => .inl 0

/-- Do the requesters drop a reply nobody asked for before they write their query
(`select { case <-vx.chColor: default: }`, F203 repaired)?  Read from the source. -/
def colorDrainGen : Bool := Gen.Caps.qc_stmts.contains "select { case <-vx.chColor: default: }"
def fgDrainGen : Bool := Gen.Caps.qf_stmts.contains "select { case <-vx.chFg: default: }"
def bgDrainGen : Bool := Gen.Caps.qb_stmts.contains "select { case <-vx.chBg: default: }"

/-- XParseColor's reading of `h`, `hh`, `hhh`, `hhhh` (1–4 hexadecimal digits, scaled to 16 bits),
reduced to the 8 bits a `vaxis.Color` holds.  Spec side (oracle), not used by the model. -/
def xparseChannel (digs : List Nat) : Option Nat :=
  if digs.isEmpty || 4 < digs.length || digs.contains 95 then none
  else (hexNum digs 0).map fun v => v * 65535 / (16 ^ digs.length - 1) / 256

end VaxisModel.Model.InputQuery
