import VaxisModel.Model.Color
import VaxisModel.Model.InputLoop

/-!
# The requester side of the colour queries: `QueryColor`, `QueryForeground`, `QueryBackground`

```go
func (vx *Vaxis) QueryColor(c Color) Color {
	if !vx.CanReportColor() { return Color(0) }
	p := c.Params()
	if len(p) == 3 { return c }            // an RGB colour is returned as is
	if len(p) != 1 { return Color(0) }     // the default colour has no index
	select { case <-vx.chColor: default: } // (F203) drop a reply nobody asked for
	vx.tw.WriteStringLocked(tparm(osc4, p[0]))
	resp := <-vx.chColor
	prefix := fmt.Sprintf("4;%v;", p[0])
	col, ok := parseColorReply(resp, prefix)   // (F303 repaired)
	if !ok { return Color(0) }
	return col
}
func parseColorReply(resp string, prefix string) (Color, bool) {
	if !strings.HasPrefix(resp, prefix+"rgb:") { return Color(0), false }
	channels := strings.Split(strings.TrimPrefix(resp, prefix+"rgb:"), "/")
	if len(channels) != 3 { return Color(0), false }
	var rgb [3]uint8
	for i, ch := range channels {
		n := len(ch)
		if n < 1 || n > 4 { return Color(0), false }
		v, err := strconv.ParseUint(ch, 16, 16)
		if err != nil { return Color(0), false }
		max := uint64(1)<<(4*n) - 1
		rgb[i] = uint8(v * 0xFFFF / max >> 8)
	}
	return RGBColor(rgb[0], rgb[1], rgb[2]), true
}
```
`QueryForeground` / `QueryBackground` are the same with the prefixes `"10;"` / `"11;"`.

`colorOfReply` follows `parseColorReply` (round 4).  `strconv.ParseUint(ch, 16, 16)` accepts exactly
the non-empty strings of hexadecimal digits (either case; no sign, no `_` with an explicit base)
whose value fits 16 bits; with `1 ≤ len(ch) ≤ 4` the value always fits.  `len(ch)` counts bytes and
the model counts code points: the two differ only for a channel with a non-ASCII rune, which is not
a hexadecimal digit, so both reject it.  `x >> 8` of an unsigned value is `x / 256`.

Before the repair the requesters parsed with `fmt.Sscanf(resp, prefix+"rgb:%x/%x/%x", &r, &g, &b)`
and returned `RGBColor(uint8(r), uint8(g), uint8(b))`; that parse is kept below as
`colorOfReplySscanf` (with the model of `Sscanf` for this format shape: literal text, blanks before
a verb, sign, the digit set `0-9a-fA-F_`, `ParseInt(tok, 16, 64)`), because `Witness/F303.lean`
proves over it that the old code did not return the colour reported.
The input is the list of code points of the payload (assumption of C03: the parser delivers valid
code points).
-/
namespace VaxisModel.Model.InputQuery
open VaxisModel.Model.Color VaxisModel.Model

/-- `fmt.isSpace`. -/
def isSpace (r : Nat) : Bool :=
  (9 ≤ r && r ≤ 13) || r == 32 || r == 0x85 || r == 0xA0 || r == 0x1680 || (0x2000 ≤ r && r ≤ 0x200a) ||
  r == 0x2028 || r == 0x2029 || r == 0x202f || r == 0x205f || r == 0x3000

/-- `ss.SkipSpace` for `Sscanf` (`nlIsSpace = false`): `none` = "unexpected newline". -/
def skipSpace : List Nat → Option (List Nat)
  | [] => some []
  | r :: rest => if r == 10 then none else if isSpace r then skipSpace rest else some (r :: rest)

/-- Value of a hexadecimal digit. -/
def hexVal (r : Nat) : Option Nat :=
  if 48 ≤ r && r ≤ 57 then some (r - 48)
  else if 97 ≤ r && r ≤ 102 then some (r - 87)
  else if 65 ≤ r && r ≤ 70 then some (r - 55)
  else none

/-- The runes `scanNumber` accepts for base 16: the hexadecimal digits and `_`. -/
def isNumRune (r : Nat) : Bool := (hexVal r).isSome || r == 95

/-- Value of a string of hexadecimal digits; `none` if one of them is `_`. -/
def hexNum : List Nat → Nat → Option Nat
  | [], acc => some acc
  | d :: ds, acc => match hexVal d with
    | some v => hexNum ds (acc * 16 + v)
    | none => none

/-- One `%x` verb into an `int`: blanks, sign, digits, `ParseInt(tok, 16, 64)`. -/
def scanHex (inp : List Nat) : Option (Int × List Nat) :=
  match skipSpace inp with
  | none => none
  | some [] => none
  | some (c :: rest) =>
    let (neg, body) := if c == 45 then (true, rest) else if c == 43 then (false, rest) else (false, c :: rest)
    let digs := body.takeWhile isNumRune
    let rest' := body.dropWhile isNumRune
    if digs.isEmpty then none
    else match hexNum digs 0 with
      | none => none
      | some v =>
        if neg then (if v ≤ 2 ^ 63 then some (-(v : Int), rest') else none)
        else (if v < 2 ^ 63 then some ((v : Int), rest') else none)

/-- Literal text of the format against the input. -/
def matchLit : List Nat → List Nat → Option (List Nat)
  | [], inp => some inp
  | _ :: _, [] => none
  | f :: fs, c :: inp => if f == c then matchLit fs inp else none

def ascii (s : String) : List Nat := s.toList.map Char.toNat

/-- `fmt.Sscanf(resp, lit ++ "%x/%x/%x", &r, &g, &b)`: `none` = an error is returned. -/
def sscanf3 (lit : List Nat) (resp : List Nat) : Option (Int × Int × Int) :=
  match matchLit lit resp with
  | none => none
  | some i1 =>
    match scanHex i1 with
    | none => none
    | some (r, i2) =>
      match matchLit [47] i2 with
      | none => none
      | some i3 =>
        match scanHex i3 with
        | none => none
        | some (g, i4) =>
          match matchLit [47] i4 with
          | none => none
          | some i5 =>
            match scanHex i5 with
            | none => none
            | some (b, _) => some (r, g, b)

/-- Go's `uint8(x)` for an `int`. -/
def u8 (x : Int) : Nat := (x % 256).toNat

/-- What the requesters returned for the payload they received BEFORE the F303 repair. -/
def colorOfReplySscanf (lit : List Nat) (resp : List Nat) : Color :=
  match sscanf3 lit resp with
  | some (r, g, b) => rgbColor (u8 r) (u8 g) (u8 b)
  | none => 0

/-- One channel in `parseColorReply`: 1–4 hexadecimal digits, scaled to 16 bits
(`v * 0xFFFF / (1<<(4n) - 1)`), the high byte kept (`>> 8`). -/
def parseChannel (ch : List Nat) : Option Nat :=
  if ch.length < 1 || 4 < ch.length then none
  else (hexNum ch 0).map fun v => v * 65535 / (16 ^ ch.length - 1) / 256

/-- What the requester returns for the payload it received (`parseColorReply`, `Color(0)` when it
reports failure); `lit` = the prefix followed by `rgb:`. -/
def colorOfReply (lit : List Nat) (resp : List Nat) : Color :=
  match matchLit lit resp with
  | none => 0
  | some rest =>
    match Input.splitOn 47 rest with
    | [a, b, c] =>
      (match parseChannel a, parseChannel b, parseChannel c with
       | some r, some g, some bl => rgbColor r g bl
       | _, _, _ => 0)
    | _ => 0

def decimal (n : Nat) : List Nat := ascii (toString n)

/-- The literal part of the three formats. -/
def litColor (idx : Nat) : List Nat := ascii "4;" ++ decimal idx ++ ascii ";rgb:"
def litFg : List Nat := ascii "10;rgb:"
def litBg : List Nat := ascii "11;rgb:"

/-- The prologue of `QueryColor`: `inl c` = returns `c` without asking, `inr idx` = asks for `idx`. -/
def queryColorPre (can : Bool) (c : Color) : Sum Color Nat :=
  if !can then .inl 0
  else match params c with
    | [_, _, _] => .inl c
    | [i] => .inr i
    | _ => .inl 0

/-- Do the requesters drop a reply nobody asked for before they write their query
(`select { case <-vx.chColor: default: }`, F203 repaired)?  Read from the source. -/
def colorDrainGen : Bool := Gen.Caps.qc_stmts.contains "select { case <-vx.chColor: default: }"
def fgDrainGen : Bool := Gen.Caps.qf_stmts.contains "select { case <-vx.chFg: default: }"
def bgDrainGen : Bool := Gen.Caps.qb_stmts.contains "select { case <-vx.chBg: default: }"

/-- XParseColor's reading of `h`, `hh`, `hhh`, `hhhh` (1–4 hexadecimal digits, scaled to 16 bits),
reduced to the 8 bits a `vaxis.Color` holds.  Spec side (oracle), written before the repair. -/
def xparseChannel (digs : List Nat) : Option Nat :=
  if digs.isEmpty || 4 < digs.length || digs.contains 95 then none
  else (hexNum digs 0).map fun v => v * 65535 / (16 ^ digs.length - 1) / 256

/-- "The answer is exactly the colour the reply reports", for a parse function: whenever the three
channels are well-formed XParseColor groups the requester returns the colour they report. -/
def ExactFor (parse : List Nat → List Nat → Color) : Prop :=
  ∀ (lit r g b : List Nat) (vr vg vb : Nat), xparseChannel r = some vr → xparseChannel g = some vg → xparseChannel b = some vb →
    parse lit (lit ++ (r ++ 47 :: (g ++ 47 :: b))) = rgbColor vr vg vb

end VaxisModel.Model.InputQuery
