/-
Model of /repo/key.go: `decodeKey`, `Key.Matches`, `Key.MatchString`, `Key.String`.

Transcribed arm by arm from the Go source.  Tables (`specialsKeys`, `keyNames`, the `Key*` / `Mod*`
constants, the C0 / SS3 case tables of `decodeKey`, the modifier labels of `MatchString`, the
prefixes of `String`) come from `Gen/Keys.lean`, regenerated from the source on every run.

* Runes, key codes and CSI parameters are `Int` (Go `rune` = int32, `int`); the conversion
  `rune(ps)` of a CSI parameter wraps to 32 bits (`toRune`).
* Go strings are modelled as lists of code points (`Str`); every string the code builds is valid
  UTF-8 (`string(rune)` and `WriteRune` replace invalid runes by U+FFFD: `strOfRune`).
* `ModifierMask` is a `Nat` (decodeKey clamps negative values to 0).
* `unicode.*` and the rune folding of `strings.EqualFold` are *parameters* (`Uni`).
Core Lean only.
-/
import VaxisModel.Gen.Keys

namespace VaxisModel.Model.Key
open VaxisModel.Gen.Keys

abbrev Str := List Int

/-- The `unicode` package functions used by key.go (and widgets/term/key.go), as parameters. -/
structure Uni where
  isUpper : Int → Bool
  isLower : Int → Bool
  isLetter : Int → Bool
  isGraphic : Int → Bool
  isPrint : Int → Bool
  toUpper : Int → Int
  toLower : Int → Int
  /-- `a ≠ b` are equal under Unicode simple case folding (`strings.EqualFold` rune step). -/
  foldEq : Int → Int → Bool

structure Key where
  text : Str := []
  keycode : Int := 0
  shifted : Int := 0
  base : Int := 0
  mods : Nat := 0
  event : Int := 0
deriving DecidableEq, Repr, Inhabited

/-- Parsed input sequences (the fields `decodeKey` reads). -/
inductive Seq where
  | print (grapheme : Str)
  | c0 (b : Int)
  | esc (final : Int)
  | ss3 (b : Int)
  | csi (params : List (List Int)) (final : Int)
deriving DecidableEq, Repr

/-- `rune(x)` for an `int` x: truncation to int32. -/
def toRune (x : Int) : Int := (x + 2147483648) % 4294967296 - 2147483648

def validRune (r : Int) : Bool :=
  decide (0 ≤ r) && decide (r ≤ maxRune) && !(decide (0xD800 ≤ r) && decide (r ≤ 0xDFFF))

/-- `string(r)` / `WriteRune(r)`: invalid runes become U+FFFD. -/
def strOfRune (r : Int) : Str := if validRune r then [r] else [0xFFFD]

/-- `a &^ b` on naturals. -/
def andNot (a b : Nat) : Nat := a ^^^ (a &&& b)

def lookup {α : Type} (k : Int) : List (Int × α) → Option α
  | [] => none
  | (k', v) :: rest => if k = k' then some v else lookup k rest

def lookup2 (k : Int × Int) : List ((Int × Int) × Int) → Option Int
  | [] => none
  | (k', v) :: rest => if k.1 = k'.1 ∧ k.2 = k'.2 then some v else lookup2 k rest

/-- First sub-parameter list (`i = 0`): key code, shifted code, base-layout code. -/
def csiCodes (final : Int) : List Int → Nat → Key → Key
  | [], _, key => key
  | ps :: rest, j, key =>
    let key' :=
      match j with
      | 0 =>
        let code := toRune ps
        if code = 1 ∧ final = 90 then { key with keycode := KeyTab, mods := ModShift }
        else match lookup2 (code, final) specialsKeys with
          | some k => { key with keycode := k }
          | none => { key with keycode := code }
      | 1 => { key with shifted := toRune ps }
      | 2 => { key with base := toRune ps }
      | _ => key
    csiCodes final rest (j + 1) key'

/-- Second sub-parameter list (`i = 1`): modifiers (+1) and event type (+1). -/
def csiMods (pm : List Int) : List Int → Nat → Key → Key
  | [], _, key => key
  | ps :: rest, j, key =>
    let key' :=
      match j with
      | 0 => { key with mods := (pm.headD 0 - 1).toNat }
      | 1 => { key with event := ps - 1 }
      | _ => key
    csiMods pm rest (j + 1) key'

def csiParams (final : Int) : List (List Int) → Nat → Key → Key
  | [], _, key => key
  | pm :: rest, i, key =>
    let key' :=
      match i with
      | 0 => csiCodes final pm 0 key
      | 1 => csiMods pm pm 0 key
      | 2 =>
        if key.keycode = 27 ∧ final = 126 ∧ pm ≠ [] then { key with keycode := toRune (pm.headD 0) }
        else { key with text := key.text ++ (pm.map fun p => if validRune (toRune p) then toRune p else 0xFFFD) }
      | _ => key
    csiParams final rest (i + 1) key'

def decodeRaw (u : Uni) : Seq → Key
  | .print g =>
    let raw := g.headD 0
    let key : Key := { keycode := raw }
    let key := if u.isUpper raw then { key with keycode := u.toLower raw, shifted := raw, mods := ModShift } else key
    if key.keycode ≠ KeyBackspace then { key with text := g } else key
  | .c0 b =>
    match lookup b c0Keys with
    | some k => { keycode := k }
    | none =>
      let kc : Int := if b = 0 then 64 else if b ≤ 0x1A then b + 0x60 else if b < 0x20 then b + 0x40 else 0
      { keycode := kc, mods := ModCtrl }
  | .esc final =>
    if u.isUpper final then { keycode := u.toLower final, shifted := final, mods := ModAlt ||| ModShift }
    else { keycode := final, mods := ModAlt }
  | .ss3 b =>
    match lookup b ss3Keys with
    | some k => { keycode := k }
    | none => {}
  | .csi params final =>
    let params := if params = [] then [[1]] else params
    csiParams final params 0 {}

/-- The Shift-text work-around at the end of `decodeKey`. -/
def shiftText (u : Uni) (key : Key) : Key :=
  let nmods := andNot key.mods (ModCapsLock ||| ModNumLock)
  if key.text = [] ∧ nmods = ModShift ∧ u.isPrint key.keycode = true then
    if u.isPrint key.shifted = true then { key with text := strOfRune key.shifted }
    else { key with text := strOfRune (u.toUpper key.keycode) }
  else key

def decodeKey (u : Uni) (s : Seq) : Key := shiftText u (decodeRaw u s)

/-! ### Go's `int` is 64 bits

The model computes with `Int`.  CSI parameters are Go `int`s (the parser accumulates digits with silent
wrap-around, so any int64 value is reachable from bytes), and the only arithmetic `decodeKey` does on them
as `int` is `pm[0] - 1` (modifiers) and `EventType(ps) - 1`: over int64 these differ from ℤ exactly at
`math.MinInt64`, where `p - 1` wraps to `MaxInt64` — which is what ℤ computes for `p + 2^64 = 2^63`.
`decodeKey64` is `decodeKey` with that one substitution, i.e. the decoder with Go's 64-bit subtraction
(`Props/C09Int64.lean` proves `wrap64 (p - 1) = int64Fix p - 1` on the whole int64 range). -/

def minInt64 : Int := -9223372036854775808

/-- `x` as an int64 (two's complement wrap). -/
def wrap64 (x : Int) : Int := (x + 9223372036854775808) % 18446744073709551616 - 9223372036854775808

def int64Fix (p : Int) : Int := if p = minInt64 then 9223372036854775808 else p

/-- The modifier / event sub-parameters (`params[1][0]`, `params[1][1]`) with `int64Fix` applied. -/
def int64Params : List (List Int) → List (List Int)
  | p0 :: p1 :: rest => p0 :: (match p1 with
      | m :: e :: r => int64Fix m :: int64Fix e :: r
      | [m] => [int64Fix m]
      | [] => []) :: rest
  | ps => ps

/-- `decodeKey` with Go's 64-bit `int` arithmetic. -/
def decodeKey64 (u : Uni) : Seq → Key
  | .csi params fin => decodeKey u (.csi (int64Params params) fin)
  | s => decodeKey u s

/-- `Key.Matches(key, mods)` (the variadic masks are already or-ed together). -/
def «matches» (u : Uni) (k : Key) (key : Int) (modsIn : Nat) : Bool :=
  let mods := andNot (andNot modsIn ModCapsLock) ModNumLock
  let kMods := andNot (andNot k.mods ModCapsLock) ModNumLock
  let unshiftedkMods := andNot kMods ModShift
  let unshiftedMods := andNot mods ModShift
  -- Rule 1
  if k.keycode = key ∧ mods = kMods then true
  -- Rule 2
  else if k.text = strOfRune key ∧ mods = kMods then true
  -- Rule 3
  else if k.shifted = key ∧ mods = unshiftedkMods then true
  -- Rule 4
  else if k.base = key ∧ mods = kMods then true
  -- Rule 5
  else if (!u.isLetter key && u.isGraphic key) = true ∧
      ((k.keycode = key ∧ unshiftedkMods = unshiftedMods) ∨ (k.shifted = key ∧ unshiftedkMods = unshiftedMods)) then true
  -- Rule 6
  else if mods &&& ModShift ≠ 0 ∧ u.isLower key = true ∧ u.toUpper key ≠ key ∧
      k.text = strOfRune (u.toUpper key) ∧ unshiftedMods = unshiftedkMods then true
  else false

/-- `strings.Split(s, sep)` for a one-rune separator. -/
def splitOn (sep : Int) : Str → List Str
  | [] => [[]]
  | c :: rest =>
    if c = sep then [] :: splitOn sep rest
    else match splitOn sep rest with
      | [] => [[c]]
      | h :: t => (c :: h) :: t

def lookupStr (s : Str) : List (Str × Nat) → Option Nat
  | [] => none
  | (k, v) :: rest => if s = k then some v else lookupStr s rest

/-- The modifier loop of `MatchString`. -/
def parseMods (u : Uni) : List Str → Nat
  | [] => 0
  | m :: rest =>
    let bit := match lookupStr (m.map u.toLower) matchStringMods with
      | some b => b
      | none => 0
    -- `mask |= bit` accumulates left to right; `|||` is commutative/associative
    bit ||| parseMods u rest

/-- `strings.EqualFold` on valid UTF-8 strings. -/
def equalFold (u : Uni) : Str → Str → Bool
  | [], [] => true
  | a :: s, b :: t => (decide (a = b) || u.foldEq a b) && equalFold u s t
  | _, _ => false

def findName (u : Uni) (key : Str) : List (Int × Str) → Option Int
  | [] => none
  | (k, name) :: rest => if equalFold u name key then some k else findName u key rest

/-- `MatchString` after `strings.Split(tgt, "+")`: `vals` are the fields. -/
def matchFields (u : Uni) (k : Key) (vals : List Str) : Bool :=
  let mods := vals.dropLast
  let key := vals.getLastD []
  -- the key is '+' itself ("Ctrl++"): the last two fields are empty
  let plus : Bool := key = [] ∧ vals.length > 2 ∧ mods.getLastD [0] = []
  let mods := if plus then mods.dropLast else mods
  let key := if plus then [43] else key
  let mask := parseMods u mods
  match key with
  | [] => «matches» u k 0xFFFD mask      -- DecodeRuneInString("") = (RuneError, 0) and 0 == len("")
  | [r] => «matches» u k r mask
  | r :: _ =>
    match findName u key keyNames with
    | some kn => «matches» u k kn mask
    | none => «matches» u k r mask

/-- `Key.MatchString(tgt)`; `tgt` is valid UTF-8 given as code points. -/
def matchString (u : Uni) (k : Key) (tgt : Str) : Bool :=
  match tgt with
  | [] => false
  | [r] => «matches» u k r 0
  | _ => matchFields u k (splitOn 43 tgt)

def findKeyName (kc : Int) : List (Int × Str) → Str
  | [] => []
  | (k, name) :: rest => if k = kc then name else findKeyName kc rest

def modPrefix (mods : Nat) : List (Nat × Str) → Str
  | [] => []
  | (bit, s) :: rest => (if mods &&& bit ≠ 0 then s else []) ++ modPrefix mods rest

/-- `Key.String()`. -/
def keyString (u : Uni) (k : Key) : Str :=
  let pre := if k.event ≠ EventRelease then modPrefix k.mods stringMods else []
  let kc := k.keycode
  if kc = KeyTab ∨ kc = KeySpace ∨ kc = KeyEsc ∨ kc = KeyBackspace ∨ kc = KeyEnter then
    pre ++ findKeyName kc keyNames
  else if kc = 8 then pre ++ findKeyName KeyBackspace keyNames
  else if kc < 0 then [105, 110, 118, 97, 108, 105, 100]  -- "invalid"
  else if kc < 0x20 then
    let val : Int := if kc = 0 then 64 else if kc ≤ 0x1A then kc + 0x60 else kc + 0x40
    [67, 116, 114, 108, 43, val]  -- "Ctrl+%c"
  else if kc ≤ maxRune then
    pre ++ strOfRune (if k.mods &&& ModCapsLock ≠ 0 ∧ k.text = strOfRune (u.toUpper kc) then u.toUpper kc else kc) ++ findKeyName kc keyNames
  else pre ++ findKeyName kc keyNames

end VaxisModel.Model.Key
