/-
The bodies of `Key.Matches`, `Key.MatchString`, `Key.String` and `decodeKey` *as extracted from
key.go on this run* (`Gen/KeyBody.lean`), executed by the interpreter of `Model/GoInterp.lean`.

These are the definitions the C09 driver runs against the implementation, so a change of the
source changes the model; `Props/C09Body.lean` proves that they coincide with the hand-written
model of `Model/Key.lean` (about which the C09 theorems are stated).  `none` = the interpreter
met something it has no meaning for (or a Go run-time panic such as an index out of range).
Core Lean only.
-/
import VaxisModel.Model.GoInterp
import VaxisModel.Gen.KeyBody
import VaxisModel.Gen.Keys

namespace VaxisModel.Model.KeyBody
open VaxisModel.Model.GoBody VaxisModel.Model.GoInterp VaxisModel.Model.Key VaxisModel.Gen.Keys

/-- The named constants of key.go (regenerated values). -/
def keyConstEnv : Env :=
  (modConsts.map fun nv => (nv.1, V.int (nv.2 : Nat))) ++
  [("EventPress", .int EventPress), ("EventRepeat", .int EventRepeat), ("EventRelease", .int EventRelease),
   ("EventMotion", .int EventMotion), ("EventPaste", .int EventPaste), ("unicode.MaxRune", .int maxRune)] ++
  (keyConsts.map fun nv => (nv.1, V.int nv.2))

def keyStruct : List (String × V) :=
  [("Text", .str []), ("Keycode", .int 0), ("ShiftedCode", .int 0), ("BaseLayoutCode", .int 0),
   ("Modifiers", .int 0), ("EventType", .int 0)]

def keyFields (k : Key) : List (String × V) :=
  [("Text", .str k.text), ("Keycode", .int k.keycode), ("ShiftedCode", .int k.shifted),
   ("BaseLayoutCode", .int k.base), ("Modifiers", .int (k.mods : Nat)), ("EventType", .int k.event)]

def ctx (u : Uni) (funcs : String → List V → Option (V × Str)) : Ctx where
  u := u
  consts := keyConstEnv
  maps := [("specialsKeys", .ints (specialsKeys.map fun e => ([e.1.1, e.1.2], e.2)))]
  slices := [("keyNames", keyNames.map fun e => V.struct [("key", .int e.1), ("name", .str e.2)])]
  structs := [("Key", keyStruct), ("specialKey", [("keycode", .int 0), ("final", .int 0)])]
  funcs := funcs
  noops := []
  fmtD := fun _ => []

def noFuncs : String → List V → Option (V × Str) := fun _ _ => none

/-- `Key.Matches(key, mods)` by running the extracted body. -/
def matchesGen (u : Uni) (k : Key) (key : Int) (m : Nat) : Option Bool :=
  (execSs (ctx u noFuncs) VaxisModel.Gen.KeyBody.matchesBody
      { env := bind "k" (.struct (keyFields k)) [("key", .int key), ("modifiers", .ints [(m : Nat)])] }).retBool

/-- `Key.Matches(key, ms...)` with the variadic list as given (`matchesGen` is the one-element case). -/
def matchesGenL (u : Uni) (k : Key) (key : Int) (ms : List Nat) : Option Bool :=
  (execSs (ctx u noFuncs) VaxisModel.Gen.KeyBody.matchesBody
      { env := bind "k" (.struct (keyFields k)) [("key", .int key), ("modifiers", .ints (ms.map fun (m : Nat) => (m : Int)))] }).retBool

/-- `Key.String()`. -/
def keyStringGen (u : Uni) (k : Key) : Option Str :=
  (execSs (ctx u noFuncs) VaxisModel.Gen.KeyBody.stringBody { env := bind "k" (.struct (keyFields k)) [] }).retStr

/-- The call `k.Matches(r [, mask])` inside `MatchString`. -/
def matchesCall (u : Uni) (k : Key) : String → List V → Option (V × Str)
  | fn, args =>
    if fn = "k.Matches" then
      match args with
      | [.int r] => (matchesGen u k r 0).map fun b => (.bool b, [])
      | [.int r, .int m] => (matchesGen u k r m.toNat).map fun b => (.bool b, [])
      | _ => none
    else none

/-- `Key.MatchString(tgt)`. -/
def matchStringGen (u : Uni) (k : Key) (tgt : Str) : Option Bool :=
  (execSs (ctx u (matchesCall u k)) VaxisModel.Gen.KeyBody.matchStringBody
      { env := bind "k" (.struct (keyFields k)) [("tgt", .str tgt)] }).retBool

def seqValue : Seq → V
  | .print g => .tag "ansi.Print" (.struct [("Grapheme", .str g)])
  | .c0 b => .tag "ansi.C0" (.int b)
  | .esc f => .tag "ansi.ESC" (.struct [("Final", .int f)])
  | .ss3 b => .tag "ansi.SS3" (.int b)
  | .csi params fin => .tag "ansi.CSI" (.struct [("Parameters", .intss params), ("Final", .int fin)])

def keyOfEnv (env : Env) : Option Key :=
  match env.lookup "key.Text", env.lookup "key.Keycode", env.lookup "key.ShiftedCode",
        env.lookup "key.BaseLayoutCode", env.lookup "key.Modifiers", env.lookup "key.EventType" with
  | some (.str t), some (.int kc), some (.int sh), some (.int b), some (.int m), some (.int ev) =>
    if 0 ≤ m then some { text := t, keycode := kc, shifted := sh, base := b, mods := m.toNat, event := ev } else none
  | _, _, _, _, _, _ => none

/-- `decodeKey(seq)`. -/
def decodeKeyGen (u : Uni) (s : Seq) : Option Key :=
  (execSs (ctx u noFuncs) VaxisModel.Gen.KeyBody.decodeKeyBody { env := [("seq", seqValue s)] }).retEnv.bind keyOfEnv

end VaxisModel.Model.KeyBody
