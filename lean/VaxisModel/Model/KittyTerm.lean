/-
C20 (round 4): the kitty upload code and the block `Draw` loops INTERPRETED from the statement forms the
extractor regenerates (`Gen.ImageConsts.kittyResizeBody`, `kittyWriteBody`, `halfDrawLoop`, `fullDrawLoop`), the
placement stretch of `render` interpreted stage by stage IN SOURCE ORDER (`Gen.renderOrder`, `Gen.renderShape`), and an
order-sensitive model of the terminal's side of the kitty graphics protocol: a table image id ↦ image data and a table
(image id, placement id) ↦ placement, changed by the commands transmit / place / delete in the order they are emitted.

Core Lean only.

* `KBuf` = the two fields of a `KittyImage` the upload code touches: `k.buf` as the list of encodings appended and not
  yet sent (an encoding is a serial number: the n-th successful `Resize` of the history), `k.uploaded`.
* `resizeWith body k e` runs the statements of the goroutine of `KittyImage.Resize` that touch them (after a successful
  encode; `e` = the new encoding); `writeWith body k` runs the placement's `writeTo` closure and returns what it writes.
  An unknown statement is `KOut.unknown` in the output (it never crashes; `Props.C20Term.kitty_bodies_recognised` says
  there is none).
* `renderStaged order sh same s` runs the top-level statements of the placement stretch of `render` in the order they
  have in the source, each loop emitting its events as it runs: `del p` (the placement's `deleteFn`), `wr p` (cursor
  move + `writeTo`).  With the order and statements of the unchanged source this is `Placements.renderWith` with the
  deletes before the writes (`Lemmas.KittyTerm.renderStaged_std`).
* `Term` and `Term.apply`: what a terminal implementing the kitty protocol keeps.  A placement id is `col<<16 | row`
  of the window origin (`KittyImage.Draw`), injective for `0 ≤ col, row < 65536`; the model uses the pair itself
  (`Key = (image id, col, row)`).  `a=d,d=i,i=…,p=…` removes the placement with that key, whatever its size;
  `a=p` with an existing key replaces it; `f=100,i=…` stores image data under the id (last one wins).
  Modelling choice: transmitting data for an existing id does not remove that image's placements (kitty itself
  drops them; see notes/C20.md "Round 4", observation O2).
-/
import VaxisModel.Gen.ImageConsts
import VaxisModel.Spec.Images
import VaxisModel.Model.Placements
import VaxisModel.Model.Window
import VaxisModel.Model.ImageDraw

namespace VaxisModel.Model.KittyTerm
open VaxisModel.Gen.ImageConsts
open VaxisModel.Spec.Images (Placement)
open VaxisModel.Model.Placements (State)

/-! ### The upload code of a kitty image, interpreted -/

/-- `k.buf` (encodings appended and not yet sent, oldest first) and `k.uploaded`. -/
structure KBuf where
  buf : List Nat := []
  uploaded : Bool := false
  deriving DecidableEq, Repr

/-- What a body writes to the terminal: the content of the buffer (the encodings in it), the `a=p` command of the
    placement, or something the extractor did not recognise. -/
inductive KOut | send (encs : List Nat) | place | unknown
  deriving DecidableEq, Repr

/-- One simple statement (`e`: the encoding a `Resize` has just produced). -/
def runAct (e : Nat) (st : KBuf × List KOut) : KAct → KBuf × List KOut
  | .storeUploaded v => ({ st.1 with uploaded := v }, st.2)
  | .appendChunks => ({ st.1 with buf := st.1.buf ++ [e] }, st.2)
  | .sendBuf => (st.1, st.2 ++ [.send st.1.buf])
  | .resetBuf => ({ st.1 with buf := [] }, st.2)
  | .place => (st.1, st.2 ++ [.place])
  | .other _ => (st.1, st.2 ++ [.unknown])

def runActs (e : Nat) (st : KBuf × List KOut) (as : List KAct) : KBuf × List KOut := as.foldl (runAct e) st

/-- One statement: the condition of an `if` is evaluated once, on entry. -/
def runStmt (e : Nat) (st : KBuf × List KOut) : KStmt → KBuf × List KOut
  | .act a => runAct e st a
  | .ifNotUploaded body => if st.1.uploaded then st else runActs e st body
  | .ifUploaded body => if st.1.uploaded then runActs e st body else st

def runBody (e : Nat) (body : List KStmt) (k : KBuf) : KBuf × List KOut := body.foldl (runStmt e) (k, [])

/-- The upload side of a successful `KittyImage.Resize` producing encoding `e`. -/
def resizeWith (body : List KStmt) (k : KBuf) (e : Nat) : KBuf := (runBody e body k).1
/-- The placement's `writeTo`. -/
def writeWith (body : List KStmt) (k : KBuf) : KBuf × List KOut := runBody 0 body k

def resizeGen : KBuf → Nat → KBuf := resizeWith kittyResizeBody
def writeGen : KBuf → KBuf × List KOut := writeWith kittyWriteBody

def actKnown : KAct → Bool
  | .other _ => false
  | _ => true
def stmtKnown : KStmt → Bool
  | .act a => actKnown a
  | .ifNotUploaded b => b.all actKnown
  | .ifUploaded b => b.all actKnown

/-! ### The `Draw` loops of the block images, interpreted -/

/-- An `int` expression of the loop (`none`: an expression the extractor did not recognise, or a division by zero —
    Go panics there). -/
def evalI (i width y x : Int) : IExpr → Option Int
  | .i => some i
  | .width => some width
  | .y => some y
  | .x => some x
  | .lit n => some n
  | .div a b => match evalI i width y x a, evalI i width y x b with
    | some a, some b => if b = 0 then none else some (Int.tdiv a b)
    | _, _ => none
  | .sub a b => match evalI i width y x a, evalI i width y x b with
    | some a, some b => some (a - b)
    | _, _ => none
  | .mul a b => match evalI i width y x a, evalI i width y x b with
    | some a, some b => some (a * b)
    | _, _ => none
  | .add a b => match evalI i width y x a, evalI i width y x b with
    | some a, some b => some (a + b)
    | _, _ => none
  | .unknown _ => none

/-- One iteration of `for i, cell := range cells { y := …; x := …; win.SetCell(a, b, cell') }`: the coordinates
    `SetCell` gets (`none`: unknown expression / division by zero). -/
def loopCoords (lp : DrawLoop) (width : Int) (i : Nat) : Option (Int × Int) :=
  match evalI i width 0 0 lp.yDef with
  | none => none
  | some y =>
    match evalI i width y 0 lp.xDef with
    | none => none
    | some x =>
      match evalI i width y x lp.setCol, evalI i width y x lp.setRow with
      | some c, some r => some (c, r)
      | _, _ => none

/-- The `SetCell` calls of a block image's `Draw`, from the regenerated loop: one per entry of the stored cell list, in
    order, at the coordinates the loop computes from the entry's index (`none`: the loop is not of the known form, or
    an iteration cannot be evaluated).  `toCell` is what the stored entry becomes (`DrawLoop.cell` says which form; the
    window model's cells are opaque ids, so the caller supplies the mapping for that form). -/
def drawLoopOps {α : Type} (lp : DrawLoop) (toCell : α → VaxisModel.Model.Window.Cell) (width : Int) (cells : List α) :
    Option (List VaxisModel.Model.Window.Op) :=
  if !lp.rangeCells || !lp.extra.isEmpty then none else
  (cells.zipIdx).mapM fun (c, i) =>
    (loopCoords lp width i).map fun cr => { col := cr.1, row := cr.2, cell := toCell c }

/-! ### `render`'s placement stretch, stage by stage in source order -/

/-- What the loops write, in the order they write it. -/
inductive REv | del (p : Placement) | wr (p : Placement)
  deriving DecidableEq, Repr

/-- One top-level statement of the stretch (`next`, `refresh` are not assigned there; `last` is). -/
def runStage (sh : RenderShape) (same : Placement → Placement → Bool) (next : List Placement) (refresh : Bool)
    (st : List Placement × List REv) : RStage → List Placement × List REv
  | .deleteLoop =>
    (st.1, st.2 ++ (st.1.filter fun p1 =>
      if sh.delOnRefresh && refresh then true
      else if sh.delKeepSame && (next.any fun p2 => same p1 p2) then false
      else sh.delRest).map .del)
  | .clearLast => (if sh.clearOnRefresh && refresh then [] else st.1, st.2)
  | .writeLoop =>
    (st.1, st.2 ++ (next.filter fun p1 =>
      if sh.writeSkipSame && (st.1.any fun p2 => same p1 p2) then false else sh.writeRest).map .wr)
  | .saveLast => (if sh.saveLast then next else st.1, st.2)
  | .other => st

/-- The stretch, then `Render` clearing the refresh flag. -/
def renderStaged (order : List RStage) (sh : RenderShape) (same : Placement → Placement → Bool) (s : State) :
    State × List REv :=
  let r := order.foldl (runStage sh same s.next s.refresh) (s.last, [])
  ({ next := s.next, last := r.1, refresh := false }, r.2)

def renderGen : State → State × List REv := renderStaged renderOrder renderShape Placements.samePlacement

def evDeletes (evs : List REv) : List Placement := evs.filterMap fun | .del p => some p | _ => none
def evWrites (evs : List REv) : List Placement := evs.filterMap fun | .wr p => some p | _ => none

/-! ### The terminal -/

/-- (image id, col, row): what a kitty placement is addressed by (`p = col<<16 | row`). -/
abbrev Key := Nat × Int × Int
def key (p : Placement) : Key := (p.id, p.col, p.row)

/-- The placement id `KittyImage.Draw` computes from the window's origin, with the regenerated shift (`none`: the
    expression is not of the form `uint(col)<<N | uint(row)`; for `0 ≤ col, row`). -/
def pidOf (col row : Nat) : Option Nat := kittyPidShift.map fun n => (col <<< n) ||| row

/-- The graphics commands vaxis emits (`sixel`: sixel data written at the cursor — not a kitty command, the kitty
    tables ignore it; `unknown`: from an unrecognised statement). -/
inductive Cmd | transmit (id enc : Nat) | place (p : Placement) | delete (k : Key) | sixel (p : Placement) | unknown
  deriving DecidableEq, Repr

structure Term where
  data : Nat → Option Nat
  places : Key → Option Placement

def Term.empty : Term := ⟨fun _ => none, fun _ => none⟩

def Term.apply (t : Term) : Cmd → Term
  | .transmit id e => { t with data := fun i => if i = id then some e else t.data i }
  | .place p => { t with places := fun k => if k = key p then some p else t.places k }
  | .delete k0 => { t with places := fun k => if k = k0 then none else t.places k }
  | .sixel _ => t
  | .unknown => t

def Term.run (t : Term) (cs : List Cmd) : Term := cs.foldl Term.apply t

/-- The table a frame asks for: under each key the placement of the frame with that key. -/
def tableOf (l : List Placement) (k : Key) : Option Placement := l.find? fun p => key p = k

/-- No two different placements of the list share a key (the same placement may occur twice). -/
def KeyFun (l : List Placement) : Prop := ∀ p ∈ l, ∀ q ∈ l, key p = key q → p = q

/-! ### Events → commands -/

def update {α : Type} (f : Nat → α) (i : Nat) (v : α) : Nat → α := fun j => if j = i then v else f j

/-- What one `writeTo` output becomes for placement `p`. -/
def outCmds (p : Placement) : KOut → List Cmd
  | .send encs => encs.map fun e => .transmit p.id e
  | .place => [.place p]
  | .unknown => [.unknown]

/-- One event: a kitty placement's `deleteFn` writes the delete command (a sixel's writes nothing); `writeTo` of a kitty
    placement runs the closure on its image's state (a sixel's writes its data). -/
def emitEv (kitty : Nat → Bool) (wbody : List KStmt) (st : (Nat → KBuf) × List Cmd) : REv → (Nat → KBuf) × List Cmd
  | .del p => if kitty p.id then (st.1, st.2 ++ [.delete (key p)]) else st
  | .wr p =>
    if kitty p.id then
      let r := writeWith wbody (st.1 p.id)
      (update st.1 p.id r.1, st.2 ++ r.2.flatMap (outCmds p))
    else (st.1, st.2 ++ [.sixel p])

def emit (kitty : Nat → Bool) (wbody : List KStmt) (imgs : Nat → KBuf) (evs : List REv) : (Nat → KBuf) × List Cmd :=
  evs.foldl (emitEv kitty wbody) (imgs, [])

/-! ### The world: application, images, terminal -/

/-- What an application does (kitty images only here; `resize id ok`: a `Resize` of image `id` has finished, `ok` =
    the encoder produced data). -/
inductive WOp
  | resize (id : Nat) (ok : Bool)
  | draw (p : Placement)
  | clear
  | render
  | refresh
  deriving DecidableEq, Repr

structure World where
  ps : State
  imgs : Nat → KBuf
  term : Term
  /-- ghost: the encoding the last successful `Resize` of each image produced -/
  latest : Nat → Option Nat
  /-- ghost: number of encodings produced so far (the next encoding's name) -/
  serial : Nat

def World.init : World := ⟨Placements.init, fun _ => {}, Term.empty, fun _ => none, 0⟩

def World.render (order : List RStage) (sh : RenderShape) (same : Placement → Placement → Bool) (wbody : List KStmt)
    (w : World) (refresh : Bool) : World × List Cmd :=
  let r := renderStaged order sh same { w.ps with refresh := w.ps.refresh || refresh }
  let e := emit (fun _ => true) wbody w.imgs r.2
  ({ w with ps := r.1, imgs := e.1, term := w.term.run e.2 }, e.2)

def World.stepWith (order : List RStage) (sh : RenderShape) (same : Placement → Placement → Bool)
    (rbody wbody : List KStmt) (w : World) : WOp → World
  | .resize id ok =>
    if ok then { w with imgs := update w.imgs id (resizeWith rbody (w.imgs id) w.serial),
                        latest := update w.latest id (some w.serial), serial := w.serial + 1 }
    else w
  | .draw p => { w with ps := { w.ps with next := w.ps.next ++ [p] } }
  | .clear => { w with ps := { w.ps with next := [] } }
  | .render => (w.render order sh same wbody false).1
  | .refresh => (w.render order sh same wbody true).1

/-- The step with everything regenerated from the source. -/
def World.step : World → WOp → World :=
  World.stepWith renderOrder renderShape Placements.samePlacement kittyResizeBody kittyWriteBody

def World.run (w : World) (ops : List WOp) : World := ops.foldl World.step w

/-- What the application has drawn since the last `Clear` (from the op list alone): the frame a render shows. -/
def drawnSinceClear (cur : List Placement) : List WOp → List Placement
  | [] => cur
  | .draw p :: r => drawnSinceClear (cur ++ [p]) r
  | .clear :: r => drawnSinceClear [] r
  | _ :: r => drawnSinceClear cur r

/-- All graphics commands a history emits, in order (the concatenation of what its renders write). -/
def World.trace (w : World) : List WOp → List Cmd
  | [] => []
  | op :: rest =>
    (match op with
     | .render => (w.render renderOrder renderShape Placements.samePlacement kittyWriteBody false).2
     | .refresh => (w.render renderOrder renderShape Placements.samePlacement kittyWriteBody true).2
     | _ => []) ++ World.trace (w.step op) rest

/-- A stricter terminal (kitty's own behaviour, observation O2 of the notes): transmitting data under an id that
    already has an image replaces the image AND removes its placements. -/
def Term.applyDrop (t : Term) : Cmd → Term
  | .transmit id e =>
    { data := fun i => if i = id then some e else t.data i,
      places := fun k => if k.1 = id ∧ (t.data id).isSome then none else t.places k }
  | c => t.apply c

/-- The frames of a history are key-functional: at every render the next-frame list has no two different placements
    with the same (image, origin).  (Holds whenever a frame draws an image at most once per origin between two
    `Resize`s of it — in particular when the application clears before drawing a frame.) -/
def FramesKeyFun (cur : List Placement) : List WOp → Prop
  | [] => True
  | .draw p :: r => FramesKeyFun (cur ++ [p]) r
  | .clear :: r => FramesKeyFun [] r
  | .render :: r => KeyFun cur ∧ FramesKeyFun cur r
  | .refresh :: r => KeyFun cur ∧ FramesKeyFun cur r
  | .resize _ _ :: r => FramesKeyFun cur r

/-! ### Histories that mix kitty and sixel images

`kitty id`: image `id` was made with `NewKittyGraphic` (else `NewSixel`: its placements' `deleteFn` writes nothing and
their `writeTo` writes the sixel data at the cursor — nothing the kitty tables see). -/

def World.renderK (kitty : Nat → Bool) (w : World) (refresh : Bool) : World × List Cmd :=
  let r := renderGen { w.ps with refresh := w.ps.refresh || refresh }
  let e := emit kitty kittyWriteBody w.imgs r.2
  ({ w with ps := r.1, imgs := e.1, term := w.term.run e.2 }, e.2)

def World.stepK (kitty : Nat → Bool) (w : World) : WOp → World
  | .resize id ok =>
    if ok then { w with imgs := update w.imgs id (resizeGen (w.imgs id) w.serial),
                        latest := update w.latest id (some w.serial), serial := w.serial + 1 }
    else w
  | .draw p => { w with ps := { w.ps with next := w.ps.next ++ [p] } }
  | .clear => { w with ps := { w.ps with next := [] } }
  | .render => (w.renderK kitty false).1
  | .refresh => (w.renderK kitty true).1

def World.runK (kitty : Nat → Bool) (w : World) (ops : List WOp) : World := ops.foldl (World.stepK kitty) w

/-- The kitty placements of a list. -/
def kittyOf (kitty : Nat → Bool) (l : List Placement) : List Placement := l.filter fun p => kitty p.id

/-- The kitty placements of every frame are key-functional. -/
def FramesKeyFunK (kitty : Nat → Bool) (cur : List Placement) : List WOp → Prop
  | [] => True
  | .draw p :: r => FramesKeyFunK kitty (cur ++ [p]) r
  | .clear :: r => FramesKeyFunK kitty [] r
  | .render :: r => KeyFun (kittyOf kitty cur) ∧ FramesKeyFunK kitty cur r
  | .refresh :: r => KeyFun (kittyOf kitty cur) ∧ FramesKeyFunK kitty cur r
  | .resize _ _ :: r => FramesKeyFunK kitty cur r

/-- An application operation with its window (`ImageDraw.AOp`) as operations of this world (kitty images): a `Draw`
    records its placement iff no gate returns (`ImageDraw.lower`, for `WOp`). -/
def lowerW : VaxisModel.Model.ImageDraw.AOp → List WOp
  | .drawImg gates hasData encoding id iw ih win =>
    if VaxisModel.Model.ImageDraw.drawnWith gates hasData encoding iw ih win
    then [.draw ⟨id, (win.origin).1, (win.origin).2, iw, ih⟩] else []
  | .clear => [.clear]
  | .render => [.render]
  | .refresh => [.refresh]

end VaxisModel.Model.KittyTerm
