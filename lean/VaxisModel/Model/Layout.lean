/-
Model of the Draw methods of the built-in vxfw widgets, as far as C14 needs them: sizes, child
origins, the WriteCell calls (because they can panic) and the styles Fill sets.
  vxfw/text/text.go          Text.Draw, drawSoftwrap, findContainerSize
  vxfw/richtext/richtext.go  RichText.Draw, drawSoftwrap, findContainerSize
  vxfw/center/center.go      Center.Draw
  vxfw/button/button.go      Button.Draw
  vxfw/textfield/textfield.go TextField.Draw
  vxfw/list/list.go          Dynamic.Draw (sizes, child constraints and panics only; scrolling is C19)
Core Lean only.

The line scanners (bufio.Scanner, the soft/hard wrap scanners — property C16) and
`ctx.Characters` are parameters: a text arrives as the list of lines the real scanner produced for
the constraint, each line a list of cells (grapheme id, width as Go int, style).  The theorems
hold for every such list.

All arithmetic on sizes and columns is Go uint16 (`UInt16`), including `uint16(char.Width)`.
Whether the height guards are `>` or `>=` is read from the source (`Gen.SurfaceFacts`), and so are
the size arguments of every `NewSurface` call (`newSurfaceFor`; Text/RichText: `TextMode.sz`) and
which widgets start with the bounded-constraint panic (`boundedPanic`).
-/
import VaxisModel.Model.Surface

namespace VaxisModel.Model.Layout
open VaxisModel.Model.Window VaxisModel.Model.Surface

/-- vxfw.DrawContext (Min, Max). -/
structure Ctx where
  minW : UInt16
  minH : UInt16
  maxW : UInt16
  maxH : UInt16
deriving Repr, DecidableEq

def unbounded : UInt16 := 65535

/-- `uint16(x)` for a Go int. -/
def u16 (i : Int) : UInt16 := UInt16.ofInt i

/-- `var w uint16; for _, char := range chars { w += uint16(char.Width) }`. -/
def lineWidth : List Cell → UInt16
  | [] => 0
  | c :: rest => u16 c.w + lineWidth rest

/-- The height guard `size.Height > ctx.Max.Height` (or `>=` when `strict`). -/
def hGuard (strict : Bool) (h maxH : UInt16) : Bool := if strict then h ≥ maxH else h > maxH

/-- The loop of `findContainerSize` over the scanned lines. -/
def sizeLoop (strict : Bool) (maxW maxH : UInt16) : List (List Cell) → UInt16 → UInt16 → UInt16 × UInt16
  | [], w, h => (w, h)
  | line :: rest, w, h =>
      if hGuard strict h maxH then (w, h)
      else
        let h := h + 1
        let lw := lineWidth line
        let w := if w < lw then lw else w
        let w := if w > maxW then maxW else w
        sizeLoop strict maxW maxH rest w h

def findContainerSize (strict : Bool) (c : Ctx) (lines : List (List Cell)) : UInt16 × UInt16 :=
  sizeLoop strict c.maxW c.maxH lines 0 0

/-! ### the size arguments of NewSurface, as the source has them -/

/-- Evaluate a size argument of a `vxfw.NewSurface` call (`Gen.SurfaceFacts.SzArg`, printed by the
extractor from the call's argument expression): `size` = what findContainerSize returned, `childH` =
the height of the child being wrapped.  A shape the extractor does not know evaluates to 0 (and the
theorems about that widget stop compiling). -/
def evalSz (c : Ctx) (size : UInt16 × UInt16) (childH : UInt16) : Gen.SurfaceFacts.SzArg → UInt16
  | .maxW => c.maxW
  | .maxH => c.maxH
  | .sizeW => size.1
  | .sizeH => size.2
  | .childH => childH
  | .lit n => UInt16.ofNat n
  | .other _ => 0

/-- The size arguments of the `k`-th NewSurface call of Go function `fn` in the current source. -/
def surfaceArgs (fn : String) (k : Nat) : Gen.SurfaceFacts.SzArg × Gen.SurfaceFacts.SzArg :=
  match (Gen.SurfaceFacts.surfaceSizes.filter fun e => e.1 == fn)[k]? with
  | some e => e.2
  | none => (.other "missing", .other "missing")

/-- `var lineWidth int; for _, char := range chars { lineWidth += char.Width }` (Go int). -/
def lineWidthInt : List Cell → Int
  | [] => 0
  | c :: rest => c.w + lineWidthInt rest

/-- One conjunct of the condition of the ellipsis branch (`Gen.SurfaceFacts.EllAtom`, read from the
source): `tooWide` = the value of `lineWidth > int(ctx.Max.Width)` computed before the loop, `reach` =
`col+uint16(char.Width) >= ctx.Max.Width`, `notLast` = this is not the last character of the line.
`i < len(chars)` is always true inside `for i, char := range chars`; an unknown conjunct is false. -/
def evalEll (tooWide reach notLast : Bool) : Gen.SurfaceFacts.EllAtom → Bool
  | .reach => reach
  | .idxLtLen => true
  | .idxLtLenM1 => notLast
  | .lineTooWide => tooWide
  | .other _ => false

/-- How a text widget draws. -/
structure TextMode where
  hard : Bool              -- hard wrap: ellipsis branch present
  ell : List Gen.SurfaceFacts.EllAtom   -- hard wrap: the conjuncts of the ellipsis condition, from the source
  sizeStrict : Bool        -- findContainerSize guard is `>=`
  drawStrict : Bool        -- Draw's row guard is `>=`
  ellipsisStyle : Option Nat   -- Text: its own style; RichText: the style of the replaced cell
  fill : Option Nat        -- Text: `s.Fill(t.Style)`; RichText: none
  sz : Gen.SurfaceFacts.SzArg × Gen.SurfaceFacts.SzArg   -- the size arguments of its `vxfw.NewSurface` call, from the source
deriving Repr

/-- Inner loop over one line; `tooWide` = `lineWidth > int(ctx.Max.Width)`, computed before the loop. -/
def drawLine (a : Arith) (m : TextMode) (maxW row : UInt16) (tooWide : Bool) : List Cell → UInt16 → Surface → Except Panic Surface
  | [], _, s => .ok s
  | ch :: rest, col, s =>
      if col ≥ maxW then .ok s
      else if m.hard && m.ell.all (evalEll tooWide (col + u16 ch.w ≥ maxW) (!rest.isEmpty)) then
        writeCell a s col row { g := gEllipsis, w := 1, st := m.ellipsisStyle.getD ch.st }
      else
        match writeCell a s col row ch with
        | .error e => .error e
        | .ok s' => drawLine a m maxW row tooWide rest (col + u16 ch.w) s'

/-- `truncate := lineWidth > int(ctx.Max.Width)`. -/
def tooWide (maxW : UInt16) (line : List Cell) : Bool := decide (lineWidthInt line > Int.ofNat maxW.toNat)

/-- Outer loop over the lines. -/
def drawLines (a : Arith) (m : TextMode) (maxW maxH : UInt16) : List (List Cell) → UInt16 → Surface → Except Panic Surface
  | [], _, s => .ok s
  | line :: rest, row, s =>
      if hGuard m.drawStrict row maxH then .ok s
      else
        match drawLine a m maxW row (tooWide maxW line) line 0 s with
        | .error e => .error e
        | .ok s' => drawLines a m maxW maxH rest (row + 1) s'

/-- Text.Draw / RichText.Draw (either wrap mode) on the scanned lines. -/
def drawText (a : Arith) (m : TextMode) (c : Ctx) (lines : List (List Cell)) : Except Panic Surface :=
  let size := findContainerSize m.sizeStrict c lines
  let s := newSurface a (evalSz c size 0 m.sz.1) (evalSz c size 0 m.sz.2)
  let s := match m.fill with | some st => fillStyle s st | none => s
  drawLines a m c.maxW c.maxH lines 0 s

/-- `vxfw.NewSurface(<width>, <height>, …)` with the two argument expressions of the source. -/
def newSurfaceFor (a : Arith) (fn : String) (k : Nat) (c : Ctx) (size : UInt16 × UInt16) (childH : UInt16) : Surface :=
  newSurface a (evalSz c size childH (surfaceArgs fn k).1) (evalSz c size childH (surfaceArgs fn k).2)

/-- TextField.Draw: the writes of the value's characters on row 0. -/
def fieldLoop (a : Arith) : List Cell → UInt16 → Surface → Except Panic Surface
  | [], _, s => .ok s
  | ch :: rest, col, s =>
      match writeCell a s col 0 ch with
      | .error e => .error e
      | .ok s' => fieldLoop a rest (col + u16 ch.w) s'

def drawField (a : Arith) (c : Ctx) (chars : List Cell) : Except Panic Surface :=
  if c.maxW == 0 || c.maxH == 0 then .ok emptySurface
  else fieldLoop a chars 0 (newSurfaceFor a "textfield.TextField.Draw" 0 c (0, 0) 0)

mutual
/-- The built-in widgets — every type of a vxfw sub-package with a `Draw` method
(`Gen.SurfaceFacts.drawWidgets`, `Props.C14.widget_inventory_complete`).  Contents are already
scanned for the constraint they will receive (Center and Button pass their Max on unchanged,
Dynamic hands every child `Max.Width − colOffset` × unbounded).

`dynamic cursor gap kids` is `list.Dynamic` with `DrawCursor = cursor`, `Gap = gap`; `kids` are the
widgets its Builder returned *and Draw drew*, in draw order.  Which children get drawn depends on the
scroll state and the heights (property C19); for the size contract it is a parameter, so the
theorems hold for every such list. -/
inductive Widget where
  | text (hard : Bool) (st : Nat) (lines : List (List Cell))
  | rich (hard : Bool) (lines : List (List Cell))
  | field (chars : List Cell)
  | center (child : Widget)
  | button (st : Nat) (lines : List (List Cell))
  | dynamic (cursor : Bool) (gap : Int) (kids : Widgets)
/-- The drawn children of a Dynamic. -/
inductive Widgets where
  | nil
  | cons (w : Widget) (rest : Widgets)
end

def Widgets.toList : Widgets → List Widget
  | .nil => []
  | .cons w rest => w :: rest.toList

def Widgets.ofList : List Widget → Widgets
  | [] => .nil
  | w :: rest => .cons w (Widgets.ofList rest)

/-- `package.Type` of the Go widget a constructor models. -/
def Widget.goName : Widget → String
  | .text .. => "text.Text"
  | .rich .. => "richtext.RichText"
  | .field .. => "textfield.TextField"
  | .center .. => "center.Center"
  | .button .. => "button.Button"
  | .dynamic .. => "list.Dynamic"

/-- The Go widgets the model covers, sorted. -/
def modelledWidgets : List String :=
  ["button.Button", "center.Center", "list.Dynamic", "richtext.RichText", "text.Text", "textfield.TextField"]

/-- `if ctx.Max.HasUnboundedHeight() || ctx.Max.HasUnboundedWidth() { panic(…) }` as the first
statement of `name`'s Draw: which widgets have it is read from the source
(`Gen.SurfaceFacts.boundedPanicWidgets`). -/
def boundedPanic (name : String) (c : Ctx) : Bool :=
  Gen.SurfaceFacts.boundedPanicWidgets.contains name && (c.maxH == unbounded || c.maxW == unbounded)

/-- The size arguments findContainerSize's result is allocated with, and the guard that makes the
result fit: what the size theorems need of a text mode. -/
def TextMode.sizeOK (m : TextMode) : Prop := m.sizeStrict = true ∧ m.sz = (.sizeW, .sizeH)

/-- Which comparison each height guard uses, from the source. -/
def textMode (hard : Bool) (st : Nat) : TextMode :=
  { hard := hard
    sizeStrict := if hard then Gen.SurfaceFacts.textSizeHardStrict else Gen.SurfaceFacts.textSizeSoftStrict
    drawStrict := if hard then Gen.SurfaceFacts.textDrawHardStrict else Gen.SurfaceFacts.textDrawSoftStrict
    ell := Gen.SurfaceFacts.textEllipsisCond
    sz := surfaceArgs (if hard then "text.Text.Draw" else "text.Text.drawSoftwrap") 0
    ellipsisStyle := some st, fill := some st }

def richMode (hard : Bool) : TextMode :=
  { hard := hard
    sizeStrict := if hard then Gen.SurfaceFacts.richSizeHardStrict else Gen.SurfaceFacts.richSizeSoftStrict
    drawStrict := if hard then Gen.SurfaceFacts.richDrawHardStrict else Gen.SurfaceFacts.richDrawSoftStrict
    ell := Gen.SurfaceFacts.richEllipsisCond
    sz := surfaceArgs (if hard then "richtext.RichText.Draw" else "richtext.RichText.drawSoftwrap") 0
    ellipsisStyle := none, fill := none }

/-- Center.Draw around an already drawn child. -/
def centerAround (a : Arith) (c : Ctx) (ch : Surface) : Surface :=
  let s := newSurfaceFor a "center.Center.Draw" 0 c (0, 0) 0
  let offX := (c.maxW - ch.w) / 2
  let offY := (c.maxH - ch.h) / 2
  addChild s (Int.ofNat offX.toNat) (Int.ofNat offY.toNat) ch

/-- `colOffset`: 2 when Dynamic draws its own cursor gutter. -/
def dynOff (cursor : Bool) : UInt16 := if cursor then 2 else 0

/-- The constraint Dynamic hands to every child: `Max{Width: ctx.Max.Width - uint16(colOffset),
Height: math.MaxUint16}` (uint16 subtraction: wraps for `Max.Width < colOffset`). -/
def dynChildCtx (cursor : Bool) (c : Ctx) : Ctx :=
  { minW := 0, minH := 0, maxW := c.maxW - dynOff cursor, maxH := unbounded }

/-- `s.AddChild(colOffset, ah, chS); ah += int(chS.Size.Height) + d.Gap` over the drawn children. -/
def dynPlace (off gap : Int) : List Surface → Int → Surface → Surface
  | [], _, s => s
  | ch :: rest, ah, s => dynPlace off gap rest (ah + Int.ofNat ch.h.toNat + gap) (addChild s off ah ch)

/-- `cur := NewSurface(ctx.Max.Width, ch.Surface.Size.Height, …); cur.AddChild(colOffset, 0, ch.Surface);
s.Children[idx] = NewSubSurface(0, ch.Origin.Row, cur)` for the cursored child — the first drawn
child in the state modelled here (cursor = top).  The glyph cells are not modelled. -/
def dynWrapFirst (a : Arith) (c : Ctx) (off : Int) : Kids → Kids
  | .nil => .nil
  | .cons _ row z ch rest => .cons 0 row z (addChild (newSurfaceFor a "list.Dynamic.Draw" 1 c (0, 0) ch.h) off 0 ch) rest

/-- Dynamic's surface around the already drawn children, for a list that starts at the top
(`scroll.offset = 0`, nothing pending): `NewSurface(Max.Width, Max.Height)`, children stacked from
row 0.  Not modelled (no effect on any size): the blank gutter cells and the cursor glyph. -/
def dynAround (a : Arith) (cursor : Bool) (gap : Int) (c : Ctx) (chs : List Surface) : Surface :=
  let off : Int := Int.ofNat (dynOff cursor).toNat
  match dynPlace off gap chs 0 (newSurfaceFor a "list.Dynamic.Draw" 0 c (0, 0) 0) with
  | .mk w h b k => .mk w h b (if cursor then dynWrapFirst a c off k else k)

mutual
/-- `Draw(ctx)`. `mode` supplies the text modes so that theorems can also be stated for a fixed
arithmetic; `draw` below instantiates it from the source. -/
def drawWith (a : Arith) (tm : Bool → Nat → TextMode) (rm : Bool → TextMode) : Widget → Ctx → Except Panic Surface
  | .text hard st lines, c => drawText a (tm hard st) c lines
  | .rich hard lines, c => drawText a (rm hard) c lines
  | .field chars, c => drawField a c chars
  | .center child, c =>
      if boundedPanic "center.Center" c then .error .explicit
      else
        match drawWith a tm rm child { minW := 0, minH := 0, maxW := c.maxW, maxH := c.maxH } with
        | .error e => .error e
        | .ok ch => .ok (centerAround a c ch)
  | .button st lines, c =>
      if boundedPanic "button.Button" c then .error .explicit
      else
        -- text.New(label) is soft-wrapped; center.Draw(ctx); s.Fill(style)
        match drawText a (tm false st) { minW := 0, minH := 0, maxW := c.maxW, maxH := c.maxH } lines with
        | .error e => .error e
        | .ok ch => .ok (fillStyle (centerAround a c ch) st)
  | .dynamic cursor gap kids, c =>
      if boundedPanic "list.Dynamic" c then .error .explicit
      else
        match drawKids a tm rm kids (dynChildCtx cursor c) with
        | .error e => .error e
        | .ok chs => .ok (dynAround a cursor gap c chs)
/-- The children of a Dynamic, drawn in order; the first panic propagates. -/
def drawKids (a : Arith) (tm : Bool → Nat → TextMode) (rm : Bool → TextMode) : Widgets → Ctx → Except Panic (List Surface)
  | .nil, _ => .ok []
  | .cons w rest, c =>
      match drawWith a tm rm w c with
      | .error e => .error e
      | .ok s =>
        match drawKids a tm rm rest c with
        | .error e => .error e
        | .ok l => .ok (s :: l)
end

/-- The model of the current source. -/
def draw (w : Widget) (c : Ctx) : Except Panic Surface := drawWith srcArith textMode richMode w c

end VaxisModel.Model.Layout
