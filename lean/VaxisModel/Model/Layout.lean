/-
Model of the Draw methods of the built-in vxfw widgets, as far as C14 needs them: sizes, child
origins, the WriteCell calls (because they can panic) and the styles Fill sets.
  vxfw/text/text.go          Text.Draw, drawSoftwrap, findContainerSize
  vxfw/richtext/richtext.go  RichText.Draw, drawSoftwrap, findContainerSize
  vxfw/center/center.go      Center.Draw
  vxfw/button/button.go      Button.Draw
  vxfw/textfield/textfield.go TextField.Draw
Core Lean only.

The line scanners (bufio.Scanner, the soft/hard wrap scanners — property C16) and
`ctx.Characters` are parameters: a text arrives as the list of lines the real scanner produced for
the constraint, each line a list of cells (grapheme id, width as Go int, style).  The theorems
hold for every such list.

All arithmetic on sizes and columns is Go uint16 (`UInt16`), including `uint16(char.Width)`.
Whether the height guards are `>` or `>=` is read from the source (`Gen.SurfaceFacts`).
-/
import VaxisModel.Model.Surface

namespace VaxisModel.Model.Layout
open VaxisModel.Model.Window VaxisModel.Model.Surface

/-- vxfw.DrawContext (Min, Max). -/
structure Ctx where
  minW : UInt16
  minH : UInt16
  maxW : UInt16
  maxH : UInt16
deriving Repr, DecidableEq

def unbounded : UInt16 := 65535

/-- `uint16(x)` for a Go int. -/
def u16 (i : Int) : UInt16 := UInt16.ofInt i

/-- `var w uint16; for _, char := range chars { w += uint16(char.Width) }`. -/
def lineWidth : List Cell → UInt16
  | [] => 0
  | c :: rest => u16 c.w + lineWidth rest

/-- The height guard `size.Height > ctx.Max.Height` (or `>=` when `strict`). -/
def hGuard (strict : Bool) (h maxH : UInt16) : Bool := if strict then h ≥ maxH else h > maxH

/-- The loop of `findContainerSize` over the scanned lines. -/
def sizeLoop (strict : Bool) (maxW maxH : UInt16) : List (List Cell) → UInt16 → UInt16 → UInt16 × UInt16
  | [], w, h => (w, h)
  | line :: rest, w, h =>
      if hGuard strict h maxH then (w, h)
      else
        let h := h + 1
        let lw := lineWidth line
        let w := if w < lw then lw else w
        let w := if w > maxW then maxW else w
        sizeLoop strict maxW maxH rest w h

def findContainerSize (strict : Bool) (c : Ctx) (lines : List (List Cell)) : UInt16 × UInt16 :=
  sizeLoop strict c.maxW c.maxH lines 0 0

/-- How a text widget draws. -/
structure TextMode where
  hard : Bool              -- hard wrap: ellipsis branch present
  sizeStrict : Bool        -- findContainerSize guard is `>=`
  drawStrict : Bool        -- Draw's row guard is `>=`
  ellipsisStyle : Option Nat   -- Text: its own style; RichText: the style of the replaced cell
  fill : Option Nat        -- Text: `s.Fill(t.Style)`; RichText: none
deriving Repr

/-- Inner loop over one line. -/
def drawLine (a : Arith) (m : TextMode) (maxW row : UInt16) : List Cell → UInt16 → Surface → Except Panic Surface
  | [], _, s => .ok s
  | ch :: rest, col, s =>
      if col ≥ maxW then .ok s
      else if m.hard && col + u16 ch.w ≥ maxW then
        writeCell a s col row { g := gEllipsis, w := 1, st := m.ellipsisStyle.getD ch.st }
      else
        match writeCell a s col row ch with
        | .error e => .error e
        | .ok s' => drawLine a m maxW row rest (col + u16 ch.w) s'

/-- Outer loop over the lines. -/
def drawLines (a : Arith) (m : TextMode) (maxW maxH : UInt16) : List (List Cell) → UInt16 → Surface → Except Panic Surface
  | [], _, s => .ok s
  | line :: rest, row, s =>
      if hGuard m.drawStrict row maxH then .ok s
      else
        match drawLine a m maxW row line 0 s with
        | .error e => .error e
        | .ok s' => drawLines a m maxW maxH rest (row + 1) s'

/-- Text.Draw / RichText.Draw (either wrap mode) on the scanned lines. -/
def drawText (a : Arith) (m : TextMode) (c : Ctx) (lines : List (List Cell)) : Except Panic Surface :=
  let size := findContainerSize m.sizeStrict c lines
  let s := newSurface a size.1 size.2
  let s := match m.fill with | some st => fillStyle s st | none => s
  drawLines a m c.maxW c.maxH lines 0 s

/-- TextField.Draw: the writes of the value's characters on row 0. -/
def fieldLoop (a : Arith) : List Cell → UInt16 → Surface → Except Panic Surface
  | [], _, s => .ok s
  | ch :: rest, col, s =>
      match writeCell a s col 0 ch with
      | .error e => .error e
      | .ok s' => fieldLoop a rest (col + u16 ch.w) s'

def drawField (a : Arith) (c : Ctx) (chars : List Cell) : Except Panic Surface :=
  if c.maxW == 0 || c.maxH == 0 then .ok emptySurface
  else fieldLoop a chars 0 (newSurface a c.maxW 1)

/-- The built-in widgets (contents already scanned for the constraint they will receive; Center
and Button pass their Max on unchanged). -/
inductive Widget where
  | text (hard : Bool) (st : Nat) (lines : List (List Cell))
  | rich (hard : Bool) (lines : List (List Cell))
  | field (chars : List Cell)
  | center (child : Widget)
  | button (st : Nat) (lines : List (List Cell))
deriving Repr

/-- Which comparison each height guard uses, from the source. -/
def textMode (hard : Bool) (st : Nat) : TextMode :=
  { hard := hard
    sizeStrict := if hard then Gen.SurfaceFacts.textSizeHardStrict else Gen.SurfaceFacts.textSizeSoftStrict
    drawStrict := if hard then Gen.SurfaceFacts.textDrawHardStrict else Gen.SurfaceFacts.textDrawSoftStrict
    ellipsisStyle := some st, fill := some st }

def richMode (hard : Bool) : TextMode :=
  { hard := hard
    sizeStrict := if hard then Gen.SurfaceFacts.richSizeHardStrict else Gen.SurfaceFacts.richSizeSoftStrict
    drawStrict := if hard then Gen.SurfaceFacts.richDrawHardStrict else Gen.SurfaceFacts.richDrawSoftStrict
    ellipsisStyle := none, fill := none }

/-- Center.Draw around an already drawn child. -/
def centerAround (a : Arith) (c : Ctx) (ch : Surface) : Surface :=
  let s := newSurface a c.maxW c.maxH
  let offX := (c.maxW - ch.w) / 2
  let offY := (c.maxH - ch.h) / 2
  addChild s (Int.ofNat offX.toNat) (Int.ofNat offY.toNat) ch

/-- `Draw(ctx)`. `mode` supplies the text modes so that theorems can also be stated for a fixed
arithmetic; `draw` below instantiates it from the source. -/
def drawWith (a : Arith) (tm : Bool → Nat → TextMode) (rm : Bool → TextMode) : Widget → Ctx → Except Panic Surface
  | .text hard st lines, c => drawText a (tm hard st) c lines
  | .rich hard lines, c => drawText a (rm hard) c lines
  | .field chars, c => drawField a c chars
  | .center child, c =>
      if c.maxH == unbounded || c.maxW == unbounded then .error .explicit
      else
        match drawWith a tm rm child { minW := 0, minH := 0, maxW := c.maxW, maxH := c.maxH } with
        | .error e => .error e
        | .ok ch => .ok (centerAround a c ch)
  | .button st lines, c =>
      if c.maxH == unbounded || c.maxW == unbounded then .error .explicit
      else
        -- text.New(label) is soft-wrapped; center.Draw(ctx); s.Fill(style)
        match drawText a (tm false st) { minW := 0, minH := 0, maxW := c.maxW, maxH := c.maxH } lines with
        | .error e => .error e
        | .ok ch => .ok (fillStyle (centerAround a c ch) st)

/-- The model of the current source. -/
def draw (w : Widget) (c : Ctx) : Except Panic Surface := drawWith srcArith textMode richMode w c

end VaxisModel.Model.Layout
