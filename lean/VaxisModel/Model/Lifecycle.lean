/-
Model of Vaxis start-up / suspend / resume / close (vaxis.go `New`, `sendQueries`, `enterAltScreen`,
`exitAltScreen`, `enableModes`, `disableModes`, `Suspend`, `Resume`, `Close`) as *interpreters of the
regenerated statement lists* in `Gen/Modes.lean`, composed with the writer model of
`Model/Render.lean` (`flush`: prologue / epilogue of every buffered write group).

What is interpreted from Gen (so a change in vaxis.go changes the model): which sequence is written
under which capability/option guard, in which order, where the buffer is flushed, which helper is
called.  What is hand-modelled: the writer prologue/epilogue (tied by the C01 correspondence), the
direct DSR write of `CursorPosition()` inside `sendQueries`.
-/
import VaxisModel.Gen.Modes
import VaxisModel.Model.Render
import VaxisModel.Spec.Tokenize

namespace VaxisModel.Model.Lifecycle
open VaxisModel.Gen.Modes
open VaxisModel.Model.Render (Tok Caps CursorState flush)

/-- Values of the guard variables and of the few run-time values that are formatted into sequences. -/
structure Env where
  v : String → Bool
  kittyFlags : Nat := 1
  userCursorStyle : Nat := 0
  appId : String := ""          -- raw string
  deriving Inhabited

def evalG (e : Env) : G → Bool
  | .tt => true
  | .v n => e.v n
  | .not g => !evalG e g
  | .and a b => evalG e a && evalG e b
  | .or a b => evalG e a || evalG e b

/-- Render one formatting argument (source text of the Go argument) to its string value. -/
def argVal (e : Env) (src : String) : String :=
  if src = "vx.kittyFlags" then toString e.kittyFlags
  else if src = "int(vx.userCursorStyle)" then toString e.userCursorStyle
  else if src = "vx.appIDLast" then e.appId
  else if src = "MouseShapeTextInput" then "text"
  else if src = "\" \"" then " "
  else src

/-- `fmt.Sprintf` for the verbs used (%d, %s): substitute the arguments left to right. -/
def sprintf : List Char → List String → List Char
  | [], _ => []
  | '%' :: 'd' :: rest, a :: as => a.toList ++ sprintf rest as
  | '%' :: 's' :: rest, a :: as => a.toList ++ sprintf rest as
  | c :: rest, as => c :: sprintf rest as

def hexEncodeUpper (s : String) : String :=
  let d (k : Nat) : Char := if k < 10 then Char.ofNat (48 + k) else Char.ofNat (55 + k)
  String.ofList (s.toUTF8.toList.flatMap fun b => [d (b.toNat / 16), d (b.toNat % 16)])

/-- The bytes a `W` stands for. -/
def wBytes (e : Env) : W → String
  | .lit _ b => b
  | .raw b => b
  | .decset n => s!"\x1b[?{n}h"
  | .decrst n => s!"\x1b[?{n}l"
  | .decrqm n => s!"\x1b[?{n}$p"
  | .tparm _ f args => String.ofList (sprintf f.toList (args.map (argVal e)))
  | .xtgettcap c => s!"\x1bP+q{hexEncodeUpper c}\x1b\\"
  | .fn _ => ""

def toksOf (s : String) : List Tok := Spec.Tokenize.tokens [[32]] (s.toUTF8.toList.map (·.toNat))

/-! ### Run-time values are kept symbolic

The statement lists are interpreted into `Item`s: ordinary tokens, and *named holes* for the few
sequences whose payload is a run-time value (kitty keyboard flags, the queried user cursor style,
the saved application id, the cursor the application asked for).  `inst` fills the holes.  The
interpreter (`interpS`) never sees a run-time value: it is uniform in them by construction, which is
what the C04 theorems over all values rest on. -/

/-- Go expressions (argument source text) whose value is only known at run time. -/
def runtimeArgs : List String := ["vx.kittyFlags", "int(vx.userCursorStyle)", "vx.appIDLast"]

inductive Item where
  | tok (k : Tok)
  | kittyPush                      -- `tparm(kittyKBEnable, vx.kittyFlags)`           CSI > flags u
  | userStyle                      -- `tparm(cursorStyleSet, int(vx.userCursorStyle))` CSI n SP q
  | appIdRestore                   -- `tparm(setAppID, vx.appIDLast)`                  OSC 176 ; id ST
  | showCursor                     -- `vx.showCursor()` of the writer's epilogue: style, position, DECSET 25
  | cursorOnly (clUser : Bool)     -- cursor-only flush with the cursor requested: written iff position/style differ
  | opaqueW (w : W)                 -- a write that mentions a run-time value in a shape not recognised
  deriving Repr, DecidableEq, Inhabited

/-- Lower-case hex digits of a byte list (the form in which `Spec.Tokenize` reports `Tok.other`). -/
def hexDigit (k : Nat) : Char := if k < 10 then Char.ofNat (48 + k) else Char.ofNat (87 + k)
def hexChars (bs : List Nat) : List Char := bs.flatMap fun b => [hexDigit (b / 16 % 16), hexDigit (b % 16)]
def bytesOf (s : String) : List Nat := s.toUTF8.toList.map (·.toNat)

/-- The token of `CSI > flags u`. -/
def kittyPushRaw (flags : Nat) : String :=
  String.ofList (['1', 'b', '5', 'b', '3', 'e'] ++ hexChars (bytesOf (toString flags)) ++ ['7', '5'])
/-- The token of `OSC 176 ; id ST`. -/
def appIdSetRaw (id : String) : String :=
  String.ofList (['1', 'b', '5', 'd', '3', '1', '3', '7', '3', '6', '3', 'b'] ++ hexChars (bytesOf id))

/-- Classify a written value.  `decset`/`decrst` and the three recognised run-time writes are mapped
    directly (their printed forms lex to exactly these tokens: `Props.C04.decset_lexes`,
    `kittyPush_lexes`, `userStyle_lexes`, `appIdRestore_lexes`, and the correspondence run on real
    values); everything else is lexed from its bytes. -/
def itemsOf : W → List Item
  | .decset n => [.tok (.decset n)]
  | .decrst n => [.tok (.decrst n)]
  | .tparm name f args =>
      if f = "\x1b[>%du" ∧ args = ["vx.kittyFlags"] then [.kittyPush]
      else if f = "\x1b[%d q" ∧ args = ["int(vx.userCursorStyle)"] then [.userStyle]
      else if f = "\x1b]176;%s\x1b\\" ∧ args = ["vx.appIDLast"] then [.appIdRestore]
      else if args.any (fun a => runtimeArgs.contains a) then [.opaqueW (.tparm name f args)]
      else (toksOf (wBytes default (.tparm name f args))).map .tok
  | w => (toksOf (wBytes default w)).map .tok

/-- Fill the holes: `cn` / `cl` are `cursorNext` / `cursorLast` as the application left them. -/
def inst (e : Env) (cn cl : CursorState) : Item → List Tok
  | .tok k => [k]
  | .kittyPush => [.other (kittyPushRaw e.kittyFlags)]
  | .userStyle => [.cursorStyle e.userCursorStyle]
  | .appIdRestore => [.other (appIdSetRaw e.appId)]
  | .showCursor => Render.showCursorToks cn
  | .cursorOnly clUser =>
      if cn.row ≠ cl.row ∨ cn.col ≠ cl.col ∨ cn.style ≠ (if clUser then e.userCursorStyle else cl.style)
      then Render.showCursorToks cn else []
  | .opaqueW w => toksOf (wBytes e w)

/-- Tokens of a written value. -/
def wToks (e : Env) (w : W) : List Tok := (itemsOf w).flatMap (inst e default default)

/-- Writer + cursor state threaded through the statements (concrete view). -/
structure WSt where
  buf : List Tok := []          -- buffered tokens (since the last flush)
  wire : List Tok := []         -- what reached the console so far
  cn : CursorState := {}        -- cursorNext
  cl : CursorState := {}        -- cursorLast
  suspended : Bool := false     -- vx.suspended
  closed : Bool := false        -- vx.closed
  fresh : Bool := true          -- the writer was just created: `newWriter` builds its buffer with
                                -- `bytes.NewBuffer(make([]byte, 8192))`, i.e. 8192 NUL bytes already in it, so the
                                -- first group is written without prologue (buf.Len() ≠ 0) and always takes the
                                -- epilogue path
  deriving Inhabited

/-- The same state with run-time values abstracted: only the visibility flags of the two cursor
    records and whether `cursorLast.style` was overwritten with the user style are tracked. -/
structure SSt where
  buf : List Item := []
  wire : List Item := []
  cnv : Bool := false           -- cursorNext.visible
  clv : Bool := false           -- cursorLast.visible
  clUser : Bool := false        -- cursorLast.style = vx.userCursorStyle has been executed
  suspended : Bool := false
  closed : Bool := false
  fresh : Bool := true
  deriving Inhabited, DecidableEq, Repr

def capsOf (e : Env) : Caps := { sync := e.v "caps.synchronizedUpdate" }

/-- `writer.Flush` (cf. `Render.flush`) on items. -/
def doFlushS (sync : Bool) (w : SSt) : SSt :=
  if w.fresh then
    { w with wire := w.wire ++ w.buf ++ [.tok (Tok.sgr [])] ++
                (if w.cnv ∧ w.clv then [Item.showCursor] else []) ++
                (if sync then [.tok (Tok.decrst 2026)] else []),
             buf := [], fresh := false }
  else if w.buf.isEmpty then
    { w with wire := w.wire ++
        (if ¬ w.cnv ∧ w.clv then [.tok (Tok.decrst 25)]
         else if ¬ w.cnv then []
         else [Item.cursorOnly w.clUser]) }
  else
    { w with buf := [],
             wire := w.wire ++
                (if w.clv then [.tok (Tok.decrst 25)] else []) ++
                (if sync then [.tok (Tok.decset 2026)] else []) ++
                w.buf ++ [.tok (Tok.sgr [])] ++
                (if w.cnv ∧ w.clv then [Item.showCursor] else []) ++
                (if sync then [.tok (Tok.decrst 2026)] else []) }

def table (name : String) : Option (List S) :=
  if name = "disableModes" then some disableModes
  else if name = "enableModes" then some enableModes
  else if name = "enterAltScreen" then some enterAltScreen
  else if name = "exitAltScreen" then some exitAltScreen
  else if name = "Suspend" then some suspend
  else if name = "Close" then some close
  else none

def evalV (v : String → Bool) : G → Bool
  | .tt => true
  | .v n => v n
  | .not g => !evalV v g
  | .and a b => evalV v a && evalV v b
  | .or a b => evalV v a || evalV v b

/-- Guards may read Vaxis's own two state flags (`if vx.closed {…}`, `if vx.suspended {…}`). -/
def guardEnv (v0 : String → Bool) (w : SSt) : String → Bool :=
  fun n => if n = "closed" then w.closed else if n = "suspended" then w.suspended else v0 n

/-- Interpret a statement list. `fuel` bounds the number of statements along any path (structural
    recursion on it; 64 is far more than the longest function). -/
def interpS (v0 : String → Bool) : Nat → List S → SSt → SSt
  | 0, _, w => w
  | _ + 1, [], w => w
  | fuel + 1, s :: rest, w =>
    let v : String → Bool := guardEnv v0 w
    -- a `return` under a true guard ends the function
    if (match s with
        | .other g src => src.startsWith "return" && evalV v g
        | _ => false) then w else
    let w' : SSt :=
      match s with
      | .write g x => if evalV v g then { w with buf := w.buf ++ itemsOf x } else w
      | .writeF g x => if evalV v g then { w with buf := w.buf ++ itemsOf x } else w
      | .direct g x => if evalV v g then { w with wire := w.wire ++ itemsOf x } else w
      | .flush g => if evalV v g then doFlushS (v "caps.synchronizedUpdate") w else w
      | .call g f =>
          if !evalV v g then w
          else if f = "HideCursor" then { w with cnv := false }
          else match table f with
            | some body => interpS v0 fuel body w
            | none => w                                  -- parser.Close, console.Reset, mu.Lock, …: no output
      | .deferCall _ => w                                -- handled by the caller (`sendQueriesS`)
      | .other g src =>
          if !evalV v g then w
          -- the one statement with output that is not a plain write: CursorPosition() sends DSR directly
          else if src = "_, col := vx.CursorPosition()" then { w with wire := w.wire ++ (toksOf "\x1b[6n").map .tok }
          else if src = "vx.cursorLast.style = vx.userCursorStyle" then { w with clUser := true }
          else if src = "err := vx.openTty(tgts)" then { w with fresh := true }     -- openTty calls newWriter
          else if src = "vx.suspended = true" then { w with suspended := true }
          else if src = "vx.suspended = false" then { w with suspended := false }
          else if src = "vx.closed = true" then { w with closed := true }
          else w
    interpS v0 fuel rest w'

def absW (w : WSt) : SSt :=
  { buf := w.buf.map .tok, wire := w.wire.map .tok, cnv := w.cn.visible, clv := w.cl.visible, clUser := false,
    suspended := w.suspended, closed := w.closed, fresh := w.fresh }

/-- Back to the concrete view: holes filled with the values of `e` and of the cursor records of `w0`. -/
def concW (e : Env) (w0 : WSt) (s : SSt) : WSt :=
  { buf := s.buf.flatMap (inst e w0.cn w0.cl), wire := s.wire.flatMap (inst e w0.cn w0.cl),
    cn := { w0.cn with visible := s.cnv },
    cl := { w0.cl with visible := s.clv, style := if s.clUser then e.userCursorStyle else w0.cl.style },
    suspended := s.suspended, closed := s.closed, fresh := s.fresh }

def doFlush (e : Env) (w : WSt) : WSt := concW e w (doFlushS (e.v "caps.synchronizedUpdate") (absW w))

/-- The interpreter on concrete states: abstract, interpret, fill the holes. -/
def interp (e : Env) (fuel : Nat) (l : List S) (w : WSt) : WSt := concW e w (interpS e.v fuel l (absW w))

/-- `sendQueries`: its statements, then the deferred `exitAltScreen`. Capabilities are still unknown
    (all guards false, no sync) while it runs. -/
def sendQueriesS (w : SSt) : SSt :=
  let v0 : String → Bool := fun _ => false
  interpS v0 64 exitAltScreen (interpS v0 64 sendQueries w)

def sendQueriesW (w : WSt) : WSt := concW { v := fun _ => false } w (sendQueriesS (absW w))

/-- Everything `New` writes (graphics / size queries via xtwinops excluded: environment driven): the
    lifecycle functions `New` calls, in the order regenerated from its body (`Gen.Modes.newCalls`);
    `openTty` installs a new writer. -/
def startupS (v : String → Bool) : SSt :=
  newCalls.foldl (fun w f =>
    if f = "openTty" then { w with fresh := true }
    else if f = "sendQueries" then sendQueriesS w
    else match table f with
      | some body => interpS v 64 body w
      | none => w) {}

def startupW (e : Env) : WSt := concW e {} (startupS e.v)

/-- One lifecycle call made by `New`. -/
def callS (v : String → Bool) (f : String) (w : SSt) : SSt :=
  if f = "openTty" then { w with fresh := true }
  else if f = "sendQueries" then sendQueriesS w
  else match table f with
    | some body => interpS v 64 body w
    | none => w

/-- `New` failing at the error exit that tests the error of `exit` (`Gen.Modes.newSequence`, regenerated
    from the body of `New`): the lifecycle calls made up to that exit, then the ones made inside it
    before `return nil, err`. -/
def startupFailS (v : String → Bool) (exit : String) : List (String × String × List String) → SSt → SSt
  | [], w => w
  | (kind, name, calls) :: rest, w =>
    if kind = "err" then
      (if name = exit then calls.foldl (fun w f => callS v f w) w else startupFailS v exit rest w)
    else startupFailS v exit rest (callS v name w)

/-- `New` failing when the window size cannot be read — the one error exit after the terminal has been set up. -/
def startupFailW (e : Env) : WSt := concW e {} (startupFailS e.v "vx.reportWinsize" newSequence {})

def suspendW (e : Env) (w : WSt) : WSt := interp e 64 suspend w
def resumeW (e : Env) (w : WSt) : WSt := interp e 64 resume w

/-- `Close` (its own early return on `vx.closed` is interpreted from the statement list). The
    `closed` argument overrides the flag for callers that track it themselves. -/
def closeW (e : Env) (closed : Bool) (w : WSt) : WSt := interp e 64 close { w with closed := w.closed || closed }

end VaxisModel.Model.Lifecycle
