/-
Model of Vaxis start-up / suspend / resume / close (vaxis.go `New`, `sendQueries`, `enterAltScreen`,
`exitAltScreen`, `enableModes`, `disableModes`, `Suspend`, `Resume`, `Close`) as *interpreters of the
regenerated statement lists* in `Gen/Modes.lean`, composed with the writer model of
`Model/Render.lean` (`flush`: prologue / epilogue of every buffered write group).

What is interpreted from Gen (so a change in vaxis.go changes the model): which sequence is written
under which capability/option guard, in which order, where the buffer is flushed, which helper is
called.  What is hand-modelled: the writer prologue/epilogue (tied by the C01 correspondence), the
direct DSR write of `CursorPosition()` inside `sendQueries`, the order of calls in `New`.
-/
import VaxisModel.Gen.Modes
import VaxisModel.Model.Render
import VaxisModel.Spec.Tokenize

namespace VaxisModel.Model.Lifecycle
open VaxisModel.Gen.Modes
open VaxisModel.Model.Render (Tok Caps CursorState flush)

/-- Values of the guard variables and of the few run-time values that are formatted into sequences. -/
structure Env where
  v : String → Bool
  kittyFlags : Nat := 1
  userCursorStyle : Nat := 0
  appId : String := ""          -- raw string
  deriving Inhabited

def evalG (e : Env) : G → Bool
  | .tt => true
  | .v n => e.v n
  | .not g => !evalG e g
  | .and a b => evalG e a && evalG e b
  | .or a b => evalG e a || evalG e b

/-- Render one formatting argument (source text of the Go argument) to its string value. -/
def argVal (e : Env) (src : String) : String :=
  if src = "vx.kittyFlags" then toString e.kittyFlags
  else if src = "int(vx.userCursorStyle)" then toString e.userCursorStyle
  else if src = "vx.appIDLast" then e.appId
  else if src = "MouseShapeTextInput" then "text"
  else if src = "\" \"" then " "
  else src

/-- `fmt.Sprintf` for the verbs used (%d, %s): substitute the arguments left to right. -/
def sprintf : List Char → List String → List Char
  | [], _ => []
  | '%' :: 'd' :: rest, a :: as => a.toList ++ sprintf rest as
  | '%' :: 's' :: rest, a :: as => a.toList ++ sprintf rest as
  | c :: rest, as => c :: sprintf rest as

def hexEncodeUpper (s : String) : String :=
  let d (k : Nat) : Char := if k < 10 then Char.ofNat (48 + k) else Char.ofNat (55 + k)
  String.ofList (s.toUTF8.toList.flatMap fun b => [d (b.toNat / 16), d (b.toNat % 16)])

/-- The bytes a `W` stands for. -/
def wBytes (e : Env) : W → String
  | .lit _ b => b
  | .raw b => b
  | .decset n => s!"\x1b[?{n}h"
  | .decrst n => s!"\x1b[?{n}l"
  | .decrqm n => s!"\x1b[?{n}$p"
  | .tparm _ f args => String.ofList (sprintf f.toList (args.map (argVal e)))
  | .xtgettcap c => s!"\x1bP+q{hexEncodeUpper c}\x1b\\"
  | .fn _ => ""

def toksOf (s : String) : List Tok := Spec.Tokenize.tokens [[32]] (s.toUTF8.toList.map (·.toNat))

/-- Tokens of a written value. `decset`/`decrst` are mapped directly (their printed form lexes to
    exactly these tokens — `Props.C04.decset_lexes`), everything else is lexed from its bytes. -/
def wToks (e : Env) : W → List Tok
  | .decset n => [.decset n]
  | .decrst n => [.decrst n]
  | w => toksOf (wBytes e w)

/-- Writer + cursor state threaded through the statements. -/
structure WSt where
  buf : List Tok := []          -- buffered tokens (since the last flush)
  wire : List Tok := []         -- what reached the console so far
  cn : CursorState := {}        -- cursorNext
  cl : CursorState := {}        -- cursorLast
  suspended : Bool := false     -- vx.suspended
  closed : Bool := false        -- vx.closed
  fresh : Bool := true          -- the writer was just created: `newWriter` builds its buffer with
                                -- `bytes.NewBuffer(make([]byte, 8192))`, i.e. 8192 NUL bytes already in it, so the
                                -- first group is written without prologue (buf.Len() ≠ 0) and always takes the
                                -- epilogue path
  deriving Inhabited

def capsOf (e : Env) : Caps := { sync := e.v "caps.synchronizedUpdate" }

def doFlush (e : Env) (w : WSt) : WSt :=
  if w.fresh then
    { w with wire := w.wire ++ w.buf ++ [Tok.sgr []] ++
                (if w.cn.visible ∧ w.cl.visible then Render.showCursorToks w.cn else []) ++
                (if (capsOf e).sync then [Tok.decrst 2026] else []),
             buf := [], fresh := false }
  else { w with wire := w.wire ++ flush (capsOf e) w.cn w.cl w.buf, buf := [] }

def table (name : String) : Option (List S) :=
  if name = "disableModes" then some disableModes
  else if name = "enableModes" then some enableModes
  else if name = "enterAltScreen" then some enterAltScreen
  else if name = "exitAltScreen" then some exitAltScreen
  else if name = "Suspend" then some suspend
  else none

/-- Interpret a statement list. `fuel` bounds the number of statements along any path (structural
    recursion on it; 64 is far more than the longest function). -/
def interp (e : Env) : Nat → List S → WSt → WSt
  | 0, _, w => w
  | _ + 1, [], w => w
  | fuel + 1, s :: rest, w =>
    -- an early `return` under a true guard ends the function; such guards read Vaxis's own two
    -- state flags (`if vx.closed { return }`, `if vx.suspended { return nil }`)
    if (match s with
        | .other (.v "suspended") src => w.suspended && src.startsWith "return"
        | .other (.v "closed") src => w.closed && src.startsWith "return"
        | _ => false) then w else
    let w' : WSt :=
      match s with
      | .write g x => if evalG e g then { w with buf := w.buf ++ wToks e x } else w
      | .writeF g x => if evalG e g then { w with buf := w.buf ++ wToks e x } else w
      | .direct g x => if evalG e g then { w with wire := w.wire ++ wToks e x } else w
      | .flush g => if evalG e g then doFlush e w else w
      | .call g f =>
          if !evalG e g then w
          else if f = "HideCursor" then { w with cn := { w.cn with visible := false } }
          else match table f with
            | some body => interp e fuel body w
            | none => w                                  -- parser.Close, console.Reset, mu.Lock, …: no output
      | .deferCall _ => w                                -- handled by the caller (`sendQueriesToks`)
      | .other _ src =>
          -- the one statement with output that is not a plain write: CursorPosition() sends DSR directly
          if src = "_, col := vx.CursorPosition()" then { w with wire := w.wire ++ toksOf "\x1b[6n" }
          else if src = "vx.cursorLast.style = vx.userCursorStyle" then { w with cl := { w.cl with style := e.userCursorStyle } }
          else if src = "err := vx.openTty(tgts)" then { w with fresh := true }     -- openTty calls newWriter
          else if src = "vx.suspended = true" then { w with suspended := true }
          else if src = "vx.suspended = false" then { w with suspended := false }
          else if src = "vx.closed = true" then { w with closed := true }
          else w
    interp e fuel rest w'

/-- `sendQueries`: its statements, then the deferred `exitAltScreen`. Capabilities are still unknown
    (all guards false, no sync) while it runs. -/
def sendQueriesW (w : WSt) : WSt :=
  let e0 : Env := { v := fun _ => false }
  interp e0 64 exitAltScreen (interp e0 64 sendQueries w)

/-- Everything `New` writes (graphics / size queries via xtwinops excluded: environment driven). -/
def startupW (e : Env) : WSt :=
  interp e 64 enableModes (interp e 64 enterAltScreen (sendQueriesW {}))

def suspendW (e : Env) (w : WSt) : WSt := interp e 64 suspend w
def resumeW (e : Env) (w : WSt) : WSt := interp e 64 resume w

/-- `Close` (its own early return on `vx.closed` is interpreted from the statement list). The
    `closed` argument overrides the flag for callers that track it themselves. -/
def closeW (e : Env) (closed : Bool) (w : WSt) : WSt := interp e 64 close { w with closed := w.closed || closed }

end VaxisModel.Model.Lifecycle
