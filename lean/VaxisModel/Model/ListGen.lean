import VaxisModel.Model.SimpleList
import VaxisModel.Model.DynList
import VaxisModel.Gen.ListFacts

/-! The instantiation of the list models with the facts regenerated from the source. -/
namespace VaxisModel.Model.SimpleList

/-- The `m.index = …` expressions and the Draw guard as found in widgets/list/list.go now. -/
def gen : Rhs where
  down := Gen.ListFacts.down
  up := Gen.ListFacts.up
  home := Gen.ListFacts.home
  «end» := Gen.ListFacts.«end»
  pageDown := Gen.ListFacts.pageDown
  pageUp := Gen.ListFacts.pageUp
  setItems := Gen.ListFacts.setItems
  drawEmptyGuard := Gen.ListFacts.drawEmptyGuard

end VaxisModel.Model.SimpleList

namespace VaxisModel.Model.DynList

/-- The repair facts as found in vxfw/list/list.go now. -/
def genFacts : Facts :=
  { cursorGuard := Gen.ListFacts.dynCursorGuard, insertStops := Gen.ListFacts.dynInsertStops,
    clampTop := Gen.ListFacts.dynClampTop, gapAbove := Gen.ListFacts.dynGapAbove,
    revealAbove := Gen.ListFacts.dynRevealAbove }

end VaxisModel.Model.DynList
