import VaxisModel.Model.SimpleList
import VaxisModel.Model.DynList
import VaxisModel.Gen.ListFacts
import VaxisModel.Gen.DynSkel

/-! The instantiation of the list models with the facts regenerated from the source. -/
namespace VaxisModel.Model.SimpleList

/-- The `m.index = …` expressions and the Draw guard as found in widgets/list/list.go now. -/
def gen : Rhs where
  down := Gen.ListFacts.down
  up := Gen.ListFacts.up
  home := Gen.ListFacts.home
  «end» := Gen.ListFacts.«end»
  pageDown := Gen.ListFacts.pageDown
  pageUp := Gen.ListFacts.pageUp
  setItems := Gen.ListFacts.setItems
  drawEmptyGuard := Gen.ListFacts.drawEmptyGuard

end VaxisModel.Model.SimpleList

namespace VaxisModel.Model.DynList
open VaxisModel.Model.GoSyn

/-! The six repair facts are READ OFF the regenerated statement skeletons `Gen.DynSkel.draw` /
    `Gen.DynSkel.insertChildren` here (not by the extractor): each recogniser looks for the repaired
    statement shape, with any local-variable names. -/

/-- `int(x.Surface.Size.Height)`-like operand: `int(<var>)`. -/
def isIntOfVar : Expr → Bool
  | .arg (.call (.var "int")) (.var _) => true
  | _ => false

def isGap : Expr → Bool
  | .var "d.Gap" => true
  | _ => false

/-- The comparison of the child index with the number of children: `int(idx) < len(…)` (`some false`)
    or `idx < uint(len(…))` (`some true`, repair F119h). -/
def idxCompare : Expr → Option Bool
  | .bin "<" (.arg (.call (.var "int")) (.var _)) (.arg (.call (.var "len")) (.var _)) => some false
  | .bin "<" (.var _) (.arg (.call (.var "uint")) (.arg (.call (.var "len")) (.var _))) => some true
  | _ => Option.none

/-- F119: `if d.cursor >= d.scroll.top && <index comparison> {`. -/
def recCursorGuard (draw : List Line) : Bool :=
  draw.any fun l => l.kind == .ifS && match l.e1 with
    | .bin "&&" (.bin ">=" (.var "d.cursor") (.var "d.scroll.top")) c => (idxCompare c).isSome
    | _ => false

/-- F119h: both index comparisons of `Draw` (cursor gutter, wants-cursor block) are done in `uint`. -/
def recUintIndex (draw : List Line) : Bool :=
  let cmps := draw.filterMap fun l => if l.kind == .ifS then
      (match l.e1 with
       | .bin "&&" (.bin ">=" (.var "d.cursor") (.var "d.scroll.top")) c => idxCompare c
       | c => idxCompare c)
    else Option.none
  cmps.length == 2 && cmps.all id

/-- F119f: `if d.scroll.top == 0 || ah <= 0 { break }` in `insertChildren`. -/
def recInsertStops : List Line → Bool
  | l :: m :: rest =>
    (l.kind == .ifS && m.kind == .breakS && m.depth == l.depth + 1 && (match l.e1 with
      | .bin "||" (.bin "==" (.var "d.scroll.top") (.int 0)) (.bin "<=" (.var _) (.int 0)) => true
      | _ => false)) || recInsertStops (m :: rest)
  | _ => false

/-- F119b: `for d.scroll.top > 0 && d.Builder(d.scroll.top, d.cursor) == nil { d.scroll.top -= 1; d.scroll.offset = 0 }`
    at the top level of `Draw`. -/
def recClampTop : List Line → Bool
  | a :: b :: c :: rest =>
    (a == ⟨0, .forS, .bin "&&" (.bin ">" (.var "d.scroll.top") (.int 0))
        (.bin "==" (.arg (.arg (.call (.var "d.Builder")) (.var "d.scroll.top")) (.var "d.cursor")) (.var "nil")), .none⟩ &&
     b == ⟨1, .subAssign, .var "d.scroll.top", .int 1⟩ && c == ⟨1, .assign, .var "d.scroll.offset", .int 0⟩)
    || recClampTop (b :: c :: rest)
  | _ => false

/-- F119c, the four sites that count `d.Gap`. -/
def recGapAbove (draw ins : List Line) : Bool :=
  -- ah = last.Origin.Row + int(last.Surface.Size.Height) + d.Gap
  (draw.any fun l => l.kind == .assign && match l.e2 with
    | .bin "+" (.bin "+" (.var _) h) g => isIntOfVar h && isGap g
    | _ => false) &&
  -- if ch.Origin.Row <= 0 && ch.Origin.Row+int(height)+d.Gap > 0
  (draw.any fun l => l.kind == .ifS && match l.e1 with
    | .bin "&&" (.bin "<=" (.var _) (.int 0)) (.bin ">" (.bin "+" (.bin "+" (.var _) h) g) (.int 0)) => isIntOfVar h && isGap g
    | _ => false) &&
  -- ah -= int(s.Size.Height) + d.Gap
  (ins.any fun l => l.kind == .subAssign && match l.e2 with
    | .bin "+" h g => isIntOfVar h && isGap g
    | _ => false) &&
  -- row += int(ch.Surface.Size.Height) + d.Gap
  (ins.any fun l => l.kind == .addAssign && match l.e2 with
    | .bin "+" h g => isIntOfVar h && isGap g
    | _ => false)

/-- F119d: `} else if ch.Origin.Row < 0 { adj := -ch.Origin.Row …` in the wants-cursor block. -/
def recRevealAbove : List Line → Bool
  | a :: b :: c :: rest =>
    (a.kind == .elseS && b.kind == .ifS && b.depth == a.depth + 1 && c.kind == .define && c.depth == a.depth + 2 &&
      (match b.e1, c.e2 with
       | .bin "<" (.var x) (.int 0), .un "-" (.var y) => x == y
       | _, _ => false))
    || recRevealAbove (b :: c :: rest)
  | _ => false

/-- The repair facts as found in vxfw/list/list.go now. -/
def genFacts : Facts :=
  { cursorGuard := recCursorGuard Gen.DynSkel.draw, insertStops := recInsertStops Gen.DynSkel.insertChildren,
    clampTop := recClampTop Gen.DynSkel.draw, gapAbove := recGapAbove Gen.DynSkel.draw Gen.DynSkel.insertChildren,
    revealAbove := recRevealAbove Gen.DynSkel.draw, uintIndex := recUintIndex Gen.DynSkel.draw }

end VaxisModel.Model.DynList
