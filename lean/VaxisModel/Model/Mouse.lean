/-
Model of /repo/mouse.go `parseMouseEvent` (SGR mouse reports). Constants from `Gen/Mouse.lean`.
Core Lean only.
-/
import VaxisModel.Gen.Mouse
import VaxisModel.Gen.Keys

namespace VaxisModel.Model.Mouse
open VaxisModel.Gen.Mouse VaxisModel.Gen.Keys

structure Mouse where
  button : Int := 0
  row : Int := 0
  col : Int := 0
  event : Int := 0
  mods : Nat := 0
deriving DecidableEq, Repr, Inhabited

/-- `x & mask` for a non-negative Go int (CSI parameters are non-negative). -/
def band (x : Int) (mask : Nat) : Nat := x.toNat &&& mask

/-- `parseMouseEvent`: `none` = rejected. Parameters are the parser's (non-empty sub-lists,
    non-negative values). -/
def parseMouseEvent (inter : List Int) (params : List (List Int)) (final : Int) : Option Mouse :=
  if inter ≠ [60] then none
  else match params with
  | [p0, p1, p2] =>
    let b := p0.headD 0
    let ev : Int := if final = 77 then EventPress else if final = 109 then EventRelease else 0
    let ev := if band b motion ≠ 0 then EventMotion else ev
    let mods := (if band b mouseModShift ≠ 0 then ModShift else 0) |||
                (if band b mouseModAlt ≠ 0 then ModAlt else 0) |||
                (if band b mouseModCtrl ≠ 0 then ModCtrl else 0)
    some { button := (band b buttonBits : Nat), col := p1.headD 0 - 1, row := p2.headD 0 - 1, event := ev, mods := mods }
  | _ => none

end VaxisModel.Model.Mouse
