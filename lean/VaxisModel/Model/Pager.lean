/-
Model of /repo/widgets/pager/pager.go.

Grapheme segmentation and widths are parameters (DESIGN §3.1): the text arrives as the list of
characters `vaxis.Characters` produced, each with its bytes and its measured width.  A character
"contains a newline" iff byte 10 occurs in it (`strings.ContainsRune(char.Grapheme, '\n')`).
Styles do not influence layout and are dropped.
-/
namespace VaxisModel.Model.Pager

structure Ch where
  bytes : List Nat
  width : Int
deriving DecidableEq, Repr

def Ch.isNl (c : Ch) : Bool := c.bytes.contains 10

abbrev Line := List Ch

/-- The loop state of `Layout`: finished lines (in order), the current line, the column. -/
structure LState where
  lines : List Line
  cur   : Line
  col   : Int
deriving DecidableEq, Repr

/-- One iteration of the inner loop of `Layout`. -/
def layoutStep (width : Int) (s : LState) (c : Ch) : LState :=
  if c.isNl then { lines := s.lines ++ [s.cur], cur := [], col := 0 }
  else
    let cur := s.cur ++ [c]
    let col := s.col + c.width
    if col ≥ width then { lines := s.lines ++ [cur], cur := [], col := 0 }
    else { lines := s.lines, cur := cur, col := col }

def layoutLoop (width : Int) (s : LState) (cs : List Ch) : LState :=
  cs.foldl (layoutStep width) s

/-- `Layout()`.  `flush` = the code appends a non-empty unterminated last line (regenerated fact
    `Gen.ListFacts.layoutFlushesLast`). -/
def layout (flush : Bool) (width : Int) (cs : List Ch) : List Line :=
  let s := layoutLoop width { lines := [], cur := [], col := 0 } cs
  if flush && !s.cur.isEmpty then s.lines ++ [s.cur] else s.lines

structure St where
  text   : List Ch      -- the characters of all Segments, in order
  lines  : List Line
  offset : Int
  width  : Int
deriving DecidableEq, Repr

def init : St := { text := [], lines := [], offset := 0, width := 0 }

/-- The offset clamping of `Draw`. -/
def clampOffset (nlines : Nat) (offset : Int) (h : Int) : Int :=
  let o := if (nlines : Int) - offset < h then (nlines : Int) - h else offset
  if o < 0 then 0 else o

/-- One drawn row: the window cells after `Fill` (none) overwritten by `SetCell(col, …)` for each
    character of the line with `col` advancing by the character's width; `SetCell` ignores columns
    outside `0 ≤ col < w`. -/
def drawRow (w : Nat) (l : Line) : List (Option Ch) :=
  let rec go (cells : List (Option Ch)) (col : Int) : List Ch → List (Option Ch)
    | [] => cells
    | c :: cs =>
      let cells' := if 0 ≤ col ∧ col < (w : Int) then cells.set col.toNat (some c) else cells
      go cells' (col + c.width) cs
  go (List.replicate w none) 0 l

/-- `Draw(win)` with a `w × h` window: re-layout if the width changed, clamp the offset, draw the
    lines `offset … offset+h-1`. Returns the new state and the `h` window rows (top to bottom; rows below
    the last line stay filled). -/
def draw (flush : Bool) (s : St) (w h : Nat) : St × List (List (Option Ch)) :=
  let s1 := if (w : Int) ≠ s.width then { s with width := w, lines := layout flush w s.text } else s
  let off := clampOffset s1.lines.length s1.offset h
  let s2 := { s1 with offset := off }
  let vis := (s2.lines.drop off.toNat).take h
  (s2, vis.map (drawRow w) ++ List.replicate (h - vis.length) (List.replicate w none))

def scrollDown (s : St) : St := { s with offset := s.offset + 1 }
def scrollUp (s : St) : St := { s with offset := s.offset - 1 }
def setText (s : St) (cs : List Ch) : St := { s with text := cs }
def relayout (flush : Bool) (s : St) : St := { s with lines := layout flush s.width s.text }

/-! ### histories -/

/-- What an application does with a pager between draws: scroll by a line, set `Offset` directly
    (it is an exported field), replace the text (`Segments`) with or without calling `Layout()`. -/
inductive Op where
  | scrollDown | scrollUp
  | setOffset (k : Int)
  | setText (cs : List Ch)
  | relayout
  | draw (w h : Nat)
deriving DecidableEq, Repr

def step (flush : Bool) (s : St) : Op → St
  | .scrollDown => scrollDown s
  | .scrollUp => scrollUp s
  | .setOffset k => { s with offset := k }
  | .setText cs => setText s cs
  | .relayout => relayout flush s
  | .draw w h => (draw flush s w h).1

def run (flush : Bool) (s : St) (ops : List Op) : St := ops.foldl (step flush) s

end VaxisModel.Model.Pager
