/-
Executable model of ansi/parser.go (C02, shared with C03/C08/C09).

* `PState` — the fields of `Parser` that the automaton reads and writes
  (`state`, `intermediate`, `params`, `exit`, `ignoreST`, `oscData`, `apcData`, `dcs`).
* `applyAct` — the bodies of the action methods (`collect`, `param`, `csiDispatch` with its
  `;`/`:` decoder and Go `int` wrap-around, `hook` with `strings.Split`/`Atoi`, `put`, `unhook`,
  `oscStart/Put/End`, `apcUnhook`, `escapeDispatch`, `execute`, `clear`).
* `step T` — `anywhere(r, p)` followed by `p.state(r, p)`, interpreting a transition table `T`
  (statement lists per `case` arm).  `pstepGen = step genTable` interprets the table regenerated
  from the source; `pstep = step handTable` interprets the hand-written copy below
  (`Props/C02.lean : hand_table_eq_gen` proves them equal on every run).
* `print` at this level emits the *first rune only*; grapheme clustering over the buffered input
  is the reader's job (`Model/ParserIO.lean`).

Deviations from the Go code: slices are lists (aliasing/ownership is the subject of C08's pool
model), the unused field `final` is omitted, `error` values are one opaque item `Seq.err`.
Core Lean only.
-/
import VaxisModel.Model.ParserTable
import VaxisModel.Gen.ParserTable

namespace VaxisModel.Model.Parser
open VaxisModel.Model.ParserTable

abbrev Rune := Nat

/-- The functions that are assigned to `p.exit`. -/
inductive ExitFn | oscEnd | unhook | apcUnhook
  deriving DecidableEq, Repr, Inhabited

/-- Items delivered on the channel (`Sequence` values). `params = []` is the nil slice. -/
inductive Seq
  | print (r : Rune)                                   -- Print (first rune; see ParserIO for clusters)
  | c0 (r : Rune)
  | esc (inter : List Rune) (final : Rune)
  | ss3 (r : Rune)
  | csi (inter : List Rune) (params : List (List Int)) (final : Rune)
  | osc (payload : List Rune)
  | dcs (final : Rune) (inter : List Rune) (params : List Int) (data : List Rune)
  | apc (data : List Rune)
  | err                                                 -- an `error` value
  | eof                                                 -- EOF{}
  | panic                                               -- the Go code would panic here
  deriving DecidableEq, Repr, Inhabited

structure Dcs where
  final : Rune := 0
  inter : List Rune := []
  params : List Int := []
  data : List Rune := []
  deriving DecidableEq, Repr, Inhabited

structure PState where
  state : StateId := .ground
  inter : List Rune := []
  params : List Rune := []
  exit : Option ExitFn := none
  ignoreST : Bool := false
  osc : List Rune := []
  apc : List Rune := []
  dcs : Dcs := {}
  deriving DecidableEq, Repr, Inhabited

def PState.init : PState := {}

/-! ### Go `int` (64 bit) arithmetic -/
def wrap64 (x : Int) : Int := (x + 9223372036854775808) % 18446744073709551616 - 9223372036854775808

/-! ### csiDispatch: the parameter decoder -/

/-- The loop of `csiDispatch` over `p.params`: `ps` the number being accumulated, `param` the
    current sub-parameter list, `acc` the finished parameters. -/
def decodeLoop : List Rune → Int → List Int → List (List Int) → List (List Int)
  | [], ps, param, acc => acc ++ [param ++ [ps]]
  | b :: rest, ps, param, acc =>
    if b = 0x3B then decodeLoop rest 0 [] (acc ++ [param ++ [ps]])
    else if b = 0x3A then decodeLoop rest 0 (param ++ [ps]) acc
    else decodeLoop rest (wrap64 (ps * 10 + ((b : Int) - 0x30))) param acc

/-- `csi.Parameters` for the collected parameter bytes (nil when there are none). -/
def decodeParams (ps : List Rune) : List (List Int) :=
  if ps.isEmpty then [] else decodeLoop ps 0 [] []

/-! ### hook: `strings.Split(string(p.params), ";")` + `strconv.Atoi` -/

def splitOn (sep : Rune) : List Rune → List Rune → List (List Rune)
  | [], cur => [cur]
  | b :: rest, cur => if b = sep then cur :: splitOn sep rest [] else splitOn sep rest (cur ++ [b])

def isDigit (b : Rune) : Bool := decide (0x30 ≤ b) && decide (b ≤ 0x39)

def decimal (ds : List Rune) : Nat := ds.foldl (fun v b => v * 10 + (b - 0x30)) 0

/-- `strconv.Atoi` on an unsigned digit string: none = error (syntax or out of `int` range).
    (Signs cannot occur: only 0x30–0x39 and 0x3B are ever collected in the DCS states.) -/
def atoi (ds : List Rune) : Option Int :=
  if ds.all isDigit && decide (decimal ds < 9223372036854775808) then some (decimal ds : Int) else none

/-- The parameter loop of `hook`: none = an Atoi error was emitted and `Parameters` stays nil. -/
def hookParams : List (List Rune) → Option (List Int)
  | [] => some []
  | p :: rest =>
    if p.isEmpty then (hookParams rest).map (0 :: ·)
    else match atoi p with
      | none => none
      | some v => (hookParams rest).map (v :: ·)

/-! ### actions -/

def runExitFn (s : PState) : ExitFn → PState × List Seq
  | .oscEnd => ({ s with osc := [] }, [.osc s.osc])
  | .unhook => ({ s with dcs := {} }, [.dcs s.dcs.final s.dcs.inter s.dcs.params s.dcs.data])
  | .apcUnhook => ({ s with apc := [] }, [.apc s.apc])

/-- One statement of an arm. `r` is the current rune. (`retIfIgnoreST` is control flow and is
    handled by `runActs`; `deferClearIgnoreST` by `runFn`.) -/
def applyAct (a : Act) (r : Rune) (s : PState) : PState × List Seq :=
  match a with
  | .execute => (s, if decide (r ≤ 0x1F) then [.c0 r] else [])
  | .print => (s, [.print r])
  | .collect => ({ s with inter := s.inter ++ [r] }, [])
  | .param => ({ s with params := s.params ++ [r] }, [])
  | .csiDispatch => ({ s with inter := [] }, [.csi s.inter (decodeParams s.params) r])
  | .escapeDispatch => ({ s with inter := [] }, [.esc s.inter r])
  | .hook =>
    let s1 := { s with exit := some .unhook, dcs := { final := r, inter := s.inter }, inter := [] }
    if s.params.isEmpty then (s1, [])
    else match hookParams (splitOn 0x3B s.params []) with
      | none => (s1, [.err])
      | some ps => ({ s1 with dcs := { s1.dcs with params := ps } }, [])
  | .put => ({ s with dcs := { s.dcs with data := s.dcs.data ++ [r] } }, [])
  | .oscStart => ({ s with exit := some .oscEnd }, [])
  | .oscPut => ({ s with osc := s.osc ++ [r] }, [])
  | .apcPut => ({ s with apc := s.apc ++ [r] }, [])
  | .clear => ({ s with inter := [], params := [] }, [])
  | .emitErr => (s, [.err])
  | .emitSS3 => (s, [.ss3 r])
  | .setIgnoreST => ({ s with ignoreST := true }, [])
  | .setExitUnhook => ({ s with exit := some .unhook }, [])
  | .setExitApc => ({ s with exit := some .apcUnhook }, [])
  | .runExit =>
    match s.exit with
    | some f => runExitFn s f
    | none => (s, [.panic])          -- nil function call
  | .clearExit => ({ s with exit := none }, [])
  | .runExitIfSet =>
    match s.exit with
    | some f => let (s', o) := runExitFn s f; ({ s' with exit := none }, o)
    | none => (s, [])
  | .runExitIfSetST =>
    match s.exit with
    | some f => let (s', o) := runExitFn s f; ({ s' with exit := none, ignoreST := true }, o)
    | none => (s, [])
  | .clearIgnoreST => ({ s with ignoreST := false }, [])
  | .startTimer => (s, [])           -- the timer is C08's (Model/ParserRun.lean)
  | .deferClearIgnoreST => (s, [])
  | .retIfIgnoreST _ => (s, [])
  | .unknown => (s, [])              -- not modelled: the correspondence and the oracle will tell

/-- Does the action read `r`?  (On `eof` none of these may run: `r` would be −1.) -/
def usesRune : Act → Bool
  | .execute | .print | .collect | .param | .csiDispatch | .escapeDispatch | .hook | .put
  | .oscPut | .apcPut | .emitSS3 => true
  | _ => false

/-- Run the statements of an arm in order; `n` is the arm's `return` value. -/
def runActs : List Act → Inp → PState → List Seq → Next → PState × List Seq × Next
  | [], _, s, out, n => (s, out, n)
  | .retIfIgnoreST n' :: rest, i, s, out, n =>
    if s.ignoreST then (s, out, n') else runActs rest i s out n
  | a :: rest, i, s, out, n =>
    match i with
    | .rune r => let (s', o) := applyAct a r s; runActs rest i s' (out ++ o) n
    | .eof =>
      if usesRune a then (s, out ++ [.panic], .stop)
      else let (s', o) := applyAct a 0 s; runActs rest i s' (out ++ o) n

/-- Call one state function.  The deferred `p.ignoreST = false` runs when the function returns,
    provided the `defer` statement was reached (it is part of the row: not when an `if … return`
    above it fired). -/
def runFn (f : StateFn) (i : Inp) (s : PState) : PState × List Seq × Next :=
  let (s', out, n) := runActs (f.row i).1 i s [] (f.row i).2
  (if (f.row i).1.contains .deferClearIgnoreST then { s' with ignoreST := false } else s', out, n)

structure Table where
  anywhere : StateFn
  fn : StateId → StateFn

/-- Result of one iteration of the `run` loop body `p.state = anywhere(r, p)`:
    new parser state, items emitted, and whether `p.state == nil` (loop ends). -/
structure StepOut where
  st : PState
  out : List Seq
  stop : Bool
  deriving DecidableEq, Repr, Inhabited

def finish (s : PState) (out : List Seq) : Next → StepOut
  | .st x => ⟨{ s with state := x }, out, false⟩
  | .stop => ⟨s, out, true⟩
  | .dispatch => ⟨s, out ++ [.panic], true⟩    -- a state function returning p.state(r,p): not in the code

def step (T : Table) (s : PState) (i : Inp) : StepOut :=
  match runFn T.anywhere i s with
  | (s1, o1, .dispatch) =>
    let (s2, o2, n2) := runFn (T.fn s1.state) i s1
    finish s2 (o1 ++ o2) n2
  | (s1, o1, n) => finish s1 o1 n

/-! ### the regenerated table and the hand-written one -/

def genTable : Table := ⟨Gen.ParserTable.anywhereFn, Gen.ParserTable.stateFn⟩

def c0 : List Guard := [.range 0x00 0x17, .eq 0x19, .range 0x1C 0x1F]
def paramBytes : List Guard := [.range 0x30 0x39, .eq 0x3B, .eq 0x3A]
def errGround : Arm := { guards := [], acts := [.emitErr], next := .st .ground }

def handAnywhere : StateFn :=
  { pre := [],
    arms := [
      { guards := [.isEof], acts := [.runExitIfSet], next := .stop },
      { guards := [.eq 0x18, .eq 0x1A], acts := [.runExitIfSet, .clearIgnoreST, .execute], next := .st .ground },
      { guards := [.eq 0x1B], acts := [.runExitIfSet, .clear, .startTimer], next := .st .escape }],
    dflt := { guards := [], acts := [], next := .dispatch } }

def handFn : StateId → StateFn
  | .ground =>
    { pre := [], arms := [{ guards := c0, acts := [.execute], next := .st .ground }],
      dflt := { guards := [], acts := [.print], next := .st .ground } }
  | .escape =>
    { early := [{ guards := c0, acts := [.execute], next := .st .escape }],
      pre := [.deferClearIgnoreST],
      arms := [
        { guards := [.range 0x20 0x2F], acts := [.collect], next := .st .escapeIntermediate },
        { guards := [.range 0x30 0x4E, .range 0x51 0x57, .eq 0x59, .eq 0x5A, .range 0x60 0x7F],
          acts := [.escapeDispatch], next := .st .ground },
        { guards := [.eq 0x5C], acts := [.retIfIgnoreST (.st .ground), .escapeDispatch], next := .st .ground },
        { guards := [.eq 0x4F], acts := [], next := .st .ss3 },
        { guards := [.eq 0x50], acts := [.clear], next := .st .dcsEntry },
        { guards := [.eq 0x58, .eq 0x5E], acts := [], next := .st .sosPm },
        { guards := [.eq 0x5F], acts := [.setExitApc], next := .st .apc },
        { guards := [.eq 0x5B], acts := [.clear], next := .st .csiEntry },
        { guards := [.eq 0x5D], acts := [.oscStart], next := .st .oscString }],
      dflt := { guards := [], acts := [], next := .st .ground } }
  | .escapeIntermediate =>
    { pre := [],
      arms := [
        { guards := c0, acts := [.execute], next := .st .escapeIntermediate },
        { guards := [.eq 0x7F], acts := [], next := .st .escapeIntermediate },
        { guards := [.range 0x20 0x2F], acts := [.collect], next := .st .escapeIntermediate },
        { guards := [.range 0x30 0x7E], acts := [.escapeDispatch], next := .st .ground }],
      dflt := { guards := [], acts := [], next := .st .ground } }
  | .csiEntry =>
    { pre := [],
      arms := [
        { guards := c0, acts := [.execute], next := .st .csiEntry },
        { guards := [.eq 0x7F], acts := [], next := .st .csiEntry },
        { guards := paramBytes, acts := [.param], next := .st .csiParam },
        { guards := [.range 0x3C 0x3F], acts := [.collect], next := .st .csiParam },
        { guards := [.range 0x20 0x2F], acts := [.collect], next := .st .csiIntermediate },
        { guards := [.range 0x40 0x7E], acts := [.csiDispatch], next := .st .ground }],
      dflt := errGround }
  | .csiParam =>
    { pre := [],
      arms := [
        { guards := c0, acts := [.execute], next := .st .csiParam },
        { guards := [.eq 0x7F], acts := [], next := .st .csiParam },
        { guards := paramBytes, acts := [.param], next := .st .csiParam },
        { guards := [.range 0x40 0x7E], acts := [.csiDispatch], next := .st .ground },
        { guards := [.range 0x20 0x2F], acts := [.collect], next := .st .csiIntermediate },
        { guards := [.range 0x3C 0x3F], acts := [], next := .st .csiIgnore }],
      dflt := errGround }
  | .csiIgnore =>
    { pre := [],
      arms := [
        { guards := c0, acts := [.execute], next := .st .csiIgnore },
        { guards := [.eq 0x7F], acts := [], next := .st .csiIgnore },
        { guards := [.range 0x40 0x7E], acts := [], next := .st .ground }],
      dflt := { guards := [], acts := [], next := .st .csiIgnore } }
  | .csiIntermediate =>
    { pre := [],
      arms := [
        { guards := [.isEof], acts := [], next := .stop },
        { guards := c0, acts := [.execute], next := .st .csiIntermediate },
        { guards := [.eq 0x7F], acts := [], next := .st .csiIntermediate },
        { guards := [.range 0x20 0x2F], acts := [.collect], next := .st .csiIntermediate },
        { guards := [.range 0x30 0x3F], acts := [], next := .st .csiIgnore },
        { guards := [.range 0x40 0x7E], acts := [.csiDispatch], next := .st .ground }],
      dflt := errGround }
  | .dcsEntry =>
    { pre := [],
      arms := [
        { guards := c0, acts := [], next := .st .dcsEntry },
        { guards := [.eq 0x7F], acts := [], next := .st .dcsEntry },
        { guards := [.range 0x20 0x2F], acts := [.collect], next := .st .dcsIntermediate },
        { guards := [.eq 0x3A], acts := [], next := .st .dcsIgnore },
        { guards := [.range 0x30 0x39, .eq 0x3B], acts := [.param], next := .st .dcsParam },
        { guards := [.range 0x3C 0x3F], acts := [.collect], next := .st .dcsParam },
        { guards := [.range 0x40 0x7E], acts := [.hook], next := .st .dcsPassthrough }],
      dflt := errGround }
  | .dcsIntermediate =>
    { pre := [],
      arms := [
        { guards := c0, acts := [], next := .st .dcsIntermediate },
        { guards := [.range 0x20 0x2F], acts := [.collect], next := .st .dcsIntermediate },
        { guards := [.eq 0x7F], acts := [], next := .st .dcsIntermediate },
        { guards := [.range 0x30 0x3F], acts := [], next := .st .dcsIgnore },
        { guards := [.range 0x40 0x7E], acts := [.hook], next := .st .dcsPassthrough }],
      dflt := errGround }
  | .dcsParam =>
    { pre := [],
      arms := [
        { guards := c0, acts := [], next := .st .dcsParam },
        { guards := [.range 0x30 0x39, .eq 0x3B], acts := [.param], next := .st .dcsParam },
        { guards := [.eq 0x7F], acts := [], next := .st .dcsParam },
        { guards := [.range 0x20 0x2F], acts := [.collect], next := .st .dcsIntermediate },
        { guards := [.eq 0x3A, .range 0x3C 0x3F], acts := [], next := .st .dcsIgnore },
        { guards := [.range 0x40 0x7E], acts := [.hook], next := .st .dcsPassthrough }],
      dflt := errGround }
  | .dcsIgnore =>
    { pre := [.setIgnoreST],
      arms := [
        { guards := c0, acts := [], next := .st .dcsIgnore },
        { guards := [.range 0x20 0x7F], acts := [], next := .st .dcsIgnore }],
      dflt := { guards := [], acts := [], next := .st .dcsIgnore } }
  | .dcsPassthrough =>
    { pre := [.setIgnoreST, .setExitUnhook],
      arms := [
        { guards := c0, acts := [.put], next := .st .dcsPassthrough },
        { guards := [.range 0x20 0x7E], acts := [.put], next := .st .dcsPassthrough },
        { guards := [.eq 0x7F], acts := [], next := .st .dcsPassthrough }],
      dflt := { guards := [], acts := [.put], next := .st .dcsPassthrough } }
  | .oscString =>
    { pre := [.setIgnoreST],
      arms := [
        { guards := [.eq 0x07], acts := [.runExit, .clearExit, .clearIgnoreST], next := .st .ground },
        { guards := c0, acts := [], next := .st .oscString },
        { guards := [.range 0x20 0x7F], acts := [.oscPut], next := .st .oscString }],
      dflt := { guards := [], acts := [.oscPut], next := .st .oscString } }
  | .sosPm =>
    { pre := [.setIgnoreST],
      arms := [{ guards := c0, acts := [], next := .st .sosPm }],
      dflt := { guards := [], acts := [], next := .st .sosPm } }
  | .apc =>
    { pre := [.setIgnoreST],
      arms := [{ guards := c0, acts := [], next := .st .apc }],
      dflt := { guards := [], acts := [.apcPut], next := .st .apc } }
  | .ss3 =>
    { pre := [],
      arms := [
        { guards := c0, acts := [.execute], next := .st .ss3 },
        { guards := [.eq 0x7F], acts := [], next := .st .ss3 }],
      dflt := { guards := [], acts := [.emitSS3], next := .st .ground } }

def handTable : Table := ⟨handAnywhere, handFn⟩

/-- The hand model of one loop iteration. -/
def pstep : PState → Inp → StepOut := step handTable
/-- The same, interpreting the table regenerated from ansi/parser.go. -/
def pstepGen : PState → Inp → StepOut := step genTable

/-- Run over a list of inputs (stops after `stop`). -/
def runWith (T : Table) : PState → List Inp → PState × List Seq × Bool
  | s, [] => (s, [], false)
  | s, i :: rest =>
    let o := step T s i
    if o.stop then (o.st, o.out, true)
    else let (s', out, b) := runWith T o.st rest; (s', o.out ++ out, b)

/-- Run the hand model over runes (a rune never stops the loop: `Lemmas.Parser.rune_never_stops`). -/
def run : PState → List Rune → PState × List Seq
  | s, [] => (s, [])
  | s, r :: w =>
    let o := pstep s (.rune r)
    let (s', out) := run o.st w
    (s', o.out ++ out)

end VaxisModel.Model.Parser
