/-
Statement skeletons of the action methods of ansi/parser.go (C02 goal 3) and their interpreter.

`Gen/ParserActs.lean` (regenerated from the source on every run by extract/cmd/C02) gives, for every
action method (`collect`, `param`, `put`, `oscPut`, `clear`, `execute`, `escapeDispatch`, `oscStart`,
`oscEnd`, `unhook`, `apcUnhook`, `csiDispatch`, `hook`), its body as a `List BStmt`: one constructor per
statement shape that occurs there, in source order, with the constants (C0 bounds, separators, number
base, digit offset, empty-field value) as arguments.  A statement the extractor does not know is
`.unknown "<source>"` (a no-op here) and is listed in `Gen.ParserActs.unrecognised`.

`interpBody` runs such a skeleton on the model state `PState`.  `Props/C02Acts.lean` proves that the
interpretation of the regenerated skeletons is the hand-written `applyAct` / `runExitFn` of
`Model/Parser.lean`, for every rune and every parser state.

Abstractions (as in Model/Parser.lean): slices are lists, so `p.f = p.f[:0]`, `make([]rune, 0, n)`,
`[]rune{}` and `pool.Get()` all give `[]` (ownership of the backing arrays is C08's pool model);
`p.final` is write-only and not part of `PState`; an `error` value is the opaque item `Seq.err`;
Go `int` is 64 bit (`wrap64`).  Core Lean only.
-/
import VaxisModel.Model.Parser

namespace VaxisModel.Model.ParserActs
open VaxisModel.Model.Parser

/-- Fields of `Parser` that the bodies append to / reset. -/
inductive Field
  | intermediate   -- p.intermediate
  | params         -- p.params
  | oscData        -- p.oscData
  | apcData        -- p.apcData
  | dcsData        -- p.dcs.Data
  | dcs            -- p.dcs (the whole struct; only `resetField`)
  deriving DecidableEq, Repr, Inhabited

/-- The sequence value a body builds: the local `esc`, the local `csi`, or the field `p.dcs`. -/
inductive SeqKind | esc | csi | dcs
  deriving DecidableEq, Repr, Inhabited

/-- Statements of csiDispatch's parameter decoder (locals `ps`, `param`, `csi.Parameters`; `b` the byte). -/
inductive LoopOp
  | appendParamPs           -- param = append(param, ps)
  | appendParamsParam       -- csi.Parameters = append(csi.Parameters, param)
  | newParam                -- param = p.paramPool.Get()[:0]        (also the `:=` form)
  | newParams               -- csi.Parameters = p.paramListPool.Get()[:0]
  | psZero                  -- ps = 0                                (also `ps := 0`)
  | psMulConst (k : Int)    -- ps *= k
  | psAddDigit (off : Int)  -- ps += int(b) - off
  | unknown (src : String)
  deriving DecidableEq, Repr, Inhabited

/-- Statements of the body of hook's `for _, param := range paramStr`. -/
inductive HookOp
  | ifEmptyAppendContinue (v : Int)  -- if param == "" { params = append(params, v); continue }
  | atoi                             -- val, err := strconv.Atoi(param)
  | ifErrEmitReturn                  -- if err != nil { p.emit(fmt.Errorf(…)); return }
  | appendVal                        -- params = append(params, val)
  | unknown (src : String)
  deriving DecidableEq, Repr, Inhabited

/-- One statement of an action body. -/
inductive BStmt
  | appendField (f : Field)          -- p.f = append(p.f, r)
  | truncField (f : Field)           -- p.f = p.f[:0]
  | resetField (f : Field)           -- p.f = make([]rune, 0, n) / []rune{} / DCS{}
  | assignFinal0                     -- p.final = rune(0)
  | setExit (fn : ExitFn)            -- p.exit = p.<fn>
  | emitC0IfIn (lo hi : Nat)         -- if in(r, lo, hi) { p.emit(C0(r)); return }
  | declSeq (k : SeqKind)            -- esc := ESC{Final: r} / csi := CSI{Final: r} /
                                     -- p.dcs = DCS{Final: r, Data: make([]rune, 0, n)}
  | takeInter (k : SeqKind)          -- if len(p.intermediate) > 0 { X.Intermediate = p.intermediate;
                                     --                              p.intermediate = p.intermediatePool.Get() }
  | emitLocal (k : SeqKind)          -- p.emit(esc) / p.emit(csi)
  | emitOsc                          -- p.emit(OSC{Payload: p.oscData})
  | emitDcs                          -- p.emit(p.dcs)
  | emitApc                          -- p.emit(APC{Data: string(p.apcData)})
  | emitRetIfNoParams (k : SeqKind)  -- if len(p.params) == 0 { p.emit(X); return }
  | retIfNoParams                    -- if len(p.params) == 0 { return }
  | op (o : LoopOp)                  -- a decoder statement outside the loop
  | paramLoop (cases : List (Nat × List LoopOp)) (dflt : List LoopOp)
      -- for i := 0; i < len(p.params); i += 1 { b := p.params[i]; switch b { case c: …; default: … } }
  | splitParams (sep : Nat)          -- paramStr := strings.Split(string(p.params), "<sep>")
  | hookNewParams                    -- params := make([]int, 0, len(paramStr))
  | hookLoop (ops : List HookOp)     -- for _, param := range paramStr { … }
  | assignDcsParams                  -- p.dcs.Parameters = params
  | unknown (src : String)           -- not in the vocabulary (no-op; `acts_fully_recognised` forbids it)
  deriving DecidableEq, Repr, Inhabited

/-! ### the parameter decoder of csiDispatch -/

/-- Locals of the decoder: `ps`, `param`, `csi.Parameters`. -/
structure LoopSt where
  ps : Int := 0
  param : List Int := []
  acc : List (List Int) := []
  deriving DecidableEq, Repr, Inhabited

/-- One decoder statement; `b` is the current parameter byte.  `*=` and `+=` are Go `int` operations. -/
def LoopOp.run (b : Rune) : LoopOp → LoopSt → LoopSt
  | .appendParamPs, st => { st with param := st.param ++ [st.ps] }
  | .appendParamsParam, st => { st with acc := st.acc ++ [st.param] }
  | .newParam, st => { st with param := [] }
  | .newParams, st => { st with acc := [] }
  | .psZero, st => { st with ps := 0 }
  | .psMulConst k, st => { st with ps := wrap64 (st.ps * k) }
  | .psAddDigit off, st => { st with ps := wrap64 (st.ps + ((b : Int) - off)) }
  | .unknown _, st => st

def runOps (b : Rune) : List LoopOp → LoopSt → LoopSt
  | [], st => st
  | o :: rest, st => runOps b rest (o.run b st)

/-- `switch b { case c: … default: … }`: first matching label, else the default clause. -/
def findCase : List (Nat × List LoopOp) → List LoopOp → Rune → List LoopOp
  | [], d, _ => d
  | (c, ops) :: rest, d, b => if b = c then ops else findCase rest d b

/-- The `for` loop over `p.params`. -/
def loopRun (cases : List (Nat × List LoopOp)) (dflt : List LoopOp) : List Rune → LoopSt → LoopSt
  | [], st => st
  | b :: rest, st => loopRun cases dflt rest (runOps b (findCase cases dflt b) st)

/-! ### the parameter loop of hook -/

/-- Outcome of the loop body for one field: go on with the next field, or `return` with items emitted. -/
inductive FieldRes
  | cont (params : List Int)
  | ret (params : List Int) (out : List Seq)
  deriving DecidableEq, Repr, Inhabited

/-- The loop body on one field (`param`); locals `params`, `val`, `err`. -/
def hookField (field : List Rune) : List HookOp → List Int → Int → Bool → FieldRes
  | [], ps, _, _ => .cont ps
  | .ifEmptyAppendContinue v :: rest, ps, val, err =>
    if field.isEmpty then .cont (ps ++ [v]) else hookField field rest ps val err
  | .atoi :: rest, ps, _, _ =>
    match atoi field with
    | some v => hookField field rest ps v false
    | none => hookField field rest ps 0 true
  | .ifErrEmitReturn :: rest, ps, val, err =>
    if err then .ret ps [.err] else hookField field rest ps val err
  | .appendVal :: rest, ps, val, err => hookField field rest (ps ++ [val]) val err
  | .unknown _ :: rest, ps, val, err => hookField field rest ps val err

/-- `for _, param := range paramStr`: (`params`, items emitted, returned from `hook`). -/
def hookLoopRun (ops : List HookOp) : List (List Rune) → List Int → List Int × List Seq × Bool
  | [], ps => (ps, [], false)
  | f :: rest, ps =>
    match hookField f ops ps 0 false with
    | .cont ps' => hookLoopRun ops rest ps'
    | .ret ps' out => (ps', out, true)

/-! ### bodies -/

def appendF (f : Field) (r : Rune) (s : PState) : PState :=
  match f with
  | .intermediate => { s with inter := s.inter ++ [r] }
  | .params => { s with params := s.params ++ [r] }
  | .oscData => { s with osc := s.osc ++ [r] }
  | .apcData => { s with apc := s.apc ++ [r] }
  | .dcsData => { s with dcs := { s.dcs with data := s.dcs.data ++ [r] } }
  | .dcs => s

def clearF (f : Field) (s : PState) : PState :=
  match f with
  | .intermediate => { s with inter := [] }
  | .params => { s with params := [] }
  | .oscData => { s with osc := [] }
  | .apcData => { s with apc := [] }
  | .dcsData => { s with dcs := { s.dcs with data := [] } }
  | .dcs => { s with dcs := {} }

/-- Interpreter state: parser fields, items emitted so far, the locals of the body, and whether the
    body has executed `return`. -/
structure Env where
  s : PState
  out : List Seq := []
  inter : List Rune := []          -- esc.Intermediate / csi.Intermediate
  dec : LoopSt := {}               -- ps, param, csi.Parameters
  fields : List (List Rune) := []  -- paramStr
  hparams : List Int := []         -- params (hook)
  ret : Bool := false
  deriving DecidableEq, Repr, Inhabited

def emitSeq (k : SeqKind) (r : Rune) (e : Env) : Env :=
  match k with
  | .esc => { e with out := e.out ++ [.esc e.inter r] }
  | .csi => { e with out := e.out ++ [.csi e.inter e.dec.acc r] }
  | .dcs => { e with out := e.out ++ [.dcs e.s.dcs.final e.s.dcs.inter e.s.dcs.params e.s.dcs.data] }

def interpStmt (r : Rune) : BStmt → Env → Env
  | .appendField f, e => { e with s := appendF f r e.s }
  | .truncField f, e => { e with s := clearF f e.s }
  | .resetField f, e => { e with s := clearF f e.s }
  | .assignFinal0, e => e
  | .setExit fn, e => { e with s := { e.s with exit := some fn } }
  | .emitC0IfIn lo hi, e =>
    if decide (lo ≤ r) && decide (r ≤ hi) then { e with out := e.out ++ [.c0 r], ret := true } else e
  | .declSeq .dcs, e => { e with s := { e.s with dcs := { final := r } } }
  | .declSeq _, e => { e with inter := [], dec := {} }
  | .takeInter k, e =>
    if e.s.inter.isEmpty then e
    else match k with
      | .dcs => { e with s := { e.s with dcs := { e.s.dcs with inter := e.s.inter }, inter := [] } }
      | _ => { e with inter := e.s.inter, s := { e.s with inter := [] } }
  | .emitLocal k, e => emitSeq k r e
  | .emitOsc, e => { e with out := e.out ++ [.osc e.s.osc] }
  | .emitDcs, e => emitSeq .dcs r e
  | .emitApc, e => { e with out := e.out ++ [.apc e.s.apc] }
  | .emitRetIfNoParams k, e => if e.s.params.isEmpty then { emitSeq k r e with ret := true } else e
  | .retIfNoParams, e => if e.s.params.isEmpty then { e with ret := true } else e
  | .op o, e => { e with dec := o.run 0 e.dec }
  | .paramLoop cases dflt, e => { e with dec := loopRun cases dflt e.s.params e.dec }
  | .splitParams sep, e => { e with fields := splitOn sep e.s.params [] }
  | .hookNewParams, e => { e with hparams := [] }
  | .hookLoop ops, e =>
    let res := hookLoopRun ops e.fields e.hparams
    { e with hparams := res.1, out := e.out ++ res.2.1, ret := res.2.2 }
  | .assignDcsParams, e => { e with s := { e.s with dcs := { e.s.dcs with params := e.hparams } } }
  | .unknown _, e => e

/-- Statements in order; nothing runs after a `return`. -/
def interpStmts (r : Rune) : List BStmt → Env → Env
  | [], e => e
  | st :: rest, e =>
    let e' := interpStmt r st e
    if e'.ret then e' else interpStmts r rest e'

/-- Run a body on rune `r` (ignored by the bodies without parameter) from parser state `s`:
    the new state and the items sent on the channel. -/
def interpBody (body : List BStmt) (r : Rune) (s : PState) : PState × List Seq :=
  let e := interpStmts r body { s := s }
  (e.s, e.out)

end VaxisModel.Model.ParserActs
