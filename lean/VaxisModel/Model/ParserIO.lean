/-
The reading side of ansi/parser.go: `bufio.Reader.ReadRune` over a sequence of reads,
`Parser.readRune` (raw-byte fallback for invalid UTF-8), `Parser.print` (grapheme clustering over
what is buffered) and the `run` loop without the timer (C08 adds timer/close in ParserRun.lean).

uniseg is a parameter: `clusterAt pos` = number of runes of the first grapheme cluster of the rune
sequence that starts at byte offset `pos` of the stream (first rune read with the raw-byte
fallback, the following ones as `ReadRune` returns them; the look-ahead stops in front of an
invalid byte, so only well-formed scalars follow).  The harness
computes it with the real library; theorems quantify over it.  Core Lean only.
-/
import VaxisModel.Model.Parser

namespace VaxisModel.Model.ParserIO
open VaxisModel.Model.ParserTable VaxisModel.Model.Parser

/-- Bytes are natural numbers (< 256 in every stream the drivers and theorems feed); the decoding functions
    below are stated over `Nat` so that `omega` sees their pattern variables. -/
abbrev Byte := Nat

/-! ### unicode/utf8 (Go 1.2x `utf8.DecodeRune`, `utf8.FullRune`) -/

/-- `first[b]` decoded: (size, accept-lo, accept-hi) for a valid leading byte ≥ 0x80. -/
def lead (b : Nat) : Option (Nat × Nat × Nat) :=
  if 0xC2 ≤ b ∧ b ≤ 0xDF then some (2, 0x80, 0xBF)
  else if b = 0xE0 then some (3, 0xA0, 0xBF)
  else if 0xE1 ≤ b ∧ b ≤ 0xEC then some (3, 0x80, 0xBF)
  else if b = 0xED then some (3, 0x80, 0x9F)
  else if 0xEE ≤ b ∧ b ≤ 0xEF then some (3, 0x80, 0xBF)
  else if b = 0xF0 then some (4, 0x90, 0xBF)
  else if 0xF1 ≤ b ∧ b ≤ 0xF3 then some (4, 0x80, 0xBF)
  else if b = 0xF4 then some (4, 0x80, 0x8F)
  else none

def isCont (b : Nat) : Bool := decide (0x80 ≤ b) && decide (b ≤ 0xBF)

def runeError : Rune := 0xFFFD

/-- `utf8.DecodeRune` on a non-empty buffer: (rune, size). -/
def decodeRune : List Nat → Rune × Nat
  | [] => (runeError, 0)
  | b0 :: rest =>
    if b0 < 0x80 then (b0, 1)
    else match lead b0 with
      | none => (runeError, 1)
      | some (sz, lo, hi) =>
        match rest with
        | [] => (runeError, 1)
        | b1 :: rest1 =>
          if rest.length + 1 < sz then (runeError, 1)
          else if b1 < lo ∨ hi < b1 then (runeError, 1)
          else if sz = 2 then ((b0 % 32) * 64 + b1 % 64, 2)
          else match rest1 with
            | [] => (runeError, 1)
            | b2 :: rest2 =>
              if !isCont b2 then (runeError, 1)
              else if sz = 3 then ((b0 % 16) * 4096 + (b1 % 64) * 64 + b2 % 64, 3)
              else match rest2 with
                | [] => (runeError, 1)
                | b3 :: _ =>
                  if !isCont b3 then (runeError, 1)
                  else ((b0 % 8) * 262144 + (b1 % 64) * 4096 + (b2 % 64) * 64 + b3 % 64, 4)

/-- `utf8.FullRune`. -/
def fullRune : List Nat → Bool
  | [] => false
  | b0 :: rest =>
    if b0 < 0x80 then true
    else match lead b0 with
      | none => true
      | some (sz, lo, hi) =>
        if rest.length + 1 ≥ sz then true
        else match rest with
          | [] => false
          | b1 :: rest1 =>
            if b1 < lo ∨ hi < b1 then true
            else match rest1 with
              | [] => false
              | b2 :: _ => !isCont b2

/-! ### bufio.Reader over scripted reads -/

structure Rd where
  buf : List Byte                 -- buffered, unread
  chunks : List (List Byte)       -- what the following Read calls return (non-empty each); then EOF/error
  pos : Nat := 0                  -- stream offset of the head of `buf`
  deriving Repr, Inhabited

/-- The `for … { b.fill() }` loop at the top of `ReadRune`. -/
def fillLoop : List Byte → List (List Byte) → List Byte × List (List Byte)
  | buf, [] => (buf, [])
  | buf, c :: cs => if buf.length < 4 && !fullRune buf then fillLoop (buf ++ c) cs else (buf, c :: cs)

def Rd.fill (rd : Rd) : Rd :=
  let (b, c) := fillLoop rd.buf rd.chunks
  { rd with buf := b, chunks := c }

def Rd.consume (rd : Rd) (n : Nat) : Rd := { rd with buf := rd.buf.drop n, pos := rd.pos + n }

/-- `Parser.readRune`: none = `eof`. -/
def readRune (rd : Rd) : Option Rune × Rd :=
  let rd := rd.fill
  match rd.buf with
  | [] => (none, rd)
  | b0 :: _ =>
    let (r, sz) := decodeRune rd.buf
    if r = runeError && (sz = 1 || !Gen.ParserTable.fallbackOnlyInvalid) then
      (some b0, rd.consume 1)                         -- UnreadRune; ReadByte
    else (some r, rd.consume sz)

/-- The loop of `Parser.print`: `acc` = runes in the builder, `cl` = cluster length from the oracle. -/
def printLoop (cl : Nat) : Nat → Rd → List Rune → List Rune × Rd
  | 0, rd, acc => (acc, rd)
  | fuel + 1, rd, acc =>
    if rd.buf.isEmpty then (acc, rd)                  -- p.r.Buffered() == 0
    else
      let rd := rd.fill                               -- ReadRune may fill on a partial rune
      let (r, sz) := decodeRune rd.buf
      if Gen.ParserTable.lookaheadStopsAtInvalid && r = runeError && sz = 1 then
        (acc, rd)                                     -- invalid byte: UnreadRune; break (left to readRune)
      else if acc.length + 1 > cl then (acc, rd)      -- rest != "": UnreadRune; break
      else printLoop cl fuel (rd.consume sz) (acc ++ [r])

/-- What is observed on the channel: `Print` with its whole grapheme, or any other sequence. -/
inductive Item
  | print (g : List Rune)
  | seq (s : Seq)
  deriving DecidableEq, Repr, Inhabited

def Rd.remaining (rd : Rd) : Nat := rd.buf.length + (rd.chunks.map List.length).sum

/-- Deliver the items of one step; a `print r` item consumes the rest of its cluster from the buffer. -/
def deliver (clusterAt : Nat → Nat) (startPos : Nat) : List Seq → Rd → List Item × Rd
  | [], rd => ([], rd)
  | .print r :: rest, rd =>
    let (g, rd') := printLoop (max 1 (clusterAt startPos)) (rd.remaining + 1) rd [r]
    let (items, rd'') := deliver clusterAt startPos rest rd'
    (.print g :: items, rd'')
  | s :: rest, rd =>
    let (items, rd') := deliver clusterAt startPos rest rd
    (.seq s :: items, rd')

/-- `Parser.run` without timer and close: read, transition, until `eof`; then `EOF{}`. -/
def runLoop (T : Table) (clusterAt : Nat → Nat) : Nat → PState → Rd → List Item
  | 0, _, _ => [.seq .panic]                          -- fuel exhausted (cannot happen: fuel = bytes + 2)
  | fuel + 1, s, rd =>
    let start := rd.pos
    match readRune rd with
    | (none, _) =>
      let o := step T s .eof
      o.out.map .seq ++ [.seq .eof]
    | (some r, rd1) =>
      let o := step T s (.rune r)
      let (items, rd2) := deliver clusterAt start o.out rd1
      if o.stop then items ++ [.seq .eof] else items ++ runLoop T clusterAt fuel o.st rd2

/-- Everything delivered for a stream split into the given reads. -/
def runChunks (T : Table) (clusterAt : Nat → Nat) (chunks : List (List Byte)) : List Item :=
  let chunks := chunks.filter (!·.isEmpty)
  let rd : Rd := { buf := [], chunks := chunks }
  runLoop T clusterAt (rd.remaining + 2) PState.init rd

end VaxisModel.Model.ParserIO
