/-
C08: the parameter-pool model of `Model/ParserPools.lean` (`PSt`, `pstep`: `paramListPool`,
`paramPool`) **driven by the automaton**.  In rounds 2/3 the explicit-array model of
`csi.Parameters` had labels of its own (`begin / get / app / push / emit / finish / finPut`) in any
order.  Here the parser's labels come from the parser: for every input rune the statements of the
`anywhere` arm and of the state function's arm (transition table, `Model/Parser.lean`) are walked in
source order — with the early `return` under `if p.ignoreST` — and the statement `csiDispatch` is
expanded into the pool operations its Go body performs for the parameter bytes the automaton has
collected in `p.params` at that moment:

    if len(p.params) == 0 { p.emit(csi); return }            -- no pool operation at all
    csi.Parameters = p.paramListPool.Get()[:0]               -- begin
    ps := 0
    param := p.paramPool.Get()[:0]                           -- get
    for i := 0; i < len(p.params); i += 1 { b := p.params[i]; switch b {
      case ';': param = append(param, ps)                    -- app ps
                csi.Parameters = append(csi.Parameters, param)   -- push
                param = p.paramPool.Get()[:0]; ps = 0        -- get
      case ':': param = append(param, ps); ps = 0            -- app ps
      default:  ps *= 10; ps += int(b) - 0x30 } }
    param = append(param, ps)                                -- app ps
    csi.Parameters = append(csi.Parameters, param)           -- push
    p.emit(csi)                                              -- emit

(`csiOps`; `Lemmas/ParserParamsDrive.lean : bodyOps_csiBody` derives the same list from the statement
skeleton of `csiDispatch` that the extractor regenerates.)

The consumer goroutine runs concurrently: its `Finish(csi)` calls — at the grain of the pool model,
`finish k` followed by one `Put` at a time (`finPut j`) — may happen between two runes (`DLabel.cons`)
**and between any two pool operations of a running `csiDispatch`** (`Slot.pre`).  A consumer move
that is not enabled (no k-th held sequence, no j-th `Finish` in progress) is a no-op.

`Slot` = what the environment decides at one pool operation: the consumer moves before it, which
pooled slice `Get` returns (with whatever stale length it was put back with; a new one if there is
none), how much extra capacity a growing `append` allocates.

A Go `int` is stored in a cell of the pool model (cells are `Nat`) as `enc v`; `dec (enc v) = v`.
Core Lean only.
-/
import VaxisModel.Model.Parser
import VaxisModel.Model.ParserPools
import VaxisModel.Model.ParserActs

namespace VaxisModel.Model.ParserParamsDrive
open VaxisModel.Model.ParserTable VaxisModel.Model.Parser VaxisModel.Model.ParserPools

/-- How a Go `int` sits in a (`Nat`) cell of the pool model: a bijection `Int → Nat`. -/
def enc : Int → Nat
  | .ofNat n => 2 * n
  | .negSucc n => 2 * n + 1

def dec (n : Nat) : Int := if n % 2 = 0 then Int.ofNat (n / 2) else Int.negSucc (n / 2)

/-- The pool operations of `csiDispatch`, without the environment's choices. -/
inductive POp
  | begin            -- csi.Parameters = p.paramListPool.Get()[:0]
  | get              -- param = p.paramPool.Get()[:0]
  | app (v : Int)    -- param = append(param, ps)
  | push             -- csi.Parameters = append(csi.Parameters, param)
  | emit             -- p.emit(csi)
  deriving DecidableEq, Repr, Inhabited

/-- The `for` loop over `p.params` and the three statements after it; `ps` the number being
    accumulated (same arithmetic as `Parser.decodeLoop`). -/
def loopOps : List Rune → Int → List POp
  | [], ps => [.app ps, .push, .emit]
  | b :: rest, ps =>
    if b = 0x3B then [.app ps, .push, .get] ++ loopOps rest 0
    else if b = 0x3A then .app ps :: loopOps rest 0
    else loopOps rest (wrap64 (ps * 10 + ((b : Int) - 0x30)))

/-- `csiDispatch` on the collected parameter bytes `params`. -/
def csiOps (params : List Rune) : List POp :=
  if params.isEmpty then [] else [.begin, .get] ++ loopOps params 0

/-- The pool operations of one statement of an arm. -/
def actOps (a : Act) (s : PState) : List POp :=
  match a with
  | .csiDispatch => csiOps s.params
  | _ => []

/-- A move of the consumer goroutine. -/
inductive CLabel
  /-- `Finish` is called on the k-th held CSI -/
  | finish (k : Nat)
  /-- the next `Put` of the j-th `Finish` call in progress -/
  | finPut (j : Nat)
  deriving DecidableEq, Repr, Inhabited

def CLabel.toP : CLabel → PLabel
  | .finish k => .finish k
  | .finPut j => .finPut j

/-- The environment at one pool operation of the parser. -/
structure Slot where
  /-- consumer moves that happen before the operation -/
  pre : List CLabel := []
  /-- `Get()` returns pooled slice number `g` (a new slice if there is none) -/
  g : Option Nat := none
  /-- extra capacity a growing `append` allocates -/
  extra : Nat := 0
  deriving DecidableEq, Repr, Inhabited

/-- Ghost record of one hand-over (`p.emit(csi)` with parameters): `auto` = what the automaton
    (`Model/Parser.lean`) puts into the `CSI` value — `decodeParams p.params` —, `slice` = what
    `csi.Parameters` reads in the pool model at that moment (= the snapshot of the delivered record). -/
structure View where
  auto : List (List Int)
  slice : List (List Nat)
  deriving DecidableEq, Repr, Inhabited

/-- Pool state, the pool-model labels issued so far, the hand-overs so far. -/
structure Acc where
  st : PSt := {}
  ls : List PLabel := []
  views : List View := []
  deriving Repr, Inhabited

/-- One consumer move (a no-op when it is not enabled). -/
def consStep (acc : Acc) (c : CLabel) : Acc :=
  match pstep acc.st c.toP with
  | none => acc
  | some st' => { acc with st := st', ls := acc.ls ++ [c.toP] }

def consSteps (acc : Acc) (cs : List CLabel) : Acc := cs.foldl consStep acc

/-- `Get` returns the pooled slice number `k` if there is one, else a new one. -/
def getAns (g : Option Nat) (pool : List Slice) : Option Nat :=
  match g with
  | some k => if k < pool.length then some k else none
  | none => none

/-- The pool-model label of one operation under the environment's choices. -/
def opLabel (sl : Slot) (st : PSt) : POp → PLabel
  | .begin => .begin (getAns sl.g st.lpool)
  | .get => .get (getAns sl.g st.ppool)
  | .app v => .app (enc v) ((match st.work with | some (_, some p) => p.len | _ => 0) + 1 + sl.extra)
  | .push => .push ((match st.work with | some (l, _) => l.len | none => 0) + 1 + sl.extra)
  | .emit => .emit

/-- What `csi.Parameters` of the running dispatch reads. -/
def readWork (st : PSt) : List (List Nat) :=
  match st.work with
  | some (l, _) => readParams st.pheap st.lheap l
  | none => []

def isEmit : POp → Bool
  | .emit => true
  | _ => false

/-- Run the pool operations of one `csiDispatch`, one slot of the schedule per operation (default
    slot when the schedule is exhausted); `none` = a pool step of the parser was not enabled. -/
def driveOps (auto : List (List Int)) : List POp → List Slot → Acc → Option (Acc × List Slot)
  | [], sch, acc => some (acc, sch)
  | op :: rest, sch, acc =>
    let sl := sch.headD {}
    let acc1 := consSteps acc sl.pre
    let l := opLabel sl acc1.st op
    match pstep acc1.st l with
    | none => none
    | some st' =>
      driveOps auto rest sch.tail
        { st := st', ls := acc1.ls ++ [l],
          views := if isEmit op then acc1.views ++ [⟨auto, readWork acc1.st⟩] else acc1.views }

def isRet : Act → Bool
  | .retIfIgnoreST _ => true
  | _ => false

/-- Walk the statements of a row as `Parser.runActs` does (`if p.ignoreST { return }` included),
    expanding `csiDispatch`. -/
def driveActs : List Act → Nat → PState → List Slot → Acc → Option (Acc × List Slot)
  | [], _, _, sch, acc => some (acc, sch)
  | a :: rest, r, s, sch, acc =>
    if isRet a && s.ignoreST then some (acc, sch)
    else
      match driveOps (decodeParams s.params) (actOps a s) sch acc with
      | none => none
      | some (acc', sch') => driveActs rest r (applyAct a r s).1 sch' acc'

/-- One input rune: `anywhere(r, p)`, then — if it passes the rune on — the state function. -/
def driveRune (T : Table) (sch : List Slot) (s : PState) (acc : Acc) (r : Nat) : Option Acc :=
  match driveActs (T.anywhere.row (.rune r)).1 r s sch acc with
  | none => none
  | some (acc1, sch1) =>
    match (runFn T.anywhere (.rune r) s).2.2 with
    | .dispatch =>
      let s1 := (runFn T.anywhere (.rune r) s).1
      (driveActs ((T.fn s1.state).row (.rune r)).1 r s1 sch1 acc1).map (·.1)
    | _ => some acc1

inductive DLabel
  /-- the parser reads a rune; `sch`: the environment during the `csiDispatch` it may execute -/
  | rune (r : Nat) (sch : List Slot)
  /-- a consumer move between two runes -/
  | cons (c : CLabel)
  deriving DecidableEq, Repr, Inhabited

structure DSt where
  ps : PState := {}
  acc : Acc := {}
  /-- everything delivered on the channel so far -/
  out : List Seq := []
  deriving Repr, Inhabited

def DSt.init : DSt := {}
abbrev DSt.pool (d : DSt) : PSt := d.acc.st
abbrev DSt.trace (d : DSt) : List PLabel := d.acc.ls

def dstep (T : Table) (d : DSt) : DLabel → Option DSt
  | .rune r sch =>
    match driveRune T sch d.ps d.acc r with
    | none => none
    | some acc' =>
      let o := Parser.step T d.ps (.rune r)
      some { ps := o.st, acc := acc', out := d.out ++ o.out }
  | .cons c => some { d with acc := consStep d.acc c }

def drun (T : Table) : DSt → List DLabel → Option DSt
  | d, [] => some d
  | d, l :: ls =>
    match dstep T d l with
    | none => none
    | some d' => drun T d' ls

/-! ### the same expansion, read off the statement skeleton of `csiDispatch`

`Gen/ParserActs.lean` (regenerated from ansi/parser.go on every run) gives the body of `csiDispatch` as
a `List BStmt` (`Model/ParserActs.lean`).  `bodyOps` walks such a skeleton as `interpStmts` does and
issues the pool operation of every statement that touches the pools (`newParams` ↦ `begin`, `newParam`
↦ `get`, `appendParamPs` ↦ `app ps`, `appendParamsParam` ↦ `push`, `p.emit(csi)` after the decoder ↦
`emit`; the early `emit; return` when there are no parameter bytes hands no storage over).
`Props/C08DriveParams.lean : expansion_is_regenerated_body` proves `bodyOps` of the regenerated
skeleton equal to `csiOps`, for all parameter bytes. -/

open VaxisModel.Model.ParserActs in
/-- The pool operation of one decoder statement (`st`: the decoder's locals before it). -/
def loopOpOps (st : LoopSt) : LoopOp → List POp
  | .appendParamPs => [.app st.ps]
  | .appendParamsParam => [.push]
  | .newParam => [.get]
  | .newParams => [.begin]
  | _ => []

open VaxisModel.Model.ParserActs in
/-- A clause of the `switch`: operations issued, locals afterwards. -/
def opsOfOps (b : Rune) : List LoopOp → LoopSt → List POp × LoopSt
  | [], st => ([], st)
  | o :: rest, st => ((loopOpOps st o) ++ (opsOfOps b rest (o.run b st)).1, (opsOfOps b rest (o.run b st)).2)

open VaxisModel.Model.ParserActs in
/-- The `for` loop over `p.params`. -/
def opsOfLoop (cases : List (Nat × List LoopOp)) (dflt : List LoopOp) : List Rune → LoopSt → List POp × LoopSt
  | [], st => ([], st)
  | b :: rest, st =>
    ((opsOfOps b (findCase cases dflt b) st).1 ++ (opsOfLoop cases dflt rest (opsOfOps b (findCase cases dflt b) st).2).1,
     (opsOfLoop cases dflt rest (opsOfOps b (findCase cases dflt b) st).2).2)

open VaxisModel.Model.ParserActs in
/-- The pool operations of a body on parameter bytes `params`. -/
def bodyOps (params : List Rune) : List BStmt → LoopSt → List POp
  | [], _ => []
  | stmt :: rest, st =>
    match stmt with
    | .emitRetIfNoParams _ => if params.isEmpty then [] else bodyOps params rest st
    | .op o => loopOpOps st o ++ bodyOps params rest (o.run 0 st)
    | .paramLoop cases dflt =>
      (opsOfLoop cases dflt params st).1 ++ bodyOps params rest (opsOfLoop cases dflt params st).2
    | .emitLocal _ => .emit :: bodyOps params rest st
    | _ => bodyOps params rest st

open VaxisModel.Model.ParserActs in
/-- For the negative witness only: the skeleton of `csiDispatch` with `param = p.paramPool.Get()[:0]`
    dropped from the `case ';'` clause (the next parameter would be appended to the array already
    stored in `csi.Parameters`). -/
def noGetBody : List BStmt :=
  [.declSeq .csi, .takeInter .csi, .emitRetIfNoParams .csi, .op .newParams, .op .psZero, .op .newParam,
   .paramLoop [(0x3B, [.appendParamPs, .appendParamsParam, .psZero]), (0x3A, [.appendParamPs, .psZero])]
     [.psMulConst 10, .psAddDigit 0x30],
   .op .appendParamPs, .op .appendParamsParam, .emitLocal .csi]

/-! ### schedules for the non-vacuity examples of `Props/C08DriveParams.lean` -/

/-- `ESC [ 1 ; 2 : 3 m  ESC [ 4 m`: the first CSI is retained while the second one is parsed; its
    `Finish` is interleaved in the middle of the second `csiDispatch` — `finish` and the first `Put`
    after `paramListPool.Get()`, so that `paramPool.Get()` returns the array of `[1]` at once; the
    other `Put`s between the following operations. -/
def exRetain : List DLabel :=
  [.rune 0x1B [], .rune 0x5B [], .rune 0x31 [], .rune 0x3B [], .rune 0x32 [], .rune 0x3A [], .rune 0x33 [],
   .rune 0x6D [],
   .rune 0x1B [], .rune 0x5B [], .rune 0x34 [],
   .rune 0x6D [{}, { pre := [.finish 0, .finPut 0], g := some 0 }, { pre := [.finPut 0] },
               { pre := [.finPut 0, .finPut 0] }, {}]]

/-- The same input, the consumer never calls `Finish`. -/
def exHeld : List DLabel :=
  [.rune 0x1B [], .rune 0x5B [], .rune 0x31 [], .rune 0x3B [], .rune 0x32 [], .rune 0x3A [], .rune 0x33 [],
   .rune 0x6D [], .rune 0x1B [], .rune 0x5B [], .rune 0x34 [], .rune 0x6D []]

/-- `ESC [ 1:2:3:4:5:6:7 ; 1 ; 1 ; 1 ; 1 m` (both kinds of array grow), `Finish` of it between runes,
    `ESC [ 9 m` reusing its list and one of its parameter arrays. -/
def exGrow : List DLabel :=
  [.rune 0x1B [], .rune 0x5B [], .rune 0x31 [], .rune 0x3A [], .rune 0x32 [], .rune 0x3A [], .rune 0x33 [],
   .rune 0x3A [], .rune 0x34 [], .rune 0x3A [], .rune 0x35 [], .rune 0x3A [], .rune 0x36 [], .rune 0x3A [],
   .rune 0x37 [], .rune 0x3B [], .rune 0x31 [], .rune 0x3B [], .rune 0x31 [], .rune 0x3B [], .rune 0x31 [],
   .rune 0x3B [], .rune 0x31 [], .rune 0x6D [],
   .cons (.finish 0), .cons (.finPut 0), .cons (.finPut 0), .cons (.finPut 0), .cons (.finPut 0),
   .cons (.finPut 0), .cons (.finPut 0),
   .rune 0x1B [], .rune 0x5B [], .rune 0x39 [], .rune 0x6D [{ g := some 0 }, { g := some 0 }]]

end VaxisModel.Model.ParserParamsDrive
