/-
C08 (deliverable B) — pool ownership over explicit backing arrays.

`ansi/parser.go` recycles the backing arrays of `p.intermediate` through `intermediatePool`
(`ansi/pool.go`, a `sync.Pool`):

    func (p *Parser) clear()          { p.intermediate = p.intermediate[:0]; … }
    func (p *Parser) collect(r rune)  { p.intermediate = append(p.intermediate, r) }
    func (p *Parser) escapeDispatch / csiDispatch / hook:
        if len(p.intermediate) > 0 { seq.Intermediate = p.intermediate
                                     p.intermediate = p.intermediatePool.Get() }
    func (p *Parser) Finish(seq)      { if seq.Intermediate != nil { p.intermediatePool.Put(seq.Intermediate) } }
    func newIntermediateSlice() []rune { return make([]rune, 0, 2) }

The abstract model `Own` (Model/ParserRun.lean) only tracks array *ids*.  Here the backing arrays
are explicit, so that aliasing is visible: a Go slice is `(array, len)` (its capacity is the length
of the array's cell list — all slices here start at offset 0, the code only uses `s[:0]` and
`append`), `append` writes **in place** when `len < cap` and copies to a new array otherwise, and
`Get` hands back a previously `Put` slice *with the stale length it was put with* (`Put` stores the
slice header as is, `Get()` is not followed by `[:0]` — only the next `clear()` truncates).

Core Lean only.
-/

namespace VaxisModel.Model.ParserPools

/-- The heap of `[]rune` / `[]int` arrays: array id = index; an array = its cells up to capacity.
    (The functions below are generic in the cell type: the `[][]int` arrays of `csi.Parameters`
    have slice headers as cells.) -/
abbrev Heap := List (List Nat)

/-- Cells of array `a` (an id that was never allocated has no cells). -/
def cells {α : Type} (h : List (List α)) (a : Nat) : List α := h[a]?.getD []

/-- `arr[i] = v` (in place). -/
def write {α : Type} (h : List (List α)) (a i : Nat) (v : α) : List (List α) :=
  h.set a ((cells h a).set i v)

/-- The new array of a growing `append(s, r)`: cells `[0,len)` copied, `r` at `len`, zero values up
    to the new capacity `newcap` (≥ len+1, checked by the step). -/
def grow {α : Type} [Inhabited α] (old : List α) (len : Nat) (r : α) (newcap : Nat) : List α :=
  old.take len ++ [r] ++ List.replicate (newcap - (len + 1)) default

/-- A Go slice header over array `arr`, offset 0. -/
structure Slice where
  arr : Nat
  len : Nat
  deriving DecidableEq, Repr, Inhabited

/-- A delivered sequence's `Intermediate` slice; `snap` is a ghost field: the cells `[0,len)` at the
    moment of delivery. -/
structure Deliv where
  s : Slice
  snap : List Nat
  deriving DecidableEq, Repr, Inhabited

structure St where
  heap : Heap := []
  /-- `p.intermediate`; `none` = the nil slice (initial value). -/
  cur : Option Slice := none
  /-- slices sitting in `intermediatePool` (with the length they were `Put` with) -/
  pool : List Slice := []
  /-- sequences delivered (or pending in `p.dcs`) and not yet handed back with `Finish` -/
  delivered : List Deliv := []
  deriving DecidableEq, Repr, Inhabited

def St.init : St := {}

inductive Label
  /-- `collect(r)`; `newcap` is the capacity Go's `append` picks *if* it has to grow
      (any value ≥ len+1; ignored when the write is in place). -/
  | collect (r newcap : Nat)
  | clear
  /-- `escapeDispatch`/`csiDispatch`/`hook` with `len(p.intermediate) > 0`; `Get()` returns the
      pooled slice number `g` (`some g`) or a new `make([]rune, 0, 2)` (`none`). -/
  | dispatch (g : Option Nat)
  /-- the consumer calls `Finish` on delivered sequence number `k` -/
  | finish (k : Nat)
  deriving DecidableEq, Repr, Inhabited

/-- `getOnDispatch = true` is the code; `false` is the variant in which the dispatch functions do
    not replace `p.intermediate` (used to show that the theorem is about aliasing).
    `putTwice = false` is the assumption on the consumer (`Finish` at most once per sequence);
    `true` is the variant in which a sequence is handed back twice. -/
structure Cfg where
  getOnDispatch : Bool := true
  putTwice : Bool := false
  deriving DecidableEq, Repr, Inhabited

def Cfg.code : Cfg := {}
def Cfg.noGet : Cfg := { getOnDispatch := false }
def Cfg.finishTwice : Cfg := { putTwice := true }

def step (c : Cfg) (s : St) : Label → Option St
  | .collect r newcap =>
    match s.cur with
    | none =>
      -- append(nil, r): a new array
      if 1 ≤ newcap then
        some { s with heap := s.heap ++ [grow [] 0 r newcap], cur := some ⟨s.heap.length, 1⟩ }
      else none
    | some sl =>
      if sl.len < (cells s.heap sl.arr).length then
        -- room left: the cell is written in place — every slice over this array sees it
        some { s with heap := write s.heap sl.arr sl.len r, cur := some ⟨sl.arr, sl.len + 1⟩ }
      else if sl.len + 1 ≤ newcap then
        some { s with heap := s.heap ++ [grow (cells s.heap sl.arr) sl.len r newcap],
                      cur := some ⟨s.heap.length, sl.len + 1⟩ }
      else none
  | .clear => some { s with cur := s.cur.map fun sl => { sl with len := 0 } }
  | .dispatch g =>
    match s.cur with
    | none => none                               -- len(nil) = 0: nothing is transferred
    | some sl =>
      if sl.len = 0 then none else
      let d : Deliv := ⟨sl, (cells s.heap sl.arr).take sl.len⟩
      if c.getOnDispatch then
        match g with
        | none =>
          some { s with heap := s.heap ++ [List.replicate 2 0], cur := some ⟨s.heap.length, 0⟩,
                        delivered := d :: s.delivered }
        | some k =>
          match s.pool[k]? with
          | none => none
          | some p => some { s with cur := some p, pool := s.pool.eraseIdx k, delivered := d :: s.delivered }
      else some { s with delivered := d :: s.delivered }
  | .finish k =>
    match s.delivered[k]? with
    | none => none
    | some d =>
      some { s with pool := if c.putTwice then d.s :: d.s :: s.pool else d.s :: s.pool,
                    delivered := s.delivered.eraseIdx k }

def run (c : Cfg) : St → List Label → Option St
  | s, [] => some s
  | s, l :: ls =>
    match step c s l with
    | none => none
    | some s' => run c s' ls

/-- What a consumer holding `d` reads now. -/
def Deliv.now (h : Heap) (d : Deliv) : List Nat := (cells h d.s.arr).take d.s.len

/-- Bool observer: all delivered, unfinished sequences still read what they read at delivery. -/
def allIntact (s : St) : Bool := s.delivered.all fun d => d.now s.heap == d.snap

/-- ESC `A` F (delivered as #A over array 0), ESC `B` `C` F (delivered as #B over array 1),
    `Finish(#A)`, ESC `D` F with `Get()` returning #A's slice — with its stale `len = 1` —,
    ESC (`clear`) `E`: the `E` is written in place into array 0. -/
def reuseTrace : List Label :=
  [.collect 65 1, .dispatch none,
   .clear, .collect 66 0, .collect 67 0, .dispatch none,
   .finish 1,
   .clear, .collect 68 0, .dispatch (some 0),
   .clear, .collect 69 0]

/-! ## `paramPool` / `paramListPool` (`csiDispatch`, `Finish(CSI)`)

    csi.Parameters = p.paramListPool.Get()[:0]          -- begin
    param := p.paramPool.Get()[:0]                      -- get
    for … { case ';': param = append(param, ps)         -- app
                      csi.Parameters = append(csi.Parameters, param)   -- push
                      param = p.paramPool.Get()[:0]     -- get
            case ':': param = append(param, ps) … }     -- app
    param = append(param, ps)                           -- app
    csi.Parameters = append(csi.Parameters, param)      -- push
    p.emit(csi)                                         -- emit

    Finish: for _, param := range seq.Parameters { p.paramPool.Put(param) }
            p.paramListPool.Put(seq.Parameters)

`csi.Parameters` is a slice of slices: the cells of a `[][]int` array are slice *headers* over
`[]int` arrays, so two heaps.  The parser goroutine runs `csiDispatch` while the consumer goroutine
may call `Finish` on sequences it holds: the `Get`s of one dispatch and the `Put`s of one `Finish`
are separate steps which interleave freely (several `Finish` calls may be in progress, too). -/

/-- A delivered CSI's `Parameters`; `snap` is a ghost field: the parameter values read through the
    slice at the moment of delivery. -/
structure PDeliv where
  l : Slice
  snap : List (List Nat)
  deriving DecidableEq, Repr, Inhabited

structure PSt where
  /-- `[]int` arrays -/
  pheap : List (List Nat) := []
  /-- `[][]int` arrays: cells are slice headers over `pheap` -/
  lheap : List (List Slice) := []
  /-- `paramPool` (slices with the length they were `Put` with) -/
  ppool : List Slice := []
  /-- `paramListPool` -/
  lpool : List Slice := []
  /-- locals of a running `csiDispatch`: `csi.Parameters` and `param` (`none` once it has been
      appended to the list and before the next `Get`) -/
  work : Option (Slice × Option Slice) := none
  delivered : List PDeliv := []
  /-- `Finish` calls in progress: the sequence's `Parameters` header and the loop index -/
  fin : List (Slice × Nat) := []
  deriving DecidableEq, Repr, Inhabited

def PSt.init : PSt := {}

/-- The headers seen through a `[][]int` slice. -/
def hdrs (lh : List (List Slice)) (l : Slice) : List Slice := (cells lh l.arr).take l.len

/-- The values seen through a `[][]int` slice. -/
def readParams (ph : List (List Nat)) (lh : List (List Slice)) (l : Slice) : List (List Nat) :=
  (hdrs lh l).map fun h => (cells ph h.arr).take h.len

inductive PLabel
  /-- `csi.Parameters = paramListPool.Get()[:0]` (pooled slice number `gl`, or a new `make([][]int, 0, 4)`) -/
  | begin (gl : Option Nat)
  /-- `param = paramPool.Get()[:0]` (pooled slice number `gp`, or a new `make([]int, 0, 6)`) -/
  | get (gp : Option Nat)
  /-- `param = append(param, v)` (`newcap`: capacity picked if it has to grow) -/
  | app (v newcap : Nat)
  /-- `csi.Parameters = append(csi.Parameters, param)` -/
  | push (newcap : Nat)
  /-- `p.emit(csi)` (all params pushed) -/
  | emit
  /-- the consumer calls `Finish` on delivered CSI number `k` (from now on it is not "held") -/
  | finish (k : Nat)
  /-- the next `Put` of the `Finish` call number `j` in progress: `paramPool.Put(seq.Parameters[i])`
      while `i < len`, then `paramListPool.Put(seq.Parameters)` which ends the call -/
  | finPut (j : Nat)
  deriving DecidableEq, Repr, Inhabited

def pstep (s : PSt) : PLabel → Option PSt
  | .begin gl =>
    match s.work with
    | some _ => none
    | none =>
      match gl with
      | none =>
        some { s with lheap := s.lheap ++ [List.replicate 4 default], work := some (⟨s.lheap.length, 0⟩, none) }
      | some k =>
        match s.lpool[k]? with
        | none => none
        | some l => some { s with lpool := s.lpool.eraseIdx k, work := some (⟨l.arr, 0⟩, none) }
  | .get gp =>
    match s.work with
    | some (l, none) =>
      match gp with
      | none =>
        some { s with pheap := s.pheap ++ [List.replicate 6 0], work := some (l, some ⟨s.pheap.length, 0⟩) }
      | some k =>
        match s.ppool[k]? with
        | none => none
        | some p => some { s with ppool := s.ppool.eraseIdx k, work := some (l, some ⟨p.arr, 0⟩) }
    | _ => none
  | .app v newcap =>
    match s.work with
    | some (l, some p) =>
      if p.len < (cells s.pheap p.arr).length then
        some { s with pheap := write s.pheap p.arr p.len v, work := some (l, some ⟨p.arr, p.len + 1⟩) }
      else if p.len + 1 ≤ newcap then
        some { s with pheap := s.pheap ++ [grow (cells s.pheap p.arr) p.len v newcap],
                      work := some (l, some ⟨s.pheap.length, p.len + 1⟩) }
      else none
    | _ => none
  | .push newcap =>
    match s.work with
    | some (l, some p) =>
      if l.len < (cells s.lheap l.arr).length then
        some { s with lheap := write s.lheap l.arr l.len p, work := some (⟨l.arr, l.len + 1⟩, none) }
      else if l.len + 1 ≤ newcap then
        some { s with lheap := s.lheap ++ [grow (cells s.lheap l.arr) l.len p newcap],
                      work := some (⟨s.lheap.length, l.len + 1⟩, none) }
      else none
    | _ => none
  | .emit =>
    match s.work with
    | some (l, none) =>
      if l.len = 0 then none else
      some { s with work := none, delivered := ⟨l, readParams s.pheap s.lheap l⟩ :: s.delivered }
    | _ => none
  | .finish k =>
    match s.delivered[k]? with
    | none => none
    | some d => some { s with delivered := s.delivered.eraseIdx k, fin := (d.l, 0) :: s.fin }
  | .finPut j =>
    match s.fin[j]? with
    | none => none
    | some (l, i) =>
      match (hdrs s.lheap l)[i]? with
      | some h => some { s with ppool := h :: s.ppool, fin := (l, i + 1) :: s.fin.eraseIdx j }
      | none => some { s with lpool := l :: s.lpool, fin := s.fin.eraseIdx j }

def prun : PSt → List PLabel → Option PSt
  | s, [] => some s
  | s, l :: ls =>
    match pstep s l with
    | none => none
    | some s' => prun s' ls

/-- What a consumer holding `d` reads now. -/
def PDeliv.now (s : PSt) (d : PDeliv) : List (List Nat) := readParams s.pheap s.lheap d.l

def pAllIntact (s : PSt) : Bool := s.delivered.all fun d => d.now s == d.snap

/-- `CSI 1;2:3 m` then `CSI 4 m`, `Finish` of the first, `CSI 5;6 m` reusing its list and both of its
    parameter arrays. -/
def pReuseTrace : List PLabel :=
  [.begin none, .get none, .app 1 0, .push 0, .get none, .app 2 0, .app 3 0, .push 0, .emit,
   .begin none, .get none, .app 4 0, .push 0, .emit,
   .finish 1, .finPut 0, .finPut 0, .finPut 0,
   .begin (some 0), .get (some 0), .app 5 0, .push 0, .get (some 0), .app 6 0, .push 0, .emit]

/-- The same with the parser running ahead of the `Finish` loop: the second parameter array is
    taken as soon as it is put, the list only at the next CSI. -/
def pReuseTrace2 : List PLabel :=
  [.begin none, .get none, .app 1 0, .push 0, .get none, .app 2 0, .app 3 0, .push 0, .emit,
   .begin none, .get none, .app 4 0,
   .finish 0, .finPut 0,
   .push 0, .emit,
   .begin none, .get (some 0), .app 5 0, .push 0,
   .finPut 0, .get (some 0), .app 6 0, .push 0, .emit, .finPut 0]

/-! ### variants of the parameter-pool discipline (for the negative witnesses only)

`PCfg.code` is `pstep`.  `keepOnEmit`: `csiDispatch` does not give the storage away at `emit` — the
`Parameters` list and every parameter slice in it are at once available to its next `Get`s (as if
they went back to `paramListPool` / `paramPool` at delivery instead of at `Finish`; the analogue of
`Cfg.noGet` for the intermediates).  `finishTwice`: the consumer hands a CSI back twice. -/

structure PCfg where
  keepOnEmit : Bool := false
  finishTwice : Bool := false
  deriving DecidableEq, Repr, Inhabited

def PCfg.code : PCfg := {}

def pstepV (c : PCfg) (s : PSt) : PLabel → Option PSt
  | .emit =>
    match pstep s .emit, s.work with
    | some s', some (l, _) =>
      if c.keepOnEmit then some { s' with lpool := l :: s'.lpool, ppool := hdrs s.lheap l ++ s'.ppool } else some s'
    | r, _ => r
  | .finish k =>
    match s.delivered[k]? with
    | none => none
    | some d =>
      if c.finishTwice then some { s with fin := (d.l, 0) :: s.fin }      -- still listed: can be finished again
      else pstep s (.finish k)
  | l => pstep s l

def prunV (c : PCfg) : PSt → List PLabel → Option PSt
  | s, [] => some s
  | s, l :: ls =>
    match pstepV c s l with
    | none => none
    | some s' => prunV c s' ls

end VaxisModel.Model.ParserPools
