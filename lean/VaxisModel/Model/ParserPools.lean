/-
C08 (deliverable B) — pool ownership over explicit backing arrays.

`ansi/parser.go` recycles the backing arrays of `p.intermediate` through `intermediatePool`
(`ansi/pool.go`, a `sync.Pool`):

    func (p *Parser) clear()          { p.intermediate = p.intermediate[:0]; … }
    func (p *Parser) collect(r rune)  { p.intermediate = append(p.intermediate, r) }
    func (p *Parser) escapeDispatch / csiDispatch / hook:
        if len(p.intermediate) > 0 { seq.Intermediate = p.intermediate
                                     p.intermediate = p.intermediatePool.Get() }
    func (p *Parser) Finish(seq)      { if seq.Intermediate != nil { p.intermediatePool.Put(seq.Intermediate) } }
    func newIntermediateSlice() []rune { return make([]rune, 0, 2) }

The abstract model `Own` (Model/ParserRun.lean) only tracks array *ids*.  Here the backing arrays
are explicit, so that aliasing is visible: a Go slice is `(array, len)` (its capacity is the length
of the array's cell list — all slices here start at offset 0, the code only uses `s[:0]` and
`append`), `append` writes **in place** when `len < cap` and copies to a new array otherwise, and
`Get` hands back a previously `Put` slice *with the stale length it was put with* (`Put` stores the
slice header as is, `Get()` is not followed by `[:0]` — only the next `clear()` truncates).

Core Lean only.
-/

namespace VaxisModel.Model.ParserPools

/-- The heap of `[]rune` / `[]int` arrays: array id = index; an array = its cells up to capacity.
    (The functions below are generic in the cell type: the `[][]int` arrays of `csi.Parameters`
    have slice headers as cells.) -/
abbrev Heap := List (List Nat)

/-- Cells of array `a` (an id that was never allocated has no cells). -/
def cells {α : Type} (h : List (List α)) (a : Nat) : List α := h[a]?.getD []

/-- `arr[i] = v` (in place). -/
def write {α : Type} (h : List (List α)) (a i : Nat) (v : α) : List (List α) :=
  h.set a ((cells h a).set i v)

/-- The new array of a growing `append(s, r)`: cells `[0,len)` copied, `r` at `len`, zero values up
    to the new capacity `newcap` (≥ len+1, checked by the step). -/
def grow {α : Type} [Inhabited α] (old : List α) (len : Nat) (r : α) (newcap : Nat) : List α :=
  old.take len ++ [r] ++ List.replicate (newcap - (len + 1)) default

/-- A Go slice header over array `arr`, offset 0. -/
structure Slice where
  arr : Nat
  len : Nat
  deriving DecidableEq, Repr, Inhabited

/-- A delivered sequence's `Intermediate` slice; `snap` is a ghost field: the cells `[0,len)` at the
    moment of delivery. -/
structure Deliv where
  s : Slice
  snap : List Nat
  deriving DecidableEq, Repr, Inhabited

structure St where
  heap : Heap := []
  /-- `p.intermediate`; `none` = the nil slice (initial value). -/
  cur : Option Slice := none
  /-- slices sitting in `intermediatePool` (with the length they were `Put` with) -/
  pool : List Slice := []
  /-- sequences delivered (or pending in `p.dcs`) and not yet handed back with `Finish` -/
  delivered : List Deliv := []
  deriving DecidableEq, Repr, Inhabited

def St.init : St := {}

inductive Label
  /-- `collect(r)`; `newcap` is the capacity Go's `append` picks *if* it has to grow
      (any value ≥ len+1; ignored when the write is in place). -/
  | collect (r newcap : Nat)
  | clear
  /-- `escapeDispatch`/`csiDispatch`/`hook` with `len(p.intermediate) > 0`; `Get()` returns the
      pooled slice number `g` (`some g`) or a new `make([]rune, 0, 2)` (`none`). -/
  | dispatch (g : Option Nat)
  /-- the consumer calls `Finish` on delivered sequence number `k` -/
  | finish (k : Nat)
  deriving DecidableEq, Repr, Inhabited

/-- `getOnDispatch = true` is the code; `false` is the variant in which the dispatch functions do
    not replace `p.intermediate` (used to show that the theorem is about aliasing). -/
structure Cfg where
  getOnDispatch : Bool := true
  deriving DecidableEq, Repr, Inhabited

def Cfg.code : Cfg := {}
def Cfg.noGet : Cfg := { getOnDispatch := false }

def step (c : Cfg) (s : St) : Label → Option St
  | .collect r newcap =>
    match s.cur with
    | none =>
      -- append(nil, r): a new array
      if 1 ≤ newcap then
        some { s with heap := s.heap ++ [grow [] 0 r newcap], cur := some ⟨s.heap.length, 1⟩ }
      else none
    | some sl =>
      if sl.len < (cells s.heap sl.arr).length then
        -- room left: the cell is written in place — every slice over this array sees it
        some { s with heap := write s.heap sl.arr sl.len r, cur := some ⟨sl.arr, sl.len + 1⟩ }
      else if sl.len + 1 ≤ newcap then
        some { s with heap := s.heap ++ [grow (cells s.heap sl.arr) sl.len r newcap],
                      cur := some ⟨s.heap.length, sl.len + 1⟩ }
      else none
  | .clear => some { s with cur := s.cur.map fun sl => { sl with len := 0 } }
  | .dispatch g =>
    match s.cur with
    | none => none                               -- len(nil) = 0: nothing is transferred
    | some sl =>
      if sl.len = 0 then none else
      let d : Deliv := ⟨sl, (cells s.heap sl.arr).take sl.len⟩
      if c.getOnDispatch then
        match g with
        | none =>
          some { s with heap := s.heap ++ [List.replicate 2 0], cur := some ⟨s.heap.length, 0⟩,
                        delivered := d :: s.delivered }
        | some k =>
          match s.pool[k]? with
          | none => none
          | some p => some { s with cur := some p, pool := s.pool.eraseIdx k, delivered := d :: s.delivered }
      else some { s with delivered := d :: s.delivered }
  | .finish k =>
    match s.delivered[k]? with
    | none => none
    | some d => some { s with pool := d.s :: s.pool, delivered := s.delivered.eraseIdx k }

def run (c : Cfg) : St → List Label → Option St
  | s, [] => some s
  | s, l :: ls =>
    match step c s l with
    | none => none
    | some s' => run c s' ls

/-- What a consumer holding `d` reads now. -/
def Deliv.now (h : Heap) (d : Deliv) : List Nat := (cells h d.s.arr).take d.s.len

/-- Bool observer: all delivered, unfinished sequences still read what they read at delivery. -/
def allIntact (s : St) : Bool := s.delivered.all fun d => d.now s.heap == d.snap

/-- ESC `A` F (delivered as #A over array 0), ESC `B` `C` F (delivered as #B over array 1),
    `Finish(#A)`, ESC `D` F with `Get()` returning #A's slice — with its stale `len = 1` —,
    ESC (`clear`) `E`: the `E` is written in place into array 0. -/
def reuseTrace : List Label :=
  [.collect 65 1, .dispatch none,
   .clear, .collect 66 0, .collect 67 0, .dispatch none,
   .finish 1,
   .clear, .collect 68 0, .dispatch (some 0),
   .clear, .collect 69 0]

end VaxisModel.Model.ParserPools
