/-
C08: the pool model of `Model/ParserPools.lean` **driven by the automaton** (round 3).  In round 2 the
explicit-array model of `p.intermediate` / `intermediatePool` had labels of its own (`collect`,
`clear`, `dispatch`, `finish`) in any order.  Here the labels come from the parser: for every input
rune the statements of the `anywhere` arm and of the state function's arm (the regenerated /
hand-written transition table, `Model/Parser.lean`) are walked in source order — with the early
`return` under `if p.ignoreST` — and every statement that touches `p.intermediate` issues the
pool-model label of what the Go method does with the slice:

    p.collect(r)                       append(p.intermediate, r)          → `collect r newcap`
    p.clear()                          p.intermediate = p.intermediate[:0] → `clear`
    p.escapeDispatch / csiDispatch / hook
        if len(p.intermediate) > 0 { seq.Intermediate = p.intermediate; p.intermediate = pool.Get() }
                                                                           → `dispatch g` (only then)

The consumer's `Finish` calls are interleaved at any point between two runes (`finish k`; the k-th
held sequence).  `Choice` = what the environment decides at a step: which pooled slice `Get` returns
(or a new one), how much extra capacity a growing `append` allocates.  Core Lean only.
-/
import VaxisModel.Model.Parser
import VaxisModel.Model.ParserPools

namespace VaxisModel.Model.ParserPoolsDrive
open VaxisModel.Model.ParserTable VaxisModel.Model.Parser VaxisModel.Model.ParserPools

/-- What `p.intermediate` reads in the pool model. -/
def contents (st : St) : List Nat :=
  match st.cur with
  | none => []
  | some sl => (cells st.heap sl.arr).take sl.len

structure Choice where
  /-- `intermediatePool.Get()` returns pooled slice number `g` (a new slice if there is none) -/
  g : Option Nat := none
  /-- extra capacity a growing `append` allocates -/
  extra : Nat := 0
  deriving DecidableEq, Repr, Inhabited

/-- The pool-model label of one statement (none: the statement does not touch `p.intermediate`, or
    the dispatch transfers nothing because the slice is empty). -/
def poolLabel (c : Choice) (st : St) (a : Act) (r : Nat) : Option Label :=
  match a with
  | .collect => some (.collect r ((match st.cur with | none => 0 | some sl => sl.len) + 1 + c.extra))
  | .clear => some .clear
  | .escapeDispatch | .csiDispatch | .hook =>
    match st.cur with
    | none => none
    | some sl =>
      if sl.len = 0 then none
      else some (.dispatch (match c.g with
                            | some k => if k < st.pool.length then some k else none
                            | none => none))
  | _ => none

/-- Walk the statements of a row as `Parser.runActs` does, issuing pool labels; result: the pool
    state and the labels issued; `none` = a pool step was not enabled. -/
def driveActs (c : Choice) : List Act → Nat → PState → St → List Label → Option (St × List Label)
  | [], _, _, st, ls => some (st, ls)
  | .retIfIgnoreST _ :: rest, r, s, st, ls => if s.ignoreST then some (st, ls) else driveActs c rest r s st ls
  | a :: rest, r, s, st, ls =>
    match poolLabel c st a r with
    | none => driveActs c rest r (applyAct a r s).1 st ls
    | some l =>
      match ParserPools.step .code st l with
      | none => none
      | some st' => driveActs c rest r (applyAct a r s).1 st' (ls ++ [l])

/-- One input rune: `anywhere(r, p)`, then — if it passes the rune on — the state function. -/
def driveRune (T : Table) (c : Choice) (s : PState) (st : St) (r : Nat) : Option (St × List Label) :=
  match driveActs c (T.anywhere.row (.rune r)).1 r s st [] with
  | none => none
  | some (st1, l1) =>
    match (runFn T.anywhere (.rune r) s).2.2 with
    | .dispatch =>
      let s1 := (runFn T.anywhere (.rune r) s).1
      driveActs c ((T.fn s1.state).row (.rune r)).1 r s1 st1 l1
    | _ => some (st1, l1)

inductive DLabel
  | rune (r : Nat) (c : Choice)   -- the parser reads a rune
  | finish (k : Nat)              -- the consumer hands back the k-th sequence it holds (no-op if there is none)
  deriving DecidableEq, Repr, Inhabited

structure DSt where
  ps : PState := {}
  pool : St := {}
  /-- everything delivered on the channel so far -/
  out : List Seq := []
  /-- the pool-model labels issued so far -/
  trace : List Label := []
  deriving Repr, Inhabited

def DSt.init : DSt := {}

def dstep (T : Table) (d : DSt) : DLabel → Option DSt
  | .rune r c =>
    match driveRune T c d.ps d.pool r with
    | none => none
    | some (st', ls) =>
      let o := Parser.step T d.ps (.rune r)
      some { ps := o.st, pool := st', out := d.out ++ o.out, trace := d.trace ++ ls }
  | .finish k =>
    match ParserPools.step .code d.pool (.finish k) with
    | none => some d
    | some st' => some { d with pool := st', trace := d.trace ++ [.finish k] }

def drun (T : Table) : DSt → List DLabel → Option DSt
  | d, [] => some d
  | d, l :: ls =>
    match dstep T d l with
    | none => none
    | some d' => drun T d' ls

end VaxisModel.Model.ParserPoolsDrive
