/-
C08: the pool model of `Model/ParserPools.lean` **driven by the automaton** (round 3).  In round 2 the
explicit-array model of `p.intermediate` / `intermediatePool` had labels of its own (`collect`,
`clear`, `dispatch`, `finish`) in any order.  Here the labels come from the parser: for every input
rune the statements of the `anywhere` arm and of the state function's arm (the regenerated /
hand-written transition table, `Model/Parser.lean`) are walked in source order — with the early
`return` under `if p.ignoreST` — and every statement that touches `p.intermediate` issues the
pool-model label of what the Go method does with the slice:

    p.collect(r)                       append(p.intermediate, r)          → `collect r newcap`
    p.clear()                          p.intermediate = p.intermediate[:0] → `clear`
    p.escapeDispatch / csiDispatch / hook
        if len(p.intermediate) > 0 { seq.Intermediate = p.intermediate; p.intermediate = pool.Get() }
                                                                           → `dispatch g` (only then)

The consumer's `Finish` calls are interleaved at any point between two runes (`finish k`; the k-th
held sequence).  `Choice` = what the environment decides at a step: which pooled slice `Get` returns
(or a new one), how much extra capacity a growing `append` allocates.  Core Lean only.
-/
import VaxisModel.Model.Parser
import VaxisModel.Model.ParserPools

namespace VaxisModel.Model.ParserPoolsDrive
open VaxisModel.Model.ParserTable VaxisModel.Model.Parser VaxisModel.Model.ParserPools

/-- What `p.intermediate` reads in the pool model. -/
def contents (st : St) : List Nat :=
  match st.cur with
  | none => []
  | some sl => (cells st.heap sl.arr).take sl.len

structure Choice where
  /-- `intermediatePool.Get()` returns pooled slice number `g` (a new slice if there is none) -/
  g : Option Nat := none
  /-- extra capacity a growing `append` allocates -/
  extra : Nat := 0
  deriving DecidableEq, Repr, Inhabited

/-- The pool-model label of one statement (none: the statement does not touch `p.intermediate`, or
    the dispatch transfers nothing because the slice is empty). -/
def poolLabel (c : Choice) (st : St) (a : Act) (r : Nat) : Option Label :=
  match a with
  | .collect => some (.collect r ((match st.cur with | none => 0 | some sl => sl.len) + 1 + c.extra))
  | .clear => some .clear
  | .escapeDispatch | .csiDispatch | .hook =>
    match st.cur with
    | none => none
    | some sl =>
      if sl.len = 0 then none
      else some (.dispatch (match c.g with
                            | some k => if k < st.pool.length then some k else none
                            | none => none))
  | _ => none

/-- Ghost record of one hand-over: what the automaton's `p.intermediate` (the list `inter` of
    `Model/Parser.lean`, which goes into the `ESC`/`CSI`/`DCS` value built by the statement) reads at a
    dispatch that transfers the slice, and what the pool model's slice reads there (= the snapshot of
    the delivered record: `Props.C08Pools.snapshot_taken_at_delivery`). -/
structure View where
  auto : List Nat
  slice : List Nat
  deriving DecidableEq, Repr, Inhabited

/-- The accumulated result of walking statements: pool state, labels issued, hand-overs seen. -/
structure Acc where
  st : St := {}
  ls : List Label := []
  views : List View := []
  deriving Repr, Inhabited

def isDispatchLabel : Label → Bool
  | .dispatch _ => true
  | _ => false

/-- Walk the statements of a row as `Parser.runActs` does, issuing pool labels; `none` = a pool step
    was not enabled. -/
def driveActs (c : Choice) : List Act → Nat → PState → Acc → Option Acc
  | [], _, _, acc => some acc
  | .retIfIgnoreST _ :: rest, r, s, acc => if s.ignoreST then some acc else driveActs c rest r s acc
  | a :: rest, r, s, acc =>
    match poolLabel c acc.st a r with
    | none => driveActs c rest r (applyAct a r s).1 acc
    | some l =>
      match ParserPools.step .code acc.st l with
      | none => none
      | some st' =>
        driveActs c rest r (applyAct a r s).1
          { st := st', ls := acc.ls ++ [l],
            views := if isDispatchLabel l then acc.views ++ [⟨s.inter, contents acc.st⟩] else acc.views }

/-- One input rune: `anywhere(r, p)`, then — if it passes the rune on — the state function. -/
def driveRune (T : Table) (c : Choice) (s : PState) (acc : Acc) (r : Nat) : Option Acc :=
  match driveActs c (T.anywhere.row (.rune r)).1 r s acc with
  | none => none
  | some acc1 =>
    match (runFn T.anywhere (.rune r) s).2.2 with
    | .dispatch =>
      let s1 := (runFn T.anywhere (.rune r) s).1
      driveActs c ((T.fn s1.state).row (.rune r)).1 r s1 acc1
    | _ => some acc1

inductive DLabel
  | rune (r : Nat) (c : Choice)   -- the parser reads a rune
  | finish (k : Nat)              -- the consumer hands back the k-th sequence it holds (no-op if there is none)
  deriving DecidableEq, Repr, Inhabited

structure DSt where
  ps : PState := {}
  /-- pool state, the pool-model labels issued so far, the hand-overs so far -/
  acc : Acc := {}
  /-- everything delivered on the channel so far -/
  out : List Seq := []
  deriving Repr, Inhabited

def DSt.init : DSt := {}
abbrev DSt.pool (d : DSt) : St := d.acc.st
abbrev DSt.trace (d : DSt) : List Label := d.acc.ls

def dstep (T : Table) (d : DSt) : DLabel → Option DSt
  | .rune r c =>
    match driveRune T c d.ps d.acc r with
    | none => none
    | some acc' =>
      let o := Parser.step T d.ps (.rune r)
      some { ps := o.st, acc := acc', out := d.out ++ o.out }
  | .finish k =>
    match ParserPools.step .code d.acc.st (.finish k) with
    | none => some d
    | some st' => some { d with acc := { d.acc with st := st', ls := d.acc.ls ++ [.finish k] } }

def drun (T : Table) : DSt → List DLabel → Option DSt
  | d, [] => some d
  | d, l :: ls =>
    match dstep T d l with
    | none => none
    | some d' => drun T d' ls

end VaxisModel.Model.ParserPoolsDrive
