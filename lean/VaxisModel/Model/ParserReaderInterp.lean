/-
An interpreter for the statement skeletons of the reading side of ansi/parser.go —
`Parser.readRune` and `Parser.print` as regenerated into `Gen/ParserReader.lean` (vocabulary:
`Model/ParserReaderSk.lean`) — over the reader model of `Model/ParserIO.lean`.

`Props.C02Text.readRune_body_eq_model` / `print_body_eq_model` prove that interpreting the bodies
regenerated from the source on this run gives exactly the model functions `ParserIO.readRune` /
`ParserIO.printLoop` (which every theorem about the reading side is stated over), for every reader
state; so the statements are not only pinned but *executed*: the correspondence driver runs
`runChunksI` on the regenerated bodies (`reader_interpreted_eq_model`: = `ParserIO.runChunks`), so a
source change that alters the meaning shows in the correspondence run with whatever was extracted,
and breaks exactly these two theorems (they are proved by evaluating this interpreter on the
regenerated lists — there is no hand copy — so a reordering with the same meaning keeps them).

bufio is modelled as far as these two functions use it: `ReadRune` (fill loop + `utf8.DecodeRune`,
`ParserIO.Rd.fill` / `decodeRune`), `UnreadRune` (allowed once after a `ReadRune`: the reader
state before that read is restored), `ReadByte`, `Buffered() > 0`.  uniseg is a parameter:
`cl` = number of runes of the first grapheme cluster of the text that starts with the rune being
printed (so `FirstGraphemeClusterInString(b)` splits the builder `b` at `cl` runes), `wd g` = the
width it reports for the cluster `g`, `sw g` = `uniseg.StringWidth(g)`.  Core Lean only.
-/
import VaxisModel.Model.ParserIO
import VaxisModel.Model.ParserReaderSk

namespace VaxisModel.Model.ParserReaderInterp
open VaxisModel.Model.Parser VaxisModel.Model.ParserIO VaxisModel.Model.ParserReaderSk

/-- `bufio.Reader` as these functions see it: the reader model and, while `UnreadRune` is allowed
    (`lastRuneSize ≥ 0`), the reader state before the last `ReadRune`. -/
structure BR where
  rd : Rd
  last : Option Rd := none
  deriving Inhabited

/-- `p.r.ReadRune()`: (rune, size, err ≠ nil). -/
def readRuneB (b : BR) : (Rune × Nat × Bool) × BR :=
  let rd := b.rd.fill
  match rd.buf with
  | [] => ((0, 0, true), ⟨rd, none⟩)
  | _ :: _ => ((( decodeRune rd.buf).1, (decodeRune rd.buf).2, false), ⟨rd.consume (decodeRune rd.buf).2, some rd⟩)

/-- `p.r.UnreadRune()`: none = `ErrInvalidUnreadRune`. -/
def unreadRuneB (b : BR) : Option BR := b.last.map fun rd0 => ⟨rd0, none⟩

/-- `p.r.ReadByte()` on a non-empty buffer (the only way these functions call it: right after an
    `UnreadRune`); none = error. -/
def readByteB (b : BR) : Option (Nat × BR) :=
  match b.rd.buf with
  | [] => none
  | b0 :: _ => some (b0, ⟨b.rd.consume 1, none⟩)

/-! ### readRune -/

/-- Locals of `readRune`. -/
structure RR where
  b : BR
  r : Rune := 0
  size : Nat := 0
  err : Bool := false
  deriving Inhabited

/-- Run the statements of `readRune`.  Result: none = a statement outside the vocabulary of this
    function (or the end of the body without `return`); some (none, rd) = `return eof`. -/
def interpRead : List RStmt → RR → Option (Option Rune × Rd)
  | [], _ => none
  | .readRune :: rest, st =>
    let res := readRuneB st.b
    interpRead rest { b := res.2, r := res.1.1, size := res.1.2.1, err := res.1.2.2 }
  | .stopTimer :: rest, st => interpRead rest st
  | .fallback size1 :: rest, st =>
    if st.r = runeError && (!size1 || st.size = 1) then
      match unreadRuneB st.b with
      | none => some (none, st.b.rd)                       -- err = UnreadRune(); err != nil ⇒ return eof
      | some b1 =>
        match readByteB b1 with
        | none => some (none, b1.rd)                       -- b, err := ReadByte(); err != nil ⇒ return eof
        | some (x, b2) => interpRead rest { st with b := b2, r := x, err := false }   -- r = rune(b); outer err = nil
    else interpRead rest st
  | .retEofOnErr :: rest, st => if st.err then some (none, st.b.rd) else interpRead rest st
  | .retRune :: _, st => some (some st.r, st.b.rd)
  | _ :: _, _ => none

/-- `Parser.readRune` as the source says it, on a reader state. -/
def readRuneI (body : List RStmt) (rd : Rd) : Option (Option Rune × Rd) := interpRead body { b := ⟨rd, none⟩ }

/-! ### print -/

/-- Locals of `print`. -/
structure PR where
  b : BR
  bldr : List Rune := []
  grapheme : List Rune := []
  restNonEmpty : Bool := false
  w : Nat := 0
  next : Rune := 0
  size : Nat := 0
  deriving Inhabited

/-- One pass through the body of the `for p.r.Buffered() > 0 { … }` loop.  Result: none = not
    interpretable; some (st, true) = left by `break`. -/
def loopBody (cl : Nat) (wd : List Rune → Nat) : List RStmt → PR → Option (PR × Bool)
  | [], st => some (st, false)
  | .peekRune :: rest, st =>
    let res := readRuneB st.b
    loopBody cl wd rest { st with b := res.2, next := res.1.1, size := 0 }      -- size is `_`: not available
  | .peekRuneSized :: rest, st =>
    let res := readRuneB st.b
    loopBody cl wd rest { st with b := res.2, next := res.1.1, size := res.1.2.1 }
  | .ifInvalidUnreadBreak :: rest, st =>
    if st.next = runeError && st.size = 1 then
      match unreadRuneB st.b with
      | none => some (st, true)                            -- the error of UnreadRune is ignored
      | some b1 => some ({ st with b := b1 }, true)
    else loopBody cl wd rest st
  | .writeNext :: rest, st => loopBody cl wd rest { st with bldr := st.bldr ++ [st.next] }
  | .firstCluster :: rest, st =>
    loopBody cl wd rest { st with grapheme := st.bldr.take cl, restNonEmpty := decide (cl < st.bldr.length),
                                  w := wd (st.bldr.take cl) }
  | .ifRestUnreadBreak :: rest, st =>
    if st.restNonEmpty then
      match unreadRuneB st.b with
      | none => some (st, true)
      | some b1 => some ({ st with b := b1 }, true)
    else loopBody cl wd rest st
  | _ :: _, _ => none

/-- `for p.r.Buffered() > 0 { body }`. -/
def whileBuffered (cl : Nat) (wd : List Rune → Nat) (body : List RStmt) : Nat → PR → Option PR
  | 0, st => some st
  | fuel + 1, st =>
    if st.b.rd.buf.isEmpty then some st
    else match loopBody cl wd body st with
      | none => none
      | some (st', true) => some st'
      | some (st', false) => whileBuffered cl wd body fuel st'

/-- Split a statement list at the first occurrence of `x`: (statements before, statements after). -/
def splitAtStmt (x : RStmt) : List RStmt → Option (List RStmt × List RStmt)
  | [] => none
  | s :: rest => if s = x then some ([], rest) else (splitAtStmt x rest).map fun p => (s :: p.1, p.2)

/-- The three parts of the body of `print`: the statements in front of `for p.r.Buffered() > 0 {`, the
    body of the loop, the statements after `}` (purely syntactic). -/
def splitWhile (body : List RStmt) : Option (List RStmt × List RStmt × List RStmt) :=
  match splitAtStmt .whileBuffered body with
  | none => none
  | some (pre, rest) =>
    match splitAtStmt .endWhile rest with
    | none => none
    | some (loop, post) => some (pre, loop, post)

def preOf (body : List RStmt) : List RStmt := ((splitWhile body).getD ([], [], [])).1
def loopOf (body : List RStmt) : List RStmt := ((splitWhile body).getD ([], [], [])).2.1
def postOf (body : List RStmt) : List RStmt := ((splitWhile body).getD ([], [], [])).2.2

/-- The statements of `print(r)` in front of the loop. -/
def prePhase (r : Rune) : List RStmt → PR → Option PR
  | [], st => some st
  | .newBuilder :: rest, st => prePhase r rest { st with bldr := [] }
  | .writeFirst :: rest, st => prePhase r rest { st with bldr := st.bldr ++ [r] }
  | .declLocals :: rest, st => prePhase r rest { st with grapheme := st.bldr, restNonEmpty := false, w := 0 }
  | _ :: _, _ => none

/-- The statements after the loop: the `Print` emitted (grapheme, width) and the reader afterwards. -/
def postPhase (sw : List Rune → Nat) : List RStmt → PR → Option (List Rune × Nat × Rd)
  | [], _ => none
  | .measureIfZero :: rest, st => postPhase sw rest (if st.w = 0 then { st with w := sw st.grapheme } else st)
  | .emitPrint :: _, st => some (st.grapheme, st.w, st.b.rd)
  | _ :: _, _ => none

/-- Run the statements of `print(r)`.  Result: the `Print` emitted (grapheme, width) and the reader
    afterwards; none = not interpretable. -/
def interpPrint (cl : Nat) (wd sw : List Rune → Nat) (fuel : Nat) (r : Rune) (body : List RStmt) (rd : Rd) :
    Option (List Rune × Nat × Rd) :=
  if (splitWhile body).isNone then none
  else
    match prePhase r (preOf body) { b := ⟨rd, none⟩ } with
    | none => none
    | some st1 =>
      match whileBuffered cl wd (loopOf body) fuel st1 with
      | none => none
      | some st2 => postPhase sw (postOf body) st2

/-! ### the run loop over the interpreted bodies

`ParserIO.runLoop` with `readRune` / `print` replaced by the interpretation of statement skeletons
(`rbody`, `pbody` — the driver passes the bodies regenerated from the source).  `none` = a body could
not be interpreted.  Widths are not part of the delivered items here (`Props.C02Text.print_width`). -/

def deliverI (pbody : List RStmt) (clusterAt : Nat → Nat) (startPos : Nat) : List Seq → Rd → Option (List Item × Rd)
  | [], rd => some ([], rd)
  | .print r :: rest, rd =>
    match interpPrint (max 1 (clusterAt startPos)) (fun _ => 0) (fun _ => 0) (rd.remaining + 1) r pbody rd with
    | none => none
    | some (g, _, rd') =>
      match deliverI pbody clusterAt startPos rest rd' with
      | none => none
      | some (items, rd'') => some (.print g :: items, rd'')
  | s :: rest, rd =>
    match deliverI pbody clusterAt startPos rest rd with
    | none => none
    | some (items, rd') => some (.seq s :: items, rd')

def runLoopI (rbody pbody : List RStmt) (T : VaxisModel.Model.Parser.Table) (clusterAt : Nat → Nat) : Nat → PState → Rd → Option (List Item)
  | 0, _, _ => some [.seq .panic]
  | fuel + 1, s, rd =>
    let start := rd.pos
    match readRuneI rbody rd with
    | none => none
    | some (none, _) =>
      let o := step T s .eof
      some (o.out.map .seq ++ [.seq .eof])
    | some (some r, rd1) =>
      let o := step T s (.rune r)
      match deliverI pbody clusterAt start o.out rd1 with
      | none => none
      | some (items, rd2) =>
        if o.stop then some (items ++ [.seq .eof])
        else match runLoopI rbody pbody T clusterAt fuel o.st rd2 with
          | none => none
          | some more => some (items ++ more)

/-- Everything delivered for a stream split into the given reads, executing the given bodies. -/
def runChunksI (rbody pbody : List RStmt) (T : VaxisModel.Model.Parser.Table) (clusterAt : Nat → Nat) (chunks : List (List Byte)) :
    Option (List Item) :=
  let chunks := chunks.filter (!·.isEmpty)
  let rd : Rd := { buf := [], chunks := chunks }
  runLoopI rbody pbody T clusterAt (rd.remaining + 2) PState.init rd

end VaxisModel.Model.ParserReaderInterp
