/-
Vocabulary for the statement skeletons of the reading side of ansi/parser.go — `Parser.readRune`,
`Parser.print`, `Parser.emit` — regenerated into `Gen/ParserReader.lean` on every run.  There is no hand copy of the bodies: the
regenerated statement lists are *interpreted* (`Model/ParserReaderInterp.lean`) and
`Props.C02Text.readRune_body_eq_model` / `print_body_eq_model` prove that the interpretation is the
model (`Model/ParserIO.lean`: `readRune`, `printLoop`); `reader_skeleton_recognised` says that every
statement was recognised.  Core Lean only.
-/
namespace VaxisModel.Model.ParserReaderSk

inductive RStmt
  -- readRune
  | readRune                 -- r, size, err := p.r.ReadRune()            (ParserIO: `Rd.fill`, `decodeRune`)
  | stopTimer                -- if p.escTimeout != nil { p.escTimeout.Stop() }   (C08)
  | fallback (size1 : Bool)  -- if r == ReplacementChar [&& size == 1] { UnreadRune; ReadByte; r = rune(b) }
                             --   (errors ⇒ eof)                          (ParserIO.readRune: `(some b0, consume 1)`)
  | retEofOnErr              -- if err != nil { return eof }
  | retRune                  -- return r
  -- print
  | newBuilder               -- bldr := strings.Builder{}
  | writeFirst               -- bldr.WriteRune(r)                         (printLoop: `acc = [r]`)
  | declLocals               -- var ( rest string; grapheme = bldr.String(); w int )
  | whileBuffered            -- for p.r.Buffered() > 0 {              (printLoop: `rd.buf.isEmpty`)
  | endWhile                 -- }
  | peekRune                 -- nextRune, _, _ := p.r.ReadRune()          (the shape before F102d was repaired)
  | peekRuneSized            -- nextRune, size, _ := p.r.ReadRune()
  | ifInvalidUnreadBreak     -- if nextRune == unicode.ReplacementChar && size == 1 { p.r.UnreadRune(); break }
                             --   (printLoop: the look-ahead stops in front of an invalid byte; F102d repaired)
  | writeNext                -- bldr.WriteRune(nextRune)
  | firstCluster             -- grapheme, rest, w, _ = uniseg.FirstGraphemeClusterInString(bldr.String(), -1)
  | ifRestUnreadBreak        -- if rest != "" { p.r.UnreadRune(); break } (printLoop: `acc.length + 1 > cl`)
  | measureIfZero            -- if w == 0 { w = uniseg.StringWidth(grapheme) }
  | emitPrint                -- p.emit(Print{Grapheme: grapheme, Width: w})
  -- emit
  | sendSeq                  -- p.sequences <- seq
  | unknown (src : String)
  deriving DecidableEq, Repr, Inhabited

/-- A statement inside the vocabulary. -/
def RStmt.known : RStmt → Bool
  | .unknown _ => false
  | _ => true

end VaxisModel.Model.ParserReaderSk
