/-
Vocabulary for the statement skeletons of the reading side of ansi/parser.go — `Parser.readRune`,
`Parser.print`, `Parser.emit` — regenerated into `Gen/ParserReader.lean` on every run, and the
skeletons the model (`Model/ParserIO.lean`: `readRune`, `printLoop`, `deliver`) transcribes.
`Props.C02Text.reader_skeleton_recognised` pins the regenerated bodies to these.  Core Lean only.
-/
namespace VaxisModel.Model.ParserReaderSk

inductive RStmt
  -- readRune
  | readRune                 -- r, size, err := p.r.ReadRune()            (ParserIO: `Rd.fill`, `decodeRune`)
  | stopTimer                -- if p.escTimeout != nil { p.escTimeout.Stop() }   (C08)
  | fallback (size1 : Bool)  -- if r == ReplacementChar [&& size == 1] { UnreadRune; ReadByte; r = rune(b) }
                             --   (errors ⇒ eof)                          (ParserIO.readRune: `(some b0, consume 1)`)
  | retEofOnErr              -- if err != nil { return eof }
  | retRune                  -- return r
  -- print
  | newBuilder               -- bldr := strings.Builder{}
  | writeFirst               -- bldr.WriteRune(r)                         (printLoop: `acc = [r]`)
  | declLocals               -- var ( rest string; grapheme = bldr.String(); w int )
  | whileBuffered            -- for p.r.Buffered() > 0 {              (printLoop: `rd.buf.isEmpty`)
  | endWhile                 -- }
  | peekRune                 -- nextRune, _, _ := p.r.ReadRune()          (the shape before F102d was repaired)
  | peekRuneSized            -- nextRune, size, _ := p.r.ReadRune()
  | ifInvalidUnreadBreak     -- if nextRune == unicode.ReplacementChar && size == 1 { p.r.UnreadRune(); break }
                             --   (printLoop: the look-ahead stops in front of an invalid byte; F102d repaired)
  | writeNext                -- bldr.WriteRune(nextRune)
  | firstCluster             -- grapheme, rest, w, _ = uniseg.FirstGraphemeClusterInString(bldr.String(), -1)
  | ifRestUnreadBreak        -- if rest != "" { p.r.UnreadRune(); break } (printLoop: `acc.length + 1 > cl`)
  | measureIfZero            -- if w == 0 { w = uniseg.StringWidth(grapheme) }
  | emitPrint                -- p.emit(Print{Grapheme: grapheme, Width: w})
  -- emit
  | sendSeq                  -- p.sequences <- seq
  | unknown (src : String)
  deriving DecidableEq, Repr, Inhabited

/-- `readRune` as the model transcribes it; the flag is `Gen.ParserTable.fallbackOnlyInvalid`. -/
def handReadRune (size1 : Bool) : List RStmt := [.readRune, .stopTimer, .fallback size1, .retEofOnErr, .retRune]

/-- `print` as the model transcribes it. -/
def handPrint : List RStmt :=
  [.newBuilder, .writeFirst, .declLocals,
   .whileBuffered, .peekRuneSized, .ifInvalidUnreadBreak, .writeNext, .firstCluster, .ifRestUnreadBreak, .endWhile,
   .measureIfZero, .emitPrint]

def handEmit : List RStmt := [.sendSeq]

end VaxisModel.Model.ParserReaderSk
