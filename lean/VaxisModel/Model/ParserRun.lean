/-
C08: the life cycle of `ansi.Parser` as a labelled transition system — the `run` loop with its
`select` on `p.close`, the blocking read, the 10 ms Escape timer and the final `EOF{}` / close of
the channel — on top of the automaton of Model/Parser.lean; and the ownership discipline of the
slice pools (`intermediatePool`, `paramPool`, `paramListPool`).

Atomicity: one `read r` label is `ReadRune` returning + `escTimeout.Stop()` + `anywhere(r, p)`
under the mutex; `timerFire` is the whole callback (`emit(C0 0x1B)`, lock, `state = ground`).
`timerFire` is enabled only while the main goroutine is blocked in the read — the "gap well clear
of the 10 ms delay" of the property.  The interleavings in which the timer expires but its callback
goroutine runs later — after the read has returned, after further transitions, or after the loop has
ended (F29) — are the labels `timerExpire` / `cbRun`.
Emission is abstracted to the order of `emit` calls (the consumer is assumed to keep receiving;
`emit` then never blocks for ever).  Core Lean only.
-/
import VaxisModel.Model.Parser

namespace VaxisModel.Model.ParserRun
open VaxisModel.Model.ParserTable VaxisModel.Model.Parser

inductive Pc | atSelect | inRead | done
  deriving DecidableEq, Repr, Inhabited

inductive Label
  | enterRead              -- `select` takes the default arm and calls readRune (blocks in ReadRune)
  | read (r : Nat)         -- the read returns a rune; timer stopped; transition under the mutex
  | readEnd                -- the read returns io.EOF or any other error
  | timerFire              -- the Escape timer fires and its callback runs to completion while the main
                           -- goroutine is blocked in the read (gap well clear of the delay)
  | closeSig               -- another goroutine calls Close()
  | breakClose             -- `select` takes `<-p.close`
  | timerExpire            -- the timer expires: its callback goroutine is started (and may be delayed)
  | cbRun (fresh : Bool)   -- a started callback runs: the one whose ESC is still the last thing the main
                           -- goroutine did (`fresh`), or one that is out of date (F29: after further
                           -- reads, or after the loop has ended)
  deriving DecidableEq, Repr, Inhabited

/-- How the timer callback is written (regenerated from the source: `Gen.ParserTable`). -/
structure Cfg where
  /-- it also resets `ignoreST` -/
  clearsST : Bool
  /-- it runs entirely under the mutex and returns at once when a read has returned, or the loop
      has ended, since its ESC (generation check) -/
  guarded : Bool
  deriving DecidableEq, Repr, Inhabited

/-- The code as it is now (both regenerated flags are checked by `Props.C08.gen_lifecycle_constants`). -/
def Cfg.fixed : Cfg := ⟨true, true⟩
/-- The callback as it was before the repair of F29 (for the witnesses). -/
def Cfg.unguarded : Cfg := ⟨true, false⟩

structure Sys where
  ps : PState := {}
  pc : Pc := .atSelect
  armed : Bool := false        -- escTimeout is pending (not expired, not stopped)
  closeReq : Bool := false     -- a value is waiting in p.close
  chanClosed : Bool := false   -- close(p.sequences) has happened
  fresh : Bool := false        -- a callback has started and the main goroutine has not taken the mutex
                               -- since the ESC that armed it
  stale : Nat := 0             -- callbacks that have started and are out of date
  deriving DecidableEq, Repr, Inhabited

def Sys.init : Sys := {}

/-- The main goroutine takes the mutex: a started callback becomes out of date. -/
def Sys.outdate (s : Sys) : Sys := { s with fresh := false, stale := s.stale + (if s.fresh then 1 else 0) }

/-- Leaving the loop: (generation bump,) stop the timer, emit EOF, close the channel. -/
def finishing (s : Sys) (ps : PState) (out : List Seq) : Sys × List Seq :=
  ({ s.outdate with ps := ps, pc := .done, armed := false, chanClosed := true }, out ++ [.eof])

/-- Does the `anywhere` arm for this rune start the Escape timer? -/
def startsTimer (T : Table) (r : Nat) : Bool := (T.anywhere.row (.rune r)).1.contains .startTimer

/-- What the timer callback does to the parser state. -/
def timerReset (clearsST : Bool) (ps : PState) : PState :=
  { ps with state := .ground, ignoreST := if clearsST then false else ps.ignoreST }

/-- One transition; `none` = the label is not enabled.  Returns the items emitted, in order. -/
def Sys.step (T : Table) (c : Cfg) (s : Sys) : Label → Option (Sys × List Seq)
  | .closeSig => some ({ s with closeReq := true }, [])
  | .enterRead =>
    if s.pc = .atSelect ∧ s.closeReq = false then some ({ s with pc := .inRead }, []) else none
  | .breakClose =>
    if s.pc = .atSelect ∧ s.closeReq = true then some (finishing s s.ps []) else none
  | .read r =>
    if s.pc = .inRead then
      let o := Parser.step T s.ps (.rune r)
      if o.stop then some (finishing s o.st o.out)
      else some ({ s.outdate with ps := o.st, pc := .atSelect, armed := startsTimer T r }, o.out)
    else none
  | .readEnd =>
    if s.pc = .inRead then
      let o := Parser.step T s.ps .eof
      some (finishing s o.st o.out)
    else none
  | .timerFire =>
    if s.armed = true ∧ s.pc = .inRead then
      some ({ s with ps := timerReset c.clearsST s.ps, armed := false }, [.c0 0x1B])
    else none
  | .timerExpire =>
    if s.armed = true then some ({ s with armed := false, fresh := true }, []) else none
  | .cbRun true =>
    if s.fresh = true then
      some ({ s with ps := timerReset c.clearsST s.ps, fresh := false },
            [if s.chanClosed && !c.guarded then .panic else .c0 0x1B])
    else none
  | .cbRun false =>
    if 0 < s.stale then
      if c.guarded then some ({ s with stale := s.stale - 1 }, [])
      else
        -- unguarded: emits whatever has happened meanwhile (a send on the closed channel panics),
        -- then resets the state
        some ({ s with ps := timerReset c.clearsST s.ps, stale := s.stale - 1 },
              [if s.chanClosed then .panic else .c0 0x1B])
    else none

/-- Run a list of labels; `none` if one of them is not enabled. -/
def Sys.run (T : Table) (c : Cfg) : Sys → List Label → Option (Sys × List Seq)
  | s, [] => some (s, [])
  | s, l :: ls =>
    match Sys.step T c s l with
    | none => none
    | some (s1, o1) =>
      match Sys.run T c s1 ls with
      | none => none
      | some (s2, o2) => some (s2, o1 ++ o2)

/-- Labels of the delayed-callback interleavings (everything else is "gaps well clear of the delay"). -/
def Label.isRace : Label → Bool
  | .timerExpire | .cbRun _ => true
  | _ => false

/-! ### Pools: who may write to which backing array

A buffer is a natural number.  `cur` is the backing array of `p.intermediate` (none = nil slice),
`pool` the arrays sitting in `intermediatePool`, `held` the arrays referenced by sequences that were
delivered (or are pending in `p.dcs`) and not yet handed back with `Finish`.  `sync.Pool` is
modelled as "Get returns some array that was Put and not yet taken, or a new one"
(label `dispatch (some g)`: the pooled array `g`; `dispatch none`: a new one). -/

structure Own where
  cur : Option Nat := none
  pool : List Nat := []
  held : List Nat := []
  next : Nat := 0
  deriving DecidableEq, Repr, Inhabited

inductive OwnLabel
  | collect (realloc : Bool)  -- append to p.intermediate (allocates when nil or beyond capacity)
  | clear                     -- p.intermediate = p.intermediate[:0]
  | dispatch (g : Option Nat) -- len > 0: hand `cur` to the sequence; p.intermediate = pool.Get()
                              -- (some g: the pooled array g is returned; none: a new one)
  | finish (b : Nat)          -- consumer: Finish(seq) puts the sequence's array back
  deriving DecidableEq, Repr, Inhabited

/-- The array a write goes to (for `collect`), after a possible (re)allocation. -/
def Own.step (o : Own) : OwnLabel → Option (Own × Option Nat)
  | .collect realloc =>
    match o.cur, realloc with
    | some b, false => some (o, some b)                                     -- write into cur
    | _, _ => some ({ o with cur := some o.next, next := o.next + 1 }, some o.next)  -- fresh array
  | .clear => some (o, none)
  | .dispatch g =>
    match o.cur with
    | none => none                                                          -- len = 0: nothing is transferred
    | some b =>
      match g with
      | some g =>
        if g ∈ o.pool then some ({ o with cur := some g, pool := o.pool.erase g, held := b :: o.held }, none)
        else none
      | none => some ({ o with cur := some o.next, next := o.next + 1, held := b :: o.held }, none)
  | .finish b =>
    if b ∈ o.held then some ({ o with held := o.held.erase b, pool := b :: o.pool }, none) else none

def Own.run : Own → List OwnLabel → Option Own
  | o, [] => some o
  | o, l :: ls =>
    match Own.step o l with
    | none => none
    | some (o', _) => Own.run o' ls

end VaxisModel.Model.ParserRun
