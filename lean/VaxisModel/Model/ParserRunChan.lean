/-
C08 (liveness layer): the life cycle of `ansi.Parser` with the **bounded output channel** made
explicit.  In Model/ParserRun.lean emission is abstracted to "the order of the `emit` calls" (an
unbounded channel: `emit` never blocks).  Here `p.sequences = make(chan Sequence, cap)` is a queue of
at most `cap` items (`cap` = `Gen.ParserTable.chanCap`, regenerated from `NewParser`), `emit` is
`p.sequences <- seq`, which blocks while the queue is full, and the consumer (`Next()` / ranging over
the channel) is a separate process that dequeues.

State = the atomic `Sys` + three lists:

* `chan`    — the items queued in the channel, oldest first (length ≤ cap: `Lemmas.ParserRunChan`);
* `pending` — the items that the goroutine which is in the middle of an atomic step of `Sys.step`
              still has to send.  One atomic step may call `emit` several times (a `read` that
              terminates a sequence with an `exit` function pending, `readEnd` = items + `EOF`);
              the items are sent one by one.  While `pending ≠ []` that goroutine is inside `emit`;
* `recvd`   — what the consumer has received so far, oldest first.

Labels:

* `sys l`  — an atomic step `l` of `Sys.step T c`; enabled only when `pending = []`; what it emits
             becomes `pending`.  Why "only when `pending = []`" loses nothing: the main goroutine
             emits under `p.mu` (all of `anywhere`) and the timer callback runs entirely under
             `p.mu` (`Cfg.guarded`), so while one of them is blocked in `emit` the other cannot take
             a step; the final `emit(EOF{})` is outside the mutex but after the generation bump, so a
             callback that runs then returns without emitting.  The labels of other parties
             (`closeSig`, `timerExpire`) touch neither the channel nor `pending`, they commute with
             `send`/`recv`, so delaying them until the blocked `emit` has returned gives the same
             states.
* `send`   — the head of `pending` is appended to `chan`; enabled only when `chan.length < cap`
             (otherwise `emit` blocks);
* `recv`   — the consumer takes the head of `chan`; enabled when `chan ≠ []`.

`close(p.sequences)` is part of the final atomic step (`finishing`: `chanClosed := true`) which also
emits `EOF`; in this layer the close takes effect once `pending` has been drained
(`CSys.closedNow`): Go's `close` comes after `emit(EOF{})` has returned, and a closed channel still
delivers what is queued.  Core Lean only.
-/
import VaxisModel.Model.ParserRun

namespace VaxisModel.Model.ParserRunChan
open VaxisModel.Model.ParserTable VaxisModel.Model.Parser VaxisModel.Model.ParserRun

structure CSys where
  sys : Sys := {}
  chan : List Seq := []
  pending : List Seq := []
  recvd : List Seq := []
  deriving DecidableEq, Repr, Inhabited

def CSys.init : CSys := {}

/-- An atomic state seen as a state of this layer: nothing queued, nothing received. -/
def CSys.ofSys (s : Sys) : CSys := { sys := s }

inductive CLabel
  | sys (l : Label)   -- an atomic step of the life-cycle LTS (its emits become `pending`)
  | send              -- `p.sequences <- seq` goes through (there is room)
  | recv              -- the consumer receives one item
  deriving DecidableEq, Repr, Inhabited

/-- One transition; `none` = the label is not enabled (for `send`: `emit` is blocked). -/
def CSys.step (T : Table) (c : Cfg) (cap : Nat) (s : CSys) : CLabel → Option CSys
  | .sys l =>
    match s.pending with
    | [] =>
      match Sys.step T c s.sys l with
      | none => none
      | some (s', o) => some { s with sys := s', pending := o }
    | _ :: _ => none
  | .send =>
    match s.pending with
    | [] => none
    | x :: p => if s.chan.length < cap then some { s with chan := s.chan ++ [x], pending := p } else none
  | .recv =>
    match s.chan with
    | [] => none
    | x :: ch => some { s with chan := ch, recvd := s.recvd ++ [x] }

/-- Run a list of labels; `none` if one of them is not enabled. -/
def CSys.run (T : Table) (c : Cfg) (cap : Nat) : CSys → List CLabel → Option CSys
  | s, [] => some s
  | s, l :: ls =>
    match CSys.step T c cap s l with
    | none => none
    | some s1 => CSys.run T c cap s1 ls

/-- The atomic labels of a schedule, in order. -/
def sysLabels : List CLabel → List Label
  | [] => []
  | .sys l :: ls => l :: sysLabels ls
  | _ :: ls => sysLabels ls

/-- The channel is closed as far as the consumer can tell: `close(p.sequences)` has been reached,
    i.e. the final atomic step has happened and its `emit(EOF{})` has returned. -/
def CSys.closedNow (s : CSys) : Bool := s.sys.chanClosed && s.pending.isEmpty

/-- Everything is over: the loop has ended, every item has been sent and received. -/
def CSys.finished (s : CSys) : Prop := s.sys.pc = .done ∧ s.pending = [] ∧ s.chan = []

instance (s : CSys) : Decidable s.finished := by unfold CSys.finished; infer_instance

/-- The main goroutine's script for a finite input: per rune `select → default`, the read returns
    it; then one more `select → default` and the read returns `io.EOF`. -/
def script : List Nat → List Label
  | [] => [.enterRead, .readEnd]
  | r :: rs => .enterRead :: .read r :: script rs

/-- A fair scheduler, deterministic: whenever a step is enabled one is taken, in the priority order
    `send`, `recv`, the next atomic label of the script `ls`.  (With this priority an atomic step is
    only taken when the channel is empty; the consumer is as eager as can be.)  Stops when the fuel
    is used up, when the script is finished and nothing is in flight, or when the next label of the
    script is not enabled. -/
def drive (T : Table) (c : Cfg) (cap : Nat) : Nat → CSys → List Label → CSys
  | 0, s, _ => s
  | n + 1, s, ls =>
    match CSys.step T c cap s .send with
    | some s' => drive T c cap n s' ls
    | none =>
      match CSys.step T c cap s .recv with
      | some s' => drive T c cap n s' ls
      | none =>
        match ls with
        | [] => s
        | l :: rest =>
          match CSys.step T c cap s (.sys l) with
          | some s' => drive T c cap n s' rest
          | none => s

/-- The channel of the code as it is now. -/
abbrev cap0 : Nat := Gen.ParserTable.chanCap

end VaxisModel.Model.ParserRunChan
