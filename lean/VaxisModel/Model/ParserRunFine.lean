/-
C08: the life cycle of `ansi.Parser` at the grain of single statements — no step is atomic because
"it runs under the mutex"; the mutex is a field of the state and a `Lock` is a step that is only
enabled while it is free.  `Lemmas/ParserRunFine.lean` proves that every run of this system is a run
of the atomic system of `Model/ParserRun.lean` (`Sys.step T Cfg.fixed`) with the same output.

Main goroutine (`run`, `readRune`), one step per line:

    select                      atSelect  → inRead                (default arm; only if p.close is empty)
                                atSelect  → fin stop              (`<-p.close`; break outer)
    r := ReadRune()             inRead    → readDone i            (label `readRet i`; outside the mutex)
    p.escTimeout.Stop()         readDone  → stopped               (outside the mutex; prevents a pending timer)
    p.mu.Lock()                 stopped   → locked                (enabled only while the mutex is free)
    p.escGen++                  locked    → bumped
    p.state = anywhere(r, p)    bumped    → stepped stop          (`Parser.step T`; emits; arms a timer, gen := p.escGen)
    p.mu.Unlock()               stepped   → atSelect / fin stop   (`p.state == nil`: break outer)
    p.escTimeout.Stop()         fin stop  → fin lock
    p.mu.Lock()                 fin lock  → fin bump
    p.escGen++                  fin bump  → fin unlock
    p.mu.Unlock()               fin unlock→ fin emit
    p.emit(EOF{})               fin emit  → fin close
    close(p.sequences)          fin close → done

Timer: `expire` starts the callback goroutine of the pending timer (with the generation it captured).
Callback goroutines (any number in flight), label `cb i` = the next statement of callback `i`:

    p.mu.Lock()                 started  → locked                 (enabled only while the mutex is free)
    if p.escGen != gen          locked   → passed / failed
    p.emit(C0(0x1B))            passed   → emitted                (a send on the closed channel is the item `panic`)
    p.state = ground            emitted  → stateSet
    p.ignoreST = false          stateSet → stSet
    p.mu.Unlock() (deferred)    stSet / failed → gone

`fin _ viaEof`: the flag is `p.state == nil` (the loop was left because `anywhere` returned nil, not through
`<-p.close`); no step's enabledness or effect depends on it.  `closeReq` is left set by the receive from
`p.close` (as in the atomic model): the loop never looks at `p.close` again.
Core Lean only.
-/
import VaxisModel.Model.ParserRun

namespace VaxisModel.Model.ParserRunFine
open VaxisModel.Model.ParserTable VaxisModel.Model.Parser VaxisModel.Model.ParserRun

/-- Who holds `p.mu`. -/
inductive Owner | main | cb
  deriving DecidableEq, Repr, Inhabited

/-- Program counter of one timer-callback goroutine. -/
inductive CbPc | started | locked | passed | failed | emitted | stateSet | stSet | gone
  deriving DecidableEq, Repr, Inhabited

/-- The statements after the loop. -/
inductive FinPc | stop | lock | bump | unlock | emit | close
  deriving DecidableEq, Repr, Inhabited

/-- Program counter of the main goroutine (`run`). -/
inductive MPc
  | atSelect
  | inRead
  | readDone (i : Inp)
  | stopped (i : Inp)
  | locked (i : Inp)
  | bumped (i : Inp)
  | stepped (stop : Bool)
  | fin (st : FinPc) (viaEof : Bool)
  | done
  deriving DecidableEq, Repr, Inhabited

structure FSys where
  ps : PState := {}
  escGen : Nat := 0
  mutex : Option Owner := none
  mpc : MPc := .atSelect
  armed : Option Nat := none               -- the pending timer (p.escTimeout) and the generation it captured
  cbs : List (Nat × CbPc) := []            -- callback goroutines: captured generation, program counter
  closeReq : Bool := false
  chanClosed : Bool := false
  deriving DecidableEq, Repr, Inhabited

def FSys.init : FSys := {}

inductive FLabel
  | closeSig                -- another goroutine calls Close()
  | readRet (i : Inp)       -- ReadRune returns (a rune, or io.EOF / an error)
  | main                    -- the next statement of the main goroutine (all but the read return)
  | expire                  -- the pending timer expires: its callback goroutine is started
  | cb (i : Nat)            -- the next statement of callback goroutine `i`
  deriving DecidableEq, Repr, Inhabited

/-- `anywhere(r, p)` returned nil (`eof`: first arm of the switch). -/
def stops (T : Table) (ps : PState) : Inp → Bool
  | .rune r => (Parser.step T ps (.rune r)).stop
  | .eof => true

/-- `anywhere(r, p)` calls `time.AfterFunc`. -/
def arms (T : Table) : Inp → Bool
  | .rune r => startsTimer T r
  | .eof => false

def mainStep (T : Table) (f : FSys) : Option (FSys × List Seq) :=
  match f.mpc with
  | .atSelect =>
    if f.closeReq then some ({ f with mpc := .fin .stop false }, [])
    else some ({ f with mpc := .inRead }, [])
  | .inRead => none
  | .readDone i => some ({ f with armed := none, mpc := .stopped i }, [])
  | .stopped i =>
    if f.mutex = none then some ({ f with mutex := some .main, mpc := .locked i }, []) else none
  | .locked i => some ({ f with escGen := f.escGen + 1, mpc := .bumped i }, [])
  | .bumped i =>
    let o := Parser.step T f.ps i
    some ({ f with ps := o.st, armed := if arms T i then some f.escGen else f.armed,
                   mpc := .stepped (stops T f.ps i) }, o.out)
  | .stepped stop => some ({ f with mutex := none, mpc := if stop then .fin .stop true else .atSelect }, [])
  | .fin .stop v => some ({ f with armed := none, mpc := .fin .lock v }, [])
  | .fin .lock v =>
    if f.mutex = none then some ({ f with mutex := some .main, mpc := .fin .bump v }, []) else none
  | .fin .bump v => some ({ f with escGen := f.escGen + 1, mpc := .fin .unlock v }, [])
  | .fin .unlock v => some ({ f with mutex := none, mpc := .fin .emit v }, [])
  | .fin .emit v => some ({ f with mpc := .fin .close v }, [.eof])
  | .fin .close _ => some ({ f with chanClosed := true, mpc := .done }, [])
  | .done => none

def cbStep (f : FSys) (i : Nat) : Option (FSys × List Seq) :=
  match f.cbs[i]? with
  | none => none
  | some (g, pc) =>
    match pc with
    | .started =>
      if f.mutex = none then some ({ f with mutex := some .cb, cbs := f.cbs.set i (g, .locked) }, []) else none
    | .locked =>
      some ({ f with cbs := f.cbs.set i (g, if g = f.escGen then .passed else .failed) }, [])
    | .passed =>
      some ({ f with cbs := f.cbs.set i (g, .emitted) }, [if f.chanClosed then .panic else .c0 0x1B])
    | .emitted => some ({ f with ps := { f.ps with state := .ground }, cbs := f.cbs.set i (g, .stateSet) }, [])
    | .stateSet => some ({ f with ps := { f.ps with ignoreST := false }, cbs := f.cbs.set i (g, .stSet) }, [])
    | .stSet => some ({ f with mutex := none, cbs := f.cbs.set i (g, .gone) }, [])
    | .failed => some ({ f with mutex := none, cbs := f.cbs.set i (g, .gone) }, [])
    | .gone => none

/-- One statement of one goroutine; `none` = not enabled. -/
def FSys.step (T : Table) (f : FSys) : FLabel → Option (FSys × List Seq)
  | .closeSig => some ({ f with closeReq := true }, [])
  | .readRet i => if f.mpc = .inRead then some ({ f with mpc := .readDone i }, []) else none
  | .main => mainStep T f
  | .expire =>
    match f.armed with
    | some g => some ({ f with armed := none, cbs := f.cbs ++ [(g, .started)] }, [])
    | none => none
  | .cb i => cbStep f i

def FSys.run (T : Table) : FSys → List FLabel → Option (FSys × List Seq)
  | f, [] => some (f, [])
  | f, l :: ls =>
    match FSys.step T f l with
    | none => none
    | some (f1, o1) =>
      match FSys.run T f1 ls with
      | none => none
      | some (f2, o2) => some (f2, o1 ++ o2)

/-! ### variant for the witnesses: a callback that does not compare generations

Same statements, but the check always passes (the callback as it would be with the mutex alone).
`Props/C08Fine.lean : fine_needs_generation_check` shows that the theorems about `FSys.step` do not
hold of it. -/

def cbStepNoCheck (f : FSys) (i : Nat) : Option (FSys × List Seq) :=
  match f.cbs[i]? with
  | some (g, .locked) => some ({ f with cbs := f.cbs.set i (g, .passed) }, [])
  | _ => cbStep f i

def FSys.stepNoCheck (T : Table) (f : FSys) : FLabel → Option (FSys × List Seq)
  | .cb i => cbStepNoCheck f i
  | l => FSys.step T f l

def FSys.runNoCheck (T : Table) : FSys → List FLabel → Option (FSys × List Seq)
  | f, [] => some (f, [])
  | f, l :: ls =>
    match FSys.stepNoCheck T f l with
    | none => none
    | some (f1, o1) =>
      match FSys.runNoCheck T f1 ls with
      | none => none
      | some (f2, o2) => some (f2, o1 ++ o2)

/-! ### variant for the witnesses: the callback as it was before F29 was repaired

    p.escTimeout = time.AfterFunc(10*time.Millisecond, func() {
        p.emit(C0(0x1B))          started  → emitted     (no mutex, no generation check)
        p.mu.Lock()               emitted  → locked      (enabled only while the mutex is free)
        p.state = ground          locked   → stateSet
        p.ignoreST = false        stateSet → stSet
        p.mu.Unlock()             stSet    → gone
    })

`Props/C08Fine.lean : fine_pre_F29_callback_fails` replays the three failures of F29 at the grain of
single statements. -/

def cbStepOld (f : FSys) (i : Nat) : Option (FSys × List Seq) :=
  match f.cbs[i]? with
  | some (g, .started) =>
    some ({ f with cbs := f.cbs.set i (g, .emitted) }, [if f.chanClosed then .panic else .c0 0x1B])
  | some (g, .emitted) =>
    if f.mutex = none then some ({ f with mutex := some .cb, cbs := f.cbs.set i (g, .locked) }, []) else none
  | some (g, .locked) => some ({ f with ps := { f.ps with state := .ground }, cbs := f.cbs.set i (g, .stateSet) }, [])
  | some (g, .stateSet) => some ({ f with ps := { f.ps with ignoreST := false }, cbs := f.cbs.set i (g, .stSet) }, [])
  | some (g, .stSet) => some ({ f with mutex := none, cbs := f.cbs.set i (g, .gone) }, [])
  | _ => none

def FSys.stepOld (T : Table) (f : FSys) : FLabel → Option (FSys × List Seq)
  | .cb i => cbStepOld f i
  | l => FSys.step T f l

def FSys.runOld (T : Table) : FSys → List FLabel → Option (FSys × List Seq)
  | f, [] => some (f, [])
  | f, l :: ls =>
    match FSys.stepOld T f l with
    | none => none
    | some (f1, o1) =>
      match FSys.runOld T f1 ls with
      | none => none
      | some (f2, o2) => some (f2, o1 ++ o2)

end VaxisModel.Model.ParserRunFine
