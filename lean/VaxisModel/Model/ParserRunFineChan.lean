/-
C08: the **bounded output channel on the statement-grained life cycle** (round 3).

`Model/ParserRunFine.lean` runs `run`, `readRune` and the timer callbacks one statement at a time
with the mutex as a field, but `emit` never blocks there; `Model/ParserRunChan.lean` has the bounded
channel, but on top of the atomic LTS.  Here both: `p.sequences = make(chan Sequence, cap)` is a
queue of at most `cap` items, and every `p.emit(x)` = `p.sequences <- x` of every goroutine blocks
while the queue is full — in particular a timer callback blocked in `emit(C0 0x1B)` **keeps holding
`p.mu`** (it locked it two statements earlier and unlocks it in its deferred call), and the main
goroutine blocked in an `emit` inside `anywhere` keeps holding it too.

State = the statement-grained `FSys` + `chan` (queued items) + `recvd` (what the consumer has) +
`pend`: the statement `p.state = anywhere(r, p)` may call `emit` several times (an ESC / CAN / SUB
that ends a control string: exit action, then the C0); the model executes the statement's effect on
the parser fields at once (nobody can look: the mutex is held) and keeps the items still to be sent
in `pend`; the main goroutine cannot execute its next statement (`Unlock`) before `pend` is empty.
The two other emitting statements send exactly one item (`emit(EOF{})` after the loop,
`emit(C0(0x1B))` in a callback): they are enabled only while there is room in the channel.

Labels: `stmt l` — one statement of one goroutine (`FLabel`: `main`, `cb i`, and the environment's
`closeSig`, `readRet`, `expire`); `send` — the next pending item of `anywhere` goes into the channel
(enabled while there is room); `recv` — the consumer dequeues.  Core Lean only.
-/
import VaxisModel.Model.ParserRunFine

namespace VaxisModel.Model.ParserRunFineChan
open VaxisModel.Model.ParserTable VaxisModel.Model.Parser VaxisModel.Model.ParserRun VaxisModel.Model.ParserRunFine

structure FCSys where
  f : FSys := {}
  chan : List Seq := []
  pend : List Seq := []
  recvd : List Seq := []
  deriving DecidableEq, Repr, Inhabited

def FCSys.init : FCSys := {}

inductive FCLabel
  | stmt (l : FLabel)
  | send
  | recv
  deriving DecidableEq, Repr, Inhabited

/-- The main goroutine is about to execute `p.state = anywhere(r, p)`. -/
def atAnywhere : MPc → Bool
  | .bumped _ => true
  | _ => false

def isMainL : FLabel → Bool
  | .main => true
  | _ => false

/-- One transition; `none` = not enabled (for an emitting statement: `emit` is blocked). -/
def FCSys.step (T : Table) (cap : Nat) (s : FCSys) : FCLabel → Option FCSys
  | .stmt l =>
    if isMainL l && !s.pend.isEmpty then none                -- still inside an `emit` of `anywhere`
    else
      match FSys.step T s.f l with
      | none => none
      | some (f', o) =>
        if isMainL l && atAnywhere s.f.mpc then some { s with f := f', pend := o }
        else if o.isEmpty then some { s with f := f' }
        else if s.chan.length + o.length ≤ cap then some { s with f := f', chan := s.chan ++ o }
        else none                                            -- `p.sequences <- x` blocks: channel full
  | .send =>
    match s.pend with
    | [] => none
    | x :: p => if s.chan.length < cap then some { s with chan := s.chan ++ [x], pend := p } else none
  | .recv =>
    match s.chan with
    | [] => none
    | x :: ch => some { s with chan := ch, recvd := s.recvd ++ [x] }

def FCSys.run (T : Table) (cap : Nat) : FCSys → List FCLabel → Option FCSys
  | s, [] => some s
  | s, l :: ls =>
    match FCSys.step T cap s l with
    | none => none
    | some s1 => FCSys.run T cap s1 ls

/-- The statements of a schedule, in order. -/
def stmtLabels : List FCLabel → List FLabel
  | [] => []
  | .stmt l :: ls => l :: stmtLabels ls
  | _ :: ls => stmtLabels ls

/-- Everything is over: `run` has returned, every item has been sent and received. -/
def FCSys.finished (s : FCSys) : Prop := s.f.mpc = .done ∧ s.pend = [] ∧ s.chan = []

end VaxisModel.Model.ParserRunFineChan
