/-
C08: a **fair scheduler over the statement-grained life cycle with the bounded channel**
(`FCSys` of Model/ParserRunFineChan.lean), as an executable definition with fuel.

The scheduler is deterministic once its parameter `pol : Policy` is fixed.  In every state it takes the
first *enabled* label of the candidate list

    (pol s sc).filter (allowed sc)  ++  defaults s sc

where `sc` is what the reader will still return (`List Inp`, runes then `eof`), and

    defaults s sc =  send                                   -- a pending item of `anywhere` goes into the channel
                  ,  recv                                   -- the consumer dequeues
                  ,  cb i  for every callback i that holds the mutex (in index order)
                  ,  main                                   -- the next statement of `run`
                  ,  readRet i   if sc = i :: _             -- the read returns the next scripted input
                  ,  cb i  for every i                      -- a started callback locks the mutex when it is free

`pol` is an arbitrary function of the state and the rest of the script: it says at which points the
pending timer expires (`.stmt .expire` — never in `defaults`: `pol = fun _ _ => []` is the schedule in
which no timer expires), and it may prefer any other transition as well (delay the consumer, let a
started callback race with the main goroutine, …).  What it may not do: call `Close()` (`closeSig`),
or make the read return anything but the next input of the script (`allowed`).  A choice of `pol` that
is not enabled is skipped, so the scheduler never idles while a candidate is enabled:
`Lemmas/ParserRunFineFair.lean` proves that every transition it takes decreases a measure and that it
stops only when everything is over.  Core Lean only.
-/
import VaxisModel.Model.ParserRunFineChan

namespace VaxisModel.Model.ParserRunFineFair
open VaxisModel.Model.ParserTable VaxisModel.Model.Parser VaxisModel.Model.ParserRun VaxisModel.Model.ParserRunFine
open VaxisModel.Model.ParserRunFineChan

/-- The callback goroutine is between its `Lock` and its `Unlock`. -/
def holdsCb : CbPc → Bool
  | .started | .gone => false
  | _ => true

/-- What the scheduler may take: everything but `Close()`; the read returns the next scripted input. -/
def allowed (sc : List Inp) : FCLabel → Bool
  | .stmt .closeSig => false
  | .stmt (.readRet i) => decide (sc.head? = some i)
  | _ => true

/-- The rest of the script after a transition. -/
def consume (sc : List Inp) : FCLabel → List Inp
  | .stmt (.readRet _) => sc.tail
  | _ => sc

/-- The read returns the next scripted input. -/
def readL : List Inp → List FCLabel
  | [] => []
  | i :: _ => [.stmt (.readRet i)]

/-- The callbacks that hold the mutex (at most one, by `FInv`). -/
def critCbs (cbs : List (Nat × CbPc)) : List FCLabel :=
  ((List.range cbs.length).filter (fun i => match cbs[i]? with | some (_, pc) => holdsCb pc | none => false)).map
    (fun i => .stmt (.cb i))

def defaults (s : FCSys) (sc : List Inp) : List FCLabel :=
  [.send, .recv] ++ critCbs s.f.cbs ++ [.stmt .main] ++ readL sc ++
    (List.range s.f.cbs.length).map (fun i => .stmt (.cb i))

/-- The scheduler's parameter: preferred transitions, by state and rest of the script. -/
abbrev Policy := FCSys → List Inp → List FCLabel

/-- No timer expires; priorities `send > recv > callback holding the mutex > main > read return > Lock of a callback`. -/
def noExpiry : Policy := fun _ _ => []

/-- The pending timer expires as soon as there is one. -/
def expireAsap : Policy := fun _ _ => [.stmt .expire]

/-- A long pause in front of every read: while the main goroutine is blocked in the read the pending
    timer expires and the callback goroutines run (to their end: a callback inside the mutex comes
    before the read return in `defaults` too) before the read returns. -/
def expireInRead : Policy := fun s _ =>
  if s.f.mpc = .inRead then .stmt .expire :: (List.range s.f.cbs.length).map (fun i => .stmt (.cb i)) else []

/-- The pending timer expires while the main goroutine is blocked in the read, and the callback is
    started only after the next read has returned: callback and main goroutine race for the mutex,
    the main goroutine first (the callback's generation is out of date when it gets in). -/
def expireLate : Policy := fun s _ =>
  if s.f.mpc = .inRead then [.stmt .expire, .stmt .main]
  else [.stmt .main]

def cands (pol : Policy) (s : FCSys) (sc : List Inp) : List FCLabel :=
  (pol s sc).filter (allowed sc) ++ defaults s sc

/-- The first enabled label of a list, with the state it leads to. -/
def firstEnabled (T : Table) (cap : Nat) (s : FCSys) : List FCLabel → Option (FCLabel × FCSys)
  | [] => none
  | l :: ls =>
    match FCSys.step T cap s l with
    | some s' => some (l, s')
    | none => firstEnabled T cap s ls

/-- The fair scheduler: at most `fuel` transitions; stops earlier only when no candidate is enabled. -/
def fdrive (T : Table) (cap : Nat) (pol : Policy) : Nat → FCSys → List Inp → FCSys
  | 0, s, _ => s
  | n + 1, s, sc =>
    match firstEnabled T cap s (cands pol s sc) with
    | none => s
    | some (l, s') => fdrive T cap pol n s' (consume sc l)

/-- The labels the scheduler takes. -/
def ftrace (T : Table) (cap : Nat) (pol : Policy) : Nat → FCSys → List Inp → List FCLabel
  | 0, _, _ => []
  | n + 1, s, sc =>
    match firstEnabled T cap s (cands pol s sc) with
    | none => []
    | some (l, s') => l :: ftrace T cap pol n s' (consume sc l)

/-- The part of the script that has not been read when the scheduler stops. -/
def frest (T : Table) (cap : Nat) (pol : Policy) : Nat → FCSys → List Inp → List Inp
  | 0, _, sc => sc
  | n + 1, s, sc =>
    match firstEnabled T cap s (cands pol s sc) with
    | none => sc
    | some (l, s') => frest T cap pol n s' (consume sc l)

/-- The reader's script for a finite input: the runes, then end of input. -/
def inputScript (rs : List Nat) : List Inp := rs.map Inp.rune ++ [.eof]

/-- Everything is over: `run` has returned, every item has been sent and received, every callback
    goroutine that was started has returned. -/
def Final (s : FCSys) : Prop :=
  s.f.mpc = .done ∧ s.pend = [] ∧ s.chan = [] ∧ ∀ c ∈ s.f.cbs, c.2 = .gone

/-- A bound on the number of items one `p.state = anywhere(r, p)` can emit: the longest row of
    `anywhere` plus the longest row of a state function (every statement emits at most one item),
    plus one for the `panic` item of the model. -/
def fnBound (f : StateFn) : Nat :=
  (f.early.map (fun a => a.acts.length)).foldr max 0 + f.pre.length +
    (f.arms.map (fun a => a.acts.length)).foldr max 0 + f.dflt.acts.length

def tableBound (T : Table) : Nat :=
  fnBound T.anywhere + (allStates.map (fun st => fnBound (T.fn st))).foldr max 0 + 1

/-- The explicit step bound of the fair run for an input of `n` runes, when one `anywhere` emits at
    most `B` items: per input at most 7 statements of the main goroutine, `2·B` sends/receives, and a
    timer (expiry + 6 callback statements + send/receive of its item); 9 for the tail of `run`. -/
def stepBound (B n : Nat) : Nat := (24 + 2 * B) * (n + 1) + 10

/-- The explicit step bound after `Close()` once the pending read has returned, from a state with
    `cbs` callback goroutines and `q` queued items. -/
def closeBound (B cbs q : Nat) : Nat := 2 * B + 33 + 8 * cbs + q

/-- The inputs the read returned along a schedule. -/
def readsOf : List FCLabel → List Inp
  | [] => []
  | .stmt (.readRet i) :: ls => i :: readsOf ls
  | _ :: ls => readsOf ls

/-! ### `Close()` inside the fair run

`Close()` is issued by another goroutine after the `n`-th transition of the fair run (any `n`; if the
run is over earlier, at its end): the scheduler runs with policy `pol` for at most `n` transitions,
`closeSig` is taken, and the scheduler continues with policy `pol2` on what is left of the script. -/

/-- The state after `Close()` (the statement `closeSig` is always enabled and does just this). -/
def closeOf (s : FCSys) : FCSys := { s with f := { s.f with closeReq := true } }

def fdriveClose (T : Table) (cap : Nat) (pol pol2 : Policy) (n fuel : Nat) (s : FCSys) (sc : List Inp) : FCSys :=
  fdrive T cap pol2 fuel (closeOf (fdrive T cap pol n s sc)) (frest T cap pol n s sc)

def ftraceClose (T : Table) (cap : Nat) (pol pol2 : Policy) (n fuel : Nat) (s : FCSys) (sc : List Inp) : List FCLabel :=
  ftrace T cap pol n s sc ++
    .stmt .closeSig :: ftrace T cap pol2 fuel (closeOf (fdrive T cap pol n s sc)) (frest T cap pol n s sc)

def frestClose (T : Table) (cap : Nat) (pol pol2 : Policy) (n fuel : Nat) (s : FCSys) (sc : List Inp) : List Inp :=
  frest T cap pol2 fuel (closeOf (fdrive T cap pol n s sc)) (frest T cap pol n s sc)

end VaxisModel.Model.ParserRunFineFair
