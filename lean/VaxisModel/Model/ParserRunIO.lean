/-
C08: the executable scheduler used by the driver — a scripted reader (data chunks, pauses well
beyond the 10 ms Escape delay, Close() calls issued while the parser is blocked in a read, then
EOF or a read error) turned into a sequence of labels of the LTS of Model/ParserRun.lean.
Everything the parser does goes through `Sys.step`; this file only decides which label comes next
(bufio's fill loop, `print`'s look-ahead).  Core Lean only.
-/
import VaxisModel.Model.ParserIO
import VaxisModel.Model.ParserRun

namespace VaxisModel.Model.ParserRunIO
open VaxisModel.Model.ParserTable VaxisModel.Model.Parser VaxisModel.Model.ParserIO VaxisModel.Model.ParserRun

/-- What the scripted reader does on successive `Read` calls. -/
inductive Ev
  | data (l : List Byte)   -- return these bytes
  | pause                  -- sleep (≫ 10 ms) before going on
  | close                  -- call p.Close() before going on
  deriving DecidableEq, Repr, Inhabited

structure RdE where
  buf : List Byte := []
  evs : List Ev := []
  pos : Nat := 0
  deriving Repr, Inhabited

/-- bufio's fill loop over the script: also reports whether the read blocked across a pause and
    whether Close() was called meanwhile. -/
def fillLoopE : List Byte → List Ev → Bool → Bool → List Byte × List Ev × Bool × Bool
  | buf, [], b, c => (buf, [], b, c)
  | buf, ev :: rest, b, c =>
    if buf.length < 4 && !fullRune buf then
      match ev with
      | .data l => fillLoopE (buf ++ l) rest b c
      | .pause => fillLoopE buf rest true c
      | .close => fillLoopE buf rest b true
    else (buf, ev :: rest, b, c)

/-- A `Read` that returns no data loops inside bufio (`fill` retries): a marker followed by
    further markers is crossed in the same call; nothing else to model. -/
def RdE.fill (rd : RdE) : RdE × Bool × Bool :=
  let (b, e, blocked, closed) := fillLoopE rd.buf rd.evs false false
  ({ rd with buf := b, evs := e }, blocked, closed)

def RdE.consume (rd : RdE) (n : Nat) : RdE := { rd with buf := rd.buf.drop n, pos := rd.pos + n }

def readRuneE (rd : RdE) : Option Rune × RdE × Bool × Bool :=
  let (rd, blocked, closed) := rd.fill
  match rd.buf with
  | [] => (none, rd, blocked, closed)
  | b0 :: _ =>
    let (r, sz) := decodeRune rd.buf
    if r = runeError && (sz = 1 || !Gen.ParserTable.fallbackOnlyInvalid) then (some b0, rd.consume 1, blocked, closed)
    else (some r, rd.consume sz, blocked, closed)

def printLoopE (cl : Nat) : Nat → RdE → List Rune → Bool → List Rune × RdE × Bool
  | 0, rd, acc, c => (acc, rd, c)
  | fuel + 1, rd, acc, c =>
    if rd.buf.isEmpty then (acc, rd, c)
    else
      let (rd, _, closed) := rd.fill
      let (r, sz) := decodeRune rd.buf
      if acc.length + 1 > cl then (acc, rd, c || closed)
      else printLoopE cl fuel (rd.consume sz) (acc ++ [r]) (c || closed)

def RdE.remaining (rd : RdE) : Nat :=
  rd.buf.length + (rd.evs.map fun | .data l => l.length | _ => 1).sum

def deliverE (clusterAt : Nat → Nat) (startPos : Nat) : List Seq → RdE → Bool → List Item × RdE × Bool
  | [], rd, c => ([], rd, c)
  | .print r :: rest, rd, c =>
    let (g, rd', c') := printLoopE (max 1 (clusterAt startPos)) (rd.remaining + 1) rd [r] c
    let (items, rd'', c'') := deliverE clusterAt startPos rest rd' c'
    (.print g :: items, rd'', c'')
  | s :: rest, rd, c =>
    let (items, rd', c') := deliverE clusterAt startPos rest rd c
    (.seq s :: items, rd', c')

def applyLabel (T : Table) (clearsST : Bool) (s : Sys) (l : Label) : Sys × List Seq :=
  match Sys.step T clearsST s l with
  | some r => r
  | none => (s, [.panic])          -- the scheduler chose a label that is not enabled: a bug of this file

/-- The scheduler: returns the items delivered and the final system state. -/
def runScript (T : Table) (clearsST : Bool) (clusterAt : Nat → Nat) : Nat → Sys → RdE → List Item × Sys
  | 0, s, _ => ([.seq .panic], s)
  | fuel + 1, s, rd =>
    if s.closeReq then
      let (s1, o) := applyLabel T clearsST s .breakClose
      (o.map .seq, s1)
    else
      let (s, _) := applyLabel T clearsST s .enterRead
      let start := rd.pos
      let (res, rd1, blocked, closed) := readRuneE rd
      let (s, oT) := if blocked && s.armed then applyLabel T clearsST s .timerFire else (s, [])
      let (s, _) := if closed then applyLabel T clearsST s .closeSig else (s, [])
      match res with
      | none =>
        let (s1, o) := applyLabel T clearsST s .readEnd
        ((oT ++ o).map .seq, s1)
      | some r =>
        let (s1, o) := applyLabel T clearsST s (.read r)
        let (items, rd2, closed2) := deliverE clusterAt start o rd1 false
        let (s1, _) := if closed2 then applyLabel T clearsST s1 .closeSig else (s1, [])
        if s1.pc = .done then (oT.map .seq ++ items, s1)
        else
          let (rest, s2) := runScript T clearsST clusterAt fuel s1 rd2
          (oT.map .seq ++ items ++ rest, s2)

def runEvents (T : Table) (clearsST : Bool) (clusterAt : Nat → Nat) (evs : List Ev) : List Item × Sys :=
  let rd : RdE := { evs := evs }
  runScript T clearsST clusterAt (rd.remaining + 3) Sys.init rd

end VaxisModel.Model.ParserRunIO
