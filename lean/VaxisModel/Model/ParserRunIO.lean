/-
C08: the executable scheduler used by the driver — a scripted reader (data chunks, pauses well
beyond the 10 ms Escape delay, Close() calls issued while the parser is blocked in a read, then
EOF or a read error) turned into a sequence of labels of the LTS of Model/ParserRun.lean.
Everything the parser does goes through `Sys.step`; this file only decides which label comes next
(bufio's fill loop, `print`'s look-ahead).  Core Lean only.
-/
import VaxisModel.Model.ParserIO
import VaxisModel.Model.ParserRun

namespace VaxisModel.Model.ParserRunIO
open VaxisModel.Model.ParserTable VaxisModel.Model.Parser VaxisModel.Model.ParserIO VaxisModel.Model.ParserRun

/-- What the scripted reader does on successive `Read` calls. -/
inductive Ev
  | data (l : List Byte)   -- return these bytes
  | pause                  -- sleep (≫ 10 ms) before going on
  | close                  -- call p.Close() before going on
  | wait                   -- (callbacks held by the hook) wait until the timer callback has started
  | go                     -- release the held callbacks and wait until they have returned
  deriving DecidableEq, Repr, Inhabited

structure RdE where
  buf : List Byte := []
  evs : List Ev := []
  pos : Nat := 0
  deriving Repr, Inhabited

/-- bufio's fill loop over the script: also reports the control markers crossed, in order
    (a `Read` that meets a marker acts on it and goes on to the next element). -/
def fillLoopE : List Byte → List Ev → List Ev → List Byte × List Ev × List Ev
  | buf, [], m => (buf, [], m)
  | buf, ev :: rest, m =>
    if buf.length < 4 && !fullRune buf then
      match ev with
      | .data l => fillLoopE (buf ++ l) rest m
      | e => fillLoopE buf rest (m ++ [e])
    else (buf, ev :: rest, m)

def RdE.fill (rd : RdE) : RdE × List Ev :=
  let (b, e, m) := fillLoopE rd.buf rd.evs []
  ({ rd with buf := b, evs := e }, m)

def RdE.consume (rd : RdE) (n : Nat) : RdE := { rd with buf := rd.buf.drop n, pos := rd.pos + n }

def readRuneE (rd : RdE) : Option Rune × RdE × List Ev :=
  let (rd, m) := rd.fill
  match rd.buf with
  | [] => (none, rd, m)
  | b0 :: _ =>
    let (r, sz) := decodeRune rd.buf
    if r = runeError && (sz = 1 || !Gen.ParserTable.fallbackOnlyInvalid) then (some b0, rd.consume 1, m)
    else (some r, rd.consume sz, m)

def printLoopE (cl : Nat) : Nat → RdE → List Rune → List Ev → List Rune × RdE × List Ev
  | 0, rd, acc, m => (acc, rd, m)
  | fuel + 1, rd, acc, m =>
    if rd.buf.isEmpty then (acc, rd, m)
    else
      let (rd, m') := rd.fill
      let (r, sz) := decodeRune rd.buf
      if acc.length + 1 > cl then (acc, rd, m ++ m')
      else printLoopE cl fuel (rd.consume sz) (acc ++ [r]) (m ++ m')

def RdE.remaining (rd : RdE) : Nat :=
  rd.buf.length + (rd.evs.map fun | .data l => l.length | _ => 1).sum

def deliverE (clusterAt : Nat → Nat) (startPos : Nat) : List Seq → RdE → List Ev → List Item × RdE × List Ev
  | [], rd, m => ([], rd, m)
  | .print r :: rest, rd, m =>
    let (g, rd', m') := printLoopE (max 1 (clusterAt startPos)) (rd.remaining + 1) rd [r] m
    let (items, rd'', m'') := deliverE clusterAt startPos rest rd' m'
    (.print g :: items, rd'', m'')
  | s :: rest, rd, m =>
    let (items, rd', m') := deliverE clusterAt startPos rest rd m
    (.seq s :: items, rd', m')

def applyLabel (T : Table) (c : Cfg) (s : Sys) (l : Label) : Sys × List Seq :=
  match Sys.step T c s l with
  | some r => r
  | none => (s, [.panic])          -- the scheduler chose a label that is not enabled: a bug of this file

/-- Run every started callback (out-of-date ones first). -/
def runCallbacks (T : Table) (c : Cfg) : Nat → Sys → Sys × List Seq
  | 0, s => (s, [])
  | n + 1, s =>
    if 0 < s.stale then
      let (s1, o1) := applyLabel T c s (.cbRun false)
      let (s2, o2) := runCallbacks T c n s1
      (s2, o1 ++ o2)
    else if s.fresh then applyLabel T c s (.cbRun true)
    else (s, [])

/-- Act on the control markers a read crossed, in order. -/
def applyMarkers (T : Table) (c : Cfg) : List Ev → Sys → Sys × List Seq
  | [], s => (s, [])
  | e :: rest, s =>
    let (s1, o1) :=
      match e with
      | .pause => if s.armed then applyLabel T c s .timerFire else (s, [])
      | .close => applyLabel T c s .closeSig
      | .wait => if s.armed then applyLabel T c s .timerExpire else (s, [])
      | .go => runCallbacks T c (s.stale + 2) s
      | .data _ => (s, [])
    let (s2, o2) := applyMarkers T c rest s1
    (s2, o1 ++ o2)

/-- The scheduler: returns the items delivered and the final system state.  `lateRelease`: held
    callbacks are released only after the channel has been closed. -/
def runScript (T : Table) (c : Cfg) (clusterAt : Nat → Nat) (lateRelease : Bool) : Nat → Sys → RdE → List Item × Sys
  | 0, s, _ => ([.seq .panic], s)
  | fuel + 1, s, rd =>
    let fin (s : Sys) : List Item × Sys :=
      if lateRelease then let (s', o) := runCallbacks T c (s.stale + 2) s; (o.map .seq, s') else ([], s)
    if s.closeReq then
      let (s1, o) := applyLabel T c s .breakClose
      let (o2, s2) := fin s1
      (o.map .seq ++ o2, s2)
    else
      let (s, _) := applyLabel T c s .enterRead
      let start := rd.pos
      let (res, rd1, marks) := readRuneE rd
      let (s, oM) := applyMarkers T c marks s
      match res with
      | none =>
        let (s1, o) := applyLabel T c s .readEnd
        let (o2, s2) := fin s1
        ((oM ++ o).map .seq ++ o2, s2)
      | some r =>
        let (s1, o) := applyLabel T c s (.read r)
        let (items, rd2, marks2) := deliverE clusterAt start o rd1 []
        let (s1, oM2) := applyMarkers T c marks2 s1
        if s1.pc = .done then
          let (o2, s2) := fin s1
          (oM.map .seq ++ items ++ oM2.map .seq ++ o2, s2)
        else
          let (rest, s2) := runScript T c clusterAt lateRelease fuel s1 rd2
          (oM.map .seq ++ items ++ oM2.map .seq ++ rest, s2)

def runEvents (T : Table) (c : Cfg) (clusterAt : Nat → Nat) (lateRelease : Bool) (evs : List Ev) : List Item × Sys :=
  let rd : RdE := { evs := evs }
  runScript T c clusterAt lateRelease (rd.remaining + 3) Sys.init rd

end VaxisModel.Model.ParserRunIO
