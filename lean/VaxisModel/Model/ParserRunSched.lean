/-
C08 (round 4): forced schedules.  The statement-grained life-cycle LTS of `Model/ParserRunFine.lean`
at the grain the yield points of the verification build offer (`verifSched(p, n)` in ansi/parser.go,
pinned by `Props.C08Order.yield_points_in_front_of_statements`): the harness `harness/cmd/C08Sched`
parks every goroutine of the real parser at its yield point and releases exactly one of them per
label, so a schedule enumerated HERE, from the LTS, is replayed on the real code label by label.

A harness label is one statement of `FSys.step`, except where the source offers no yield point:

  * `read i`  = `readRet i` followed by the `Stop()` inside `readRune` (the scripted reader lets the
                read return; the main goroutine next parks in front of `Lock`, point 11);
  * `cb k`    = the next statement of callback `k`; a failed check runs on through the deferred
                `Unlock` (point 31 → 39), and so does `p.ignoreST = false` (point 34 → 39).

`enumerate` lists EVERY interleaving of these labels for a scripted input (and optionally one
`Close()`), with the only reductions that commute in the LTS: `Close()` is issued when the main
goroutine stands in front of the `select` (nothing else reads `p.close`), and a timer expires either
right after it was armed (the earliest point: every later start of its callback is still covered by
scheduling the callback's first statement later) or never.  Core Lean only.
-/
import VaxisModel.Model.ParserRunFine

namespace VaxisModel.Model.ParserRunSched
open VaxisModel.Model.ParserTable VaxisModel.Model.Parser VaxisModel.Model.ParserRun VaxisModel.Model.ParserRunFine

/-- A label the harness can execute. -/
inductive SLabel
  | close
  | read (i : Inp)
  | main
  | expire
  | cb (k : Nat)
  deriving DecidableEq, Repr, Inhabited

/-- The yield point the main goroutine is parked at (15 = blocked in the reader's `Read`; 16 has no
    yield point: it is passed inside `read`). -/
def mainPoint : MPc → Nat
  | .atSelect => 10
  | .inRead => 15
  | .readDone _ => 16
  | .stopped _ => 11
  | .locked _ => 12
  | .bumped _ => 13
  | .stepped _ => 14
  | .fin .stop _ => 20
  | .fin .lock _ => 21
  | .fin .bump _ => 22
  | .fin .unlock _ => 23
  | .fin .emit _ => 24
  | .fin .close _ => 25
  | .done => 29

/-- The yield point a callback goroutine is parked at (35/36 have no yield point: passed inside `cb`). -/
def cbPoint : CbPc → Nat
  | .started => 30
  | .locked => 31
  | .passed => 32
  | .emitted => 33
  | .stateSet => 34
  | .stSet => 35
  | .failed => 36
  | .gone => 39

/-- The statements of the LTS a harness label stands for. -/
def expand (f : FSys) : SLabel → List FLabel
  | .close => [.closeSig]
  | .read i => [.readRet i, .main]
  | .main => [.main]
  | .expire => [.expire]
  | .cb k =>
    match f.cbs[k]? with
    | some (g, .locked) => if g = f.escGen then [.cb k] else [.cb k, .cb k]
    | some (_, .stateSet) => [.cb k, .cb k]
    | _ => [.cb k]

/-- `M` is a statement the main goroutine executes on its own: the return of the blocked read is `R`,
    and the `Stop()` that follows it has no yield point of its own. -/
def canRelease (f : FSys) : SLabel → Bool
  | .main => match f.mpc with
    | .inRead => false
    | .readDone _ => false
    | _ => true
  | _ => true

/-- One harness label = one or two statements of the statement-grained LTS. -/
def sstep (T : Table) (f : FSys) (l : SLabel) : Option (FSys × List Seq) :=
  if canRelease f l then FSys.run T f (expand f l) else none

def seqBind (a : Option (FSys × List Seq)) (g : FSys → Option (FSys × List Seq)) : Option (FSys × List Seq) :=
  match a with
  | none => none
  | some (f1, o1) =>
    match g f1 with
    | none => none
    | some (f2, o2) => some (f2, o1 ++ o2)

def srun (T : Table) : FSys → List SLabel → Option (FSys × List Seq)
  | f, [] => some (f, [])
  | f, l :: ls => seqBind (sstep T f l) (fun f1 => srun T f1 ls)

/-- Where the goroutine that label `l` moved is parked afterwards. -/
def pointAfter (f : FSys) : SLabel → Nat
  | .cb k => match f.cbs[k]? with
    | some (_, pc) => cbPoint pc
    | none => 0
  | .expire => 30
  | .close => 0
  | _ => mainPoint f.mpc

/-- Everything is over: `run` has returned and every callback goroutine too. -/
def finished (f : FSys) : Bool :=
  f.mpc = .done && f.cbs.all (fun c => c.2 = .gone) && f.armed.isNone

/-- The labels enabled in `f` under the reductions of the header; `ins` = what the reader still has
    to deliver (`eof` when exhausted), `mayClose` = a `Close()` is still to be issued. -/
def enabled (T : Table) (f : FSys) (ins : List Nat) (mayClose : Bool) : List SLabel :=
  let nextIn : Inp := match ins with | r :: _ => .rune r | [] => .eof
  let mainL : List SLabel :=
    if f.mpc = .inRead then [.read nextIn] else if (sstep T f .main).isSome then [.main] else []
  let closeL : List SLabel := if mayClose && f.mpc = .atSelect then [.close] else []
  let expL : List SLabel :=
    match f.mpc with
    | .stepped _ => if f.armed.isSome then [.expire] else []
    | _ => []
  let cbL : List SLabel := (List.range f.cbs.length).filterMap fun k =>
    if (sstep T f (.cb k)).isSome then some (.cb k) else none
  closeL ++ expL ++ cbL ++ mainL

/-- All complete schedules (every goroutine runs to its end) by depth-first search; `fuel` bounds the
    length of a schedule, `cap` the number of schedules produced (the search stops there). -/
def enumerate (T : Table) : Nat → FSys → List Nat → Bool → List SLabel → Nat → List (List SLabel) → List (List SLabel)
  | 0, _, _, _, _, _, acc => acc
  | fuel + 1, f, ins, mayClose, pre, cap, acc =>
    if acc.length ≥ cap then acc else
    if finished f then pre.reverse :: acc else
    (enabled T f ins mayClose).foldl (fun acc l =>
      match sstep T f l with
      | none => acc
      | some (f1, _) =>
        let ins1 := match l with | .read (.rune _) => ins.drop 1 | _ => ins
        let mc1 := match l with | .close => false | _ => mayClose
        enumerate T fuel f1 ins1 mc1 (l :: pre) cap acc) acc

/-- A pseudo-random complete schedule (linear congruential choice among the enabled labels). -/
def sample (T : Table) : Nat → FSys → List Nat → Bool → Nat → List SLabel → Option (List SLabel)
  | 0, _, _, _, _, _ => none
  | fuel + 1, f, ins, mayClose, seed, pre =>
    if finished f then some pre.reverse else
    let en := enabled T f ins mayClose
    if en.isEmpty then none else
    let seed1 := (seed * 6364136223846793005 + 1442695040888963407) % 18446744073709551616
    let l := en.getD ((seed1 / 4294967296) % en.length) .main
    match sstep T f l with
    | none => none
    | some (f1, _) =>
      let ins1 := match l with | .read (.rune _) => ins.drop 1 | _ => ins
      let mc1 := match l with | .close => false | _ => mayClose
      sample T fuel f1 ins1 mc1 seed1 (l :: pre)

/-! ### variants of `run` for the negative witnesses (`Props/C08Sched.lean`)

`noFinalBump`: `escGen++` in front of `emit(EOF{})` left out (the `Lock`/`Unlock` around it stay).
`bumpInEscape`: `escGen++` not in `run` before every transition but at the top of the `escape` state
function (seeded change C08-m2): the bytes `anywhere` handles itself — CAN, SUB, ESC, end of input —
no longer outdate a started callback. -/

inductive RunVariant | code | noFinalBump | bumpInEscape
  deriving DecidableEq, Repr, Inhabited

def mainStepV (v : RunVariant) (T : Table) (f : FSys) : Option (FSys × List Seq) :=
  match v, f.mpc with
  | .noFinalBump, .fin .bump w => some ({ f with mpc := .fin .unlock w }, [])
  | .bumpInEscape, .locked i =>
    let inEscapeFn : Bool := f.ps.state = .escape && (match i with
      | .rune r => r ≠ 0x18 && r ≠ 0x1A && r ≠ 0x1B
      | .eof => false)
    some ({ f with escGen := if inEscapeFn then f.escGen + 1 else f.escGen, mpc := .bumped i }, [])
  | _, _ => mainStep T f

def FSys.stepV (v : RunVariant) (T : Table) (f : FSys) : FLabel → Option (FSys × List Seq)
  | .main => mainStepV v T f
  | l => FSys.step T f l

def FSys.runV (v : RunVariant) (T : Table) : FSys → List FLabel → Option (FSys × List Seq)
  | f, [] => some (f, [])
  | f, l :: ls =>
    match FSys.stepV v T f l with
    | none => none
    | some (f1, o1) =>
      match FSys.runV v T f1 ls with
      | none => none
      | some (f2, o2) => some (f2, o1 ++ o2)

end VaxisModel.Model.ParserRunSched
