/-
Vocabulary for the statement skeletons of `Parser.run` and of the Escape-timer callback in
ansi/parser.go, regenerated into `Gen/ParserRun.lean` on every run (extract/cmd/C02), and the order
of statements that the statement-grained life-cycle model (`Model/ParserRunFine.lean`) transcribes:
its program counters, one per statement.  `Props.C08Order` proves that the regenerated skeletons are
these, statement by statement and in this order.  Core Lean only.
-/
import VaxisModel.Model.ParserRunFine
import VaxisModel.Model.ParserReaderSk

namespace VaxisModel.Model.ParserRunSk
open VaxisModel.Model.ParserRunFine

/-- Statements of `func (p *Parser) run()`. -/
inductive RunStmt
  | recvCloseBreak      -- case <-p.close: break outer
  | callReadRune        -- r := p.readRune()
  | lock                -- p.mu.Lock()
  | unlock              -- p.mu.Unlock()
  | bumpGen             -- p.escGen++
  | anywhere            -- p.state = anywhere(r, p)
  | ifNilUnlockBreak    -- if p.state == nil { p.mu.Unlock(); break outer }
  | stopTimer           -- if p.escTimeout != nil { p.escTimeout.Stop() }
  | emitEOF             -- p.emit(EOF{})
  | closeSequences      -- close(p.sequences)
  | signalClosed        -- p.closed <- true
  | yield (n : Nat)     -- verifSched(p, n)           (round 4: yield point for forced schedules; empty without the build tag)
  | deferYield (n : Nat)
  | unknown (src : String)
  deriving DecidableEq, Repr, Inhabited

/-- yield points of the verification build (no statement of the program) -/
def RunStmt.isYield : RunStmt → Bool
  | .yield _ | .deferYield _ => true
  | _ => false

/-- Statements of the callback given to `time.AfterFunc` in `anywhere`. -/
inductive CbStmt
  | yield0              -- verifEscTimer(0)            (verification yield point; empty without the build tag)
  | deferYield1         -- defer verifEscTimer(1)
  | lock                -- p.mu.Lock()
  | deferUnlock         -- defer p.mu.Unlock()
  | ifGenChangedReturn  -- if p.escGen != gen { return }
  | emitEsc             -- p.emit(C0(0x1B))
  | setGround           -- p.state = ground
  | clearIgnoreST       -- p.ignoreST = false
  | yield (n : Nat)     -- verifSched(p, n)           (round 4)
  | deferYield (n : Nat) -- defer verifSched(p, n)    (runs after the deferred Unlock; reports a panic of the callback to the harness)
  | unknown (src : String)
  deriving DecidableEq, Repr, Inhabited

/-- yield points of the verification build (no statement of the program) -/
def CbStmt.isYield : CbStmt → Bool
  | .yield0 | .deferYield1 | .yield _ | .deferYield _ => true
  | _ => false

/-- What the program counter of the main goroutine is about to execute: a statement of `run`, or —
    inside the call `p.readRune()` — a statement of `readRune` (`Model/ParserReaderSk.lean`). -/
inductive MainAt
  | run (s : RunStmt)
  | select               -- the `select` itself (`<-p.close` ready ⇒ first arm, else default)
  | inReadRune (s : ParserReaderSk.RStmt)
  | returned
  deriving DecidableEq, Repr, Inhabited

/-- The statement each program counter of `Model/ParserRunFine.lean` stands in front of. -/
def mainAt : MPc → MainAt
  | .atSelect => .select
  | .inRead => .inReadRune .readRune            -- blocked in `p.r.ReadRune()`
  | .readDone _ => .inReadRune .stopTimer       -- `p.escTimeout.Stop()` inside readRune, outside the mutex
  | .stopped _ => .run .lock
  | .locked _ => .run .bumpGen
  | .bumped _ => .run .anywhere
  | .stepped _ => .run .unlock                  -- either of the two `Unlock`s (`p.state == nil` or not)
  | .fin .stop _ => .run .stopTimer
  | .fin .lock _ => .run .lock
  | .fin .bump _ => .run .bumpGen
  | .fin .unlock _ => .run .unlock
  | .fin .emit _ => .run .emitEOF
  | .fin .close _ => .run .closeSequences
  | .done => .returned

/-- The statement each program counter of a callback goroutine stands in front of (`gone`: returned). -/
def cbAt : CbPc → Option CbStmt
  | .started => some .lock
  | .locked => some .ifGenChangedReturn
  | .passed => some .emitEsc
  | .emitted => some .setGround
  | .stateSet => some .clearIgnoreST
  | .stSet => some .deferUnlock                 -- the deferred Unlock runs at return
  | .failed => some .deferUnlock
  | .gone => none

/-- The default arm of the `select` in `run`, as the model walks it. -/
def handRunDefault : List RunStmt := [.callReadRune, .lock, .bumpGen, .anywhere, .ifNilUnlockBreak, .unlock]
/-- The `<-p.close` arm. -/
def handRunClose : List RunStmt := [.recvCloseBreak]
/-- After the loop. -/
def handRunTail : List RunStmt := [.stopTimer, .lock, .bumpGen, .unlock, .emitEOF, .closeSequences, .signalClosed]
/-- The timer callback (yield points of the verification build aside). -/
def handCallback : List CbStmt := [.lock, .deferUnlock, .ifGenChangedReturn, .emitEsc, .setGround, .clearIgnoreST]

/-! ### round 4: where the yield points of the forced-schedule harness stand

`verifSched(p, n)` stands in front of the statement the program counter `n` is about to execute
(`Model/ParserRunSched.lean : mainPoint / cbPoint`); the harness parks the goroutine there. -/

def handRunHeadY : List RunStmt := [.deferYield 19]   -- `defer verifSched(p, 19)`: run has returned (reports a panic of run to a harness)
def handRunLoopHeadY : List RunStmt := [.yield 10]
def handRunDefaultY : List RunStmt :=
  [.callReadRune, .yield 11, .lock, .yield 12, .bumpGen, .yield 13, .anywhere, .yield 14, .ifNilUnlockBreak, .unlock]
def handRunTailY : List RunStmt :=
  [.yield 20, .stopTimer, .yield 21, .lock, .yield 22, .bumpGen, .yield 23, .unlock, .yield 24, .emitEOF, .yield 25,
   .closeSequences, .signalClosed, .yield 29]
def handCallbackY : List CbStmt :=
  [.yield0, .deferYield1, .deferYield 39, .yield 30, .lock, .deferUnlock, .yield 31, .ifGenChangedReturn, .yield 32, .emitEsc,
   .yield 33, .setGround, .yield 34, .clearIgnoreST]

end VaxisModel.Model.ParserRunSk
