/-
The Go standard library as the reader model of C02 uses it — made explicit as a contract.

`Model/ParserIO.lean` (`decodeRune`, `fullRune`, `fillLoop`) and `Model/ParserReaderInterp.lean`
(`readRuneB`, `unreadRuneB`, `readByteB`, `Buffered() > 0` = "buffer not empty") are hand
transcriptions of `unicode/utf8` and `bufio.Reader`.  Nothing in /repo can tie them to the source:
they are the standard library.  This file says *what is assumed of it*, clause by clause:

* `StdlibFns`      — the seven calls, as functions over the reader state of the model;
* `StdlibContract` — the assumptions (one field per clause), written from the documentation of the
  calls (`utf8.DecodeRune`: "If p is empty it returns (RuneError, 0).  Otherwise, if the encoding is
  invalid, it returns (RuneError, 1)", an encoding being invalid "if it is incorrect UTF-8, encodes a
  rune that is out of range, or is not the shortest possible UTF-8 encoding"; `utf8.FullRune`: "whether
  the bytes in p begin with a full UTF-8 encoding of a rune; an invalid encoding is considered a full
  Rune"; `bufio.Reader.ReadRune` / `UnreadRune` / `ReadByte` / `Buffered`) and, for the one thing the
  documentation does not say, from the source of `ReadRune` (it fills while fewer than `UTFMax` bytes
  are buffered, they are not a full rune and no read error is pending — one `Read` per fill);
* `modelStdlib`    — the model's functions.

`Props/C02Stdlib.lean` proves that the model's functions meet the contract
(`model_meets_stdlib_contract`) and that the contract leaves no freedom: any functions meeting it are
the model's, on every input (`stdlib_contract_determines_*`).  The harness (`harness/cmd/C02`,
`stdlibcontract.go`) checks the same clauses — re-implemented in Go from this structure, not by
calling the library — against the **real** `unicode/utf8` and `bufio.Reader` on the reads of every
case it runs (counters `stdlib-contract-checked`, `stdlib-contract-broken` = 0; a broken clause marks
the case `STDLIB!<clause>` and the driver reports `FAIL[stdlib-contract]`).

The scripted reads (`Rd.chunks`) are what the following `Read` calls of the underlying reader return,
each non-empty and no longer than the free space of bufio's buffer (4096 bytes; the harness reads at
most 4000 bytes at a time, an empty read is skipped as bufio does); after the last one `Read` returns
an error (io.EOF).  Core Lean only.
-/
import VaxisModel.Model.ParserReaderInterp
import VaxisModel.Model.ParserUtf8

namespace VaxisModel.Model.ParserStdlib
open VaxisModel.Model.Parser VaxisModel.Model.ParserIO VaxisModel.Model.ParserUtf8
open VaxisModel.Model.ParserReaderInterp

/-- The standard-library calls of the reading side. -/
structure StdlibFns where
  /-- `utf8.DecodeRune(p)`: (rune, size) -/
  decodeRune : List Nat → Rune × Nat
  /-- `utf8.FullRune(p)` -/
  fullRune : List Nat → Bool
  /-- the fill loop at the top of `bufio.Reader.ReadRune`: (buffered bytes, reads still to come) ↦ the same afterwards -/
  fill : List Nat → List (List Nat) → List Nat × List (List Nat)
  /-- `b.ReadRune()`: (rune, size, err ≠ nil) and the reader afterwards -/
  readRune : BR → (Rune × Nat × Bool) × BR
  /-- `b.UnreadRune()`: none = `ErrInvalidUnreadRune` -/
  unreadRune : BR → Option BR
  /-- `b.ReadByte()`: none = error.  Only its behaviour on a non-empty buffer is part of the contract (the
      reading side calls it only right after an `UnreadRune`). -/
  readByte : BR → Option (Nat × BR)
  /-- `b.Buffered()` -/
  buffered : BR → Nat

/-- `bs` is the beginning of the encoding of a scalar value, but not all of it. -/
def ProperPrefixOfEncoding (bs : List Nat) : Prop :=
  ∃ r, IsScalar r ∧ bs <+: encodeRune r ∧ bs ≠ encodeRune r

/-- **What is assumed of the standard library.**  One field per clause; the harness checks each
    clause (same names) against the real library on every case. -/
structure StdlibContract (F : StdlibFns) : Prop where
  /-- DecodeRune: "If p is empty it returns (RuneError, 0)." -/
  dec_empty : F.decodeRune [] = (runeError, 0)
  /-- DecodeRune: an ASCII byte is itself, size 1. -/
  dec_ascii : ∀ b t, b < 0x80 → F.decodeRune (b :: t) = (b, 1)
  /-- DecodeRune: p begins with the (shortest-form) encoding of a scalar value ⇒ that value and the
      length of its encoding, whatever follows. -/
  dec_valid : ∀ r rest, IsScalar r → F.decodeRune (encodeRune r ++ rest) = (r, (encodeRune r).length)
  /-- DecodeRune: p non-empty and no encoding of a scalar value begins p (incorrect, out of range,
      surrogate, overlong or truncated) ⇒ (RuneError, 1). -/
  dec_invalid : ∀ b t, (∀ r, IsScalar r → ¬ (encodeRune r <+: b :: t)) → F.decodeRune (b :: t) = (runeError, 1)
  /-- FullRune: false exactly for the empty slice and for a proper prefix of an encoding (more bytes
      could complete it); anything else — complete, or invalid already — is a full rune. -/
  full_iff : ∀ bs, F.fullRune bs = false ↔ (bs = [] ∨ ProperPrefixOfEncoding bs)
  /-- ReadRune's fill loop stops: `UTFMax` bytes buffered, or a full rune, or the reads are exhausted
      (`Read` returned an error). -/
  fill_stop : ∀ buf cs, (4 ≤ buf.length ∨ F.fullRune buf = true ∨ cs = []) → F.fill buf cs = (buf, cs)
  /-- … else exactly one `Read`, appended to what is buffered, and again. -/
  fill_step : ∀ buf c cs, buf.length < 4 → F.fullRune buf = false → F.fill buf (c :: cs) = F.fill (buf ++ c) cs
  /-- ReadRune: fill; nothing buffered ⇒ (0, 0, err), `UnreadRune` not allowed. -/
  read_eof : ∀ b : BR, (F.fill b.rd.buf b.rd.chunks).1 = [] →
    F.readRune b = ((0, 0, true), ⟨{ b.rd with buf := [], chunks := (F.fill b.rd.buf b.rd.chunks).2 }, none⟩)
  /-- ReadRune: else `DecodeRune` of what is buffered, that many bytes consumed, no error; `UnreadRune`
      allowed (it will restore the filled buffer). -/
  read_rune : ∀ b : BR, (F.fill b.rd.buf b.rd.chunks).1 ≠ [] →
    F.readRune b =
      (((F.decodeRune (F.fill b.rd.buf b.rd.chunks).1).1, (F.decodeRune (F.fill b.rd.buf b.rd.chunks).1).2, false),
       ⟨({ b.rd with buf := (F.fill b.rd.buf b.rd.chunks).1, chunks := (F.fill b.rd.buf b.rd.chunks).2 } : Rd).consume
           (F.decodeRune (F.fill b.rd.buf b.rd.chunks).1).2,
        some { b.rd with buf := (F.fill b.rd.buf b.rd.chunks).1, chunks := (F.fill b.rd.buf b.rd.chunks).2 }⟩)
  /-- UnreadRune: allowed only when the last operation was a successful ReadRune; restores exactly the
      reader as it was (filled) before that rune was consumed; not allowed twice. -/
  unread : ∀ b : BR, F.unreadRune b = b.last.map fun rd0 => ⟨rd0, none⟩
  /-- ReadByte with something buffered: the first buffered byte, consumed; `UnreadRune` not allowed
      afterwards.  (Nothing is assumed of `ReadByte` on an empty buffer — the real one would read on; the
      reading side calls it only right after a successful `UnreadRune`, when the unread rune is buffered:
      `Props.C02Stdlib.readByte_only_with_buffer`.) -/
  byte_cons : ∀ (b : BR) x t, b.rd.buf = x :: t → F.readByte b = some (x, ⟨b.rd.consume 1, none⟩)
  /-- Buffered: the number of bytes that can be read from the buffer. -/
  buffered_len : ∀ b : BR, F.buffered b = b.rd.buf.length

/-- The functions of the reader model. -/
def modelStdlib : StdlibFns where
  decodeRune := decodeRune
  fullRune := fullRune
  fill := fillLoop
  readRune := readRuneB
  unreadRune := unreadRuneB
  readByte := readByteB
  buffered := fun b => b.rd.buf.length

end VaxisModel.Model.ParserStdlib
